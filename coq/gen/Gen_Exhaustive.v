(* translator refused: Unsupported: line 331: unknown attribute: Attribute(value=Name(id='self', ctx=Load()), attr='_skip_treatment_geo_patterns', ctx=Load()) *)
Translator_refused_this_source.
