import sys, numpy as np, pandas as pd
from lib import *
bad=0;n=0
for seed in range(200):
    rng=np.random.RandomState(seed); ng=rng.randint(2,6); nd=int(rng.randint(14,30)); df=panel(rng,ng,nd)
    df=df.sample(frac=1.0,random_state=seed)
    spec={str(g+1):(rng.choice(TYPES) if rng.rand()<0.4 else 'ctx') for g in range(ng)}
    kw=dict(n_designs=int(rng.choice([1,3,6])), n_pretest_max=int(rng.randint(8,35)))
    if rng.rand()<0.4: kw['budget_range']=tuple(float(v) for v in sorted(rng.uniform(0,40,2)))
    if rng.rand()<0.3: kw['treatment_share_range']=tuple(float(v) for v in sorted(rng.uniform(0.05,0.95,2)))
    for method in ('exhaustive_search','greedy_search'):
        try:
            mm,par=build(df,spec,kw); res=getattr(mm,method)()
        except Exception as e: continue
        wide=df.pivot_table(values='response',index='geo',columns='date',fill_value=0)
        wide=wide[sorted(wide.columns)].iloc[:, -kw['n_pretest_max']:]
        for pos,d in enumerate(res):
            n+=1
            y=wide.loc[sorted(d.treatment_geos)].sum(axis=0).values; x=wide.loc[sorted(d.control_geos)].sum(axis=0).values
            ok = np.array_equal(d.diag.y,y) and np.array_equal(d.diag.x,x)
            f=D.TBRMMDiagnostics(y,par); f.x=x; sc=S.TBRMMScore(f).score
            if 'budget_range' in kw and method=='exhaustive_search': sc=sc._replace(inv_required_impact=1/(f.required_impact/kw['budget_range'][1]))
            ok = ok and d.diag.corr==f.corr and d.diag.required_impact==f.required_impact and d.score.score==sc and d.score.diag.corr==f.corr
            if not ok: bad+=1; print(seed,method,pos,'mismatch', d.score.score, sc)
print('designs',n,'bad',bad)
