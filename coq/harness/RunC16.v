From Coq Require Import List Arith Bool.
From Coq Require Import ZArith.
From MM Require Import lib.ListSet model.Elig model.EligFrame gen.Gen_EligAssign harness.RunCommon.
Import ListNotations.

Definition fields (a : assignments) : list set :=
  [a_all a; a_c a; a_t a; a_x a; a_t_fixed a; a_c_fixed a; a_x_fixed a; a_ct a; a_cx a; a_ctx a; a_tx a].
Definition is_accept {A} (o : outcome A) : bool := match o with Accept _ => true | _ => false end.

(* (table, did the implementation accept it, rows of the ordered subset asked for,
    the eleven index sets the implementation answered) *)
Definition case := (raw_table * bool * list elig * list set)%type.
Definition agrees (c : case) : bool :=
  let '(t, accepted, es, answer) := c in
  Bool.eqb (is_accept (validate t)) accepted &&
  (negb accepted || set_list_eqb (fields (assignments_of es)) answer).
Definition E (c t x : bool) : elig := {| ec := c; et := t; ex := x |}.

(* ---- the translated get_eligible_assignments (gen/Gen_EligAssign.v) on the same queries: the accepted table as a frame
   (numeric ID, flags), the ordered subset asked for, and the c / t / x sets the implementation answered with
   indices=True, with indices=False (IDs as numbers) and with no subset, each sorted *)
Fixpoint insz (x : Z) (l : list Z) : list Z :=
  match l with [] => [x] | y :: l' => if Z.leb x y then x :: l else y :: insz x l' end.
Definition sortz (l : list Z) : list Z := fold_right insz [] l.
Definition zlist_eqb (a b : list Z) : bool := list_eqb Z.eqb a b.
Definition ga_is (o : ga_outcome) (want : list Z * list Z * list Z) : bool :=
  match o with
  | GA c t x => let '(c', t', x') := want in zlist_eqb (sortz c) c' && zlist_eqb (sortz t) t' && zlist_eqb (sortz x) x'
  | _ => false
  end.
Definition gcase := (frame * list Z * (list Z * list Z * list Z) * (list Z * list Z * list Z) * (list Z * list Z * list Z))%type.
Definition gagrees (c : gcase) : bool :=
  let '(data, subset, by_index, by_id, whole) := c in
  ga_is (gen_get_eligible_assignments data (Some subset) true) by_index &&
  ga_is (gen_get_eligible_assignments data (Some subset) false) by_id &&
  ga_is (gen_get_eligible_assignments data None false) whole &&
  match gen_get_eligible_assignments data None true with GAValueError => true | _ => false end &&
  match gen_get_eligible_assignments data (Some []) true with GAValueError => true | _ => false end.
