(* Proofs about the eligibility model (model/Elig.v): C16, and class facts used by C01/C11. *)
From Coq Require Import List Arith Bool Lia.
From MM Require Import lib.ListExtra lib.ListSet model.Elig gen.Gen_GeoAssignments.
Import ListNotations.

(* tie: GeoAssignments.__init__ as regenerated from the source on this run is the model *)
Lemma bridge_geo_assignments c t x : gen_geo_assignments c t x = mk_assignments c t x.
Proof. reflexivity. Qed.

Lemma In_sel f es i : In i (sel f es) <-> i < length es /\ f (nth i es elig_zero) = true.
Proof. unfold sel. rewrite filter_In, in_seq. intuition lia. Qed.
Lemma NoDup_sel f es : NoDup (sel f es).
Proof. apply NoDup_filter, seq_NoDup. Qed.

(* the seven classes as predicates on a row *)
Definition p_c_fixed e := ec e && negb (et e) && negb (ex e).
Definition p_t_fixed e := negb (ec e) && et e && negb (ex e).
Definition p_x_fixed e := negb (ec e) && negb (et e) && ex e.
Definition p_ct e := ec e && et e && negb (ex e).
Definition p_cx e := ec e && negb (et e) && ex e.
Definition p_ctx e := ec e && et e && ex e.
Definition p_tx e := negb (ec e) && et e && ex e.
Definition class_preds := [p_c_fixed; p_t_fixed; p_x_fixed; p_ct; p_cx; p_ctx; p_tx].
Definition class_sets (a : assignments) :=
  [a_c_fixed a; a_t_fixed a; a_x_fixed a; a_ct a; a_cx a; a_ctx a; a_tx a].

Ltac elig_crush :=
  repeat rewrite ?In_inter, ?In_diff, ?In_union, ?In_sel;
  repeat match goal with |- context [nth ?i ?es elig_zero] => destruct (nth i es elig_zero) as [[] [] []] end;
  cbn; intuition (try congruence; try lia).

Section Classes.
  Variable es : list elig.
  Let A := assignments_of es.
  Let n := length es.
  Notation row i := (nth i es elig_zero).

  Lemma In_c i : In i (a_c A) <-> i < n /\ ec (row i) = true.
  Proof. apply In_sel. Qed.
  Lemma In_t i : In i (a_t A) <-> i < n /\ et (row i) = true.
  Proof. apply In_sel. Qed.
  Lemma In_x i : In i (a_x A) <-> i < n /\ ex (row i) = true.
  Proof. apply In_sel. Qed.
  Lemma In_all i : In i (a_all A) <-> i < n /\ elig_valid (row i) = true.
  Proof. subst A n. cbn. unfold elig_valid. elig_crush. Qed.
  Lemma In_c_fixed i : In i (a_c_fixed A) <-> i < n /\ p_c_fixed (row i) = true.
  Proof. subst A n. cbn. unfold p_c_fixed. elig_crush. Qed.
  Lemma In_t_fixed i : In i (a_t_fixed A) <-> i < n /\ p_t_fixed (row i) = true.
  Proof. subst A n. cbn. unfold p_t_fixed. elig_crush. Qed.
  Lemma In_x_fixed i : In i (a_x_fixed A) <-> i < n /\ p_x_fixed (row i) = true.
  Proof. subst A n. cbn. unfold p_x_fixed. elig_crush. Qed.
  Lemma In_ct i : In i (a_ct A) <-> i < n /\ p_ct (row i) = true.
  Proof. subst A n. cbn. unfold p_ct. elig_crush. Qed.
  Lemma In_cx i : In i (a_cx A) <-> i < n /\ p_cx (row i) = true.
  Proof. subst A n. cbn. unfold p_cx. elig_crush. Qed.
  Lemma In_ctx i : In i (a_ctx A) <-> i < n /\ p_ctx (row i) = true.
  Proof. subst A n. cbn. unfold p_ctx. elig_crush. Qed.
  Lemma In_tx i : In i (a_tx A) <-> i < n /\ p_tx (row i) = true.
  Proof. subst A n. cbn. unfold p_tx. elig_crush. Qed.

  (* each class is exactly the set of positions whose row encodes it *)
  Lemma class_membership k i : k < 7 ->
    In i (nth k (class_sets A) []) <-> i < n /\ nth k class_preds (fun _ => false) (row i) = true.
  Proof.
    intro Hk. do 7 (destruct k as [|k]; [cbn [nth class_sets class_preds];
      first [apply In_c_fixed|apply In_t_fixed|apply In_x_fixed|apply In_ct|apply In_cx|apply In_ctx|apply In_tx]|]).
    lia.
  Qed.

  (* every one of the 8 possible rows satisfies at most one class predicate, and
     exactly one when it is not the illegal all-zero row *)
  Lemma preds_exclusive e j k : j < 7 -> k < 7 -> j <> k ->
    nth j class_preds (fun _ => false) e = true -> nth k class_preds (fun _ => false) e = true -> False.
  Proof.
    intros Hj Hk Hne. destruct e as [[] [] []];
    do 7 (destruct j as [|j]; [do 7 (destruct k as [|k]; [cbn; try congruence|]); lia|]); lia.
  Qed.
  Lemma preds_cover e : elig_valid e = true -> exists k, k < 7 /\ nth k class_preds (fun _ => false) e = true.
  Proof.
    destruct e as [[] [] []]; cbn; intro H; try discriminate;
    [exists 5|exists 3|exists 4|exists 0|exists 6|exists 1|exists 2]; (split; [lia|reflexivity]).
  Qed.

  Lemma NoDup_all : NoDup (a_all A).
  Proof. subst A. cbn. apply NoDup_union; [apply NoDup_union|]; apply NoDup_sel. Qed.
  Lemma NoDup_class k : NoDup (nth k (class_sets A) []).
  Proof.
    subst A. unfold assignments_of.
    assert (Ha : NoDup (union (union (sel ec es) (sel et es)) (sel ex es)))
      by (apply NoDup_union; [apply NoDup_union|]; apply NoDup_sel).
    do 7 (destruct k as [|k];
      [cbn; repeat apply NoDup_inter; first [apply NoDup_sel|apply NoDup_diff; exact Ha]|]).
    destruct k; constructor.
  Qed.

  Theorem classes_disjoint j k i : j < 7 -> k < 7 -> j <> k ->
    In i (nth j (class_sets A) []) -> In i (nth k (class_sets A) []) -> False.
  Proof.
    intros Hj Hk Hne H1 H2. apply class_membership in H1; [|exact Hj]. apply class_membership in H2; [|exact Hk].
    eapply preds_exclusive; [exact Hj|exact Hk|exact Hne|apply H1|apply H2].
  Qed.
  Theorem classes_cover i : i < n -> elig_valid (row i) = true ->
    exists k, k < 7 /\ In i (nth k (class_sets A) []).
  Proof.
    intros Hi Hv. destruct (preds_cover _ Hv) as [k [Hk Hp]]. exists k. split; [exact Hk|].
    apply class_membership; [exact Hk|]. split; assumption.
  Qed.
  Theorem classes_within_all k i : k < 7 -> In i (nth k (class_sets A) []) -> In i (a_all A).
  Proof.
    intros Hk H. apply class_membership in H; [|exact Hk]. destruct H as [Hi Hp]. apply In_all. split; [exact Hi|].
    destruct (row i) as [[] [] []]; do 7 (destruct k as [|k]; [cbn in *; congruence|]); lia.
  Qed.
End Classes.

(* ID-valued answers: same classes, positions replaced by the IDs at those positions *)
Lemma In_ids_of {ID} (ids : list ID) d s x :
  In x (ids_of ids d s) <-> exists i, In i s /\ nth i ids d = x.
Proof. unfold ids_of. rewrite in_map_iff. split; intros [i H]; exists i; tauto. Qed.
Lemma NoDup_ids_of {ID} (ids : list ID) d s :
  NoDup ids -> NoDup s -> (forall i, In i s -> i < length ids) -> NoDup (ids_of ids d s).
Proof.
  intros Hids Hs Hlt. unfold ids_of. induction s as [|i s IH]; cbn; [constructor|].
  inversion Hs; subst. constructor.
  - rewrite in_map_iff. intros [j [E Hj]].
    apply NoDup_nth in E; [subst; contradiction|exact Hids| |]; apply Hlt; [right; exact Hj|left; reflexivity].
  - apply IH; [assumption|]. intros j Hj. apply Hlt. right. exact Hj.
Qed.

(* ---- validation ---- *)
Lemma nodupb_spec l : nodupb l = true <-> NoDup l.
Proof.
  induction l as [|x l IH]; cbn; [split; [constructor|reflexivity]|].
  rewrite andb_true_iff, negb_true_iff, mem_false, IH. split.
  - intros [H1 H2]. constructor; assumption.
  - intro H. inversion H; subst. split; assumption.
Qed.

Definition well_formed (t : raw_table) : Prop :=
  has_geo t = true /\ dup_columns t = false /\
  has_control t = true /\ has_treatment t = true /\ has_exclude t = true /\
  NoDup (map row_id (rows t)) /\
  (forall r, In r (rows t) -> row_cells_ok r = true) /\
  (forall r, In r (rows t) -> elig_valid (row_elig r) = true).

Theorem validate_spec t :
  (well_formed t -> validate t = Accept (map (fun r => (row_id r, row_elig r)) (rows t))) /\
  (~ well_formed t -> validate t = RaiseValueError).
Proof.
  unfold validate, well_formed.
  destruct (has_geo t), (dup_columns t), (has_control t), (has_treatment t), (has_exclude t); cbn;
    try (split; [intros H; decompose [and] H; discriminate|reflexivity]).
  destruct (nodupb (map row_id (rows t))) eqn:E1; cbn.
  2:{ split; [|reflexivity]. intros H. decompose [and] H. apply nodupb_spec in H5. congruence. }
  destruct (forallb row_cells_ok (rows t)) eqn:E2; cbn.
  2:{ split; [|reflexivity]. intros H. decompose [and] H. rewrite (proj2 (forallb_forall _ _)) in E2; [discriminate|assumption]. }
  destruct (forallb (fun r => elig_valid (row_elig r)) (rows t)) eqn:E3; cbn.
  2:{ split; [|reflexivity]. intros H. decompose [and] H. rewrite (proj2 (forallb_forall _ _)) in E3; [discriminate|assumption]. }
  split; [reflexivity|]. intro H. exfalso. apply H. repeat split; try reflexivity.
  - apply nodupb_spec; exact E1.
  - apply forallb_forall; exact E2.
  - apply (proj1 (forallb_forall _ _) E3).
Qed.

Lemma validate_inv t tbl : validate t = Accept tbl ->
  well_formed t /\ tbl = map (fun r => (row_id r, row_elig r)) (rows t).
Proof.
  unfold validate, well_formed.
  destruct (has_geo t), (dup_columns t), (has_control t), (has_treatment t), (has_exclude t); cbn; try discriminate.
  destruct (nodupb (map row_id (rows t))) eqn:E1; cbn; [|discriminate].
  destruct (forallb row_cells_ok (rows t)) eqn:E2; cbn; [|discriminate].
  destruct (forallb (fun r => elig_valid (row_elig r)) (rows t)) eqn:E3; cbn; [|discriminate].
  intro H. injection H as <-. repeat split.
  - apply nodupb_spec; exact E1.
  - apply forallb_forall; exact E2.
  - apply (proj1 (forallb_forall _ _) E3).
Qed.

(* acceptance is exactly well-formedness; rejection is always ValueError *)
Theorem validate_accepts_iff t : (exists tbl, validate t = Accept tbl) <-> well_formed t.
Proof.
  split.
  - intros [tbl H]. apply validate_inv in H. apply H.
  - intro H. eexists. apply (proj1 (validate_spec t) H).
Qed.
Theorem validate_total t : (exists tbl, validate t = Accept tbl) \/ validate t = RaiseValueError.
Proof. destruct (validate t); [left; eexists; reflexivity|right; reflexivity]. Qed.

(* an accepted table never contains the illegal all-zero row *)
Corollary accepted_rows_valid t tbl : validate t = Accept tbl -> forall g e, In (g, e) tbl -> elig_valid e = true.
Proof.
  intros H g e Hin. apply validate_inv in H. destruct H as [Hwf ->].
  apply in_map_iff in Hin. destruct Hin as [r [E Hr]]. injection E as <- <-.
  apply Hwf. exact Hr.
Qed.
