(* translator refused: Unsupported: line 179: condition: Compare(left=Call(func=Name(id='len', ctx=Load()), args=[Name(id='geos', ctx=Load())], keywords=[]), ops=[Lt()], comparators=[Call(func=Name(id='len', ctx=Load()), args=[Name(id='df', ctx=Load())], ke *)
Translator_refused_this_source.
