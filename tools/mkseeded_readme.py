#!/usr/bin/env python3
"""Regenerates seeded/README.md from the meta.json files."""
import json
import os
d = '/verif/seeded'
rows = []
for s in sorted(os.listdir(d)):
  mp = os.path.join(d, s, 'meta.json')
  if os.path.exists(mp):
    m = json.load(open(mp))
    rows.append(m)
out = ['# Seeded changes', '',
       'Each directory holds a change to google/matched_markets written by an independent sub-agent that saw only the',
       'text of one property (nothing of /verif) and worked in its own scratch worktree. Every change applies to the',
       'current /repo tree, keeps all baseline-passing tests passing and makes its `demo.py` exit 1 (0 on the clean tree);',
       'I confirmed all three in a fresh worktree (`tools/validate_seeded.sh`). None is ever committed in /repo. To try one:',
       '', '    tools/try_seeded.sh seeded/<id>/patch.diff <property> [<property> ...]', '',
       '(applies it with `git -C /repo apply`, runs the quick checks, restores with `git -C /repo checkout -- .`).', '',
       '| id | property | what the change does | needs | caught by | first run | strengthening |', '|---|---|---|---|---|---|---|']
for m in rows:
  out.append('| %s | %s | %s | %s | %s | %s | %s |' % (
      m['id'], m['breaks_property'], str(m.get('summary', '')).replace('|', '/').replace('\n', ' '),
      str(m.get('needs', '')).replace('|', '/').replace('\n', ' ')[:400],
      ', '.join(m.get('caught_by', [])) or '-', m.get('first_run_result', ''), m.get('strengthening', '') or '-'))
open(os.path.join(d, 'README.md'), 'w').write('\n'.join(out) + '\n')
print(len(rows), 'rows')
