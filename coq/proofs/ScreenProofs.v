(* C19: the screened data are the input rows minus every row of the reported noisy geos and of
   the reported outlier dates, in the original order; nothing else is removed. *)
From Coq Require Import List ZArith QArith Bool Sorting.Permutation.
From MM Require Import model.Screen.
Import ListNotations.

Section Proofs.
  Variables (noisy : list row -> option (list Z)) (outliers : list row -> list Z).

  Definition reported_geos (f : fitted) : list Z := match f_noisy f with Some l => l | None => [] end.

  Lemma filter_all {A} (l : list A) : filter (fun _ => true) l = l.
  Proof. induction l as [|a l IH]; cbn; [reflexivity|f_equal; exact IH]. Qed.
  Lemma filter_filter {A} (p q : A -> bool) l : filter p (filter q l) = filter (fun x => q x && p x) l.
  Proof. induction l as [|a l IH]; cbn; [reflexivity|]. destruct (q a); cbn; [destruct (p a); cbn; rewrite IH|rewrite IH]; reflexivity. Qed.

  Theorem screened_data_def rows :
    let f := fit noisy outliers rows in
    f_data f = filter (fun r => negb (memz (r_geo r) (reported_geos f)) && negb (memz (r_date r) (f_outliers f))) rows.
  Proof.
    unfold fit, reported_geos. cbn [f_noisy f_outliers f_data]. cbv zeta.
    destruct (noisy rows) as [l|]; [destruct l as [|g l]|]; cbn [is_nil].
    - set (od := outliers rows). destruct od as [|d od]; cbn [is_nil].
      + rewrite <- (filter_all rows) at 1. apply filter_ext. intro r. reflexivity.
      + unfold drop_dates. apply filter_ext. intro r. reflexivity.
    - set (rows1 := drop_geos (g :: l) rows). set (od := outliers rows1). destruct od as [|d od]; cbn [is_nil].
      + unfold rows1, drop_geos. apply filter_ext. intro r. cbn [memz existsb]. rewrite andb_true_r. reflexivity.
      + unfold drop_dates, rows1, drop_geos. rewrite filter_filter. reflexivity.
    - set (od := outliers rows). destruct od as [|d od]; cbn [is_nil].
      + rewrite <- (filter_all rows) at 1. apply filter_ext. intro r. reflexivity.
      + unfold drop_dates. apply filter_ext. intro r. reflexivity.
  Qed.

  (* a row survives iff its geo is not reported noisy and its date is not a reported outlier *)
  Corollary screened_row_iff rows r :
    let f := fit noisy outliers rows in
    In r (f_data f) <-> In r rows /\ memz (r_geo r) (reported_geos f) = false /\ memz (r_date r) (f_outliers f) = false.
  Proof.
    cbv zeta. rewrite screened_data_def, filter_In, andb_true_iff, !negb_true_iff. reflexivity.
  Qed.

  (* the input list itself is only read *)
  Theorem screened_is_sublist_of_input rows : incl (f_data (fit noisy outliers rows)) rows.
  Proof. intros r H. apply screened_row_iff in H. apply H. Qed.

  (* row order: detectors that do not depend on the order of the rows give reports that do not *)
  Hypothesis noisy_perm : forall a b, Permutation a b -> noisy a = noisy b.
  Hypothesis outliers_perm : forall a b, Permutation a b -> outliers a = outliers b.
  Lemma filter_perm {A} (p : A -> bool) a b : Permutation a b -> Permutation (filter p a) (filter p b).
  Proof.
    induction 1 as [|x a' b' H IH|x y l|a' b' c' H1 IH1 H2 IH2]; cbn.
    - constructor.
    - destruct (p x); [constructor|]; assumption.
    - destruct (p x), (p y); try reflexivity. apply perm_swap.
    - etransitivity; eassumption.
  Qed.
  Theorem row_order_irrelevant a b : Permutation a b ->
    f_noisy (fit noisy outliers a) = f_noisy (fit noisy outliers b) /\
    f_outliers (fit noisy outliers a) = f_outliers (fit noisy outliers b) /\
    Permutation (f_data (fit noisy outliers a)) (f_data (fit noisy outliers b)).
  Proof.
    intro P. unfold fit. cbn [f_noisy f_outliers f_data]. cbv zeta. rewrite (noisy_perm a b P).
    set (ra := match noisy b with Some l => if is_nil l then a else drop_geos l a | None => a end).
    set (rb := match noisy b with Some l => if is_nil l then b else drop_geos l b | None => b end).
    assert (P1 : Permutation ra rb).
    { unfold ra, rb. destruct (noisy b) as [l|]; [|exact P]. destruct (is_nil l); [exact P|apply filter_perm; exact P]. }
    rewrite (outliers_perm ra rb P1). split; [reflexivity|split; [reflexivity|]].
    destruct (is_nil (outliers rb)); [exact P1|apply filter_perm; exact P1].
  Qed.
End Proofs.

(* ---- the aggregated analysis series (x = control totals, y = treatment totals per date and period) *)
Section Analysis.
  Variables (noisy : list row -> option (list Z)) (outliers : list row -> list Z).
  Local Open Scope Q_scope.

  Definition cell (d p g : Z) (r : row) : bool := (r_date r =? d)%Z && (r_period r =? p)%Z && (r_group r =? g)%Z.
  Definition kept (f : fitted) (r : row) : bool :=
    negb (memz (r_geo r) (reported_geos f)) && negb (memz (r_date r) (f_outliers f)).

  (* a total over the screened data is the total, over the INPUT, of the rows of that date, period and group whose geo
     is not reported noisy and whose date is not a reported outlier *)
  Theorem analysis_total_of_screened rows d p g :
    let f := fit noisy outliers rows in
    total (f_data f) d p g = fold_right Qplus 0 (map r_val (filter (fun r => kept f r && cell d p g r) rows)).
  Proof.
    cbv zeta. unfold total. rewrite (screened_data_def noisy outliers rows). cbv zeta. rewrite filter_filter. reflexivity.
  Qed.
  (* a reported outlier date has no entry at all in the analysis series, and a date all of whose rows (of a group) belong to
     reported geos has none for that group *)
  Theorem analysis_has_no_entry_for_reported_dates rows d p g :
    let f := fit noisy outliers rows in
    memz d (f_outliers f) = true -> present (f_data f) d p g = false.
  Proof.
    cbv zeta. intros Hd. unfold present. apply not_true_is_false. intros H. apply existsb_exists in H.
    destruct H as (r & Hin & Hc). apply (screened_row_iff noisy outliers rows r) in Hin. destruct Hin as (_ & _ & Ho).
    apply andb_true_iff in Hc. destruct Hc as [Hc _]. apply andb_true_iff in Hc. destruct Hc as [Hc _].
    apply Z.eqb_eq in Hc. rewrite Hc in Ho. congruence.
  Qed.
  Theorem analysis_entry_iff_a_surviving_row rows d p g :
    let f := fit noisy outliers rows in
    present (f_data f) d p g = true <-> exists r, In r rows /\ kept f r = true /\ cell d p g r = true.
  Proof.
    cbv zeta. unfold present. rewrite existsb_exists. split.
    - intros (r & Hin & Hc). apply (screened_row_iff noisy outliers rows r) in Hin. destruct Hin as (Hin & Hg & Ho).
      exists r. split; [exact Hin|]. split; [unfold kept; now rewrite Hg, Ho|exact Hc].
    - intros (r & Hin & Hk & Hc). exists r. split; [|exact Hc]. apply (screened_row_iff noisy outliers rows r).
      unfold kept in Hk. apply andb_true_iff in Hk. destruct Hk as [Hg Ho]. apply negb_true_iff in Hg, Ho. auto.
  Qed.
  (* totals do not depend on the order of the rows, nor on rows of other dates, periods or groups *)
  Lemma qsum_perm (a b : list Q) : Permutation a b -> fold_right Qplus 0 a == fold_right Qplus 0 b.
  Proof.
    induction 1 as [|x a' b' H IH|x y l|a' b' c' H1 IH1 H2 IH2]; cbn [fold_right].
    - reflexivity.
    - now rewrite IH.
    - ring.
    - now rewrite IH1.
  Qed.
  Theorem analysis_total_row_order_irrelevant a b d p g : Permutation a b -> total a d p g == total b d p g.
  Proof. intros P. unfold total. apply qsum_perm. apply Permutation_map. apply filter_perm. exact P. Qed.
  Theorem analysis_total_ignores_other_cells rows extra d p g :
    (forall r, In r extra -> cell d p g r = false) -> total (rows ++ extra) d p g = total rows d p g.
  Proof.
    intros H. unfold total. rewrite filter_app.
    replace (filter _ extra) with (@nil row); [now rewrite app_nil_r|].
    symmetry. induction extra as [|r l IH]; [reflexivity|]. cbn [filter].
    change ((r_date r =? d)%Z && (r_period r =? p)%Z && (r_group r =? g)%Z) with (cell d p g r).
    rewrite (H r (or_introl eq_refl)). apply IH. intros r' Hr'. apply H. now right.
  Qed.
End Analysis.
