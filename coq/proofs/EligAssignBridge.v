(* The translated GeoEligibility.get_eligible_assignments (gen/Gen_EligAssign.v) against the model of C16. *)
From Coq Require Import List ZArith Bool Lia.
From MM Require Import lib.ListSet model.Elig model.EligFrame gen.Gen_EligAssign proofs.EligProofs.
Import ListNotations.

Lemma filter_map_S (P : nat -> bool) l : filter P (map S l) = map S (filter (fun i => P (S i)) l).
Proof. induction l as [|a l IH]; cbn [map filter]; [reflexivity|]. destruct (P (S a)); cbn [map]; now rewrite IH. Qed.
(* sel over a list with one more row in front *)
Lemma sel_cons f e es : sel f (e :: es) = (if f e then [0%nat] else []) ++ map S (sel f es).
Proof.
  unfold sel. cbn [length seq filter nth]. rewrite <- seq_shift, filter_map_S. cbn [nth].
  destruct (f e); reflexivity.
Qed.

(* index mode: after reset_index the labels are the positions, so the sets are the model's position sets *)
Lemma labels_where_relabel f rows : forall i,
  labels_where f (relabel_from i rows) = map (fun k => (i + Z.of_nat k)%Z) (sel f (map snd rows)).
Proof.
  induction rows as [|[g e] rows IH]; intros i; cbn [relabel_from map snd].
  - reflexivity.
  - rewrite sel_cons. unfold labels_where in *. cbn [filter snd]. rewrite map_app, map_map.
    destruct (f e); cbn [map fst app].
    + f_equal; [lia|]. rewrite (IH (i + 1)%Z). apply map_ext. intros k. lia.
    + rewrite (IH (i + 1)%Z). apply map_ext. intros k. lia.
Qed.
Lemma loc_rows df : forall geos rows, loc df geos = Some rows ->
  map fst rows = geos /\ forall g e, In (g, e) rows -> lookup df g = Some e.
Proof.
  induction geos as [|g gs IH]; cbn [loc]; intros rows H.
  - injection H as <-. split; [reflexivity|intros g e []].
  - destruct (lookup df g) as [e|] eqn:Hl; [|discriminate]. destruct (loc df gs) as [r|] eqn:Hr; [|discriminate].
    injection H as <-. destruct (IH r eq_refl) as [H1 H2]. split; [cbn [map fst]; now rewrite H1|].
    intros g' e' [E|Hin]; [injection E as <- <-; exact Hl|now apply H2].
Qed.
Lemma loc_none_iff df geos : loc df geos = None <-> exists g, In g geos /\ lookup df g = None.
Proof.
  induction geos as [|g gs IH]; cbn [loc].
  - split; [discriminate|intros (g & [] & _)].
  - destruct (lookup df g) as [e|] eqn:Hl.
    + destruct (loc df gs) as [r|] eqn:Hr.
      * split; [discriminate|]. intros (g' & [<-|Hin] & Hn); [congruence|].
        assert (Some r = None); [|discriminate]. apply IH. exists g'. auto.
      * split; [|reflexivity]. intros _. destruct (proj1 IH eq_refl) as (g' & Hin & Hn). exists g'. split; [now right|exact Hn].
    + split; [|reflexivity]. intros _. exists g. split; [now left|exact Hl].
Qed.

Section Bridge.
  Variable data : frame.

  (* indices=True with a non-empty list of known IDs: positions in the order of the list, exactly the model's sets *)
  Theorem gen_index_mode g gs rows : loc data (g :: gs) = Some rows ->
    gen_get_eligible_assignments data (Some (g :: gs)) true
    = GA (map Z.of_nat (sel ec (map snd rows))) (map Z.of_nat (sel et (map snd rows))) (map Z.of_nat (sel ex (map snd rows))).
  Proof.
    intros H. unfold gen_get_eligible_assignments. cbn [truthy unwrap]. rewrite H. unfold reset_index.
    rewrite !labels_where_relabel. reflexivity.
  Qed.
  Corollary gen_index_mode_is_assignments_of g gs rows : loc data (g :: gs) = Some rows ->
    let a := assignments_of (map snd rows) in
    gen_get_eligible_assignments data (Some (g :: gs)) true = GA (map Z.of_nat (a_c a)) (map Z.of_nat (a_t a)) (map Z.of_nat (a_x a)).
  Proof. intros H. cbv zeta. rewrite (gen_index_mode g gs rows H). reflexivity. Qed.
  (* indices=False: the IDs of the selected rows whose flag is set, in the order of the list *)
  Theorem gen_id_mode g gs rows : loc data (g :: gs) = Some rows ->
    gen_get_eligible_assignments data (Some (g :: gs)) false = GA (labels_where ec rows) (labels_where et rows) (labels_where ex rows).
  Proof. intros H. unfold gen_get_eligible_assignments. cbn [truthy unwrap]. now rewrite H. Qed.
  (* no list, or an empty one: the whole table by ID; with indices=True a ValueError *)
  Theorem gen_all_geos geos : truthy geos = false ->
    gen_get_eligible_assignments data geos false = GA (labels_where ec data) (labels_where et data) (labels_where ex data) /\
    gen_get_eligible_assignments data geos true = GAValueError.
  Proof. intros H. unfold gen_get_eligible_assignments. rewrite H. split; reflexivity. Qed.
  (* an unknown ID in the list: KeyError, whatever the mode; never otherwise *)
  Theorem gen_key_error_iff g gs indices :
    gen_get_eligible_assignments data (Some (g :: gs)) indices = GAKeyError <-> exists g', In g' (g :: gs) /\ lookup data g' = None.
  Proof.
    unfold gen_get_eligible_assignments. cbn [truthy unwrap]. rewrite <- loc_none_iff.
    destruct (loc data (g :: gs)) as [rows|]; [|tauto]. destruct indices; split; discriminate.
  Qed.
  (* a label is in an ID-mode set iff it was asked for, is in the table and has the flag *)
  Theorem gen_id_mode_membership f rows geos g : loc data geos = Some rows ->
    In g (labels_where f rows) <-> In g geos /\ exists e, lookup data g = Some e /\ f e = true.
  Proof.
    intros H. destruct (loc_rows data geos rows H) as [Hf Hl]. unfold labels_where. rewrite in_map_iff. split.
    - intros ([g' e] & <- & Hin). apply filter_In in Hin. destruct Hin as [Hin Hfe]. cbn [fst snd] in *.
      split; [rewrite <- Hf; now apply (in_map fst _ (g', e))|exists e; split; [now apply Hl|exact Hfe]].
    - intros (Hin & e & Hle & Hfe). rewrite <- Hf in Hin. apply in_map_iff in Hin. destruct Hin as ([g' e'] & <- & Hin).
      cbn [fst] in *. exists (g', e'). split; [reflexivity|]. apply filter_In. split; [exact Hin|]. cbn [snd].
      rewrite (Hl g' e' Hin) in Hle. injection Hle as ->. exact Hfe.
  Qed.
End Bridge.
