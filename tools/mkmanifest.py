#!/usr/bin/env python3
"""Rewrites /verif/MANIFEST.json from the table below (kept in one place so the
manifest is always valid and always lists every property exactly once)."""
import json
import os

V = os.path.dirname(os.path.dirname(os.path.abspath(__file__)))
props = [json.loads(l) for l in open(os.path.join(V, 'properties.jsonl'))]

CLAIMED = {
    'C14': dict(
        text='Coq theorems (props/C14.v) over every total order of keys, every capacity and every history of pushes and '
             'reads: each queue of the snapshot is the k largest keys pushed under its key, descending; retained items are '
             'pushed items; reads are pure. heapdict.py is re-translated on every run and proved equal to the model on '
             'every history; generated histories are additionally run on the real HeapDict and the model and compared, '
             'and the property is evaluated directly on the implementation\'s answers.',
        note='Trusted: Coq kernel + vm_compute, translator py2v.py, heapq\'s documented contract (modelled, not verified), '
             'harness rank mapping. No axioms.',
        technique='Rocq/Coq proof (induction over histories, refinement to sorted top-k) + translator bridge lemma + '
                  'executed correspondence',
        ref='DESIGN.md section 5 C14'),
    'C16': dict(
        text='Coq theorems (props/C16.v): validation accepts exactly the well-formed tables and otherwise raises '
             'ValueError; for the rows of any ordered subset the seven classes are the positions whose row encodes them, '
             'pairwise disjoint, duplicate-free and covering. GeoAssignments.__init__ is re-translated on every run '
             '(bridge by reflexivity), and so is get_eligible_assignments (gen/Gen_EligAssign.v over a frame of (ID, flags) rows: '
             'index mode = the model\'s position sets, ID mode membership, whole table, ValueError / KeyError cases; C16_translated_*), '
             'whose generated definition is also evaluated on every query and compared with the implementation; tables built from generated specifications (incl. all tables of 1-3 legal rows and '
             'a malformed stream) are run through GeoEligibility and the model and compared; the partition property is '
             'also evaluated directly on the answers.',
        note='Trusted: Coq kernel + vm_compute, translator, pandas glue of GeoEligibility (modelled; tied by execution), '
             'the harness\' reading of "entry in {0,1}" as Python equality. No axioms.',
        technique='Rocq/Coq proof (Boolean case analysis over the 8 row types lifted to all tables) + translator bridge '
                  'lemma + executed correspondence',
        ref='DESIGN.md section 5 C16'),
}

SEARCH_NOTE = ('Trusted: Coq kernel + vm_compute; translator py2v.py with the bridge lemmas of proofs/SearchBridge.v; numeric '
               'kernels (shares, correlations, required impact, diagnostic tests) enter as oracles -- the theorems hold for '
               'every behaviour of them; exhaustive_search and _greedy_search are re-translated statement by statement on every run '
               '(gen/Gen_Exhaustive.v, gen/Gen_Greedy.v, calling the translated generators, design_within_constraints and HeapDict) '
               'and proved equal to the hand-written models for every input and fuel (proofs/ExhaustiveBridge.v, proofs/GreedyBridge.v); '
               'the property theorems are restated on the translated functions; geos_within_constraints / search_results are '
               'hand-modelled in model/Search.v; all of them are '
               'tied to the code by executed correspondence on generated cases (kernel tables from fresh objects; 40% of the '
               'cases run the search on an object with a history: earlier searches, other parameters first, a second matcher '
               'on the same data object); heapq, itertools.combinations, CPython small-int set order (only under score ties). No axioms.')
CLAIMED.update({
    'C01': dict(
        text='Coq theorems (props/C01.v) for every value type, score comparison, list of eligibility rows, parameter record '
             'and kernel behaviour: every design of the exhaustive search (via "returned => pushed => enumerated") and of '
             'the greedy search (invariant of the hill climb, any fuel) is a legal assignment; the geo index admits exactly '
             'eligible non-excluded geos and every must-include geo (also under n_geos_max); legality transfers from index '
             'sets to the geos of the data. Generators and class algebra are re-translated and bridged on every run; 150 / '
             '3000 generated cases are run through both searches and the model and compared component by component; the '
             'property is evaluated on the returned designs from the raw eligibility table.',
        note=SEARCH_NOTE, technique='Rocq/Coq proof (loop invariant, membership specs of the generators) + translator bridge '
        'lemmas + executed correspondence + direct oracle', ref='DESIGN.md section 5 C01'),
    'C02': dict(
        text='Coq theorems (props/C02.v): every design returned by the exhaustive search has sizes inside the user ranges, a '
             'geo-count ratio admitted by the tolerance, and passed the volume / share / budget tests exactly as the code '
             'evaluates them; every greedy design passed design_within_constraints and the budget test; integer bounds are '
             'inclusive; unspecified constraints impose nothing; the translated constraint predicate, size generators and '
             'design_within_constraints are the model. Correspondence and a direct recomputation of all six constraints '
             'from the raw frame on generated cases plus a boundary grid.',
        note=SEARCH_NOTE + ' Bit-level inclusivity of the float geo-ratio bound is tested on a grid, proved over an abstract value type.',
        technique='Rocq/Coq proof + translator bridge lemmas + executed correspondence + direct oracle',
        ref='DESIGN.md section 5 C02'),
    'C03': dict(
        text='Coq theorems (props/C03.v): what the exhaustive search offers to its queue is exactly the enumerated feasible '
             'space minus what the documented pruning may skip (sound and complete), nothing is offered twice, and for '
             'scores in a total order the result is the top k of what was offered, best first, with no offered design '
             'outside it scoring above the worst returned one; the same with the comparison regenerated from tbrmmscore.py '
             '(Python < on the documented score tuple, lexicographic on NaN-free tuples). Correspondence of the exhaustive result on generated cases; '
             'brute-force optimality oracle over all 3^n assignments with the omission clause.',
        note=SEARCH_NOTE + ' Total order of scores = NaN-free score tuples (premise); ties skipped in the correspondence.',
        technique='Rocq/Coq proof (trace refinement of the nested loops, top-k of the bounded heap) + executed '
                  'correspondence + brute-force oracle', ref='DESIGN.md section 5 C03'),
    'C09': dict(
        text='Coq theorems (props/C09.v): the translated code cannot divide an integer by zero, the exhaustive search calls '
             'the generators only inside their domain, an empty size range or an infeasible input yields the empty list '
             'for both searches; the translator refuses any raise other than ValueError. Correspondence of outcomes '
             '(ok / ValueError) and results on a degenerate-heavy stream (1-3 geos, unsatisfiable ranges, n_test >= 98); '
             'oracle: no exception type other than ValueError escapes.',
        note=SEARCH_NOTE + ' Exceptions raised inside numpy/scipy/pandas kernels are outside the model (exercised by the generated inputs): partial.',
        technique='Rocq/Coq proof of exception-safety obligations emitted by the translator + executed correspondence + '
                  'direct oracle', ref='DESIGN.md section 5 C09'),
    'C11': dict(
        text='Coq theorems (props/C11.v): count = length of the enumeration (Vandermonde + weighted three-class profile '
             'count), the enumeration is duplicate-free and is exactly the set of valid assignments (sound and complete), '
             'and it bounds what the exhaustive search pushes. The loop nest, size ranges and generators are re-translated '
             'and bridged on every run. Class-count vectors x size/ratio settings are run through count_max_designs, the '
             'generators, a brute force over 3^n assignments and the model.',
        note=SEARCH_NOTE, technique='Rocq/Coq proof (combinatorial identity by induction) + translator bridge lemmas + '
        'executed correspondence + brute-force oracle', ref='DESIGN.md section 5 C11'),
    'C13': dict(
        text='Coq theorems (props/C13.v): without budget/share constraints every greedy design is, as a pair of sets, one of '
             'the designs the exhaustive search offers to its queue, hence (scores in a total order) is not above the '
             'exhaustive optimum, and greedy returns nothing when exhaustive returns nothing. Premises: exact-arithmetic '
             'behaviour of three float tests and set-extensionality of the kernels. Correspondence of both searches and a '
             'brute-force oracle on generated cases.',
        note=SEARCH_NOTE + ' Premises of the theorem: vlit 1 = float(1), a <= b iff not b < a (no NaN), order-faithful int->float, kernels extensional in the set.',
        technique='Rocq/Coq proof (greedy invariant + completeness of the enumeration) + executed correspondence + oracle',
        ref='DESIGN.md section 5 C13'),
})
CLAIMED['C14']['text'] += (' Both searches are proved to return at most n_designs designs in non-increasing score order '
                           '(scores in a total order); checked on generated search cases as well.')

CLAIMED.update({
    'C08': dict(
        text='Coq theorem (props/C08.v): for any cache structure whose memoising slots are all reset by the control-series '
             'setter and whose treatment-series setter clears the control series, no history of assignments and reads '
             'observes a value computed from other inputs than the current ones (induction over histories with a freshness '
             'invariant); the cache structure is regenerated from tbrmmdiagnostics.py on every run and proved sound by '
             'computation. All histories of length <= 3 (quick) / <= 4 (thorough) over a 16-symbol alphabet plus random '
             'histories are run on the real object, every read compared with a fresh object, and with the model.',
        note='Trusted: Coq kernel + vm_compute; translator target diagcache; kernels deterministic in (x, y, parameters) '
             '(a value is abstracted to the snapshot of the inputs it was computed from); __repr__ excluded. No axioms.',
        technique='Rocq/Coq proof (invariant over histories) on a table regenerated by the translator + executed '
                  'correspondence + direct oracle', ref='DESIGN.md section 5 C08'),
    'C17': dict(
        text='Coq theorems (props/C17.v): for the field table and the list of checks regenerated from '
             'tbrmmdesignparameters.py, construction succeeds exactly on the documented domain (hand-written from the '
             'docstring, exact rational bounds) and otherwise yields ValueError, never another error; defaults are the '
             'documented ones. The helper methods are hand-modelled and tied by a boundary grid (each bound with its '
             'binary64 neighbours, infinities, NaN, wrong types / arity / order) evaluated on the class and on the model '
             'with exact values; the documented domain is also evaluated independently in Python.',
        note='Trusted: Coq kernel + vm_compute; translator target params; the bodies of the three helper methods are '
             'modelled by hand (tied by execution); Python int/float comparison is exact (modelled over Q). No axioms.',
        technique='Rocq/Coq proof (case analysis per kind of check, composed over the regenerated table) + executed '
                  'correspondence on a boundary grid + direct oracle', ref='DESIGN.md section 5 C17'),
    'C20': dict(
        text='Coq theorems (props/C20.v): the expanded list holds exactly the days covered by some entry, each once, '
             'independent of order / duplication / overlap; malformed entries, invalid calendar dates and reversed ranges '
             'reject the whole list with ValueError; day numbers and calendar days correspond one to one over 1900-2199 '
             '(finite sweep by vm_compute, bound stated). utils.find_days_to_exclude, utils.expand_time_windows and TimeWindow.__post_init__ are regenerated '
             'into gen/Gen_Dates.v on every run, proved equal to the model (proofs/DatesBridge.v) and the theorems restated on '
             'them (C20_translated_*). Entry lists built from structured specifications are run through '
             'find_days_to_exclude + expand_time_windows and the model; expected days from datetime.date.',
        note='Trusted: Coq kernel + vm_compute; translator target dates; which texts pandas.Timestamp accepts, str.split and date_range (modelled; tied by execution). No axioms.',
        technique='Rocq/Coq proof (model + source-regenerated expand_time_windows / TimeWindow guard) + finite calendar sweep lifted by forallb_forall + executed correspondence + oracle',
        ref='DESIGN.md section 5 C20'),
})

CLAIMED.update({
    'C04': dict(
        text='Coq theorem (props/C04.v) on an object-store model of the exhaustive search: although one diagnostics object '
             'per treatment group is reused and overwritten for every control group, at the end every stored design\'s two '
             'diagnostics objects hold the series of exactly its own groups and no object is shared. The numeric half is '
             'decided by execution: for every returned design of both searches, diag.x / diag.y are compared bit for bit with '
             'the sums of the raw input rows of the reported IDs over the most recent window, and corr, required impact, the '
             'four tests and the score with a fresh recomputation; search results are also compared with the model.',
        note=SEARCH_NOTE + ' The store model is hand-written; its tie to the code is the executed oracle.',
        technique='Rocq/Coq proof (aliasing invariant of an object store) + executed correspondence + direct oracle',
        ref='DESIGN.md section 5 C04'),
    'C10': dict(
        text='Coq theorems (props/C10.v): the size ranges the greedy search fills in on its private copy of the parameters '
             'leave treatment_group_size_range unchanged and every other field untouched; result retrieval is a pure '
             'function of the stored heap. The property itself is decided by executed call sequences: 3-10 random calls over '
             '13 public methods on one object, every answer compared with a freshly built object, parameters compared '
             'before/after; queries are also compared with the model.',
        note=SEARCH_NOTE + ' History-independence of the model is by construction (pure functions); the proof covers the one piece of state the code keeps.',
        technique='Rocq/Coq proof (equivalence of filled and unspecified ranges) + executed call sequences against fresh '
                  'objects + correspondence of the queries', ref='DESIGN.md section 5 C10'),
    'C12': dict(
        text='Coq theorems (props/C12.v): the bounded heap, the whole exhaustive search and the whole greedy search (any fuel) '
             'depend on the score oracle only through comparisons, so order-isomorphic scores (before/after positive rescaling; tuples vs dense ranks) give '
             'identical results. Executed metamorphic pairs for both searches: shuffled rows + shifted dates, injective '
             'renaming, integer IDs, scaling by 2^k with the budget range (bit-exact comparison).',
        note=SEARCH_NOTE + ' Numeric scale laws of the kernels and the canonicalisation of the input are tied by the executed pairs; domain: distinct geo means, no score ties.',
        technique='Rocq/Coq proof (comparison lemma) + executed metamorphic pairs', ref='DESIGN.md section 5 C12'),
})

CLAIMED.update({
    'C15': dict(
        text='Coq theorems (props/C15.v) on a model of TBRMMData over exact rationals: one row per distinct geo, one column per '
             'distinct date in chronological order, missing cells zero, rows a permutation of the geos in non-increasing mean, '
             'shares summing to one, absent excludable geos dropped and absent required geos rejected with ValueError, '
             'assignable = eligible minus must-exclude. Long frames built from generated specifications (missing cells, '
             'duplicate rows, int/str IDs, eligibility subset / equal / superset, random geo indices) are run through '
             'TBRMMData and the model (cells exact, shares to 1e-12) and an independent recomputation with fractions.',
        note='Trusted: Coq kernel + vm_compute; pandas pivot / mean / sort / .loc inside TBRMMData are modelled by hand '
             '(tied by execution); row order compared up to ties in the mean. No axioms.',
        technique='Rocq/Coq proof (permutation / sortedness / field identity lemmas) + executed correspondence with exact '
                  'rationals + direct oracle', ref='DESIGN.md section 5 C15'),
    'C19': dict(
        text='Coq theorems (props/C19.v), for every behaviour of the two statistical detectors: the screened data are the input '
             'rows minus every row of the reported noisy geos and reported outlier dates, in the original order; a row '
             'survives iff it is not reported; order-independent detectors give order-independent reports. Generated '
             'experiment frames (planted noisy / constant geos, spike dates, custom column names and labels, shuffled rows) '
             'are run through TBRDiagnostics.fit and the model; oracle: screened data, per-date group totals of the analysis '
             'series, unmodified input, row-order independence.',
        note='Trusted: Coq kernel + vm_compute; the detectors (scipy / statsmodels) are oracles of the model; pandas '
             'filtering / pivoting modelled by hand (tied by execution). No axioms.',
        technique='Rocq/Coq proof (filter algebra, permutation invariance) + executed correspondence + direct oracle',
        ref='DESIGN.md section 5 C19'),
})

TBR_NOTE = ('Trusted: Coq kernel + vm_compute; statsmodels OLS and scipy.stats.t / f are oracles (location-scale family, quantile '
            'symmetry and monotonicity enter the theorems as explicit premises on the standard quantiles); the exact rational model '
            'model/TBRMath.v is hand-written and tied to tbr.TBR / TBRMMDiagnostics by executed correspondence (1e-8 relative); '
            'square roots never enter (scales compared through their squares). No axioms (no real-number axioms: arithmetic is over Q).')
CLAIMED.update({
    'C05': dict(
        text='Coq theorems over exact rationals (props/C05.v): sigma identity (std(y, ddof=2)^2 (1 - corr^2) = OLS residual variance), '
             'required impact^2 = (t_sig + t_power)^2 x posterior variance of the cumulative effect at the stated displacement, lift '
             'recovery, lower bound at power, linear scaling, shift invariance, monotone decrease in corr^2 for a positive multiplier. '
             'Executed: required impact vs the real TBR post-analysis of a displaced experiment frame (1e-8), planted-lift recovery, '
             'lower bound, scaling / shift / monotonicity on the implementation, and required_impact / estimate_required_impact / tbrfit '
             'against the rational model. _impact_estimate / estimate_required_impact / tbrfit are regenerated from the source '
             '(gen/Gen_Formulas.v); over Q with a square-root oracle their squares are proved to be the model\'s (C05_translated_*), '
             'and the generated definitions run on floats are compared with the implementation. '
             'Open known finding: negative multiplier when sig_level + power_level < 1.',
        note=TBR_NOTE + ' Translator target formulas (scipy quantiles, np.std / np.var, means and pre-period fit as oracles).',
        technique='Rocq/Coq proof (field identities over Q by induction on the series; source-regenerated closed formulas bridged to the model) '
        '+ executed correspondence + direct oracle', ref='DESIGN.md section 5 C05'),
    'C06': dict(
        text='Coq theorems over exact rationals (props/C06.v): the variance propagated from the OLS covariance is Kerman eq. 5 on every '
             'analysed day; group totals are invariant under row permutation, splitting a group over geos and rows of other groups; '
             'summary ordering and precision for tail probability <= 1/2 (refuted above 1/2: known finding); design-side estimate and '
             'scale agree with the analysis side. Executed: posterior location / scale of every analysed day against the rational model '
             '(1e-8), df, layout independence (shuffle, split, unassigned geo), summary rows for random (level, tails, threshold, '
             'rescale), tbrfit vs TBR. tbrfit is regenerated from the source (gen/Gen_Formulas.v) and proved, over Q with a '
             'square-root oracle, to give the analysis estimate and the posterior scale (C06_translated_design_side_*).',
        note=TBR_NOTE + ' Translator target formulas.', technique='Rocq/Coq proof (field identities, permutation invariance, ordered-field facts; source-regenerated tbrfit bridged to the model) + executed '
        'correspondence with exact rationals + direct oracle', ref='DESIGN.md section 5 C06'),
    'C07': dict(
        text='Coq theorems (props/C07.v) for the fixed-cost scenario: iROAS quantiles are response quantiles divided by the cost, '
             'incremental-response bounds are iROAS bounds times the cost, unit changes multiply every figure by b/a, ordering for a '
             'positive cost; a negative cost gives a negative scale (refuted: known finding); the scenario decision is regenerated '
             'from the source (gen/Gen_Scenario.v) and proved: label fixed iff |pre-period cost + control test-period cost| < 1e-10. Executed on frames x six cost patterns x '
             'levels x tails x thresholds: coherence with TBR.summary, scenario label, unit change (powers of two), determinism of the '
             'variable-cost report w.r.t. random_state. Open known findings: negative cost, one-tailed level < 1/2, variable-cost mean '
             'outside percentile bounds.',
        note=TBR_NOTE + ' Translator target scenario (pandas selections recognised by exact text; floor(log10) and -inf as oracles with stated premises). Variable-cost scenario (simulation) is tested only: partial.',
        technique='Rocq/Coq proof (field identities over Q; source-regenerated scenario decision) + direct oracle on the implementation',
        ref='DESIGN.md section 5 C07'),
    'C18': dict(
        text='Coq theorems (props/C18.v): counterfactual + difference = observed, pre-period differences are the OLS residuals and sum '
             'to zero (so the running sum restarts at the first test date), pointwise bounds bracket the estimate iff the cumulative '
             'scale does not decrease (with a computed witness that it can decrease: known finding), cumulative ordering. Executed on '
             'frames with cooldown (one in four with a control spike), both metrics, both scenarios, levels, tails.',
        note=TBR_NOTE, technique='Rocq/Coq proof (OLS residual identity, ordered-field characterisation) + direct oracle',
        ref='DESIGN.md section 5 C18'),
})

NOT_YET = 'check not built yet in this revision (model under construction; see DESIGN.md section 10)'
NA = {}

checks, na = [], []
for p in props:
  pid = p['id']
  if pid in CLAIMED:
    c = CLAIMED[pid]
    checks.append({
        'property_id': pid,
        'quick_cmd': './check %s --tier quick' % pid,
        'thorough_cmd': './check %s --tier thorough' % pid,
        'evidence_file': '/verif/evidence/%s.json' % pid,
        'replay_cmd_template': './check %s --replay {path}' % pid,
        'engine': 'coq-model',
        'level_claimed': {'category': c.get('category', 'proof'), 'text': c['text'], 'design_ref': c['ref']},
        'level_note': c['note'],
        'technique': c['technique'],
    })
  else:
    na.append({'property_id': pid, 'reason': NA.get(pid, NOT_YET)})

m = {
    'version': 1,
    'setup_cmd': './setup.sh',
    'hooks': {
        'guard': 'MATCHED_MARKETS_VERIF',
        'enable': 'no source hooks: checks observe public attributes and return values only',
        'baseline_off_cmd': 'cd /repo && /venv/bin/python -m pytest -ra -q -p no:cacheprovider --timeout=900 '
                            '--continue-on-collection-errors',
        'source_commits': [],
        'add_only': True,
    },
    'engines': [{
        'name': 'coq-model', 'path': '/verif/coq', 'serves_properties': sorted(CLAIMED),
        'kind_free_text': 'Coq 8.16.1 development (lib/, model/, proofs/, props/); gen/ regenerated from /repo by '
                          'translate/py2v.py on every run; harness in vlib/ (Python) runs the implementation and '
                          'evaluates the model with vm_compute on the same inputs',
    }],
    'checks': checks,
    'not_applicable': na,
    'notes': 'See DESIGN.md. Every check: translate -> build proofs (Print Assumptions) -> correspondence -> '
             'direct oracle -> verdict (VIOLATION / KNOWN-FINDING protocol).',
}
json.dump(m, open(os.path.join(V, 'MANIFEST.json'), 'w'), indent=1)
print('claimed:', sorted(CLAIMED), 'not claimed:', [x['property_id'] for x in na])
