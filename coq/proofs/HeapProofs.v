(* Proofs about the HeapDict model (model/Heap.v), for every total order of
   keys, every capacity, every push sequence and every interleaving of reads. *)
From Coq Require Import List Arith ZArith Orders OrdersFacts Bool Lia Sorting.Permutation.
From MM Require Import model.Heap.
Import ListNotations.

Module HeapProofs (K : UsualOrderedTypeFull').
  Module Import KF := OrderedTypeFullFacts K.
  Definition kltb (a b : K.t) : bool :=
    match K.compare a b with Lt => true | _ => false end.
  Notation lt_item := (Heap.lt_item kltb).
  Notation ins := (Heap.ins kltb).
  Notation sortd := (Heap.sortd kltb).
  Notation minl := (Heap.minl kltb).
  Notation heappushpop := (Heap.heappushpop kltb).
  Notation push := (Heap.push kltb).
  Notation nlargest_all := (Heap.nlargest_all kltb).
  Notation hd_push := (Heap.hd_push kltb).
  Notation hd_get_result := (Heap.hd_get_result kltb).
  Notation step := (Heap.step kltb).
  Notation run := (Heap.run kltb).
  Notation final := (Heap.final kltb).
  Notation topk := (Heap.topk kltb).

  Lemma kltb_spec a b : BoolSpec (K.lt a b) (K.le b a) (kltb a b).
  Proof. unfold kltb. destruct (K.compare_spec a b); constructor; order. Qed.

  Notation idk := (fun x : K.t => x).
  Notation insK := (ins idk).
  Notation sortK := (sortd idk).

  Fixpoint desc (l : list K.t) : Prop :=
    match l with [] => True | x :: l' => (forall y, In y l' -> K.le y x) /\ desc l' end.

  (* ------------------------------------------------------------------ *)
  (* key level: items are their own keys                                  *)

  Lemma ins_perm {A} (key : A -> K.t) x l : Permutation (ins key x l) (x :: l).
  Proof.
    induction l as [|y l IH]; cbn; [reflexivity|].
    destruct (lt_item key y x); [reflexivity|]. rewrite IH. apply perm_swap.
  Qed.
  Lemma sortd_perm {A} (key : A -> K.t) l : Permutation (sortd key l) l.
  Proof. induction l; cbn; [reflexivity|]. rewrite ins_perm. constructor; assumption. Qed.

  Lemma ins_desc x l : desc l -> desc (insK x l).
  Proof.
    induction l as [|y l IH]; cbn; intros H.
    - split; [intros ? []|exact I].
    - destruct H as [Hy Hd]. unfold lt_item; cbn beta.
      destruct (kltb_spec y x) as [Hlt|Hge]; cbn.
      + split; [|split; assumption]. intros z [<-|Hz]; [order|]. specialize (Hy _ Hz); order.
      + split; [|apply IH; assumption]. intros z Hz.
        apply (Permutation_in _ (ins_perm idk x l)) in Hz. destruct Hz as [<-|Hz]; [order|auto].
  Qed.
  Lemma sortd_desc l : desc (sortK l).
  Proof. induction l; cbn; [exact I| apply ins_desc; assumption]. Qed.

  Lemma desc_perm_eq l1 : forall l2, desc l1 -> desc l2 -> Permutation l1 l2 -> l1 = l2.
  Proof.
    induction l1 as [|x l1 IH]; intros l2 H1 H2 P.
    - apply Permutation_nil in P; subst; reflexivity.
    - destruct l2 as [|y l2]; [apply Permutation_sym, Permutation_nil in P; discriminate|].
      destruct H1 as [Hx H1], H2 as [Hy H2].
      assert (x = y).
      { assert (Ix : In x (y :: l2)) by (eapply Permutation_in; [exact P|left; reflexivity]).
        assert (Iy : In y (x :: l1)) by (eapply Permutation_in; [apply Permutation_sym; exact P|left; reflexivity]).
        destruct Ix as [->|Ix]; [reflexivity|]. destruct Iy as [->|Iy]; [reflexivity|].
        specialize (Hx _ Iy). specialize (Hy _ Ix). order. }
      subst y. f_equal. apply IH; try assumption. eapply Permutation_cons_inv; exact P.
  Qed.
  Lemma sortd_perm_eq l1 l2 : Permutation l1 l2 -> sortK l1 = sortK l2.
  Proof. intro P. apply desc_perm_eq; try apply sortd_desc. rewrite !sortd_perm; assumption. Qed.
  Lemma sortd_id l : desc l -> sortK l = l.
  Proof. intro H. apply desc_perm_eq; [apply sortd_desc|assumption|apply sortd_perm]. Qed.

  Lemma firstn_cons_ins (k : nat) (x : K.t) s :
    firstn k (x :: s) = firstn k (x :: firstn k s).
  Proof.
    destruct k; [reflexivity|]. cbn. f_equal.
    revert s; induction k; intros [|? ?]; cbn; try reflexivity. f_equal. auto.
  Qed.

  Lemma firstn_ins k x s : desc s ->
    firstn k (insK x s) = firstn k (insK x (firstn k s)).
  Proof.
    revert s; induction k as [|k IH]; intros s Hs; [reflexivity|].
    destruct s as [|y s]; [reflexivity|]. cbn [firstn ins].
    destruct (lt_item idk y x) eqn:E.
    - change (firstn (S k) (x :: y :: s) = firstn (S k) (x :: y :: firstn k s)).
      rewrite (firstn_cons_ins (S k) x (y :: s)). reflexivity.
    - cbn [firstn]. f_equal. apply IH. apply Hs.
  Qed.

  Lemma length_ins {A} (key : A -> K.t) x l : length (ins key x l) = S (length l).
  Proof. apply Permutation_length with (l' := x :: l), ins_perm. Qed.
  Lemma length_sortd {A} (key : A -> K.t) l : length (sortd key l) = length l.
  Proof. apply Permutation_length, sortd_perm. Qed.

  Lemma minl_le a l : K.le (minl idk a l) a /\ forall y, In y l -> K.le (minl idk a l) y.
  Proof.
    revert a; induction l as [|b l IH]; intro a; cbn; [split; [order|intros ? []]|].
    unfold lt_item; cbn beta.
    destruct (kltb_spec b a) as [Hlt|Hge].
    - destruct (IH b) as [H1 H2]. split; [order|]. intros y [<-|Hy]; [exact H1|auto].
    - destruct (IH a) as [H1 H2]. split; [exact H1|]. intros y [<-|Hy]; [order|auto].
  Qed.
  Lemma minl_in {A} (key : A -> K.t) a l : minl key a l = a \/ In (minl key a l) l.
  Proof.
    revert a; induction l as [|b l IH]; intro a; cbn; [left; reflexivity|].
    destruct (lt_item key b a).
    - destruct (IH b) as [H|H]; [right; left; symmetry; exact H|right; right; exact H].
    - destruct (IH a) as [H|H]; [left; exact H|right; right; exact H].
  Qed.

  Lemma remove_min_perm m l : In m l -> (forall y, In y l -> K.le m y) ->
    Permutation l (m :: remove_first (fun y => negb (lt_item idk m y)) l).
  Proof.
    induction l as [|y l IH]; [intros []|]. intros Hin Hmin. cbn.
    unfold lt_item at 1; cbn beta.
    destruct (kltb_spec m y) as [Hlt|Hge]; cbn.
    - destruct Hin as [->|Hin]; [order|].
      rewrite (IH Hin) at 1 by (intros; apply Hmin; right; assumption). apply perm_swap.
    - assert (y = m) by (specialize (Hmin y (or_introl eq_refl)); order). subst; reflexivity.
  Qed.

  Lemma desc_app_min s m : desc (s ++ [m]) -> forall y, In y s -> K.le m y.
  Proof.
    induction s as [|z s IH]; [intros _ ? []|]. cbn. intros [Hz Hd] y [<-|Hy].
    - apply Hz. apply in_or_app; right; left; reflexivity.
    - apply IH; assumption.
  Qed.
  Lemma firstn_in {A} (l : list A) : forall k y, In y (firstn k l) -> In y l.
  Proof.
    induction l as [|w l IH]; intros [|k] y Hy; cbn in *; try contradiction.
    destruct Hy as [<-|Hy]; [left; reflexivity|right; eapply IH; exact Hy].
  Qed.
  Lemma desc_firstn l : forall k, desc l -> desc (firstn k l).
  Proof.
    induction l as [|z s IH]; intros [|k] H; cbn; try exact I.
    destruct H as [Hz Hd]. split; [|apply IH; exact Hd].
    intros y Hy. apply Hz. eapply firstn_in; exact Hy.
  Qed.

  (* a full queue: pushing keeps all but one minimum of (x :: q) *)
  Lemma topk_step_full k q x : length q = k -> k <> 0 ->
    sortK (push idk k q x) = firstn k (insK x (sortK q)).
  Proof.
    intros Hlen Hk. unfold push. rewrite Hlen, Nat.ltb_irrefl.
    destruct q as [|a q']; [cbn in Hlen; lia|].
    unfold heappushpop; cbv zeta. set (q := a :: q') in *. set (m := minl idk a q').
    assert (Hm_in : In m q)
      by (unfold m, q; destruct (minl_in idk a q') as [->|H]; [left; reflexivity|right; exact H]).
    assert (Hm_le : forall y, In y q -> K.le m y).
    { unfold m, q. destruct (minl_le a q') as [H1 H2]. intros y [<-|Hy]; [exact H1|apply H2; exact Hy]. }
    set (full := insK x (sortK q)).
    assert (Hfull_d : desc full) by (apply ins_desc, sortd_desc).
    assert (Hfull_p : Permutation full (x :: q)) by (unfold full; rewrite ins_perm, sortd_perm; reflexivity).
    assert (Hfull_len : length full = S k) by (unfold full; rewrite length_ins, length_sortd; lia).
    assert (Hsplit : full = firstn k full ++ skipn k full) by (symmetry; apply firstn_skipn).
    assert (Hsk : length (skipn k full) = 1) by (rewrite skipn_length; lia).
    destruct (skipn k full) as [|e [|? ?]] eqn:Esk; try (cbn in Hsk; lia).
    assert (He_min : forall y, In y (firstn k full) -> K.le e y).
    { apply desc_app_min. rewrite <- Hsplit. exact Hfull_d. }
    assert (Hd1 : desc (firstn k full)) by (apply desc_firstn; exact Hfull_d).
    assert (P2 : Permutation (x :: q) (e :: firstn k full)).
    { rewrite <- Hfull_p. rewrite Hsplit at 1. rewrite Permutation_app_comm. reflexivity. }
    unfold lt_item at 1; cbn beta.
    destruct (kltb_spec m x) as [Hlt|Hge].
    - apply desc_perm_eq; [apply sortd_desc|exact Hd1|]. rewrite sortd_perm.
      assert (P1 : Permutation (x :: q) (m :: x :: remove_first (fun y => negb (lt_item idk m y)) q)).
      { rewrite (remove_min_perm m q Hm_in Hm_le) at 1. apply perm_swap. }
      assert (e = m).
      { assert (In e (x :: q)) by (eapply Permutation_in; [apply Permutation_sym; exact P2|left; reflexivity]).
        assert (In m (e :: firstn k full)) by (eapply Permutation_in; [exact P2|right; exact Hm_in]).
        destruct H as [<-|He]; destruct H0 as [->|Hm]; try reflexivity.
        - specialize (He_min _ Hm). order.
        - specialize (He_min _ Hm). specialize (Hm_le _ He). order. }
      subst e. apply (Permutation_cons_inv (a:=m)). rewrite <- P1, <- P2. reflexivity.
    - apply desc_perm_eq; [apply sortd_desc|exact Hd1|]. rewrite sortd_perm.
      assert (e = x).
      { assert (In e (x :: q)) by (eapply Permutation_in; [apply Permutation_sym; exact P2|left; reflexivity]).
        assert (In x (e :: firstn k full)) by (eapply Permutation_in; [exact P2|left; reflexivity]).
        destruct H as [<-|He]; [reflexivity|]. destruct H0 as [->|Hx]; [reflexivity|].
        specialize (He_min _ Hx). specialize (Hm_le _ He). order. }
      subst e. apply (Permutation_cons_inv (a:=x)). exact P2.
  Qed.

  Lemma remove_first_length {A} (p : A -> bool) l :
    (exists y, In y l /\ p y = true) -> S (length (remove_first p l)) = length l.
  Proof.
    induction l as [|z l IH]; intros [y [Hin Hp]]; [destruct Hin|]. cbn.
    destruct (p z) eqn:E; [reflexivity|]. cbn. f_equal. apply IH.
    destruct Hin as [->|Hin]; [congruence|]. exists y; split; assumption.
  Qed.

  Lemma push_length {A} (key : A -> K.t) k (q : list A) x :
    length q <= k -> length (push key k q x) = Nat.min k (S (length q)).
  Proof.
    intro Hle. unfold push. destruct (Nat.ltb_spec (length q) k) as [Hlt|Hge].
    - unfold heappush. cbn [length]. lia.
    - assert (Hk : length q = k) by lia. unfold heappushpop.
      destruct q as [|a q']; [cbn in *; lia|]. cbv zeta.
      destruct (lt_item key (minl key a q') x) eqn:E; [|lia].
      cbn [length]. rewrite remove_first_length; [cbn [length] in *; lia|].
      exists (minl key a q'). split.
      + destruct (minl_in key a q') as [->|H']; [left; reflexivity|right; exact H'].
      + unfold lt_item. destruct (kltb_spec (key (minl key a q')) (key (minl key a q'))) as [Hc|Hc]; [order|reflexivity].
  Qed.

  Lemma push_inv k q seen x :
    sortK q = topk k seen -> length q = Nat.min k (length seen) ->
    sortK (push idk k q x) = topk k (x :: seen) /\
    length (push idk k q x) = Nat.min k (S (length seen)).
  Proof.
    intros Hs Hl.
    assert (Htop : topk k (x :: seen) = firstn k (insK x (sortK q))).
    { unfold topk. cbn [sortd fold_right]. fold (sortK seen).
      rewrite firstn_ins by apply sortd_desc. fold (topk k seen). rewrite <- Hs. reflexivity. }
    rewrite Htop. split.
    2:{ rewrite push_length by lia. lia. }
    destruct (Nat.ltb_spec (length q) k) as [Hlt|Hge].
    - unfold push. destruct (Nat.ltb_spec (length q) k); [|lia]. unfold heappush.
      cbn [sortd fold_right]. fold (sortK q). rewrite firstn_all2; [reflexivity|].
      rewrite length_ins, length_sortd. lia.
    - assert (Hk : length q = k) by lia.
      destruct (Nat.eq_dec k 0) as [->|Hk0].
      + destruct q; [|cbn in Hk; lia]. reflexivity.
      + apply topk_step_full; assumption.
  Qed.

  (* one queue, key level *)
  Lemma heap_topk_keys k xs : sortK (fold_left (push idk k) xs []) = topk k (rev xs).
  Proof.
    assert (G : forall xs q seen, sortK q = topk k seen -> length q = Nat.min k (length seen) ->
                sortK (fold_left (push idk k) xs q) = topk k (rev xs ++ seen)).
    { clear xs. induction xs as [|x xs IH]; intros q seen Hs Hl; cbn [fold_left rev app]; [exact Hs|].
      destruct (push_inv k q seen x Hs Hl) as [Hs' Hl'].
      rewrite (IH _ (x :: seen) Hs'); [|cbn [length]; exact Hl'].
      rewrite <- app_assoc. reflexivity. }
    rewrite (G xs [] []); [rewrite app_nil_r; reflexivity| |].
    - unfold topk. cbn. rewrite firstn_nil. reflexivity.
    - cbn. rewrite Nat.min_0_r. reflexivity.
  Qed.

  Lemma desc_app_le a : forall b, desc (a ++ b) -> forall x y, In x b -> In y a -> K.le x y.
  Proof.
    induction a as [|z a IH]; intros b H x y Hx Hy; [destruct Hy|]. cbn in H. destruct H as [Hz Hd].
    destruct Hy as [<-|Hy]; [apply Hz; apply in_or_app; right; exact Hx|eapply IH; eassumption].
  Qed.
  (* anything that was offered is either among the k kept keys or not above any of them *)
  Lemma topk_optimal k l x : In x l ->
    In x (topk k l) \/ (length (topk k l) = k /\ forall y, In y (topk k l) -> K.le x y).
  Proof.
    intro Hx. unfold Heap.topk. set (s := sortK l).
    assert (Hs : In x s) by (eapply Permutation_in; [apply Permutation_sym, sortd_perm|exact Hx]).
    rewrite <- (firstn_skipn k s) in Hs. apply in_app_or in Hs. destruct Hs as [Hs|Hs]; [left; exact Hs|right].
    split.
    - rewrite firstn_length. assert (length (skipn k s) <> 0) by (destruct (skipn k s); [destruct Hs|discriminate]).
      rewrite skipn_length in H. lia.
    - intros y Hy. apply (desc_app_le (firstn k s) (skipn k s)); [rewrite firstn_skipn; apply sortd_desc|exact Hs|exact Hy].
  Qed.
  Lemma topk_length k l : length (topk k l) = Nat.min k (length l).
  Proof. unfold Heap.topk. rewrite firstn_length, length_sortd. reflexivity. Qed.

  (* ------------------------------------------------------------------ *)
  (* item level: arbitrary items compared through their key              *)
  Section Items.
    Context {A : Type} (key : A -> K.t).

    Lemma map_ins x l : map key (ins key x l) = insK (key x) (map key l).
    Proof.
      induction l as [|y l IH]; cbn; [reflexivity|]. unfold lt_item; cbn beta.
      destruct (kltb (key y) (key x)); cbn; [reflexivity|]. f_equal. exact IH.
    Qed.
    Lemma map_sortd l : map key (sortd key l) = sortK (map key l).
    Proof.
      induction l as [|y l IH]; [reflexivity|].
      change (sortd key (y :: l)) with (ins key y (sortd key l)). rewrite map_ins, IH. reflexivity.
    Qed.
    Lemma map_minl a l : key (minl key a l) = minl idk (key a) (map key l).
    Proof.
      revert a; induction l as [|b l IH]; intro a; cbn; [reflexivity|].
      unfold lt_item; cbn beta. rewrite IH. destruct (kltb (key b) (key a)); reflexivity.
    Qed.
    Lemma map_remove_first (p : K.t -> bool) l :
      map key (remove_first (fun y => p (key y)) l) = remove_first p (map key l).
    Proof. induction l as [|y l IH]; cbn; [reflexivity|]. destruct (p (key y)); cbn; [reflexivity|f_equal; exact IH]. Qed.
    Lemma map_push k q x : map key (push key k q x) = push idk k (map key q) (key x).
    Proof.
      unfold push. rewrite map_length. destruct (length q <? k); [reflexivity|].
      unfold heappushpop. destruct q as [|a q']; [reflexivity|]. cbn [map]. cbv zeta.
      unfold lt_item at 1 3; cbn beta. rewrite map_minl.
      destruct (kltb (minl idk (key a) (map key q')) (key x)); [|reflexivity].
      cbn [map]. f_equal.
      change (key a :: map key q') with (map key (a :: q')).
      rewrite <- (map_remove_first (fun z => negb (kltb (minl idk (key a) (map key q')) z))). unfold lt_item; cbn beta. rewrite map_minl. reflexivity.
    Qed.
    Lemma map_fold_push k xs q :
      map key (fold_left (push key k) xs q) = fold_left (push idk k) (map key xs) (map key q).
    Proof. revert q; induction xs as [|x xs IH]; intro q; cbn; [reflexivity|]. rewrite IH, map_push. reflexivity. Qed.

    (* C14, one queue: the reader returns the k largest keys pushed, descending *)
    Theorem heap_topk k xs :
      map key (nlargest_all key (fold_left (push key k) xs [])) = topk k (map key xs).
    Proof.
      unfold nlargest_all. rewrite map_sortd, map_fold_push. cbn [map].
      rewrite heap_topk_keys. unfold topk. f_equal. apply sortd_perm_eq.
      apply Permutation_sym, Permutation_rev.
    Qed.

    Theorem heap_sorted k xs : desc (map key (nlargest_all key (fold_left (push key k) xs []))).
    Proof. rewrite heap_topk. unfold topk. apply desc_firstn, sortd_desc. Qed.

    Theorem heap_capped k xs : length (nlargest_all key (fold_left (push key k) xs [])) <= k.
    Proof.
      rewrite <- (map_length key), heap_topk. unfold topk. rewrite firstn_length. lia.
    Qed.

    (* retained items are pushed items (sub-multiset) *)
    Lemma remove_first_sub (p : A -> bool) l : exists r, Permutation l (remove_first p l ++ r).
    Proof.
      induction l as [|y l [r IH]]; cbn; [exists []; reflexivity|].
      destruct (p y).
      - exists [y]. rewrite Permutation_app_comm. reflexivity.
      - exists r. cbn. constructor. exact IH.
    Qed.
    Lemma push_sub k q x : exists r, Permutation (x :: q) (push key k q x ++ r).
    Proof.
      unfold push. destruct (length q <? k).
      - exists []. rewrite app_nil_r. reflexivity.
      - unfold heappushpop. destruct q as [|a q'].
        + exists [x]. reflexivity.
        + cbv zeta. destruct (lt_item key (minl key a q') x).
          * destruct (remove_first_sub (fun y => negb (lt_item key (minl key a q') y)) (a :: q')) as [r Hr].
            exists r. cbn [app]. constructor. exact Hr.
          * exists [x]. rewrite Permutation_app_comm. reflexivity.
    Qed.
    Theorem heap_retained_sub k xs :
      exists dropped, Permutation xs (nlargest_all key (fold_left (push key k) xs []) ++ dropped).
    Proof.
      assert (G : forall xs q, exists r, Permutation (q ++ xs) (fold_left (push key k) xs q ++ r)).
      { clear xs. induction xs as [|x xs IH]; intro q; cbn [fold_left].
        - exists []. reflexivity.
        - destruct (IH (push key k q x)) as [r Hr]. destruct (push_sub k q x) as [r' Hr'].
          exists (r' ++ r). transitivity ((x :: q) ++ xs); [cbn; symmetry; apply Permutation_middle|]. rewrite Hr'.
          rewrite <- app_assoc, (Permutation_app_comm r' xs), app_assoc, Hr, <- !app_assoc.
          apply Permutation_app_head, Permutation_app_comm. }
      destruct (G xs []) as [r Hr]. exists r. cbn [app] in Hr.
      transitivity (fold_left (push key k) xs [] ++ r); [exact Hr|].
      apply Permutation_app_tail. unfold nlargest_all. symmetry. apply sortd_perm.
    Qed.

    (* ---------------- the dictionary of queues ---------------- *)
    Lemma dd_get_set_same (d : @dict A) k q : dd_get (dd_set d k q) k = q.
    Proof.
      induction d as [|[k' q'] d IH]; cbn; [rewrite Z.eqb_refl; reflexivity|].
      destruct (Z.eqb k' k) eqn:E; cbn; rewrite E; [reflexivity|exact IH].
    Qed.
    Lemma dd_get_set_other (d : @dict A) k k2 q : k2 <> k -> dd_get (dd_set d k q) k2 = dd_get d k2.
    Proof.
      intro Hne. induction d as [|[k' q'] d IH]; cbn.
      - destruct (Z.eqb_spec k k2); [congruence|reflexivity].
      - destruct (Z.eqb_spec k' k) as [->|Hk]; cbn.
        + destruct (Z.eqb_spec k k2); [congruence|reflexivity].
        + destruct (Z.eqb k' k2); [reflexivity|exact IH].
    Qed.

    Definition pushes_of (k : Z) (ops : list (op A)) : list A :=
      flat_map (fun o => match o with Push k' x => if Z.eqb k' k then [x] else [] | Read => [] end) ops.

    Lemma final_size h ops : hd_size (final key h ops) = hd_size h.
    Proof. revert h; induction ops as [|[k x|] ops IH]; intro h; cbn; [reflexivity| |]; rewrite IH; reflexivity. Qed.

    (* every queue is the fold of the pushes made under its key *)
    Lemma final_queue ops : forall h k,
      dd_get (hd_result (final key h ops)) k =
      fold_left (push key (hd_size h)) (pushes_of k ops) (dd_get (hd_result h) k).
    Proof.
      induction ops as [|[k' x|] ops IH]; intros h k; cbn [final step fst pushes_of flat_map]; [reflexivity| |].
      - rewrite IH. unfold hd_push, hd_set_result. cbn [hd_size hd_result].
        destruct (Z.eqb_spec k' k) as [->|Hne]; cbn [app].
        + rewrite dd_get_set_same. reflexivity.
        + rewrite dd_get_set_other by congruence. reflexivity.
      - rewrite IH. reflexivity.
    Qed.

    Lemma get_result_lookup (h : heapdict) k :
      dd_get (hd_get_result key h) k = nlargest_all key (dd_get (hd_result h) k).
    Proof.
      unfold hd_get_result. induction (hd_result h) as [|[k' q] d IH]; cbn; [reflexivity|].
      destruct (Z.eqb k' k); [reflexivity|exact IH].
    Qed.

    (* C14, whole container: after any history, the snapshot holds for each key
       the [size] largest keys pushed under it, in descending order *)
    Theorem heapdict_topk size ops k :
      map key (dd_get (hd_get_result key (final key (hd_init size) ops)) k)
      = topk size (map key (pushes_of k ops)).
    Proof.
      rewrite get_result_lookup, final_queue. cbn [hd_init hd_size hd_result dd_get].
      apply heap_topk.
    Qed.

    (* a key appears in the snapshot iff something was pushed under it *)
    Lemma dd_set_keys (d : @dict A) k q : map fst (dd_set d k q) = if existsb (Z.eqb k) (map fst d) then map fst d else map fst d ++ [k].
    Proof.
      induction d as [|[k' q'] d IH]; cbn; [reflexivity|].
      rewrite (Z.eqb_sym k k'). destruct (Z.eqb k' k) eqn:E; cbn; [reflexivity|].
      rewrite IH. destruct (existsb (Z.eqb k) (map fst d)); reflexivity.
    Qed.

    (* reading does not change the container, whatever came before *)
    Theorem read_pure h : fst (step key h Read) = h.
    Proof. reflexivity. Qed.

    (* reads interleaved anywhere do not influence later answers *)
    Definition is_push (o : op A) : bool := match o with Push _ _ => true | Read => false end.
    Theorem reads_transparent h ops : final key h ops = final key h (filter is_push ops).
    Proof.
      revert h; induction ops as [|[k x|] ops IH]; intro h; cbn; [reflexivity| |]; apply IH.
    Qed.

    (* each Read in a history reports exactly the snapshot of the pushes before it *)
    Lemma run_app h ops1 ops2 :
      run key h (ops1 ++ ops2) = run key h ops1 ++ run key (final key h ops1) ops2.
    Proof.
      revert h; induction ops1 as [|[k x|] ops1 IH]; intro h; cbn; [reflexivity| |].
      - apply IH.
      - f_equal. apply IH.
    Qed.
    Theorem run_read h ops1 ops2 :
      run key h (ops1 ++ Read :: ops2) =
      run key h ops1 ++ hd_get_result key (final key h ops1) :: run key (final key h ops1) ops2.
    Proof. rewrite run_app. reflexivity. Qed.
  End Items.
End HeapProofs.
