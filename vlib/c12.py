"""C12 -- search results are invariant to how the input is presented (metamorphic pairs)."""
import random

from . import common, search, searchfam
from .common import Check


def designs_of(case, which, transform=None, budget_scale=None):
  """Runs one search on the (transformed) input; returns canonical designs or outcome string."""
  import pandas as pd
  from matched_markets.methodology import tbrmmdata, tbrmmdesignparameters as P, tbrmatchedmarkets as MM, geoeligibility as G
  par = dict(search.finish_params(case))
  df = search.frame_of(case)
  if case.get('dup_cells'):
    # some (geo, date) cells are reported in two rows (v - d, v + d): the panel is their mean, whatever the row order
    rng = random.Random(case['seed'] * 13 + 1)
    pick = [i for i in range(len(df)) if rng.random() < 0.3]
    extra = df.iloc[pick].copy()
    delta = [rng.choice([0.5, 1.0, 4.0, 16.0]) for _ in pick]
    col = df.columns.get_loc('response')
    for i, d in zip(pick, delta):
      df.iloc[i, col] = df.iloc[i, col] - d
    extra['response'] = extra['response'] + delta
    df = pd.concat([df, extra], ignore_index=True)
  elig = None
  if case['elig'] is not None:
    elig = pd.DataFrame([{'geo': g, 'control': search.TYPES[v][0], 'treatment': search.TYPES[v][1], 'exclude': search.TYPES[v][2]}
                         for g, v in case['elig'].items()])
  back = lambda g: g
  if transform:
    df, elig, par, back = transform(df, elig, par)
  p = P.TBRMMDesignParameters(**{k: (tuple(v) if isinstance(v, list) else v) for k, v in par.items()})
  try:
    data = tbrmmdata.TBRMMData(df, 'response', G.GeoEligibility(elig) if elig is not None else None)
    mm = MM.TBRMatchedMarkets(data, p)
    res = mm.exhaustive_search() if which == 'exhaustive' else mm.greedy_search()
  except ValueError:
    return 'ValueError'
  except Exception as e:
    return 'other:%s' % type(e).__name__
  out = []
  for d in res:
    s = [float(v) for v in d.score.score]
    out.append({'T': sorted(str(back(g)) for g in d.treatment_geos), 'C': sorted(str(back(g)) for g in d.control_geos),
                'tests': s[:4], 'corr': s[4], 'inv': s[5], 'corr_raw': float(d.diag.corr),
                'impact': float(d.diag.required_impact)})
  return out


def t_shuffle_shift(seed):
  def f(df, elig, par):
    import pandas as pd
    df = df.sample(frac=1.0, random_state=seed % (2 ** 31)).reset_index(drop=True).copy()
    df['date'] = df['date'] + pd.Timedelta(days=(seed % 700) - 350)
    if elig is not None:
      elig = elig.sample(frac=1.0, random_state=(seed + 1) % (2 ** 31)).reset_index(drop=True)
    return df, elig, par, (lambda g: g)
  return f


def t_int_ids(df, elig, par):
  df = df.copy()
  df['geo'] = df['geo'].astype(int)
  if elig is not None:
    elig = elig.copy()
    elig['geo'] = elig['geo'].astype(int)
  return df, elig, par, (lambda g: g)


def t_rename(seed):
  def f(df, elig, par):
    ids = sorted(set(str(g) for g in df['geo']) | (set(str(g) for g in elig['geo']) if elig is not None else set()))
    rng = random.Random(seed)
    names = ['g%03d' % i for i in rng.sample(range(100, 999), len(ids))]
    m = dict(zip(ids, names))
    inv = {v: k for k, v in m.items()}
    df = df.copy()
    df['geo'] = df['geo'].astype(str).map(m)
    if elig is not None:
      elig = elig.copy()
      elig['geo'] = elig['geo'].astype(str).map(m)
    return df, elig, par, (lambda g: inv[str(g)])
  return f


def t_scale(k):
  c = 2.0 ** k
  def f(df, elig, par):
    df = df.copy()
    df['response'] = df['response'] * c
    par = dict(par)
    if par.get('budget_range'):
      par['budget_range'] = (par['budget_range'][0] * c, par['budget_range'][1] * c)
    return df, elig, par, (lambda g: g)
  return f, c


def feq(a, b):
  """Bit-equality of two floats, an undefined value (NaN) being equal to itself."""
  return a == b or (a != a and b != b)


def compare(base, other, scale=None):
  if isinstance(base, str) or isinstance(other, str):
    return None if base == other else 'outcome %s vs %s' % (base if isinstance(base, str) else 'ok', other if isinstance(other, str) else 'ok')
  if len(base) != len(other):
    return '%d designs vs %d' % (len(base), len(other))
  for i, (a, b) in enumerate(zip(base, other)):
    if a['T'] != b['T'] or a['C'] != b['C']:
      return 'design %d: T=%s C=%s vs T=%s C=%s' % (i, a['T'], a['C'], b['T'], b['C'])
    if a['tests'] != b['tests'] or not feq(a['corr'], b['corr']) or not feq(a['corr_raw'], b['corr_raw']):
      return 'design %d: tests/correlation differ (%s %r vs %s %r)' % (i, a['tests'], a['corr_raw'], b['tests'], b['corr_raw'])
    if scale is None:
      if not feq(a['impact'], b['impact']) or not feq(a['inv'], b['inv']):
        return 'design %d: required impact %r vs %r' % (i, a['impact'], b['impact'])
    elif not feq(b['impact'], a['impact'] * scale):
      return 'design %d: required impact %r is not %g x %r' % (i, b['impact'], scale, a['impact'])
  return None


def _one(case):
  out = {'seed': case['seed'], 'fails': [], 'pairs': 0, 'ties': False}
  try:
    search.finish_params(case)
    rows = case['rows']
    means = sorted(sum(r) / len(r) for r in rows)
    if any(abs(a - b) < 1e-9 for a, b in zip(means, means[1:])) and not case.get('tied_means'):
      out['skipped'] = 'equal geo means'
      return out
    for which in ('exhaustive', 'greedy'):
      base = designs_of(case, which)
      if not isinstance(base, str):
        keys = [tuple(d['tests']) + (d['corr'], d['inv']) for d in base]
        if len(set(keys)) != len(keys):
          out['ties'] = True
          continue
      sc, c = t_scale(case['seed'] % 25 - 12)
      variants = [('shuffle+shift', t_shuffle_shift(case['seed']), None), ('rename', t_rename(case['seed']), None),
                  ('scale', sc, c)]
      if case.get('tied_means'):
        # with exactly tied means the row order of the canonical frame follows the geo names: renaming is out of scope
        variants = [v for v in variants if v[0] != 'rename']
      if not case.get('int_ids'):
        variants.append(('int-ids', t_int_ids, None))
      if case['par_final'].get('budget_range'):
        # budgets of a few cents: any absolute tolerance or rounding in the budget tests would show
        f10, c10 = t_scale(-10)
        variants.append(('scale 2^-10 with a budget range', f10, c10))
      # far-away units (micro-units / mega-units): an absolute tolerance anywhere in the kernels would show
      kfar = [-30, -24, -20, 20, 24, 30][case['seed'] % 6]
      ffar, cfar = t_scale(kfar)
      variants.append(('scale 2^%d' % kfar, ffar, cfar))
      for name, tr, scale in variants:
        other = designs_of(case, which, tr)
        out['pairs'] += 1
        msg = compare(base, other, scale)
        if msg:
          out['fails'].append('%s search, %s: %s' % (which, name, msg))
  except Exception:
    import traceback
    out['fails'].append('harness error: ' + traceback.format_exc()[-400:])
  return out


def run(tier):
  ck = Check('C12', tier)
  ck.prove('props/C12.v', gen_targets=searchfam.GEN_TARGETS_ALL)
  n = common.sz(tier, 100, 1500)
  cases = [dict(c) for c in searchfam.corpus_cases('C12')]      # minimised earlier alarms run first
  for i in range(n):
    c = search.gen_case(ck.seed * 100003 + 12 * 1009 + i, tier, max_geos=5)
    c['shuffle'] = False
    c['int_ids'] = False
    c['int_response'] = False          # the transformations of this check scale and split the responses
    c['dup_cells'] = i % 3 == 2
    cases.append(c)
  # geos whose required impacts are exactly tied (series that differ by a constant) competing for the last n_geos_max slot:
  # which one survives must not depend on their names
  for j in range(common.sz(tier, 6, 60)):
    c = search.gen_case(ck.seed * 100003 + 12 * 1009 + 5000 + j, tier, max_geos=5)
    rng = random.Random(ck.seed + 5000 + j)
    nd = len(c['rows'][0])
    pat = [float((7 * t * (j + 3)) % 11) - 5.0 for t in range(nd)]
    n = rng.randint(4, 6)
    levels = rng.sample([40.0, 55.0, 70.0, 90.0, 120.0, 160.0, 210.0], n)
    rows = []
    for g in range(n):
      if g < 3:
        rows.append([levels[g] + p for p in pat])                       # same pattern, different level: tied impact
      else:
        rows.append([round((levels[g] + 3 * p + rng.gauss(0, 2)) * 8) / 8 for p in pat])
    c['rows'] = rows
    c['elig'] = {str(g + 1): rng.choice(['ctx', 'ctx', 'cx', 'tx', 'ct']) for g in range(n)}
    c['par'] = {'n_test': 3, 'iroas': 1.0, 'n_designs': 3, 'n_pretest_max': 90, 'n_geos_max': rng.choice([2, 3, n - 1])}
    c['want_share'] = c['want_budget'] = False
    c['shuffle'] = False
    c['int_ids'] = False
    c['dup_cells'] = False
    c['int_response'] = False
    c['history'] = None
    c.pop('zero_sum_geo', None)
    cases.append(c)
  # two geos with exactly the same mean and the same required impact (one is the other reversed in time), named 9 and 10
  # (numeric and lexicographic order differ), competing for the last n_geos_max slot: integer or string IDs must not matter
  for j in range(common.sz(tier, 10, 60)):
    c = search.gen_case(ck.seed * 100003 + 12 * 1009 + 7000 + j, tier, max_geos=5)
    rng = random.Random(ck.seed + 7000 + j)
    nd = len(c['rows'][0])
    walk = [0.0]
    for _ in range(nd - 1):
      walk.append(walk[-1] + rng.gauss(0, 4.0))
    # twelve geos, IDs 1..12; level falls and noise grows with the ID, so the geos with the largest required impact are
    # 12, 11, then 10 and 9 exactly tied (10 is 9 reversed in time); n_geos_max admits one of the two (plus 12 and 11,
    # and in half of the cases 8 ... as well)
    rows = []
    for g in range(1, 13):
      rows.append([float(round(1000 - 37 * g + 2 * w + rng.randint(-3 * g, 3 * g))) for w in walk])
    rows[9] = list(reversed(rows[8]))
    c['rows'] = rows
    c['elig'] = None
    import statistics
    sd = [statistics.pstdev(r) for r in rows]
    n_larger = sum(1 for v in sd if v > sd[8])
    if n_larger < 1 or n_larger > 4:
      continue                               # keep the searched set small
    c['par'] = {'n_test': 3, 'iroas': 1.0, 'n_designs': 5, 'n_pretest_max': 90, 'n_geos_max': n_larger + 1,
                'treatment_geos_range': (1, 2), 'control_geos_range': (1, 2)}
    c['want_share'] = c['want_budget'] = False
    c['shuffle'] = False
    c['int_ids'] = False
    c['dup_cells'] = False
    c['int_response'] = False
    c['history'] = None
    c['tied_means'] = True
    for k in ('zero_sum_geo', 'drift', 'float_valued_integers', 'window_bound_above_history'):
      c.pop(k, None)
    cases.append(c)
  res = common.pmap(_one, cases, chunksize=2)
  pairs = 0
  skipped = {'ties': 0, 'equal-means': 0}
  for c, r in zip(cases, res):
    pairs += r['pairs']
    skipped['ties'] += r['ties']
    skipped['equal-means'] += 'skipped' in r
    ck.count((c['seed'],), nontrivial=r['pairs'] > 0)
    for f in r['fails']:
      if f.startswith('harness error'):
        ck.tie_broken('harness', 'harness error', f)
      else:
        ck.fail('presentation-dependence', f, {'case': searchfam.slim(c)})
      break
  ck.sample({'seed': cases[-1]['seed'], 'transformations': ['shuffle rows + shift dates', 'rename geos', 'scale by 2^k', 'integer IDs']})
  ck.cov['rule'] = ('generated search cases (<= 5 geos; in one third some (geo, date) cells are reported in two rows; plus cases with exactly tied per-geo required impacts and a binding n_geos_max); for both searches the designs on the original input are compared with '
                    'the designs on four transformed inputs: rows shuffled + all dates shifted + eligibility rows shuffled; geos '
                    'renamed injectively (eligibility alike, results mapped back); integer instead of string IDs; responses and '
                    'budget range multiplied by 2^k, k in -12..12 and one of -30, -24, -20, 20, 24, 30 (groups, tests, correlations bit-equal, required impact scaled '
                    'exactly). non-trivial: at least one pair compared')
  ck.cov['metamorphic_pairs_compared'] = pairs
  ck.cov['skipped'] = skipped
  ck.cov['distribution'] = {'panels_with_cells_reported_in_two_rows': sum(1 for c in cases if c.get('dup_cells')),
                            'one_row_per_cell': sum(1 for c in cases if not c.get('dup_cells'))}
  ck.assumptions = ['domain: distinct geo means and no score ties (otherwise geo IDs break ties legitimately)',
                    'multiplication of binary64 data by a power of two is exact (no overflow / underflow)']
  return ck.finish('proof', searchfam.TRUSTED_BASE + [
      'props/C12.v proves that the bounded heap and the exhaustive search depend on scores only through comparisons; the '
      'numeric scale laws of the kernels and the canonicalisation of the input (C15) are tied by the executed pairs'])


def replay(data):
  inp = data.get('input')
  if not isinstance(inp, dict) or 'case' not in inp:
    print('replay: nothing executable recorded:', [b['name'] for b in data.get('tie_broken', [])])
    return 1
  r = _one(inp['case'])
  print('pairs compared:', r['pairs'])
  print('property failures:', r['fails'] or 'none')
  return 1 if r['fails'] else 0
