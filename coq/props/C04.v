(* C04 -- Diagnostics and score attached to a design belong to its reported geos.
   Object-level model of the exhaustive search's diagnostics handling: ONE diagnostics object per
   treatment group is reused and overwritten for every control group, stored designs hold deep
   copies.  The numeric half of the property (series = sums over the reported geos in the most
   recent window; values = recomputation from those series) is decided by the executed oracle. *)
From Coq Require Import List Arith Bool.
From MM Require Import lib.ListSet model.DesignStore proofs.DesignStoreProofs.
Import ListNotations.

(* whatever the filters keep and whatever the enumeration order: at the end of the search every
   stored design's two diagnostics objects (the one in its score and its own) hold the series
   aggregated from exactly its own treatment and control group, and no object is shared *)
Theorem C04_stored_diagnostics_belong_to_design :
  forall (keep : set -> set -> bool) (work : list (set * list set)),
    let st := exhaustive_store keep work in
    (forall d, In d (snd st) ->
       holds (fst st) (sd_diag d) (sd_T d) (sd_C d) /\ holds (fst st) (sd_score_diag d) (sd_T d) (sd_C d)) /\
    NoDup (refs (snd st)).
Proof.
  intros keep work. destruct (exhaustive_store_well keep work) as [H1 H2]. split; [|exact H2].
  intros d Hd. destruct (H1 d Hd) as [_ [_ [H3 H4]]]. split; assumption.
Qed.
Print Assumptions C04_stored_diagnostics_belong_to_design.

(* without the deep copy the statement is false: the reused object is overwritten *)
Example C04_aliasing_would_break :
  let s := update (fst (alloc [] {| o_y := [0]; o_x := None |})) 0 {| o_y := [0]; o_x := Some [1] |} in
  let stored := 0 in                                   (* a design for control {1} keeping a reference, not a copy *)
  let s' := update s 0 {| o_y := [0]; o_x := Some [2] |} in
  ~ holds s' stored [0] [1].
Proof. cbv. intro H. discriminate. Qed.
