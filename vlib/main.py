"""./check <property> [--tier quick|thorough] [--replay file]"""
import importlib
import warnings
import json
import os
import sys
import traceback


def main(argv):
  warnings.filterwarnings('ignore')
  try:
    import statsmodels.tools.sm_exceptions  # noqa: F401  (imports that reset warning filters come first)
    import statsmodels.api  # noqa: F401
    warnings.filterwarnings('ignore')
  except Exception:
    pass
  if not argv:
    print(__doc__)
    return 2
  prop = argv[0]
  tier = os.environ.get('VERIF_TIER', 'quick')
  replay = None
  i = 1
  while i < len(argv):
    if argv[i] == '--tier':
      tier = argv[i + 1]; i += 2
    elif argv[i] == '--replay':
      replay = argv[i + 1]; i += 2
    else:
      print('unknown argument', argv[i]); return 2
  if tier not in ('quick', 'thorough'):
    tier = 'quick'
  try:
    mod = importlib.import_module('vlib.' + prop.lower())
  except ImportError as e:
    print('no check for', prop, e)
    return 2
  if replay:
    data = json.load(open(replay))
    return mod.replay(data)
  # has a source file this property is anchored in changed since the models and generators were validated against it?
  try:
    import subprocess
    from . import common
    anchors = [json.loads(l) for l in open(os.path.join(common.VERIF, 'properties.jsonl'))]
    files = next(a['anchors']['files'] for a in anchors if a['id'] == prop.upper())
    # same interpreter as the translator (python3): AST dumps differ between Python versions
    r = subprocess.run(['python3', os.path.join(common.VERIF, 'translate', 'fingerprint.py'), '--repo', common.REPO] + sorted(set(files)),
                       capture_output=True, text=True, timeout=60)
    changed = [l.strip() for l in r.stdout.split('\n') if l.strip()]
    if changed and r.returncode == 0:
      os.environ['VERIF_ESCALATED'] = ','.join(os.path.basename(f) for f in changed)
  except Exception:
    pass
  return mod.run(tier)


if __name__ == '__main__':
  sys.exit(main(sys.argv[1:]))
