From Coq Require Import List ZArith Bool.
From MM Require Import model.Dates gen.Gen_Dates harness.RunCommon.
Import ListNotations.
Open Scope Z_scope.

Fixpoint ins_z (x : Z) (l : list Z) : list Z :=
  match l with [] => [x] | y :: l' => if x <=? y then x :: l else y :: ins_z x l' end.
Definition sort_z (l : list Z) := fold_right ins_z [] l.
Definition date_eqb (a b : date) : bool :=
  let '(y1, m1, d1) := a in let '(y2, m2, d2) := b in (y1 =? y2) && (m1 =? m2) && (d1 =? d2).
(* entries and what the implementation answered: None = ValueError, Some = sorted calendar days *)
Definition case := (list entry * option (list date))%type.
Definition model_out (es : list entry) : option (list date) :=
  match days_to_exclude es with
  | RaiseValueError => None
  | Ok ds => Some (map civil_from_days (sort_z ds))
  end.
(* the same with the translated expand_time_windows / TimeWindow constructor in place of the model's *)
Definition gen_out (es : list entry) : option (list date) :=
  match windows_of es with
  | RaiseValueError => None
  | Ok ws => if existsb (fun w => gen_timewindow_raises (fst w) (snd w)) ws then None
             else Some (map civil_from_days (sort_z (gen_expand_time_windows ws)))
  end.
Definition agrees (c : case) : bool :=
  option_eqb (list_eqb date_eqb) (model_out (fst c)) (snd c) && option_eqb (list_eqb date_eqb) (gen_out (fst c)) (snd c).
