(* The greedy search (model/Search.v): every design it returns passed the final
   filter (C02), and is a legal assignment (C01) -- by an invariant of the hill climb. *)
From Coq Require Import List Arith ZArith Bool Lia PrimFloat Sorting.Permutation.
From MM Require Import lib.ListExtra lib.ListSet lib.Combi lib.Values model.Heap model.Elig model.SearchParams
  model.SearchDefs model.Search proofs.EligProofs proofs.GroupSpecs proofs.HeapGen.
Import ListNotations.
Open Scope Z_scope.

Section Greedy.
  Context {V K : Type} (O : vops V) (ltk : K -> K -> bool).
  Variables (es : list elig) (par : spar V).
  Variables (shareS : set -> V) (bud : set -> set -> V) (gkey : set -> set -> K) (zero_key : K).
  Let A := assignments_of es.
  Notation row i := (nth i es elig_zero).
  Notation gwithin := (gwithin O A par shareS).
  Notation budget_out := (budget_out O par).
  Notation gfinal := (gfinal O ltk A par shareS bud gkey).
  Notation gstep := (gstep O ltk A par shareS bud gkey zero_key).
  Notation gloop := (gloop O ltk A par shareS bud gkey zero_key).
  Notation ginit := (ginit A).

  (* ---------------- the final filter ---------------- *)
  Lemma In_drop_key d k e : In e (drop_key d k) -> In e d.
  Proof. unfold drop_key. rewrite filter_In. tauto. Qed.

  Theorem gfinal_filtered s T C : In (T, C) (gfinal s) ->
    gwithin T C = true /\ budget_out (bud T C) = false /\
    exists k, In (k, T) (gs_star_trt s) /\ C = lookup (gs_star_ctl s) k.
  Proof.
    unfold Search.gfinal. cbv zeta. intro H. apply nlargest_In in H.
    rewrite (fold_cond_push_gen ltk (fun d => gkey (fst d) (snd d)) (p_n_designs par)
               (fun e => gwithin (snd e) (lookup (gs_star_ctl s) (fst e)) &&
                         negb (budget_out (bud (snd e) (lookup (gs_star_ctl s) (fst e)))))
               (fun e => (snd e, lookup (gs_star_ctl s) (fst e)))) in H.
    apply fold_push_incl in H. cbn [app] in H. apply in_map_iff in H.
    destruct H as [[k T'] [E H]]. cbn [fst snd] in E. injection E as E1 E2. subst T' C.
    apply filter_In in H. destruct H as [Hin Hok]. cbn [fst snd] in Hok.
    apply andb_true_iff in Hok. destruct Hok as [H1 H2]. apply negb_true_iff in H2.
    split; [exact H1|split; [exact H2|]]. exists k. split; [|reflexivity].
    apply In_drop_key in Hin. destruct (_ && _ && _); [apply In_drop_key in Hin|]; exact Hin.
  Qed.

  (* ---------------- the invariant of the hill climb ---------------- *)
  Definition good (T C : set) : Prop :=
    NoDup T /\ NoDup C /\ disjoint T C /\
    incl (a_t_fixed A) T /\ incl T (a_t A) /\ incl (a_c_fixed A) C /\ incl C (a_c A) /\
    (forall i, In i (a_ct A) -> In i T \/ In i C).

  Lemma NoDup_snoc (l : set) g : NoDup l -> ~ In g l -> NoDup (l ++ [g]).
  Proof.
    intros Hl Hg. apply NoDup_app_intro; [exact Hl|constructor; [intros []|constructor]|].
    intros x Hx [<-|[]]. contradiction.
  Qed.
  Lemma union_single_notin (l : set) g : ~ In g l -> union l [g] = l ++ [g].
  Proof. intro H. unfold union. cbn. rewrite (proj2 (mem_false g l) H). reflexivity. Qed.
  Lemma union_single_in (l : set) g : In g l -> union l [g] = l.
  Proof. intro H. unfold union. cbn. rewrite (proj2 (mem_spec g l) H). cbn. apply app_nil_r. Qed.

  Lemma x_not_c_fixed i : In i (a_x A) -> In i (a_c_fixed A) -> False.
  Proof. subst A. intros H1 H2. apply In_x in H1. apply In_c_fixed in H2. unfold p_c_fixed in H2.
    destruct (row i) as [[] [] []]; cbn in *; intuition congruence. Qed.
  Lemma x_not_ct i : In i (a_x A) -> In i (a_ct A) -> False.
  Proof. subst A. intros H1 H2. apply In_x in H1. apply In_ct in H2. unfold p_ct in H2.
    destruct (row i) as [[] [] []]; cbn in *; intuition congruence. Qed.

  Lemma good_toggle T ctl g : good T ctl ->
    In g (union (diff (a_c A) (union ctl T)) (diff (inter ctl (a_x A)) T)) -> good T (toggle g ctl).
  Proof.
    intros [H1 [H2 [H3 [H4 [H5 [H6 [H7 H8]]]]]]] Hg. apply In_union in Hg. unfold toggle.
    destruct (mem g ctl) eqn:E.
    - (* g leaves control: it must be an excludable geo *)
      apply mem_spec in E. destruct Hg as [Hg|Hg]; [apply In_diff in Hg; destruct Hg as [_ Hg]; exfalso; apply Hg, In_union; left; exact E|].
      apply In_diff in Hg. destruct Hg as [Hg _]. apply In_inter in Hg. destruct Hg as [_ Hx].
      repeat split; try assumption.
      + apply NoDup_diff. exact H2.
      + intros x Hx1 Hx2. apply In_diff in Hx2. apply (H3 x Hx1). apply Hx2.
      + intros x Hc. apply In_diff. split; [apply H6; exact Hc|]. intros [<-|[]]. eapply x_not_c_fixed; eassumption.
      + intros x Hd. apply In_diff in Hd. apply H7, Hd.
      + intros i Hi. destruct (H8 i Hi) as [Ht|Hc]; [left; exact Ht|right]. apply In_diff. split; [exact Hc|].
        intros [<-|[]]. eapply x_not_ct; eassumption.
    - (* g joins control *)
      apply mem_false in E. destruct Hg as [Hg|Hg]; [|apply In_diff in Hg; destruct Hg as [Hg _]; apply In_inter in Hg; tauto].
      apply In_diff in Hg. destruct Hg as [Hc Hn]. rewrite In_union in Hn.
      rewrite (union_single_notin _ _ E). repeat split; try assumption.
      + apply NoDup_snoc; assumption.
      + intros x Hx1 Hx2. apply in_app_or in Hx2. destruct Hx2 as [Hx2|[<-|[]]]; [apply (H3 x Hx1 Hx2)|tauto].
      + apply incl_appl. exact H6.
      + apply incl_app; [exact H7|]. intros x [<-|[]]. exact Hc.
      + intros i Hi. destruct (H8 i Hi) as [Ht|Hc']; [left; exact Ht|right; apply in_or_app; left; exact Hc'].
  Qed.

  Lemma good_augment T ctl g : good T ctl -> In g (diff (a_t A) T) -> good (union T [g]) (diff ctl [g]).
  Proof.
    intros [H1 [H2 [H3 [H4 [H5 [H6 [H7 H8]]]]]]] Hg. apply In_diff in Hg. destruct Hg as [Ht Hn].
    rewrite (union_single_notin _ _ Hn). repeat split.
    - apply NoDup_snoc; assumption.
    - apply NoDup_diff. exact H2.
    - intros x Hx1 Hx2. apply In_diff in Hx2. destruct Hx2 as [Hx2 Hx3]. apply in_app_or in Hx1.
      destruct Hx1 as [Hx1|[<-|[]]]; [apply (H3 x Hx1 Hx2)|apply Hx3; left; reflexivity].
    - apply incl_appl. exact H4.
    - apply incl_app; [exact H5|]. intros x [<-|[]]. exact Ht.
    - intros x Hc. apply In_diff. split; [apply H6; exact Hc|]. intros [<-|[]].
      eapply (c_fixed_not_t es); eassumption.
    - intros x Hd. apply In_diff in Hd. apply H7, Hd.
    - intros i Hi. destruct (Nat.eq_dec i g) as [->|Hne]; [left; apply in_or_app; right; left; reflexivity|].
      destruct (H8 i Hi) as [Hti|Hc]; [left; apply in_or_app; left; exact Hti|right]. apply In_diff.
      split; [exact Hc|]. intros [E|[]]. congruence.
  Qed.

  Lemma ascending_In l x : In x (ascending l) <-> In x l.
  Proof.
    unfold ascending. induction l as [|y l IH]; cbn; [tauto|].
    assert (G : forall a s, In x (ins_nat a s) <-> a = x \/ In x s).
    { intros a s. induction s as [|z s IHs]; cbn; [tauto|]. destruct (a <=? z)%nat; cbn; [tauto|]. rewrite IHs. tauto. }
    rewrite G, IH. tauto.
  Qed.

  (* the result of a control scan is the current control group or one toggle away from it *)
  Lemma match_scan_good k T ctl : good T ctl ->
    good T (fst (match_scan O ltk A par shareS bud gkey k T ctl)).
  Proof.
    intro Hg. unfold match_scan.
    set (cands := ascending _).
    assert (Hc : forall g, In g cands -> In g (union (diff (a_c A) (union ctl T)) (diff (inter ctl (a_x A)) T)))
      by (intros g Hin; unfold cands in Hin; apply (proj1 (ascending_In _ _)) in Hin; exact Hin).
    clearbody cands. generalize (gkey T ctl). intro k0.
    assert (G : forall l (acc : set * K), (forall g, In g l -> In g cands) -> good T (fst acc) ->
      good T (fst (fold_left (fun acc g => let nb := toggle g ctl in
        if candidate_ok O A par shareS bud k T nb then (if ltk (snd acc) (gkey T nb) then (nb, gkey T nb) else acc) else acc) l acc))).
    { induction l as [|g l IH]; intros acc Hl Ha; cbn [fold_left]; [exact Ha|]. apply IH.
      - intros g' Hg'. apply Hl. right. exact Hg'.
      - cbv zeta. destruct (candidate_ok _ _ _ _ _ _ _ _); [|exact Ha]. destruct (ltk _ _); [|exact Ha].
        cbn [fst]. apply good_toggle; [exact Hg|]. apply Hc, Hl. left. reflexivity. }
    apply G; [auto|exact Hg].
  Qed.

  Lemma augment_scan_good k T ctl_star : good T ctl_star ->
    let r := augment_scan O ltk A par shareS bud gkey zero_key k T ctl_star in
    (snd r = true -> good (fst (fst (fst r))) (snd (fst (fst r)))) /\
    (snd r = false -> fst (fst (fst r)) = T).
  Proof.
    intro Hg. unfold augment_scan.
    set (cands := ascending _).
    assert (Hc : forall g, In g cands -> In g (diff (a_t A) T)) by (intros g Hin; unfold cands in Hin; apply (proj1 (ascending_In _ _)) in Hin; exact Hin).
    clearbody cands.
    set (P := fun r : set * set * K * bool =>
      (snd r = true -> good (fst (fst (fst r))) (snd (fst (fst r)))) /\ (snd r = false -> fst (fst (fst r)) = T)).
    assert (G : forall l acc, (forall g, In g l -> In g cands) -> P acc ->
      P (fold_left (fun (acc : set * set * K * bool) g => let aug := union T [g] in let upd := diff ctl_star [g] in
        if candidate_ok O A par shareS bud k aug upd
        then (if ltk (snd (fst acc)) (gkey aug upd) then (aug, upd, gkey aug upd, true) else acc) else acc) l acc)).
    { induction l as [|g l IH]; intros acc Hl Ha; cbn [fold_left]; [exact Ha|]. apply IH.
      - intros g' Hg'. apply Hl. right. exact Hg'.
      - cbv zeta. destruct (candidate_ok _ _ _ _ _ _ _ _); [|exact Ha]. destruct (ltk _ _); [|exact Ha].
        split; cbn [fst snd]; [intros _|discriminate]. apply good_augment; [exact Hg|]. apply Hc, Hl. left. reflexivity. }
    cbv zeta. apply G; [auto|]. split; cbn [fst snd]; [discriminate|reflexivity].
  Qed.

  (* association lists *)
  Definition has_key (d : list (Z * set)) (k : Z) : bool := existsb (fun e => fst e =? k) d.
  Lemma lookup_store_same d k s : lookup (store d k s) k = s.
  Proof. induction d as [|[k' s'] d IH]; cbn; [rewrite Z.eqb_refl; reflexivity|].
    destruct (k' =? k) eqn:E; cbn; rewrite E; [reflexivity|exact IH]. Qed.
  Lemma lookup_store_other d k k2 s : k2 <> k -> lookup (store d k s) k2 = lookup d k2.
  Proof.
    intro Hne. induction d as [|[k' s'] d IH]; cbn.
    - destruct (Z.eqb_spec k k2); [congruence|reflexivity].
    - destruct (Z.eqb_spec k' k) as [->|Hk]; cbn.
      + destruct (Z.eqb_spec k k2); [congruence|reflexivity].
      + destruct (k' =? k2); [reflexivity|exact IH].
  Qed.
  Lemma has_key_store d k k2 s : has_key (store d k s) k2 = (k =? k2) || has_key d k2.
  Proof.
    unfold has_key. induction d as [|[k' s'] d IH]; cbn; [rewrite orb_false_r; reflexivity|].
    destruct (Z.eqb_spec k' k) as [->|Hk]; cbn.
    - destruct (k =? k2); reflexivity.
    - rewrite IH. destruct (k' =? k2), (k =? k2); reflexivity.
  Qed.
  Lemma lookup_no_key d k : has_key d k = false -> lookup d k = [].
  Proof.
    induction d as [|[k' s'] d IH]; cbn; [reflexivity|]. destruct (k' =? k); cbn; [discriminate|exact IH].
  Qed.
  Definition keys (d : list (Z * set)) : list Z := map fst d.
  Lemma store_keys d k s : forall k2, In k2 (keys (store d k s)) <-> In k2 (keys d) \/ k2 = k.
  Proof.
    induction d as [|[k' s'] d IH]; intro k2; cbn; [intuition|].
    destruct (Z.eqb_spec k' k) as [->|Hk]; cbn; [intuition|]. rewrite IH. intuition.
  Qed.
  Lemma store_keys_nodup d k s : NoDup (keys d) -> NoDup (keys (store d k s)).
  Proof.
    induction d as [|[k' s'] d IH]; cbn; intro H; [constructor; [intros []|constructor]|].
    inversion H as [|? ? Hn Hd]; subst. destruct (Z.eqb_spec k' k) as [->|Hk]; cbn; [constructor; assumption|].
    constructor; [|apply IH; exact Hd]. fold (keys (store d k s)). rewrite store_keys. intros [Hin|E]; [contradiction|congruence].
  Qed.
  Lemma In_lookup d k s : NoDup (keys d) -> In (k, s) d -> lookup d k = s.
  Proof.
    induction d as [|[k' s'] d IH]; intros Hn Hin0; [destruct Hin0|]. destruct Hin0 as [E|Hin]; cbn.
    - injection E as -> ->. rewrite Z.eqb_refl. reflexivity.
    - inversion Hn as [|? ? Hnin Hd]; subst. destruct (Z.eqb_spec k' k) as [->|Hk]; [|apply IH; assumption].
      exfalso. apply Hnin. change k with (fst (k, s)). apply in_map. exact Hin.
  Qed.

  Record Inv (s : gstate) : Prop := {
    inv_keys : NoDup (keys (gs_star_trt s));
    inv_cur : good (lookup (gs_star_trt s) (gs_k s)) (gs_ctl s);
    inv_star : forall k, has_key (gs_star_ctl s) k = true ->
                 good (lookup (gs_star_trt s) k) (lookup (gs_star_ctl s) k);
    inv_le : forall k, has_key (gs_star_ctl s) k = true -> k <= gs_k s;
    inv_ready : gs_needs_matching s = false -> has_key (gs_star_ctl s) (gs_k s) = true
  }.

  Lemma good_init : good (a_t_fixed A) (a_c A).
  Proof.
    repeat split.
    - apply NoDup_t_fixed.
    - apply NoDup_c.
    - intros x H1 H2. eapply (t_fixed_not_c es); eassumption.
    - apply incl_refl.
    - intros x Hx. apply (t_fixed_in_t es). exact Hx.
    - intros x Hx. apply (c_fixed_in_c es). exact Hx.
    - apply incl_refl.
    - intros i Hi. right. apply (ct_in_c es). exact Hi.
  Qed.

  Lemma Inv_init : Inv ginit.
  Proof.
    unfold Search.ginit. cbv zeta. constructor; cbn [gs_k gs_needs_matching gs_ctl gs_star_trt gs_star_ctl].
    - constructor; [intros []|constructor].
    - cbn [lookup]. rewrite Z.eqb_refl. exact good_init.
    - intros k Hk. destruct (zlen (a_t_fixed A) =? 0) eqn:E; [|discriminate].
      unfold has_key in Hk. cbn [existsb fst] in Hk. rewrite orb_false_r in Hk. apply Z.eqb_eq in Hk. subst k.
      cbn [lookup]. rewrite E, Z.eqb_refl. exact good_init.
    - intros k Hk. destruct (zlen (a_t_fixed A) =? 0) eqn:E; [|discriminate].
      unfold has_key in Hk. cbn [existsb fst] in Hk. rewrite orb_false_r in Hk. apply Z.eqb_eq in Hk.
      apply Z.eqb_eq in E. lia.
    - intro H. apply negb_false_iff in H. rewrite H. unfold has_key. cbn [existsb fst].
      apply Z.eqb_eq in H. rewrite H. reflexivity.
  Qed.

  Lemma Inv_step s : Inv s -> Inv (gstep s).
  Proof.
    intros [I1 I2 I3 I4 I6]. unfold Search.gstep. cbv zeta.
    destruct (gs_needs_matching s) eqn:Em.
    - pose proof (match_scan_good (gs_k s) _ _ I2) as Hb.
      destruct (match_scan O ltk A par shareS bud gkey (gs_k s) (lookup (gs_star_trt s) (gs_k s)) (gs_ctl s)) as [best bk].
      cbn [fst] in Hb. destruct (ltk _ bk).
      + constructor; cbn [gs_k gs_needs_matching gs_ctl gs_star_trt gs_star_ctl]; try assumption; try discriminate.
      + constructor; cbn [gs_k gs_needs_matching gs_ctl gs_star_trt gs_star_ctl]; try assumption.
        * intros k Hk. rewrite has_key_store in Hk. destruct (Z.eqb_spec (gs_k s) k) as [E|Hne]; [subst k|].
          -- rewrite lookup_store_same. exact Hb.
          -- rewrite lookup_store_other by congruence. apply I3. exact Hk.
        * intros k Hk. rewrite has_key_store in Hk. destruct (Z.eqb_spec (gs_k s) k) as [E|Hne]; [lia|apply I4; exact Hk].
        * intros _. rewrite has_key_store, Z.eqb_refl. reflexivity.
    - specialize (I6 eq_refl).
      pose proof (augment_scan_good (gs_k s) _ _ (I3 _ I6)) as Ha. cbv zeta in Ha.
      destruct (augment_scan O ltk A par shareS bud gkey zero_key (gs_k s) (lookup (gs_star_trt s) (gs_k s))
                  (lookup (gs_star_ctl s) (gs_k s))) as [[[aug upd] bk] accepted].
      cbn [fst snd] in Ha. destruct Ha as [Ha1 Ha2].
      constructor; cbn [gs_k gs_needs_matching gs_ctl gs_star_trt gs_star_ctl].
      + apply store_keys_nodup. exact I1.
      + rewrite lookup_store_same. destruct accepted; [apply Ha1; reflexivity|rewrite (Ha2 eq_refl); exact I2].
      + intros k Hk. pose proof (I4 k Hk). rewrite lookup_store_other by lia. apply I3. exact Hk.
      + intros k Hk. pose proof (I4 k Hk). lia.
      + discriminate.
  Qed.

  Lemma Inv_loop fuel : forall s s', Inv s -> gloop fuel s = Some s' -> Inv s'.
  Proof.
    induction fuel as [|f IH]; intros s s' Hi; cbn [Search.gloop].
    - destruct (gcontinue A par s); [discriminate|]. intro E. injection E as <-. exact Hi.
    - destruct (gcontinue A par s); [|intro E; injection E as <-; exact Hi].
      apply IH. apply Inv_step. exact Hi.
  Qed.

  Lemma gwithin_nonempty T C : gwithin T C = true -> T <> [] /\ C <> [].
  Proof.
    unfold Search.gwithin, within. intro H.
    do 5 (apply andb_true_iff in H; destruct H as [H _]).
    apply andb_true_iff in H. destruct H as [H1 H2]. apply negb_true_iff in H1, H2.
    split; intros ->; discriminate.
  Qed.

  Theorem gfinal_good s T C : Inv s -> In (T, C) (gfinal s) ->
    good T C /\ gwithin T C = true /\ budget_out (bud T C) = false.
  Proof.
    intros [I1 I2 I3 I4 I6] H. apply gfinal_filtered in H. destruct H as [Hw [Hb [k [Hin ->]]]].
    split; [|split; assumption].
    destruct (has_key (gs_star_ctl s) k) eqn:Hk.
    - rewrite <- (In_lookup _ _ _ I1 Hin). apply I3. exact Hk.
    - apply gwithin_nonempty in Hw. rewrite (lookup_no_key _ _ Hk) in Hw. tauto.
  Qed.

  Lemma good_legal T C : good T C -> T <> [] -> C <> [] -> legal es T C.
  Proof.
    intros [H1 [H2 [H3 [H4 [H5 [H6 [H7 H8]]]]]]] HT HC. repeat split; try assumption.
    - apply (In_t es). apply H5. assumption.
    - apply (In_t es). apply H5. assumption.
    - apply (In_c es). apply H7. assumption.
    - apply (In_c es). apply H7. assumption.
    - intros i Hi Hv Hx. destruct (row i) as [[] [] []] eqn:Er; cbn in Hv, Hx; try discriminate.
      + apply H8. apply (In_ct es). split; [exact Hi|rewrite Er; reflexivity].
      + right. apply H6. apply (In_c_fixed es). split; [exact Hi|rewrite Er; reflexivity].
      + left. apply H4. apply (In_t_fixed es). split; [exact Hi|rewrite Er; reflexivity].
  Qed.

  Theorem greedy_good fuel ds T C :
    greedy O ltk A par shareS bud gkey zero_key fuel = Some ds -> In (T, C) ds ->
    good T C /\ gwithin T C = true /\ budget_out (bud T C) = false.
  Proof.
    unfold greedy. destruct (gloop fuel ginit) as [s|] eqn:E; [|discriminate]. intro H. injection H as <-.
    intro Hin. apply (gfinal_good s); [|exact Hin]. exact (Inv_loop _ _ _ Inv_init E).
  Qed.

  (* C01 / C02 for the greedy search, for every amount of fuel *)
  Theorem greedy_sound fuel ds T C :
    greedy O ltk A par shareS bud gkey zero_key fuel = Some ds -> In (T, C) ds ->
    legal es T C /\ gwithin T C = true /\ budget_out (bud T C) = false.
  Proof.
    unfold greedy. destruct (gloop fuel ginit) as [s|] eqn:E; [|discriminate]. intro H. injection H as <-.
    intro Hin. pose proof (Inv_loop _ _ _ Inv_init E) as Hi.
    destruct (gfinal_good s T C Hi Hin) as [Hg [Hw Hb]]. split; [|split; assumption].
    destruct (gwithin_nonempty _ _ Hw). apply good_legal; assumption.
  Qed.
End Greedy.

(* with scores in a total order: the greedy result is sorted best-first and capped (C14) *)
From Coq Require Import Orders.
From MM Require Import proofs.HeapProofs.
Module GreedyTopK (K : UsualOrderedTypeFull').
  Module HP := HeapProofs K.
  Section S.
    Context {V : Type} (O : vops V).
    Variables (A : assignments) (par : spar V).
    Variables (shareS : set -> V) (bud : set -> set -> V) (gkey : set -> set -> K.t) (zero_key : K.t).
    Notation key := (fun d : design => gkey (fst d) (snd d)).

    Theorem greedy_sorted_capped fuel ds :
      greedy O HP.kltb A par shareS bud gkey zero_key fuel = Some ds ->
      HP.desc (map key ds) /\ (length ds <= p_n_designs par)%nat.
    Proof.
      unfold greedy. destruct (gloop _ _ _ _ _ _ _ _ _ _) as [s|]; [|discriminate]. intro E. injection E as <-.
      unfold gfinal. cbv zeta.
      rewrite (fold_cond_push_gen HP.kltb key (p_n_designs par)
                 (fun e => gwithin O A par shareS (snd e) (lookup (gs_star_ctl s) (fst e)) &&
                           negb (budget_out O par (bud (snd e) (lookup (gs_star_ctl s) (fst e)))))
                 (fun e => (snd e, lookup (gs_star_ctl s) (fst e)))).
      split; [apply HP.heap_sorted|apply HP.heap_capped].
    Qed.
  End S.
End GreedyTopK.
