(* C12 -- Search results are invariant to how the input is presented.
   In the model the searches see geos only as positions in the canonical order and scores only
   through comparisons: the theorems below say that any two score oracles agreeing on every
   comparison (scores before / after a positive rescaling of the response; score tuples / their
   dense ranks) give the same result, for the bounded heap and for the whole exhaustive search.
   Row order, date offsets, ID dtype and renamings act on the canonical data object (C15) and are
   decided here by executed metamorphic pairs. *)
From Coq Require Import List Arith ZArith Bool.
From MM Require Import lib.ListSet lib.Values model.Heap model.Elig model.SearchParams model.SearchDefs model.Search
  proofs.OrderIso.
Import ListNotations.

Theorem C12_heap_depends_on_comparisons_only :
  forall (K K' A : Type) (ltk : K -> K -> bool) (ltk' : K' -> K' -> bool) (key : A -> K) (key' : A -> K'),
    (forall a b, lt_item ltk key a b = lt_item ltk' key' a b) ->
    forall k xs q, nlargest_all ltk key (fold_left (push ltk key k) xs q)
                   = nlargest_all ltk' key' (fold_left (push ltk' key' k) xs q).
Proof.
  intros K K' A ltk ltk' key key' H k xs q. rewrite (fold_push_iso ltk ltk' key key' H). apply nlargest_iso. exact H.
Qed.
Theorem C12_exhaustive_depends_on_comparisons_only :
  forall (V K K' : Type) (O : vops V) (ltk : K -> K -> bool) (ltk' : K' -> K' -> bool)
         (A : assignments) (par : spar V) (shareS optB : set -> V) (bud : set -> set -> V)
         (skey : set -> set -> K) (skey' : set -> set -> K'),
    (forall T C T' C', ltk (skey T C) (skey T' C') = ltk' (skey' T C) (skey' T' C')) ->
    exhaustive O ltk A par shareS optB bud skey = exhaustive O ltk' A par shareS optB bud skey'.
Proof. exact @exhaustive_order_iso. Qed.
Print Assumptions C12_heap_depends_on_comparisons_only.
Print Assumptions C12_exhaustive_depends_on_comparisons_only.
