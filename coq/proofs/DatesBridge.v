(* The translated utils.expand_time_windows and TimeWindow.__post_init__ (gen/Gen_Dates.v) are the model's. *)
From Coq Require Import List ZArith Bool Lia.
From MM Require Import model.Dates gen.Gen_Dates.
Import ListNotations.
Open Scope Z_scope.

Lemma fold_app_flat {A B} (f : A -> list B) : forall l acc,
  fold_left (fun acc a => acc ++ f a) l acc = acc ++ flat_map f l.
Proof.
  induction l as [|a l IH]; intros acc; cbn [fold_left flat_map].
  - now rewrite app_nil_r.
  - rewrite IH. now rewrite app_assoc.
Qed.

Theorem gen_expand_is_model ws : gen_expand_time_windows ws = expand ws.
Proof.
  unfold gen_expand_time_windows, expand. cbv zeta.
  rewrite (fold_app_flat (fun w => zrange (fst w) (snd w + 1))). reflexivity.
Qed.

(* the constructor of a window raises exactly when the first day is after the last day *)
Theorem gen_timewindow_raises_spec a b : gen_timewindow_raises a b = (b <? a).
Proof.
  unfold gen_timewindow_raises. cbn [negb]. rewrite Z.gtb_ltb. now destruct (b <? a).
Qed.

(* window_of rejects a well-formed range exactly when the translated constructor raises *)
Theorem window_of_range_uses_constructor a b : valid_date a = true -> valid_date b = true ->
  window_of (Range a b) =
  if gen_timewindow_raises (days_from_civil a) (days_from_civil b) then RaiseValueError
  else Ok (days_from_civil a, days_from_civil b).
Proof.
  intros Ha Hb. cbn [window_of]. rewrite Ha, Hb, gen_timewindow_raises_spec. reflexivity.
Qed.
Theorem window_of_single_never_raises_in_constructor d :
  gen_timewindow_raises (days_from_civil d) (days_from_civil d) = false.
Proof. rewrite gen_timewindow_raises_spec. apply Z.ltb_irrefl. Qed.
