#!/usr/bin/env python3
"""Refuses a commit whose evidence files do not come from a quiet run on the unchanged /repo tree."""
import glob, json, subprocess, sys
bad = []
for f in sorted(glob.glob('/verif/evidence/C*.json')):
  d = json.load(open(f)); c = d.get('coverage', {})
  if d.get('violations') != 0:
    bad.append('%s: violations=%s' % (f, d.get('violations')))
  if c.get('obligations') != c.get('discharged'):
    bad.append('%s: discharged %s != obligations %s' % (f, c.get('discharged'), c.get('obligations')))
if subprocess.run(['git', '-C', '/repo', 'status', '--porcelain'], capture_output=True, text=True).stdout.strip():
  bad.append('/repo working tree is not clean')
for b in bad:
  print('check_evidence:', b)
sys.exit(1 if bad else 0)
