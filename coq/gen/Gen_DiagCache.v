(* translator refused: Unsupported: lru_cache method _impact_estimate depends on object state: ['y'] *)
Translator_refused_this_source.
