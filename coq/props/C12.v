(* C12 -- Search results are invariant to how the input is presented.
   In the model the searches see geos only as positions in the canonical order and scores only
   through comparisons: the theorems below say that any two score oracles agreeing on every
   comparison (scores before / after a positive rescaling of the response; score tuples / their
   dense ranks) give the same result, for the bounded heap, the whole exhaustive search and the whole greedy search.
   Row order, date offsets, ID dtype and renamings act on the canonical data object (C15) and are
   decided here by executed metamorphic pairs. *)
From Coq Require Import List Arith ZArith Bool.
From MM Require Import lib.ListSet lib.Values model.Heap model.Elig model.SearchParams model.SearchDefs model.Search
  gen.Gen_HeapDict gen.Gen_Exhaustive gen.Gen_Greedy proofs.OrderIso proofs.OrderIsoGreedy proofs.ExhaustiveBridge proofs.GreedyBridge.
Import ListNotations.

Theorem C12_heap_depends_on_comparisons_only :
  forall (K K' A : Type) (ltk : K -> K -> bool) (ltk' : K' -> K' -> bool) (key : A -> K) (key' : A -> K'),
    (forall a b, lt_item ltk key a b = lt_item ltk' key' a b) ->
    forall k xs q, nlargest_all ltk key (fold_left (push ltk key k) xs q)
                   = nlargest_all ltk' key' (fold_left (push ltk' key' k) xs q).
Proof.
  intros K K' A ltk ltk' key key' H k xs q. rewrite (fold_push_iso ltk ltk' key key' H). apply nlargest_iso. exact H.
Qed.
Theorem C12_exhaustive_depends_on_comparisons_only :
  forall (V K K' : Type) (O : vops V) (ltk : K -> K -> bool) (ltk' : K' -> K' -> bool)
         (A : assignments) (par : spar V) (shareS optB : set -> V) (bud : set -> set -> V)
         (skey : set -> set -> K) (skey' : set -> set -> K'),
    (forall T C T' C', ltk (skey T C) (skey T' C') = ltk' (skey' T C) (skey' T' C')) ->
    exhaustive O ltk A par shareS optB bud skey = exhaustive O ltk' A par shareS optB bud skey'.
Proof. exact @exhaustive_order_iso. Qed.
(* the greedy hill climb compares only the all-zero start score and scores of candidate designs *)
Theorem C12_greedy_depends_on_comparisons_only :
  forall (V K K' : Type) (O : vops V) (ltk : K -> K -> bool) (ltk' : K' -> K' -> bool)
         (A : assignments) (par : spar V) (shareS : set -> V) (bud : set -> set -> V)
         (gkey : set -> set -> K) (gkey' : set -> set -> K') (zero_key : K) (zero_key' : K'),
    (forall a a' b b', corr gkey gkey' zero_key zero_key' a a' -> corr gkey gkey' zero_key zero_key' b b' ->
                       ltk a b = ltk' a' b') ->
    forall fuel, greedy O ltk A par shareS bud gkey zero_key fuel = greedy O ltk' A par shareS bud gkey' zero_key' fuel.
Proof. exact @greedy_order_iso. Qed.
(* stated on the Gallina regenerated on this run from exhaustive_search itself: the groups it returns are those of
   the model, hence depend on the scores only through comparisons *)
Theorem C12_translated_exhaustive_search_depends_on_comparisons_only :
  forall (V K K' : Type) (O : vops V) (ltk : K -> K -> bool) (ltk' : K' -> K' -> bool)
         (A : assignments) (par : spar V) (shareS optB : set -> V) (bud : set -> set -> V)
         (score0 : set -> set -> K) (replace_inv : K -> V -> K) (score0' : set -> set -> K') (replace_inv' : K' -> V -> K'),
    (forall T C T' C', ltk (stored_key O par bud score0 replace_inv T C) (stored_key O par bud score0 replace_inv T' C')
                       = ltk' (stored_key O par bud score0' replace_inv' T C) (stored_key O par bud score0' replace_inv' T' C')) ->
    map (@des_groups K) (dd_get (gen_exhaustive_search O ltk A par shareS optB bud score0 replace_inv) 0%Z)
    = map (@des_groups K') (dd_get (gen_exhaustive_search O ltk' A par shareS optB bud score0' replace_inv') 0%Z).
Proof. intros. rewrite !gen_exhaustive_groups. apply exhaustive_order_iso. assumption. Qed.
Theorem C12_translated_greedy_search_depends_on_comparisons_only :
  forall (V K K' : Type) (O : vops V) (ltk : K -> K -> bool) (ltk' : K' -> K' -> bool)
         (A : assignments) (par : spar V) (shareS : set -> V) (bud : set -> set -> V)
         (gkey : set -> set -> K) (gkey' : set -> set -> K') (zero_key : K) (zero_key' : K'),
    (forall a a' b b', corr gkey gkey' zero_key zero_key' a a' -> corr gkey gkey' zero_key zero_key' b b' ->
                       ltk a b = ltk' a' b') ->
    forall fuel,
      option_map (fun r => map (@des_groups K) (dd_get r 0%Z)) (gen_greedy_search O ltk A par shareS bud gkey zero_key fuel)
      = option_map (fun r => map (@des_groups K') (dd_get r 0%Z)) (gen_greedy_search O ltk' A par shareS bud gkey' zero_key' fuel).
Proof. intros. rewrite !gen_greedy_groups. apply greedy_order_iso. assumption. Qed.
Print Assumptions C12_heap_depends_on_comparisons_only.
Print Assumptions C12_exhaustive_depends_on_comparisons_only.
Print Assumptions C12_greedy_depends_on_comparisons_only.
Print Assumptions C12_translated_exhaustive_search_depends_on_comparisons_only.
Print Assumptions C12_translated_greedy_search_depends_on_comparisons_only.
