(* C09 -- Searches are total: infeasible inputs give an empty list, not a crash.
   The model functions are total Gallina functions; what is proved here is that the points
   where the Python code could raise something other than ValueError are never reached:
   integer division by zero in the translated code, the generators outside their domain,
   and that infeasibility yields [] rather than an error.  (The translator itself refuses any
   `raise` of something other than ValueError in the translated functions.) *)
From Coq Require Import List Arith ZArith Bool Orders.
From MM Require Import lib.ListSet lib.Values model.Heap model.Elig model.SearchParams model.SearchDefs model.Search
  gen.Gen_Search proofs.GroupSpecs proofs.SearchBridge proofs.ExhaustiveProofs proofs.GreedyProofs proofs.TotalityProofs
  proofs.GreedyTermination.
Import ListNotations.
From MM Require Import gen.Gen_HeapDict gen.Gen_Exhaustive gen.Gen_Greedy gen.Gen_Design proofs.ExhaustiveBridge proofs.GreedyBridge proofs.DesignGuard.

Theorem C09_within_constraints_never_divides_by_zero :
  forall (V : Type) (O : vops V) A (par : spar V) shareS T C,
    gen_design_within_constraints_safe O A par shareS T C = true.
Proof. exact @within_no_zero_division. Qed.
Theorem C09_size_generator_never_divides_by_zero :
  forall (V : Type) (O : vops V) A (par : spar V) nt, nt <> 0%Z ->
    gen_control_group_size_generator_safe O A par nt = true.
Proof. exact @csizes_no_zero_division. Qed.
Theorem C09_treatment_generator_called_in_domain :
  forall (V : Type) (es : list elig) (par : spar V) n,
    In n (tsize_range (assignments_of es) par) -> treat_groups_raises n = false.
Proof. exact @treat_generator_in_domain. Qed.
Theorem C09_control_generator_called_in_domain :
  forall (V : Type) (es : list elig) (par : spar V) n T,
    In n (tsize_range (assignments_of es) par) -> In T (treat_groups (assignments_of es) n) ->
    control_groups_raises (assignments_of es) T = false.
Proof. exact @control_generator_in_domain. Qed.
Theorem C09_exhaustive_empty_when_infeasible :
  forall (V K : Type) (O : vops V) (ltk : K -> K -> bool) (es : list elig) (par : spar V)
         (shareS optB : set -> V) (bud : set -> set -> V) (skey : set -> set -> K),
    (forall d, passed O es par shareS bud d -> False) ->
    exhaustive O ltk (assignments_of es) par shareS optB bud skey = [].
Proof. exact @exhaustive_empty_when_infeasible. Qed.
Theorem C09_exhaustive_no_admissible_size :
  forall (V K : Type) (O : vops V) (ltk : K -> K -> bool) (es : list elig) (par : spar V)
         (shareS optB : set -> V) (bud : set -> set -> V) (skey : set -> set -> K),
    tsize_range (assignments_of es) par = [] ->
    exhaustive O ltk (assignments_of es) par shareS optB bud skey = [].
Proof. exact @exhaustive_no_sizes. Qed.
Theorem C09_greedy_empty_when_infeasible :
  forall (V K : Type) (O : vops V) (ltk : K -> K -> bool) (es : list elig) (par : spar V)
         (shareS : set -> V) (bud : set -> set -> V) (gkey : set -> set -> K) (zero_key : K) fuel ds,
    (forall T C, legal es T C -> gwithin O (assignments_of es) par shareS T C = true ->
                 budget_out O par (bud T C) = false -> False) ->
    greedy O ltk (assignments_of es) par shareS bud gkey zero_key fuel = Some ds -> ds = [].
Proof. exact @greedy_empty_when_infeasible. Qed.
(* the generators' guards, as regenerated from the source, are the model's *)
Theorem C09_generated_treat_guard : forall n, gen_treatment_group_generator_raises n = treat_groups_raises n.
Proof. exact bridge_treat_raises. Qed.
Theorem C09_generated_control_guard : forall A T, gen_control_group_generator_raises A T = control_groups_raises A T.
Proof. exact bridge_control_raises. Qed.

(* the design constructor (TBRMMDesign.__post_init__, regenerated: gen/Gen_Design.v) raises ValueError exactly for an
   empty or overlapping pair of groups; it never does for the groups of a design either translated search stores,
   so the constructor calls inside the searches and inside search_results cannot raise *)
Theorem C09_design_constructor_accepts_legal_groups :
  forall (es : list elig) (T C : set), legal es T C -> gen_design_raises T C = false.
Proof. exact legal_groups_pass_the_design_guard. Qed.
Theorem C09_translated_exhaustive_search_never_trips_the_constructor :
  forall (V K : Type) (O : vops V) (ltk : K -> K -> bool) (es : list elig) (par : spar V)
         (shareS optB : set -> V) (bud : set -> set -> V) (score0 : set -> set -> K) (replace_inv : K -> V -> K) d,
    In d (dd_get (gen_exhaustive_search O ltk (assignments_of es) par shareS optB bud score0 replace_inv) 0%Z) ->
    gen_design_raises (fst (des_groups d)) (snd (des_groups d)) = false.
Proof.
  intros. eapply legal_groups_pass_the_design_guard. eapply pushed_legal, results_are_pushed.
  rewrite <- surjective_pairing. eapply gen_exhaustive_in; eassumption.
Qed.
Theorem C09_translated_greedy_search_never_trips_the_constructor :
  forall (V K : Type) (O : vops V) (ltk : K -> K -> bool) (es : list elig) (par : spar V)
         (shareS : set -> V) (bud : set -> set -> V) (gkey : set -> set -> K) (zero_key : K) (fuel : nat) r d,
    gen_greedy_search O ltk (assignments_of es) par shareS bud gkey zero_key fuel = Some r -> In d (dd_get r 0%Z) ->
    gen_design_raises (fst (des_groups d)) (snd (des_groups d)) = false.
Proof.
  intros until d. intros Hr Hd. destruct (gen_greedy_in O ltk _ par shareS bud gkey zero_key fuel r d Hr Hd) as [ds [Hg Hin]].
  eapply legal_groups_pass_the_design_guard. eapply greedy_sound; [exact Hg|]. rewrite <- surjective_pairing. exact Hin.
Qed.

(* the greedy hill climb terminates: scores in a total order, finitely many score values (one per
   pair of geo sets); a fuel above the initial potential yields a result, and more fuel never
   changes it *)
Module C09 (K : UsualOrderedTypeFull').
  Module G := GreedyTerm K.
  Theorem C09_greedy_terminates :
    forall (V : Type) (O : vops V) (A : assignments) (par : spar V)
           (shareS : set -> V) (bud : set -> set -> V) (gkey : set -> set -> K.t) (zero_key : K.t) (L : list K.t),
      (forall T C, In (gkey T C) L) ->
      exists ds, greedy O G.HP.kltb A par shareS bud gkey zero_key
                        (S (G.potential A par gkey L (ginit A))) = Some ds.
  Proof. exact @G.greedy_terminates. Qed.
  Theorem C09_greedy_result_independent_of_fuel :
    forall (V : Type) (O : vops V) (A : assignments) (par : spar V)
           (shareS : set -> V) (bud : set -> set -> V) (gkey : set -> set -> K.t) (zero_key : K.t) f1 f2 ds,
      (f1 <= f2)%nat -> greedy O G.HP.kltb A par shareS bud gkey zero_key f1 = Some ds ->
      greedy O G.HP.kltb A par shareS bud gkey zero_key f2 = Some ds.
  Proof. exact @G.greedy_result_independent_of_fuel. Qed.

  (* stated on the Gallina regenerated on this run from _greedy_search itself (gen/Gen_Greedy.v): the translated
     while loop does not run out of fuel, and more fuel never changes what it returns *)
  Theorem C09_translated_greedy_search_terminates :
    forall (V : Type) (O : vops V) (A : assignments) (par : spar V)
           (shareS : set -> V) (bud : set -> set -> V) (gkey : set -> set -> K.t) (zero_key : K.t) (L : list K.t),
      (forall T C, In (gkey T C) L) ->
      gen_greedy_search O G.HP.kltb A par shareS bud gkey zero_key (S (G.potential A par gkey L (ginit A))) <> None.
  Proof.
    intros V O A par shareS bud gkey zero_key L HL Hn. apply gen_greedy_none_iff in Hn.
    destruct (G.greedy_terminates O A par shareS bud gkey zero_key L HL) as [ds Hds]. congruence.
  Qed.
  Theorem C09_translated_greedy_search_independent_of_fuel :
    forall (V : Type) (O : vops V) (A : assignments) (par : spar V)
           (shareS : set -> V) (bud : set -> set -> V) (gkey : set -> set -> K.t) (zero_key : K.t) f1 f2 r,
      (f1 <= f2)%nat -> gen_greedy_search O G.HP.kltb A par shareS bud gkey zero_key f1 = Some r ->
      exists r', gen_greedy_search O G.HP.kltb A par shareS bud gkey zero_key f2 = Some r' /\
                 map (@des_groups K.t) (dd_get r' 0%Z) = map (@des_groups K.t) (dd_get r 0%Z).
  Proof.
    intros V O A par shareS bud gkey zero_key f1 f2 r Hle Hr.
    pose proof (gen_greedy_groups O G.HP.kltb A par shareS bud gkey zero_key f1) as H1. rewrite Hr in H1. cbn [option_map] in H1.
    symmetry in H1. pose proof (G.greedy_result_independent_of_fuel O A par shareS bud gkey zero_key f1 f2 _ Hle H1) as H2.
    pose proof (gen_greedy_groups O G.HP.kltb A par shareS bud gkey zero_key f2) as H3. rewrite H2 in H3.
    destruct (gen_greedy_search O G.HP.kltb A par shareS bud gkey zero_key f2) as [r'|]; [|discriminate].
    exists r'. split; [reflexivity|]. cbn [option_map] in H3. congruence.
  Qed.
End C09.
Module C09Z := C09 Z.
Print Assumptions C09Z.C09_greedy_terminates.
Print Assumptions C09Z.C09_greedy_result_independent_of_fuel.

Print Assumptions C09_within_constraints_never_divides_by_zero.
Print Assumptions C09_size_generator_never_divides_by_zero.
Print Assumptions C09_control_generator_called_in_domain.
Print Assumptions C09_exhaustive_empty_when_infeasible.
Print Assumptions C09_exhaustive_no_admissible_size.
Print Assumptions C09_greedy_empty_when_infeasible.

(* stated on the Gallina regenerated on this run from exhaustive_search itself (gen/Gen_Exhaustive.v) *)
Theorem C09_translated_exhaustive_search_empty_when_infeasible :
  forall (V K : Type) (O : vops V) (ltk : K -> K -> bool) (es : list elig) (par : spar V)
         (shareS optB : set -> V) (bud : set -> set -> V) (score0 : set -> set -> K) (replace_inv : K -> V -> K),
    (forall d, passed O es par shareS bud d -> False) -> (dd_get (gen_exhaustive_search O ltk (assignments_of es) par shareS optB bud score0 replace_inv) 0%Z) = [].
Proof. intros. apply gen_exhaustive_nil, exhaustive_empty_when_infeasible; assumption. Qed.
Theorem C09_translated_exhaustive_search_no_admissible_size :
  forall (V K : Type) (O : vops V) (ltk : K -> K -> bool) (es : list elig) (par : spar V)
         (shareS optB : set -> V) (bud : set -> set -> V) (score0 : set -> set -> K) (replace_inv : K -> V -> K),
    tsize_range (assignments_of es) par = [] -> (dd_get (gen_exhaustive_search O ltk (assignments_of es) par shareS optB bud score0 replace_inv) 0%Z) = [].
Proof. intros. apply gen_exhaustive_nil, exhaustive_no_sizes; assumption. Qed.
Print Assumptions C09_translated_exhaustive_search_empty_when_infeasible.
Print Assumptions C09_translated_exhaustive_search_no_admissible_size.
Print Assumptions C09Z.C09_translated_greedy_search_terminates.
Print Assumptions C09Z.C09_translated_greedy_search_independent_of_fuel.
Print Assumptions C09_design_constructor_accepts_legal_groups.
Print Assumptions C09_translated_exhaustive_search_never_trips_the_constructor.
Print Assumptions C09_translated_greedy_search_never_trips_the_constructor.
