(* C02: what "within the constraints" means for the designs the two searches return. *)
From Coq Require Import List Arith ZArith Bool Lia PrimFloat.
From MM Require Import lib.ListExtra lib.ListSet lib.Combi lib.Values model.Heap model.Elig model.SearchParams
  model.SearchDefs model.Search proofs.EligProofs proofs.GroupSpecs proofs.HeapGen proofs.ExhaustiveProofs proofs.GreedyProofs.
Import ListNotations.
Open Scope Z_scope.

Definition in_zrange (r : option (Z * Z)) (n : Z) : Prop :=
  match r with Some r => fst r <= n <= snd r | None => True end.

Section C02.
  Context {V K : Type} (O : vops V) (ltk : K -> K -> bool).
  Variables (es : list elig) (par : spar V).
  Let A := assignments_of es.

  Lemma tsize_in_user_range n : In n (tsize_range A par) -> in_zrange (p_treatment_geos_range par) n.
  Proof.
    intro H. apply (tsize_range_In es) in H. unfold in_zrange, tsize_bounds in *.
    destruct (p_treatment_geos_range par) as [r|]; [cbn [fst snd] in H; lia|exact I].
  Qed.
  Lemma csize_in_user_range nt nc : In nc (csizes O A par nt) ->
    in_zrange (p_control_geos_range par) nc /\ ratio_ok O par nt nc = true.
  Proof.
    intro H. apply (csizes_In O es) in H. destruct H as [H1 H2]. split; [|exact H2].
    unfold in_zrange, csize_bounds in *. destruct (p_control_geos_range par) as [r|]; [cbn [fst snd] in H1; lia|exact I].
  Qed.
  (* both ends of the size ranges are admitted *)
  Lemma sizes_inclusive_t n : fst (tsize_bounds A par) <= n <= snd (tsize_bounds A par) -> In n (tsize_range A par).
  Proof. apply (tsize_range_In es). Qed.
  Lemma sizes_inclusive_c nt nc : fst (csize_bounds A par) <= nc <= snd (csize_bounds A par) ->
    ratio_ok O par nt nc = true -> In nc (csizes O A par nt).
  Proof. intros. apply (csizes_In O es). split; assumption. Qed.

  Variables (shareS optB : set -> V) (bud : set -> set -> V) (skey : set -> set -> K).

  Theorem exhaustive_constraints T C : In (T, C) (exhaustive O ltk A par shareS optB bud skey) ->
    in_zrange (p_treatment_geos_range par) (zlen T) /\
    in_zrange (p_control_geos_range par) (zlen C) /\
    ratio_ok O par (zlen T) (zlen C) = true /\
    vol_out O par shareS T C = false /\
    share_out O par shareS T = false /\
    budget_out O par (bud T C) = false.
  Proof.
    intro H. apply results_are_pushed, pushed_sound in H. destruct H as [He [Hv [Hb Hs]]]. cbn [fst snd] in *.
    apply enum_pairs_sound in He. destruct He as [Hn [_ [_ [_ [_ Hc]]]]].
    apply tsize_in_user_range in Hn. apply csize_in_user_range in Hc. tauto.
  Qed.

  (* a constraint left unspecified imposes nothing: with all six unspecified the exhaustive search
     pushes the whole enumerated space *)
  Theorem unspecified_constraints_are_free :
    p_volume_ratio_tolerance par = None -> p_treatment_share_range par = None -> p_budget_range par = None ->
    forall d, In d (enum_pairs O A par) -> In d (pushed O es par shareS optB bud).
  Proof.
    intros Hv Hs Hb [T C] Hd. apply pushed_complete; try exact Hd.
    - unfold vol_out. rewrite Hv. reflexivity.
    - unfold budget_out. rewrite Hb. reflexivity.
    - unfold not_prunable, share_out, opt_over, opt_under. rewrite Hs, Hb. repeat split; try reflexivity.
      intros _ P [n [_ [_ Ho]]]. unfold opt_over in Ho. rewrite Hb in Ho. discriminate.
  Qed.

  Variables (gkey : set -> set -> K) (zero_key : K).

  (* the greedy search: every returned design passed design_within_constraints (with the size
     ranges it filled in where the user gave none) and the budget test *)
  Theorem greedy_constraints fuel ds T C :
    greedy O ltk A par shareS bud gkey zero_key fuel = Some ds -> In (T, C) ds ->
    tsize_ok O (gpar A par) T = true /\ csize_ok O (gpar A par) C = true /\
    volume_ok O par shareS T C = true /\ georatio_ok O par T C = true /\
    share_ok_rel O A par shareS T = true /\ budget_out O par (bud T C) = false.
  Proof.
    intros Hg Hin. destruct (greedy_sound O ltk es par shareS bud gkey zero_key fuel ds T C Hg Hin) as [Hl [Hw Hb]].
    unfold gwithin, within in Hw.
    apply andb_true_iff in Hw. destruct Hw as [Hw Hcs]. apply andb_true_iff in Hw. destruct Hw as [Hw Hts].
    apply andb_true_iff in Hw. destruct Hw as [Hw Hsh]. apply andb_true_iff in Hw. destruct Hw as [Hw Hgr].
    apply andb_true_iff in Hw. destruct Hw as [_ Hvo].
    repeat split; assumption.
  Qed.

  (* reading of the integer range tests when ints embed order-faithfully into the value type
     (true of binary64 for |n| < 2^53) *)
  Hypothesis vofZ_order : forall x y, vltb O (vofZ O x) (vofZ O y) = (x <? y).

  Lemma int_range_ok n r : negb (not_satisfied O (vofZ O n) (vofZ O (fst r)) (vofZ O (snd r))) = true -> fst r <= n <= snd r.
  Proof.
    unfold not_satisfied. rewrite !vofZ_order, negb_true_iff, orb_false_iff, !Z.ltb_ge. lia.
  Qed.
  Theorem greedy_user_size_ranges fuel ds T C :
    greedy O ltk A par shareS bud gkey zero_key fuel = Some ds -> In (T, C) ds ->
    in_zrange (p_treatment_geos_range par) (zlen T) /\ in_zrange (p_control_geos_range par) (zlen C).
  Proof.
    intros Hg Hin. destruct (greedy_constraints fuel ds T C Hg Hin) as [Ht [Hc _]].
    unfold tsize_ok, csize_ok, gpar, g_trange, g_crange in Ht, Hc. cbn [p_treatment_geos_range p_control_geos_range] in Ht, Hc.
    unfold in_zrange. split.
    - destruct (p_treatment_geos_range par) as [r|]; [apply int_range_ok; exact Ht|exact I].
    - destruct (p_control_geos_range par) as [r|]; [apply int_range_ok; exact Hc|exact I].
  Qed.

End C02.
