"""Shared machinery of the /verif checks: translation, Coq build, evaluation of
the model inside Coq, evidence, verdict protocol (VIOLATION / KNOWN-FINDING)."""
import fcntl
import hashlib
import json
import os
import re
import subprocess
import sys
import time

VERIF = os.path.dirname(os.path.dirname(os.path.abspath(__file__)))
REPO = os.environ.get('VERIF_REPO', '/repo')
COQ = os.path.join(VERIF, 'coq')
PY = '/venv/bin/python'
METH = os.path.join(REPO, 'matched_markets', 'methodology')

DEFAULT_SEED = 20260930


def sz(tier, quick, thorough):
  """Number of cases: the quick size, the thorough size, or -- when the source a model was written from has changed
  since it was validated (VERIF_ESCALATED, set by main) -- four times the quick size."""
  if tier == 'thorough':
    return thorough
  if os.environ.get('VERIF_ESCALATED'):
    return min(thorough, 4 * quick)
  return quick


def get_seed():
  try:
    return int(os.environ.get('VERIF_SEED', DEFAULT_SEED))
  except ValueError:
    return DEFAULT_SEED


def sh(cmd, timeout, cwd=None, env=None, input=None):
  """Run a command; returns (returncode, combined output). rc=124 on timeout."""
  e = dict(os.environ)
  if env:
    e.update(env)
  try:
    p = subprocess.run(cmd, cwd=cwd, env=e, input=input, stdout=subprocess.PIPE,
                       stderr=subprocess.STDOUT, timeout=timeout, text=True)
    return p.returncode, p.stdout
  except subprocess.TimeoutExpired as ex:
    out = ex.stdout if isinstance(ex.stdout, str) else (ex.stdout or b'').decode('utf8', 'replace')
    return 124, out + '\n[timeout after %ss]' % timeout


class Lock:
  """Serialises builds of the Coq tree (checks may be started concurrently)."""

  def __init__(self, name='build'):
    self.path = os.path.join(COQ, '.%s.lock' % name)

  def __enter__(self):
    self.f = open(self.path, 'w')
    fcntl.flock(self.f, fcntl.LOCK_EX)
    return self

  def __exit__(self, *a):
    fcntl.flock(self.f, fcntl.LOCK_UN)
    self.f.close()


def translate(targets=None):
  """Regenerate coq/gen from /repo. Returns report dict {target: {...}}."""
  cmd = ['python3', os.path.join(VERIF, 'translate', 'py2v.py'), '--repo', REPO] + list(targets or [])
  with Lock():
    rc, out = sh(cmd, 120)
  try:
    rep = json.loads(out[out.index('{'):])
  except Exception:
    rep = {'_translator': {'ok': False, 'error': 'translator crashed: ' + out[-2000:], 'file': None}}
  return rep


def coq_build(targets, timeout=1500, force=()):
  """make the given .vo targets (paths relative to coq/). `force` files are
  recompiled unconditionally (their output carries Print Assumptions)."""
  with Lock():
    for f in force:
      for ext in ('.vo', '.vok', '.vos', '.glob'):
        try:
          os.remove(os.path.join(COQ, f[:-3] + ext if f.endswith('.vo') else f + ext))
        except OSError:
          pass
    rc, out = sh([os.path.join(COQ, 'build.sh')] + list(targets), timeout, cwd=COQ)
  out = '\n'.join(l for l in out.split('\n') if not re.match(r'^(\?X|TYPECLASSES|SHELF|FUTURE GOALS)', l))
  bad = None
  m = re.search(r'File "\./([^"]+)", line (\d+)', out)
  if rc != 0 and m:
    bad = '%s:%s' % (m.group(1), m.group(2))
  return rc == 0, out, bad


def closure(vfile):
  """.v files (relative to coq/) in the Require-closure of vfile, within MM."""
  seen, todo = [], [vfile]
  while todo:
    f = todo.pop()
    if f in seen or not os.path.exists(os.path.join(COQ, f)):
      continue
    seen.append(f)
    txt = open(os.path.join(COQ, f)).read()
    for m in re.finditer(r'From\s+MM\s+Require\s+(?:Import\s+|Export\s+)?((?:[A-Za-z_]\w*(?:\.[A-Za-z_]\w*)*\s+)*[A-Za-z_]\w*(?:\.[A-Za-z_]\w*)*)\s*\.(?=\s)', txt):
      for mod in m.group(1).split():
        todo.append(mod.replace('.', '/') + '.v')
  return sorted(seen)


STMT = re.compile(r'^\s*(?:Local\s+|Global\s+)?(Theorem|Lemma|Corollary|Example|Fact|Proposition)\s+([A-Za-z0-9_\']+)', re.M)


def statements(vfiles):
  out = []
  for f in vfiles:
    txt = open(os.path.join(COQ, f)).read()
    for m in STMT.finditer(txt):
      out.append('%s:%s' % (f, m.group(2)))
  return out


FORBIDDEN = re.compile(r'\b(Admitted|admit|Axiom|Axioms|Parameter|Parameters|Conjecture|Admit Obligations|Unset Guard Checking|Unset Positivity Checking|Unset Universe Checking|bypass_check|type-in-type|impredicative-set)\b')


def forbidden_scan(vfiles):
  hits = []
  for f in vfiles:
    txt = open(os.path.join(COQ, f)).read()
    txt = re.sub(r'\(\*.*?\*\)', '', txt, flags=re.S)
    for i, line in enumerate(txt.split('\n'), 1):
      if FORBIDDEN.search(line):
        hits.append('%s:%d: %s' % (f, i, line.strip()[:120]))
  return hits


def parse_assumptions(build_out):
  """Axioms printed by Print Assumptions in a build log."""
  ax = []
  closed = build_out.count('Closed under the global context')
  for m in re.finditer(r'^Axioms:\n((?:.+\n)+?)(?=\S|\Z)', build_out, re.M):
    pass
  blocks = re.split(r'\n(?=Axioms:)', build_out)
  for b in blocks:
    if not b.startswith('Axioms:'):
      continue
    for line in b.split('\n')[1:]:
      mm = re.match(r'^([A-Za-z_][A-Za-z0-9_.\']*)\s*:', line)
      if mm:
        ax.append(mm.group(1))
      elif line and not line.startswith(' '):
        break
  return closed, sorted(set(ax))


def coq_eval(name, text, timeout=600):
  """Compile a scratch .v under coq/run/ and return (rc, output)."""
  d = os.path.join(COQ, 'run')
  os.makedirs(d, exist_ok=True)
  path = os.path.join(d, name + '.v')
  with open(path, 'w') as f:
    f.write(text)
  rc, out = sh(['coqc', '-R', COQ, 'MM', '-w', 'none', path], timeout, cwd=d)
  for ext in ('.vo', '.vok', '.vos', '.glob'):
    try:
      os.remove(os.path.join(d, name + ext))
    except OSError:
      pass
  try:
    os.remove(os.path.join(d, '.' + name + '.aux'))
  except OSError:
    pass
  return rc, out


def coq_eval_many(jobs, timeout=900, workers=16):
  """jobs: list of (name, text). Runs coqc on each in parallel; returns {name: (rc, out)}."""
  from concurrent.futures import ThreadPoolExecutor
  res = {}
  with ThreadPoolExecutor(max_workers=workers) as ex:
    futs = {ex.submit(coq_eval, n, t, timeout): n for n, t in jobs}
    for f, n in futs.items():
      res[n] = f.result()
  return res


def parse_nat_list(out):
  """Parse `= [a; b; c] : list nat` (possibly wrapped) from Coq output -> list of int, or None."""
  flat = ' '.join(out.split())
  m = re.search(r'=\s*\[([^\]]*)\]\s*:\s*list', flat)
  if not m:
    m2 = re.search(r'=\s*nil\s*:\s*list', flat)
    return [] if m2 else None
  body = m.group(1).strip()
  if not body:
    return []
  return [int(re.sub(r'%\w+', '', x).strip().strip('()')) for x in body.split(';')]


def zlit(n):
  return '%d' % n if n >= 0 else '(%d)' % n


def coq_list(items):
  return '[' + '; '.join(items) + ']'


def float_lit(v):
  if v != v:
    return 'nan'
  if v == float('inf'):
    return 'infinity'
  if v == float('-inf'):
    return 'neg_infinity'
  h = float(v).hex()
  neg = h.startswith('-')
  h = h.lstrip('-')
  mant, exp = h.split('p')
  lit = '%sp%s' % (mant, exp.lstrip('+'))
  return ('(-%s)' % lit) if neg else lit


# ---------------------------------------------------------------------------
class Check:
  """One run of one property's check."""

  def __init__(self, prop, tier):
    self.prop = prop
    self.tier = tier
    self.seed = get_seed()
    self.t0 = time.time()
    self.broken = []        # tie breaks: dicts {kind, name, detail}
    self.failures = []      # concrete property failures on the implementation
    self.cov = {'evaluations': 0, 'distinct_nontrivial': 0, 'samples': [], 'rule': ''}
    self.assumptions = []
    self.notes = []
    self.known = [k for k in load_known() if k.get('property') == prop]
    self._distinct = set()

  # -- coverage bookkeeping
  def count(self, case_key, nontrivial=True):
    self.cov['evaluations'] += 1
    if nontrivial:
      h = hashlib.sha1(repr(case_key).encode()).hexdigest()
      self._distinct.add(h)
      self.cov['distinct_nontrivial'] = len(self._distinct)

  def sample(self, s, limit=4):
    if len(self.cov['samples']) < limit:
      self.cov['samples'].append(s)

  def tie_broken(self, kind, name, detail=''):
    self.broken.append({'kind': kind, 'name': name,
                        'detail': detail if isinstance(detail, (dict, list)) else str(detail)[-3000:]})

  def fail(self, klass, what, replay):
    """A concrete failure of the property on the implementation."""
    self.failures.append({'class': klass, 'what': what, 'replay': replay})

  # -- proof side
  def prove(self, propfile, targets=None, gen_targets=None, extra=()):
    """Translate, build the property file's closure; records obligations."""
    trans = translate(gen_targets) if gen_targets is not None else {}
    self.cov['translator'] = {k: {'ok': v['ok'], 'error': v['error']} for k, v in trans.items()}
    for k, v in trans.items():
      if not v['ok']:
        self.tie_broken('translator', k, v['error'])
    vo = propfile[:-2] + '.vo'
    ok, out, bad = coq_build([vo] + list(extra) + list(targets or []), force=[vo])
    files = closure(propfile)
    stmts = statements(files)
    hits = forbidden_scan(files)
    closed, axioms = parse_assumptions(out)
    self.cov['obligations'] = len(stmts)
    self.cov['discharged'] = len(stmts) if ok else len(statements(
        [f for f in files if os.path.exists(os.path.join(COQ, f[:-2] + '.vo'))]))
    self.cov['property_theorems'] = [s.split(':')[1] for s in statements([propfile])]
    self.cov['closure_files'] = files
    self.cov['axioms_reported_by_Print_Assumptions'] = axioms
    self.cov['theorems_closed_under_global_context'] = closed
    self.cov['checker_cmd'] = ('cd /verif/coq && python3 ../translate/py2v.py && ./build.sh %s   '
                               '(coqc 8.16.1, full .vo build; Print Assumptions under each property theorem)' % vo)
    if not ok:
      self.tie_broken('proof', bad or vo, out[-2500:])
    if hits:
      self.tie_broken('proof-hygiene', 'forbidden command in development', '\n'.join(hits))
    self.build_log = out
    return ok

  # -- verdict
  def finish(self, level='proof', trusted_base=(), explanation=None):
    known_open = [k for k in self.known if k.get('status') == 'open']
    unlisted, listed = [], {}
    for f in self.failures:
      hit = None
      for k in known_open:
        if k.get('class') == f['class']:
          hit = k
          break
      if hit is None:
        unlisted.append(f)
      else:
        listed.setdefault(hit['id'], (hit, []))[1].append(f)
    lines = []
    rc = 0
    os.makedirs(os.path.join(VERIF, 'replays'), exist_ok=True)
    if unlisted:
      f = unlisted[0]
      path = self._write_replay({'kind': 'failing-input', 'class': f['class'], 'what': f['what'],
                                 'input': f['replay'], 'others': [u['what'] for u in unlisted[1:6]],
                                 'tie_broken': self.broken})
      lines.append('VIOLATION property=%s replay=%s' % (self.prop, path))
      rc = 1
    elif self.broken:
      path = self._write_replay({'kind': 'no-failing-input-found', 'tie_broken': self.broken,
                                 'note': 'a proof obligation, bridge lemma, translator or correspondence no '
                                         'longer checks and the failing-input search found no concrete input'})
      lines.append('VIOLATION property=%s replay=%s no-failing-input-found' % (self.prop, path))
      rc = 1
    for k in known_open:
      seen = listed.get(k['id'])
      lines.append('KNOWN-FINDING: property=%s %s [%s]%s' % (
          self.prop, k['what'], k['id'],
          ' (re-observed on %d generated inputs)' % len(seen[1]) if seen else ' (witness re-run)'))
    self.cov['trusted_base'] = list(trusted_base)
    if explanation:
      self.cov['explanation'] = explanation
    self.cov['tie_broken'] = self.broken
    self.cov['known_findings_reobserved'] = {k: len(v[1]) for k, v in listed.items()}
    self.cov['source_changed_since_validation'] = (os.environ.get('VERIF_ESCALATED') or '').split(',') if os.environ.get('VERIF_ESCALATED') else []
    ev = {'property_id': self.prop, 'tier': self.tier, 'seed': self.seed, 'level': level,
          'coverage': self.cov, 'assumptions': list(self.assumptions),
          'wall_s': round(time.time() - self.t0, 2), 'violations': len(unlisted) + (1 if (self.broken and not unlisted) else 0)}
    os.makedirs(os.path.join(VERIF, 'evidence'), exist_ok=True)
    with open(os.path.join(VERIF, 'evidence', self.prop + '.json'), 'w') as f:
      json.dump(ev, f, indent=1, default=str)
    for l in lines:
      print(l)
    print('%s %s tier=%s seed=%d evaluations=%d distinct=%d obligations=%s/%s wall=%.1fs' % (
        self.prop, 'FAIL' if rc else 'ok', self.tier, self.seed, self.cov['evaluations'],
        self.cov['distinct_nontrivial'], self.cov.get('discharged'), self.cov.get('obligations'),
        time.time() - self.t0))
    sys.stdout.flush()
    return rc

  def _write_replay(self, data):
    data = dict(data, property=self.prop, seed=self.seed, tier=self.tier)
    h = hashlib.sha1(json.dumps(data, sort_keys=True, default=str).encode()).hexdigest()[:10]
    path = os.path.join(VERIF, 'replays', '%s-%s.json' % (self.prop, h))
    with open(path, 'w') as f:
      json.dump(data, f, indent=1, default=str)
    return path


def load_known():
  p = os.path.join(VERIF, 'known_findings.json')
  if not os.path.exists(p):
    return []
  return json.load(open(p)).get('findings', [])


def pmap(fn, items, workers=16, chunksize=1):
  """Parallel map with processes (fork); fn must be a module-level function."""
  import multiprocessing as mp
  if workers <= 1 or len(items) <= 1:
    return [fn(x) for x in items]
  ctx = mp.get_context('fork')
  with ctx.Pool(min(workers, len(items))) as pool:
    return pool.map(fn, items, chunksize)
