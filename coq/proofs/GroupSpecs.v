(* Membership specifications of the size ranges and the two group generators
   (sound and complete), for the assignments of any list of eligibility rows. *)
From Coq Require Import List Arith ZArith Bool Lia PrimFloat Sorting.Permutation.
From MM Require Import lib.ListExtra lib.ListSet lib.Combi lib.Values model.Elig model.SearchParams
  model.SearchDefs proofs.EligProofs.
Import ListNotations.
Open Scope Z_scope.

Definition same_set (a b : set) : Prop := forall x, In x a <-> In x b.
Definition disjoint (a b : set) : Prop := forall x, In x a -> In x b -> False.

Lemma same_set_refl a : same_set a a. Proof. intro; tauto. Qed.
Lemma same_set_sym a b : same_set a b -> same_set b a. Proof. intros H x; symmetry; apply H. Qed.
Lemma same_set_trans a b c : same_set a b -> same_set b c -> same_set a c.
Proof. intros H1 H2 x. rewrite (H1 x). apply H2. Qed.

Lemma union_disjoint a b : disjoint a b -> union a b = a ++ b.
Proof.
  intro H. unfold union. f_equal. induction b as [|x b IH]; [reflexivity|]. cbn.
  destruct (mem x a) eqn:E.
  - apply mem_spec in E. exfalso. apply (H x E). left; reflexivity.
  - cbn. f_equal. apply IH. intros y Hy Hb. apply (H y Hy). right; exact Hb.
Qed.

Lemma zrange_In a b x : In x (zrange a b) <-> a <= x < b.
Proof.
  unfold zrange. rewrite in_map_iff. split.
  - intros [i [<- Hi]]. apply in_seq in Hi. lia.
  - intro H. exists (Z.to_nat (x - a)). split; [lia|]. apply in_seq. lia.
Qed.
Lemma zrange_NoDup a b : NoDup (zrange a b).
Proof.
  unfold zrange. apply FinFun.Injective_map_NoDup; [|apply seq_NoDup]. intros i j H. lia.
Qed.

Lemma sublist_filter {A} (p : A -> bool) l : sublist (filter p l) l.
Proof. induction l as [|a l IH]; cbn; [constructor|]. destruct (p a); constructor; exact IH. Qed.

Lemma NoDup_length_incl_split (S fixed vary : set) :
  NoDup S -> NoDup fixed -> NoDup vary -> disjoint fixed vary -> incl fixed S -> incl S (fixed ++ vary) ->
  (length S = length fixed + length (filter (fun x => mem x S) vary))%nat.
Proof.
  intros HS Hf Hv Hd Hi1 Hi2.
  assert (P : Permutation S (fixed ++ filter (fun x => mem x S) vary)).
  { apply NoDup_Permutation; [exact HS| |].
    - apply NoDup_app_intro; [exact Hf|apply NoDup_filter; exact Hv|].
      intros x H1 H2. apply filter_In in H2. apply (Hd x H1). apply H2.
    - intro x. rewrite in_app_iff, filter_In, mem_spec. split.
      + intro Hx. destruct (in_app_or _ _ _ (Hi2 x Hx)) as [H|H]; [left; exact H|right; split; assumption].
      + intros [H|[_ H]]; [apply Hi1; exact H|exact H]. }
  rewrite (Permutation_length P), app_length. reflexivity.
Qed.

Section WithFixed.
  Variables (fixed vary : set).
  Hypothesis Hf : NoDup fixed.
  Hypothesis Hv : NoDup vary.
  Hypothesis Hd : disjoint fixed vary.

  Lemma with_fixed_sound n G : 1 <= n -> In G (with_fixed fixed vary n) ->
    incl fixed G /\ incl G (fixed ++ vary) /\ NoDup G /\ zlen G = n.
  Proof.
    intros Hn. unfold with_fixed. cbv zeta.
    destruct ((n - zlen fixed =? 0) && negb (is_nil fixed)) eqn:E1.
    - apply andb_true_iff in E1. destruct E1 as [E1 _]. apply Z.eqb_eq in E1.
      intros [<-|[]]. repeat split; [apply incl_refl|apply incl_appl, incl_refl|exact Hf|lia].
    - destruct (n - zlen fixed >? 0) eqn:E2; [|intros []].
      rewrite in_map_iff. intros [comb [<- Hc]].
      assert (Hdc : disjoint fixed comb).
      { intros x H1 H2. apply (Hd x H1). eapply combs_In; eassumption. }
      rewrite (union_disjoint _ _ Hdc). repeat split.
      + apply incl_appl, incl_refl.
      + apply incl_app; [apply incl_appl, incl_refl|apply incl_appr]. intros x Hx. eapply combs_In; eassumption.
      + apply NoDup_app_intro; [exact Hf|eapply combs_NoDup_elem; eassumption|exact Hdc].
      + unfold zlen in *. rewrite app_length, (combs_elem_length _ _ _ Hc). apply Z.gtb_lt in E2. lia.
  Qed.

  Lemma with_fixed_complete n S : 1 <= n -> NoDup S -> incl fixed S -> incl S (fixed ++ vary) -> zlen S = n ->
    exists G, In G (with_fixed fixed vary n) /\ same_set G S.
  Proof.
    intros Hn HS Hi1 Hi2 Hlen. unfold with_fixed. cbv zeta.
    pose proof (NoDup_length_incl_split S fixed vary HS Hf Hv Hd Hi1 Hi2) as Hsplit.
    set (comb := filter (fun x => mem x S) vary) in *.
    assert (Hsame : same_set (fixed ++ comb) S).
    { intro x. unfold comb. rewrite in_app_iff, filter_In, mem_spec. split.
      - intros [H|[_ H]]; [apply Hi1; exact H|exact H].
      - intro Hx. destruct (in_app_or _ _ _ (Hi2 x Hx)) as [H|H]; [left; exact H|right; split; assumption]. }
    destruct ((n - zlen fixed =? 0) && negb (is_nil fixed)) eqn:E1.
    - exists fixed. split; [left; reflexivity|].
      apply andb_true_iff in E1. destruct E1 as [E1 _]. apply Z.eqb_eq in E1.
      assert (Hc0 : comb = []) by (destruct comb; [reflexivity|unfold zlen in *; cbn [length] in Hsplit; lia]).
      rewrite Hc0, app_nil_r in Hsame. exact Hsame.
    - assert (Hpos : n - zlen fixed > 0).
      { unfold zlen in *. apply andb_false_iff in E1. destruct E1 as [E1|E1].
        - apply Z.eqb_neq in E1. lia.
        - apply negb_false_iff, is_nil_spec in E1. rewrite E1 in *. cbn [length] in *. lia. }
      rewrite (proj2 (Z.gtb_lt _ _)) by lia.
      exists (union fixed comb). split.
      + apply in_map. replace (Z.to_nat (n - zlen fixed)) with (length comb) by (unfold zlen in *; lia).
        apply sublist_combs. apply sublist_filter.
      + rewrite union_disjoint; [exact Hsame|].
        intros x H1 H2. apply filter_In in H2. apply (Hd x H1). apply H2.
  Qed.
End WithFixed.

Section Groups.
  Context {V : Type} (O : vops V).
  Variables (es : list elig) (par : spar V).
  Let A := assignments_of es.
  Notation row i := (nth i es elig_zero).

  Ltac cls :=
    repeat match goal with
    | H : In _ (a_c_fixed (assignments_of es)) |- _ => apply In_c_fixed in H
    | H : In _ (a_t_fixed (assignments_of es)) |- _ => apply In_t_fixed in H
    | H : In _ (a_x_fixed (assignments_of es)) |- _ => apply In_x_fixed in H
    | H : In _ (a_ct (assignments_of es)) |- _ => apply In_ct in H
    | H : In _ (a_cx (assignments_of es)) |- _ => apply In_cx in H
    | H : In _ (a_ctx (assignments_of es)) |- _ => apply In_ctx in H
    | H : In _ (a_tx (assignments_of es)) |- _ => apply In_tx in H
    | H : In _ (a_c (assignments_of es)) |- _ => apply In_c in H
    | H : In _ (a_t (assignments_of es)) |- _ => apply In_t in H
    | H : In _ (a_x (assignments_of es)) |- _ => apply In_x in H
    | H : In _ (a_all (assignments_of es)) |- _ => apply In_all in H
    | |- In _ (a_c_fixed (assignments_of es)) => apply In_c_fixed
    | |- In _ (a_t_fixed (assignments_of es)) => apply In_t_fixed
    | |- In _ (a_ct (assignments_of es)) => apply In_ct
    | |- In _ (a_cx (assignments_of es)) => apply In_cx
    | |- In _ (a_ctx (assignments_of es)) => apply In_ctx
    | |- In _ (a_tx (assignments_of es)) => apply In_tx
    | |- In _ (a_c (assignments_of es)) => apply In_c
    | |- In _ (a_t (assignments_of es)) => apply In_t
    | |- In _ (a_x (assignments_of es)) => apply In_x
    | |- In _ (a_all (assignments_of es)) => apply In_all
    end;
    unfold p_c_fixed, p_t_fixed, p_x_fixed, p_ct, p_cx, p_ctx, p_tx, elig_valid in *.
  Ltac rowcase i := destruct (row i) as [[] [] []]; cbn in *; intuition (try congruence; try lia).

  Lemma t_fixed_in_t i : In i (a_t_fixed A) -> In i (a_t A).
  Proof. subst A. intro H. cls. rowcase i. Qed.
  Lemma c_fixed_in_c i : In i (a_c_fixed A) -> In i (a_c A).
  Proof. subst A. intro H. cls. rowcase i. Qed.
  Lemma ct_in_c i : In i (a_ct A) -> In i (a_c A).
  Proof. subst A. intro H. cls. rowcase i. Qed.
  Lemma ct_in_t i : In i (a_ct A) -> In i (a_t A).
  Proof. subst A. intro H. cls. rowcase i. Qed.
  Lemma c_fixed_not_t i : In i (a_c_fixed A) -> In i (a_t A) -> False.
  Proof. subst A. intros H1 H2. cls. rowcase i. Qed.
  Lemma t_fixed_not_c i : In i (a_t_fixed A) -> In i (a_c A) -> False.
  Proof. subst A. intros H1 H2. cls. rowcase i. Qed.
  Lemma NoDup_t : NoDup (a_t A). Proof. apply NoDup_sel. Qed.
  Lemma NoDup_c : NoDup (a_c A). Proof. apply NoDup_sel. Qed.
  Lemma NoDup_t_fixed : NoDup (a_t_fixed A). Proof. apply (NoDup_class es 1). Qed.
  Lemma NoDup_c_fixed : NoDup (a_c_fixed A). Proof. apply (NoDup_class es 0). Qed.
  Lemma NoDup_ct : NoDup (a_ct A). Proof. apply (NoDup_class es 3). Qed.

  (* sizes *)
  Lemma tsize_range_In n : In n (tsize_range A par) <->
    fst (tsize_bounds A par) <= n <= snd (tsize_bounds A par).
  Proof. unfold tsize_range. rewrite zrange_In. lia. Qed.
  Lemma tsize_range_ge1 n : In n (tsize_range A par) -> 1 <= n.
  Proof.
    rewrite tsize_range_In. unfold tsize_bounds, tsize_min.
    destruct (p_treatment_geos_range par) as [[a b]|]; cbn [fst snd]; lia.
  Qed.
  Lemma csizes_In nt nc : In nc (csizes O A par nt) <->
    fst (csize_bounds A par) <= nc <= snd (csize_bounds A par) /\ ratio_ok O par nt nc = true.
  Proof. unfold csizes. rewrite filter_In, zrange_In. intuition lia. Qed.
  Lemma csizes_ge1 nt nc : In nc (csizes O A par nt) -> 1 <= nc.
  Proof.
    rewrite csizes_In. unfold csize_bounds, csize_min.
    destruct (p_control_geos_range par) as [[a b]|]; cbn [fst snd]; lia.
  Qed.
  Lemma csizes_NoDup nt : NoDup (csizes O A par nt).
  Proof. apply NoDup_filter, zrange_NoDup. Qed.

  (* treatment groups *)
  Definition is_treat_group (n : Z) (T : set) : Prop :=
    incl (a_t_fixed A) T /\ incl T (a_t A) /\ NoDup T /\ zlen T = n.

  Lemma t_split : same_set (a_t_fixed A ++ diff (a_t A) (a_t_fixed A)) (a_t A).
  Proof.
    intro x. rewrite in_app_iff, In_diff. split.
    - intros [H|[H _]]; [apply t_fixed_in_t; exact H|exact H].
    - intro H. destruct (in_dec Nat.eq_dec x (a_t_fixed A)); [left; assumption|right; split; assumption].
  Qed.

  Theorem treat_groups_sound n T : In T (treat_groups A n) -> 1 <= n /\ is_treat_group n T.
  Proof.
    unfold treat_groups. destruct (Z.leb_spec n 0) as [|Hn]; [intros []|]. intro H.
    apply with_fixed_sound in H; [|exact NoDup_t_fixed|apply NoDup_diff, NoDup_t| |lia].
    - destruct H as [H1 [H2 [H3 H4]]]. split; [lia|]. repeat split; try assumption.
      intros x Hx. apply t_split. apply H2. exact Hx.
    - intros x H1 H2. apply In_diff in H2. tauto.
  Qed.
  Theorem treat_groups_complete n S : 1 <= n -> is_treat_group n S ->
    exists T, In T (treat_groups A n) /\ same_set T S.
  Proof.
    intros Hn [H1 [H2 [H3 H4]]]. unfold treat_groups. destruct (Z.leb_spec n 0); [lia|].
    apply with_fixed_complete; try assumption; [exact NoDup_t_fixed|apply NoDup_diff, NoDup_t| |].
    - intros x Ha Hb. apply In_diff in Hb. tauto.
    - intros x Hx. apply t_split. apply H2. exact Hx.
  Qed.

  (* control groups, for a treatment group T *)
  Definition is_control_group (T C : set) : Prop :=
    incl (fixed_control A T) C /\ incl C (diff (a_c A) T) /\ NoDup C /\
    In (zlen C) (csizes O A par (zlen T)).

  Lemma fixed_control_NoDup T : NoDup (fixed_control A T).
  Proof. apply NoDup_union; [exact NoDup_c_fixed|apply NoDup_diff, NoDup_ct]. Qed.
  Lemma varying_control_NoDup T : NoDup (varying_control A T).
  Proof. apply NoDup_diff, NoDup_diff, NoDup_c. Qed.
  Lemma fixed_varying_disjoint T : disjoint (fixed_control A T) (varying_control A T).
  Proof. intros x H1 H2. unfold varying_control in H2. apply In_diff in H2. tauto. Qed.
  Lemma control_split T : incl T (a_t A) ->
    same_set (fixed_control A T ++ varying_control A T) (diff (a_c A) T).
  Proof.
    intros HT x. unfold varying_control. rewrite in_app_iff, !In_diff. split.
    - intros [H|H]; [|tauto]. unfold fixed_control in H. apply In_union in H. destruct H as [H|H].
      + split; [apply c_fixed_in_c; exact H|]. intro Hx. eapply c_fixed_not_t; [exact H|apply HT; exact Hx].
      + apply In_diff in H. split; [apply ct_in_c; tauto|tauto].
    - intros [H1 H2]. destruct (in_dec Nat.eq_dec x (fixed_control A T)); [left; assumption|right; tauto].
  Qed.

  Theorem control_groups_sound T C : T <> [] -> incl T (a_t A) ->
    In C (control_groups O A par T) -> is_control_group T C.
  Proof.
    intros Hne HT. unfold control_groups, control_groups_raises.
    destruct T as [|t0 T'] eqn:ET; [congruence|]. rewrite <- ET in *. cbn [is_nil orb].
    assert (E : is_nil (diff T (a_t A)) = true).
    { apply is_nil_spec. destruct (diff T (a_t A)) as [|y l] eqn:Ed; [reflexivity|].
      assert (Hy : In y (diff T (a_t A))) by (rewrite Ed; left; reflexivity).
      apply In_diff in Hy. destruct Hy as [Hy1 Hy2]. exfalso. apply Hy2, HT, Hy1. }
    replace (is_nil T) with false by (rewrite ET; reflexivity). rewrite E. cbn [negb orb].
    rewrite in_flat_map. intros [nc [Hnc HC]].
    apply with_fixed_sound in HC; [|apply fixed_control_NoDup|apply varying_control_NoDup|apply fixed_varying_disjoint|eapply csizes_ge1; exact Hnc].
    destruct HC as [H1 [H2 [H3 H4]]]. repeat split; try assumption.
    - intros x Hx. apply (control_split T HT). apply H2. exact Hx.
    - rewrite H4. exact Hnc.
  Qed.
  Theorem control_groups_complete T S : T <> [] -> incl T (a_t A) -> is_control_group T S ->
    exists C, In C (control_groups O A par T) /\ same_set C S.
  Proof.
    intros Hne HT [H1 [H2 [H3 H4]]]. unfold control_groups, control_groups_raises.
    assert (E : is_nil (diff T (a_t A)) = true).
    { apply is_nil_spec. destruct (diff T (a_t A)) as [|y l] eqn:Ed; [reflexivity|].
      assert (Hy : In y (diff T (a_t A))) by (rewrite Ed; left; reflexivity).
      apply In_diff in Hy. destruct Hy as [Hy1 Hy2]. exfalso. apply Hy2, HT, Hy1. }
    replace (is_nil T) with false by (destruct T; [congruence|reflexivity]). rewrite E. cbn [negb orb].
    destruct (with_fixed_complete (fixed_control A T) (varying_control A T)
                (fixed_control_NoDup T) (varying_control_NoDup T) (fixed_varying_disjoint T) (zlen S) S) as [G [HG Hs]];
      try assumption; try reflexivity.
    - eapply csizes_ge1; exact H4.
    - intros x Hx. apply (control_split T HT). apply H2. exact Hx.
    - exists G. split; [|exact Hs]. apply in_flat_map. exists (zlen S). split; assumption.
  Qed.

  (* the enumerated design space *)
  Theorem enum_pairs_sound T C : In (T, C) (enum_pairs O A par) ->
    In (zlen T) (tsize_range A par) /\ is_treat_group (zlen T) T /\ is_control_group T C.
  Proof.
    unfold enum_pairs. rewrite in_flat_map. intros [n [Hn H]]. rewrite in_flat_map in H.
    destruct H as [T' [HT' H]]. rewrite in_map_iff in H. destruct H as [C' [E HC']]. injection E as -> ->.
    destruct (treat_groups_sound n T HT') as [Hn1 HT].
    assert (Hlen : zlen T = n) by apply HT. rewrite Hlen. split; [exact Hn|split; [exact HT|]].
    apply control_groups_sound; [|apply HT|exact HC'].
    destruct T; [unfold zlen in Hlen; cbn in Hlen; lia|discriminate].
  Qed.
  Theorem enum_pairs_complete S R :
    In (zlen S) (tsize_range A par) -> is_treat_group (zlen S) S -> is_control_group S R ->
    exists T C, In (T, C) (enum_pairs O A par) /\ same_set T S /\ same_set C R.
  Proof.
    intros Hn HS HR. pose proof (tsize_range_ge1 _ Hn) as Hn1.
    destruct (treat_groups_complete (zlen S) S Hn1 HS) as [T [HT Hs]].
    destruct (treat_groups_sound _ _ HT) as [_ HTg].
    assert (HTne : T <> []) by (destruct T; [destruct HTg as [_ [_ [_ Hl]]]; unfold zlen in *; cbn in Hl; lia|discriminate]).
    assert (HRT : is_control_group T R).
    { destruct HR as [H1 [H2 [H3 H4]]]. repeat split; try assumption.
      - intros x Hx. apply H1. unfold fixed_control in *. apply In_union in Hx. apply In_union.
        destruct Hx as [Hx|Hx]; [left; exact Hx|right]. apply In_diff in Hx. apply In_diff. rewrite <- (Hs x). exact Hx.
      - intros x Hx. specialize (H2 x Hx). apply In_diff in H2. apply In_diff. rewrite (Hs x). exact H2.
      - replace (zlen T) with (zlen S); [exact H4|]. destruct HTg as [_ [_ [_ Hl]]]. lia. }
    destruct (control_groups_complete T R HTne (proj1 (proj2 HTg)) HRT) as [C [HC Hc]].
    exists T, C. split; [|split; assumption].
    unfold enum_pairs. apply in_flat_map. exists (zlen S). split; [exact Hn|].
    apply in_flat_map. exists T. split; [exact HT|]. apply in_map. exact HC.
  Qed.
End Groups.

(* ------------------------------------------------------------------------ *)
(* legality of a design w.r.t. the eligibility rows of the admitted geos (C01) *)
Section Legal.
  Variable es : list elig.
  Let A := assignments_of es.
  Notation row i := (nth i es elig_zero).

  Definition legal (T C : set) : Prop :=
    T <> [] /\ C <> [] /\ disjoint T C /\ NoDup T /\ NoDup C /\
    (forall i, In i T -> (i < length es)%nat /\ et (row i) = true) /\
    (forall i, In i C -> (i < length es)%nat /\ ec (row i) = true) /\
    (forall i, (i < length es)%nat -> elig_valid (row i) = true -> ex (row i) = false -> In i T \/ In i C).

  Lemma groups_legal {V} (O : vops V) (par : spar V) T C :
    1 <= zlen T -> is_treat_group es (zlen T) T -> is_control_group O es par T C -> legal T C.
  Proof.
    intros HnT [Ht1 [Ht2 [Ht3 _]]] [Hc1 [Hc2 [Hc3 Hc4]]].
    assert (HnC : 1 <= zlen C) by (eapply csizes_ge1; exact Hc4).
    repeat split; try assumption.
    - destruct T; [unfold zlen in HnT; cbn in HnT; lia|discriminate].
    - destruct C; [unfold zlen in HnC; cbn in HnC; lia|discriminate].
    - intros x Hx Hy. apply Hc2 in Hy. apply In_diff in Hy. tauto.
    - apply (In_t es). apply Ht2. assumption.
    - apply (In_t es). apply Ht2. assumption.
    - apply (In_c es). specialize (Hc2 i H). apply In_diff in Hc2. apply Hc2.
    - apply (In_c es). specialize (Hc2 i H). apply In_diff in Hc2. apply Hc2.
    - intros i Hi Hv Hx.
      destruct (row i) as [[] [] []] eqn:Er; cbn in Hv, Hx; try discriminate.
      + (* ct *) destruct (in_dec Nat.eq_dec i T) as [Hin|Hnin]; [left; exact Hin|right].
        apply Hc1. unfold fixed_control. apply In_union. right. apply In_diff. split; [|exact Hnin].
        apply (In_ct es). split; [exact Hi|]. rewrite Er. reflexivity.
      + (* c only *) right. apply Hc1. unfold fixed_control. apply In_union. left.
        apply (In_c_fixed es). split; [exact Hi|]. rewrite Er. reflexivity.
      + (* t only *) left. apply Ht1. apply (In_t_fixed es). split; [exact Hi|]. rewrite Er. reflexivity.
  Qed.

  Theorem enum_pairs_legal {V} (O : vops V) (par : spar V) T C :
    In (T, C) (enum_pairs O A par) -> legal T C.
  Proof.
    intro H. apply enum_pairs_sound in H. destruct H as [Hn [HT HC]].
    eapply groups_legal; [eapply tsize_range_ge1; exact Hn|exact HT|exact HC].
  Qed.
End Legal.
