"""Common driver of the design-search checks (C01, C02, C03, C04, C09, C10, C11, C13 and
the search half of C14): proof build, seeded cases on the implementation,
correspondence with the Coq model on selected components, direct oracles."""
import collections
import json
import os

from . import common, search, search_oracles as so
from .common import Check

GEN_TARGETS = ['search', 'geoassignments', 'heapdict']
GEN_TARGETS_EXH = GEN_TARGETS + ['exhaustive', 'score']     # properties whose theorems are also stated on the translated exhaustive_search
GEN_TARGETS_ALL = GEN_TARGETS + ['exhaustive', 'greedy', 'results', 'design', 'admission', 'score']   # ... and on the translated _greedy_search / search_results

TRUSTED_BASE = [
    'Coq 8.16.1 kernel and vm_compute (no native_compute); primitive floats (PrimFloat) only in the executable '
    'instance FloatOps used by the correspondence, never in a theorem',
    'axioms: none (Print Assumptions: closed under the global context for every property theorem)',
    'translator translate/py2v.py (targets search, geoassignments, heapdict; exhaustive and greedy for the properties about the searches) '
    'and the bridge lemmas of proofs/SearchBridge.v, proofs/ExhaustiveBridge.v, proofs/GreedyBridge.v; reading of objects by the search targets: a TBRMMDiagnostics object is the '
    'pair of groups whose series it holds, copy.deepcopy snapshots that value, a TBRMMDesign is (score, groups, groups of its diagnostics)',
    'modelled, not verified: numpy/scipy/pandas kernels (aggregate_geo_share, aggregate_time_series, corrcoef, '
    'required impact, A/A, Brownian-bridge, Durbin-Watson tests) enter the model as oracles over index sets; '
    'exhaustive_search and _greedy_search are translated on every run and proved equal to the hand-written models '
    '(proofs/ExhaustiveBridge.v, proofs/GreedyBridge.v; the greedy while loop with explicit fuel; dict reads default to the empty set, '
    'a KeyError is not modelled; sets are iterated in ascending order); search_results is translated too (proofs/ResultsBridge.v; geo_index[x] is an oracle, IndexError not modelled); '
    'geos_within_constraints and the geo index of the geo_assignments property are translated over their pandas selections '
    '(oracles: too-large / over-budget / assignable / must-include sets and the impact order; proofs/AdmissionBridge.v); all are tied by executed correspondence; heapq contract; itertools.combinations order; CPython iteration order of small-int sets '
    '(ascending) -- relevant only when scores tie',
    'harness: kernel tables are computed with fresh TBRMMDiagnostics/TBRMMScore objects; floats in score tuples are '
    'replaced by dense ranks (order- and equality-preserving), NaN by None; threshold values are passed as exact binary64',
]


def worker(args):
  seed, tier, degenerate, want, overrides = args
  case = search.gen_case(seed, tier, degenerate=degenerate)
  if overrides:
    case.update(overrides)
  try:
    out = search.run_case(case, want=want)
  except Exception as e:       # harness failure: reported, never silently dropped
    import traceback
    out = {'build': 'harness-error', 'build_msg': traceback.format_exc()[-800:], 'seed': seed}
  return case, out


def corpus_cases(prop):
  d = os.path.join(common.VERIF, 'corpus')
  out = []
  for f in sorted(os.listdir(d)):
    if f.endswith('.json'):
      c = json.load(open(os.path.join(d, f)))
      if prop in c.get('props', [prop]):
        out.append(c['case'])
  return out


def corpus_worker(args):
  case, want = args
  case = dict(case)
  try:
    out = search.run_case(case, want=want)
  except Exception:
    import traceback
    out = {'build': 'harness-error', 'build_msg': traceback.format_exc()[-800:], 'seed': case.get('seed', 0)}
  return case, out


def slim(case):
  """The replayable part of a case."""
  return {k: v for k, v in case.items()}


def describe(case, out):
  d = {'seed': case['seed'], 'n_geos_in_data': len(case['rows']), 'n_dates': case['n_dates'],
       'eligibility': case['elig'], 'parameters': case.get('par_final', case['par'])}
  if isinstance(out.get('geo_index'), list):
    d['admitted_geos'] = [out['geos'][i] for i in out['geo_index']]
    for nm in ('exhaustive', 'greedy'):
      if nm in out and out[nm].get('outcome') == 'ok':
        d[nm] = [{'T': x['T_ids'], 'C': x['C_ids']} for x in out[nm]['designs']]
      elif nm in out:
        d[nm] = out[nm].get('outcome')
  else:
    d['geo_index'] = out.get('geo_index', out.get('build'))
  return d


def run_family(prop, tier, propfile, components, oracle, n_quick, n_thorough, rule,
               want=('tables', 'components', 'exhaustive', 'greedy'), degenerate_every=5, extra_cases=None,
               nontrivial=None, trusted_extra=(), assumptions=(), post=None, gen_targets=None):
  ck = Check(prop, tier)
  ck.prove(propfile, gen_targets=gen_targets or GEN_TARGETS, extra=['harness/RunSearch.vo'])
  n = common.sz(tier, n_quick, n_thorough)
  base = ck.seed * 100003 + int(prop[1:]) * 1009
  jobs = [(base + i, tier, degenerate_every and i % degenerate_every == 0, want, None) for i in range(n)]
  results = common.pmap(corpus_worker, [(c, want) for c in corpus_cases(prop)]) if corpus_cases(prop) else []
  n_corpus = len(results)
  if extra_cases:
    results += common.pmap(corpus_worker, [(c, want) for c in extra_cases(ck, tier)])
  results += common.pmap(worker, jobs, chunksize=4)
  dist = collections.Counter()
  for case, out in results:
    if out.get('build') == 'harness-error':
      ck.tie_broken('harness', 'harness error on seed %s' % case.get('seed'), out.get('build_msg'))
      continue
    dist['build:' + out['build']] += 1
    if out['build'] != 'ok':
      ck.count(('build', case['seed']), nontrivial=False)
      continue
    gi = out['geo_index']
    dist['admitted:%s' % (len(gi) if isinstance(gi, list) else gi)] += 1
    for nm in ('exhaustive', 'greedy'):
      if nm in out:
        dist['%s:%s' % (nm, out[nm]['outcome'])] += 1
        dist['%s:nonempty' % nm] += bool(out[nm].get('designs'))
    for k in ('treatment_geos_range', 'control_geos_range', 'geo_ratio_tolerance', 'volume_ratio_tolerance',
              'treatment_share_range', 'budget_range', 'n_geos_max'):
      dist['constraint:' + k] += k in case.get('par_final', {})
    dist['history:%s' % (case.get('history') or 'fresh-object')] += 1
    dist['zero-sum-geo'] += 'zero_sum_geo' in case
    dist['volume-drift-with-short-window'] += 'drift' in case
    dist['integer-response-column'] += bool(case.get('int_response'))
    dist['geo-without-rows-on-the-first-dates'] += bool(case.get('missing_head'))
    dist['non-default sig_level / power_level / flevel / rho_max'] += bool(case.get('non_default_statistics'))
    dist['window-bound-between-n-and-2n'] += bool(case.get('window_bound_above_history'))
    dist['integer-parameters-as-floats'] += bool(case.get('float_valued_integers'))
    if case.get('history') == 'second-matcher':
      eff = [out.get('other_index_installed')] + [out[nm].get('other_index_installed') for nm in ('exhaustive', 'greedy') if nm in out]
      dist['history:second-matcher left another geo index on the shared data object'] += any(e is True for e in eff)
    if isinstance(gi, list) and 'pairs' in out:
      dist['ties'] += search.has_ties(out)
    nt = nontrivial(case, out) if nontrivial else (isinstance(gi, list) and len(gi) >= 2)
    ck.count((case['seed'], json.dumps(case.get('par_final', case['par']), sort_keys=True), json.dumps(case['elig'], sort_keys=True)), nontrivial=nt)
    if oracle:
      try:
        oracle(ck, case, out)
      except Exception:
        import traceback
        ck.tie_broken('harness', 'oracle raised on seed %s' % case.get('seed'),
                      {'case': slim(case), 'traceback': traceback.format_exc()[-800:]})
  for case, out in results[n_corpus:n_corpus + 3]:
    ck.sample(describe(case, out))
  outs = [o for _, o in results]
  if components:
    bad, nterms = search.correspond(ck, outs, prop.lower(), components)
    ck.cov['correspondence'] = {'cases_evaluated_in_coq': nterms, 'components_compared': list(components),
                                'disagreements': len(bad)}
    if bad:
      ci, comp = bad[0]
      case, out = results[ci]
      ck.tie_broken('correspondence', 'implementation vs model/Search.v: component %s (%d disagreements in %d cases)'
                    % (comp, len(bad), nterms),
                    {'component': comp, 'case': slim(case), 'summary': describe(case, out),
                     'all': [(results[i][0]['seed'], c) for i, c in bad[:20]]})
  if post:
    post(ck, tier)
  ck.cov['rule'] = rule
  ck.cov['distribution'] = dict(dist)
  ck.cov['corpus_cases'] = n_corpus
  ck.assumptions = list(assumptions)
  return ck.finish('proof', TRUSTED_BASE + list(trusted_extra))


def replay_family(data, oracle, want=('tables', 'components', 'exhaustive', 'greedy')):
  inp = data.get('input')
  if not isinstance(inp, dict) or 'case' not in inp:
    for b in data.get('tie_broken', []):
      if isinstance(b.get('detail'), dict) and 'case' in b['detail']:
        inp = b['detail']
        break
  if not isinstance(inp, dict) or 'case' not in inp:
    print('replay: no executable input recorded; what no longer checks:')
    for b in data.get('tie_broken', []):
      print(' -', b['kind'], b['name'])
    return 1
  case = inp['case']
  out = search.run_case(case, want=want)

  class Collect:
    def __init__(self):
      self.failures = []

    def fail(self, klass, what, replay):
      self.failures.append((klass, what))

    def tie_broken(self, *a):
      self.failures.append(('tie', a))

  ck = Collect()
  oracle(ck, case, out)
  print(json.dumps(describe(case, out), indent=1, default=str))
  if 'component' in inp:
    bad, _ = search.correspond(ck, [out], 'replay', [inp['component']])
    print('model vs implementation on component %s: %s' % (inp['component'], 'DISAGREE' if bad else 'agree'))
    if bad:
      ck.failures.append(('correspondence', inp['component']))
  print('property failures:', ck.failures or 'none')
  return 1 if ck.failures else 0
