import warnings; warnings.filterwarnings('ignore')
import numpy as np, pandas as pd, itertools, heapq, random
from matched_markets.methodology import geoeligibility as G, heapdict
# C14 heapdict random
rnd=random.Random(1); bad=0
for it in range(3000):
    k=rnd.randint(0,5); h=heapdict.HeapDict(k); seen={}
    for _ in range(rnd.randint(0,30)):
        if rnd.random()<0.2:
            r=h.get_result()
            for key in seen:
                exp=sorted(seen[key],reverse=True)[:k]
                if r.get(key,[])!=exp: bad+=1
        else:
            key=rnd.choice([0,'a',1.5]); item=rnd.choice([rnd.randint(0,5),(rnd.randint(0,2),rnd.randint(0,2))]) if False else rnd.randint(0,6)
            h.push(key,item); seen.setdefault(key,[]).append(item)
    r=h.get_result()
    for key in seen:
        if r.get(key,[])!=sorted(seen[key],reverse=True)[:k]: bad+=1
print('heapdict mismatches',bad)
# C16 partition & validation
rows8=list(itertools.product([0,1],repeat=3))
bad=0;n=0
rnd=random.Random(2)
for it in range(2000):
    m=rnd.randint(0,7); rws=[rnd.choice(rows8) for _ in range(m)]
    ids=[str(i) for i in range(m)]
    if rnd.random()<0.1 and m>1: ids[1]=ids[0]
    df=pd.DataFrame({'geo':ids,'control':[r[0] for r in rws],'treatment':[r[1] for r in rws],'exclude':[r[2] for r in rws]})
    if m==0: df=df.astype({'control':int,'treatment':int,'exclude':int})
    expect_ok = len(set(ids))==len(ids) and all(r!=(0,0,0) for r in rws)
    n+=1
    try:
        g=G.GeoEligibility(df); ok=True
    except ValueError: ok=False
    except Exception as e: ok=type(e).__name__
    if ok!=expect_ok: bad+=1; print('validation mismatch', ids, rws, ok); continue
    if not ok or m==0: continue
    sub=[i for i in ids if rnd.random()<0.7]; rnd.shuffle(sub)
    for indices in (False,True):
        if indices and not sub: continue
        ga=g.get_eligible_assignments(sub if sub else None, indices=indices)
        use = sub if sub else ids
        for pos,i in enumerate(use):
            r=rws[ids.index(i)]; ref = pos if indices else i
            cls={'c_fixed':(1,0,0),'t_fixed':(0,1,0),'x_fixed':(0,0,1),'ct':(1,1,0),'cx':(1,0,1),'tx':(0,1,1),'ctx':(1,1,1)}
            mem=[name for name in cls if ref in getattr(ga,name)]
            if mem!=[name for name,v in cls.items() if v==r]: bad+=1; print('class mismatch', i, r, mem)
        if ga.all!=set(range(len(use)) if indices else use): bad+=1; print('all mismatch')
print('C16 cases',n,'bad',bad)
