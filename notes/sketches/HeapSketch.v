From Coq Require Import List ZArith Lia Bool Sorting.Permutation.
Import ListNotations.
Open Scope Z_scope.

Fixpoint ins (x : Z) (l : list Z) : list Z :=
  match l with
  | [] => [x]
  | y :: l' => if y <? x then x :: l else y :: ins x l'
  end.
Definition sortd (l : list Z) : list Z := fold_right ins [] l.
Fixpoint minl (a : Z) (l : list Z) : Z :=
  match l with [] => a | b :: l' => minl (Z.min a b) l' end.
Fixpoint remove1 (x : Z) (l : list Z) : list Z :=
  match l with [] => [] | y :: l' => if y =? x then l' else y :: remove1 x l' end.
Definition push (k : nat) (q : list Z) (x : Z) : list Z :=
  if (length q <? k)%nat then x :: q
  else match q with
       | [] => []
       | a :: q' => let m := minl a q' in if m <? x then x :: remove1 m q else q
       end.
Definition topk (k : nat) (l : list Z) := firstn k (sortd l).

Fixpoint desc (l : list Z) : Prop :=
  match l with [] => True | x :: l' => (forall y, In y l' -> y <= x) /\ desc l' end.

Lemma ins_perm x l : Permutation (ins x l) (x :: l).
Proof. induction l as [|y l IH]; cbn; [reflexivity|].
  destruct (y <? x); [reflexivity|]. rewrite IH. apply perm_swap. Qed.
Lemma ins_desc x l : desc l -> desc (ins x l).
Proof.
  induction l as [|y l IH]; cbn; intros H.
  - split; [intros ? []|exact I].
  - destruct H as [Hy Hd]. destruct (Z.ltb_spec y x) as [Hlt|Hge]; cbn.
    + split; [|split; assumption]. intros z [<-|Hz]; [lia|]. specialize (Hy _ Hz); lia.
    + split; [|apply IH; assumption]. intros z Hz.
      apply (Permutation_in _ (ins_perm x l)) in Hz. destruct Hz as [<-|Hz]; [lia|auto].
Qed.
Lemma sortd_desc l : desc (sortd l).
Proof. induction l; cbn; [exact I| apply ins_desc; assumption]. Qed.
Lemma sortd_perm l : Permutation (sortd l) l.
Proof. induction l; cbn; [reflexivity|]. rewrite ins_perm. constructor; assumption. Qed.
Lemma desc_perm_eq l1 : forall l2, desc l1 -> desc l2 -> Permutation l1 l2 -> l1 = l2.
Proof.
  induction l1 as [|x l1 IH]; intros l2 H1 H2 P.
  - apply Permutation_nil in P; subst; reflexivity.
  - destruct l2 as [|y l2]; [apply Permutation_sym, Permutation_nil in P; discriminate|].
    destruct H1 as [Hx H1], H2 as [Hy H2].
    assert (x = y).
    { assert (Ix : In x (y :: l2)) by (eapply Permutation_in; [exact P|left; reflexivity]).
      assert (Iy : In y (x :: l1)) by (eapply Permutation_in; [apply Permutation_sym; exact P|left; reflexivity]).
      destruct Ix as [->|Ix]; [reflexivity|]. destruct Iy as [->|Iy]; [reflexivity|].
      specialize (Hx _ Iy). specialize (Hy _ Ix). lia. }
    subst y. f_equal. apply IH; try assumption. eapply Permutation_cons_inv; exact P.
Qed.
Lemma sortd_perm_eq l1 l2 : Permutation l1 l2 -> sortd l1 = sortd l2.
Proof. intro P. apply desc_perm_eq; try apply sortd_desc. rewrite !sortd_perm; assumption. Qed.
Lemma sortd_id l : desc l -> sortd l = l.
Proof. intro H. apply desc_perm_eq; [apply sortd_desc|assumption|apply sortd_perm]. Qed.

(* key lemma: top-k of (x :: l) from top-k of l *)
Lemma firstn_ins k x s : desc s ->
  firstn k (ins x s) = firstn k (ins x (firstn k s)).
Proof.
  revert s; induction k as [|k IH]; intros s Hs; [reflexivity|].
  destruct s as [|y s]; [reflexivity|]. cbn [firstn ins].
  destruct (y <? x) eqn:E; cbn [firstn].
  - f_equal. destruct k; reflexivity || (cbn; f_equal).
    clear. revert s; induction k; intros [|? ?]; cbn; try reflexivity. f_equal. auto.
  - f_equal. apply IH. apply Hs.
Qed.

(* ---- push step ---- *)
Lemma length_ins x l : length (ins x l) = S (length l).
Proof. induction l as [|y l IH]; cbn; [reflexivity|]. destruct (y <? x); cbn; [reflexivity|rewrite IH; reflexivity]. Qed.
Lemma length_sortd l : length (sortd l) = length l.
Proof. unfold sortd. induction l as [|a l IH]; cbn; [reflexivity|]. rewrite length_ins, IH; reflexivity. Qed.
Lemma minl_le a l : minl a l <= a /\ forall y, In y l -> minl a l <= y.
Proof.
  revert a; induction l as [|b l IH]; intro a; cbn; [split; [lia|intros ? []]|].
  destruct (IH (Z.min a b)) as [H1 H2]. split; [lia|].
  intros y [<-|Hy]; [lia|auto].
Qed.
Lemma minl_in a l : minl a l = a \/ In (minl a l) l.
Proof.
  revert a; induction l as [|b l IH]; intro a; cbn; [left; reflexivity|].
  destruct (IH (Z.min a b)) as [H|H]; [|right; right; exact H].
  rewrite H. destruct (Z.min_spec a b) as [[_ ->]|[_ ->]]; [left|right; left]; reflexivity.
Qed.
Lemma remove1_perm x l : In x l -> Permutation l (x :: remove1 x l).
Proof.
  induction l as [|y l IH]; [intros []|]. intros Hin. cbn.
  destruct (Z.eqb_spec y x) as [->|Hne]; [reflexivity|].
  destruct Hin as [->|Hin]; [congruence|]. rewrite (IH Hin) at 1. apply perm_swap.
Qed.
(* dropping the last element of a descending list = removing a minimum *)
Lemma desc_app_min s m : desc (s ++ [m]) -> forall y, In y s -> m <= y.
Proof.
  induction s as [|z s IH]; [intros _ ? []|]. cbn. intros [Hz Hd] y [<-|Hy].
  - apply Hz. apply in_or_app; right; left; reflexivity.
  - apply IH; assumption.
Qed.
Lemma firstn_app_len {A} (s : list A) t : firstn (length s) (s ++ t) = s.
Proof. induction s; cbn; [destruct t; reflexivity|]. f_equal; assumption. Qed.

Lemma firstn_in {A} (l : list A) : forall k y, In y (firstn k l) -> In y l.
Proof. induction l as [|w l IH]; intros [|k] y Hy; cbn in *; try contradiction.
  destruct Hy as [<-|Hy]; [left; reflexivity|right; eapply IH; exact Hy]. Qed.
Lemma desc_firstn l : forall k, desc l -> desc (firstn k l).
Proof. induction l as [|z s IH]; intros [|k] H; cbn; try exact I.
  destruct H as [Hz Hd]. split; [|apply IH; exact Hd]. intros y Hy. apply Hz. eapply firstn_in; exact Hy. Qed.
(* two descending lists, each "everything but one minimum" of permutation-equal bags, coincide *)
Lemma topk_step_full k q x : length q = k -> k <> 0%nat ->
  sortd (push k q x) = firstn k (ins x (sortd q)).
Proof.
  intros Hlen Hk. unfold push. rewrite Hlen, Nat.ltb_irrefl.
  destruct q as [|a q']; [cbn in Hlen; lia|].
  set (q := a :: q') in *. set (m := minl a q').
  assert (Hm_in : In m q) by (unfold m, q; destruct (minl_in a q') as [->|H]; [left; reflexivity|right; exact H]).
  assert (Hm_le : forall y, In y q -> m <= y).
  { unfold m, q. destruct (minl_le a q') as [H1 H2]. intros y [<-|Hy]; [exact H1|apply H2; exact Hy]. }
  (* the full sorted list of x :: q *)
  set (full := ins x (sortd q)).
  assert (Hfull_d : desc full) by (apply ins_desc, sortd_desc).
  assert (Hfull_p : Permutation full (x :: q)) by (unfold full; rewrite ins_perm, sortd_perm; reflexivity).
  assert (Hfull_len : length full = S k) by (unfold full; rewrite length_ins, length_sortd; lia).
  (* split full = firstn k full ++ [e] *)
  assert (Hsplit : full = firstn k full ++ skipn k full) by (symmetry; apply firstn_skipn).
  assert (Hsk : length (skipn k full) = 1%nat) by (rewrite skipn_length; lia).
  destruct (skipn k full) as [|e [|? ?]] eqn:Esk; try (cbn in Hsk; lia).
  assert (He_min : forall y, In y (firstn k full) -> e <= y).
  { apply desc_app_min. rewrite <- Hsplit. exact Hfull_d. }
  assert (Hd1 : desc (firstn k full)) by (apply desc_firstn; exact Hfull_d).
  destruct (Z.ltb_spec m x) as [Hlt|Hge].
  - (* x replaces a minimum m *)
    apply desc_perm_eq; [apply sortd_desc|exact Hd1|].
    rewrite sortd_perm.
    (* x :: remove1 m q  ~  firstn k full, via cancelling one minimum *)
    assert (P1 : Permutation (x :: q) (m :: x :: remove1 m q)).
    { rewrite (remove1_perm m q Hm_in) at 1. apply perm_swap. }
    assert (P2 : Permutation (x :: q) (e :: firstn k full)).
    { rewrite <- Hfull_p. rewrite Hsplit at 1. rewrite Permutation_app_comm. reflexivity. }
    assert (e = m).
    { assert (In e (x :: q)) by (eapply Permutation_in; [apply Permutation_sym; exact P2|left; reflexivity]).
      assert (In m (e :: firstn k full)) by (eapply Permutation_in; [exact P2|right; exact Hm_in]).
      destruct H as [<-|He]; destruct H0 as [->|Hm]; try reflexivity.
      - specialize (He_min _ Hm). lia.
      - specialize (He_min _ Hm). specialize (Hm_le _ He). lia. }
    subst e. apply (Permutation_cons_inv (a:=m)). rewrite <- P1, <- P2. reflexivity.
  - (* x is itself a minimum: heap unchanged *)
    apply desc_perm_eq; [apply sortd_desc|exact Hd1|].
    rewrite sortd_perm.
    assert (P2 : Permutation (x :: q) (e :: firstn k full)).
    { rewrite <- Hfull_p. rewrite Hsplit at 1. rewrite Permutation_app_comm. reflexivity. }
    assert (e = x).
    { assert (In e (x :: q)) by (eapply Permutation_in; [apply Permutation_sym; exact P2|left; reflexivity]).
      assert (In x (e :: firstn k full)) by (eapply Permutation_in; [exact P2|left; reflexivity]).
      destruct H as [<-|He]; [reflexivity|]. destruct H0 as [->|Hx]; [reflexivity|].
      specialize (He_min _ Hx). specialize (Hm_le _ He). lia. }
    subst e. apply (Permutation_cons_inv (a:=x)). exact P2.
Qed.

Lemma remove1_length x l : In x l -> S (length (remove1 x l)) = length l.
Proof. intro H. change (S (length (remove1 x l))) with (length (x :: remove1 x l)).
  apply Permutation_length. symmetry. apply remove1_perm; exact H. Qed.

Lemma push_inv k q seen x :
  sortd q = topk k seen -> length q = Nat.min k (length seen) ->
  sortd (push k q x) = topk k (x :: seen) /\ length (push k q x) = Nat.min k (S (length seen)).
Proof.
  intros Hs Hl.
  assert (Htop : topk k (x :: seen) = firstn k (ins x (sortd q))).
  { unfold topk. cbn [sortd fold_right]. fold (sortd seen).
    rewrite firstn_ins by apply sortd_desc. fold (topk k seen). rewrite <- Hs. reflexivity. }
  rewrite Htop. destruct (Nat.ltb_spec (length q) k) as [Hlt|Hge].
  - unfold push. destruct (Nat.ltb_spec (length q) k); [|lia]. split.
    + cbn [sortd fold_right]. fold (sortd q). rewrite firstn_all2; [reflexivity|].
      rewrite length_ins, length_sortd. lia.
    + cbn [length]. lia.
  - assert (Hk : length q = k) by lia.
    destruct (Nat.eq_dec k 0) as [->|Hk0].
    + destruct q; [|cbn in Hk; lia]. cbn. split; reflexivity.
    + split; [apply topk_step_full; assumption|].
      unfold push. destruct (Nat.ltb_spec (length q) k); [lia|].
      destruct q as [|a q']; [cbn in Hk; lia|].
      cbv zeta. destruct (minl a q' <? x).
      * cbn [length]. rewrite remove1_length; [cbn [length] in *; lia|].
        destruct (minl_in a q') as [->|H']; [left; reflexivity|right; exact H'].
      * lia.
Qed.

(* HeapDict for one key: after any push sequence, get_result = the k largest pushed, descending *)
Theorem heap_topk k xs : sortd (fold_left (push k) xs []) = topk k (rev xs).
Proof.
  assert (G : forall xs q seen, sortd q = topk k seen -> length q = Nat.min k (length seen) ->
              sortd (fold_left (push k) xs q) = topk k (rev xs ++ seen)).
  { clear xs. induction xs as [|x xs IH]; intros q seen Hs Hl; cbn [fold_left rev app]; [exact Hs|].
    destruct (push_inv k q seen x Hs Hl) as [Hs' Hl'].
    rewrite (IH _ (x :: seen) Hs'); [|cbn [length]; exact Hl'].
    rewrite <- app_assoc. reflexivity. }
  rewrite (G xs [] []); [rewrite app_nil_r; reflexivity| |].
  - unfold topk. cbn. rewrite firstn_nil. reflexivity.
  - cbn. rewrite Nat.min_0_r. reflexivity.
Qed.
Print Assumptions heap_topk.
