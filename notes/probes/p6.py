import warnings; warnings.filterwarnings('ignore')
import pandas as pd
from matched_markets.methodology import utils
from matched_markets.methodology.common_classes import TimeWindow
tests = [['2020/01/01'], ['2020/01/01 - 2020/01/03'], ['2020/02/27 - 2020/03/02','2020/02/28'], [''], [' '], ['2020/02/30'], ['2020/13/01'], ['2020/01/05 - 2020/01/01'], ['2020/01/01 - '], ['2020-01-01'], ['abc'], ['2020/01/01 - 2020/01/03 - 2020/01/04'], ['2020/1/1'], ['2020/01/01 12:00'], ['20200101'], ['2020/01/01 - 2020/01/03','2020/01/02 - 2020/01/05','2020/01/01'], ['01/02/2020'], ['2020/01/01-2020/01/02'], ['2019/12/30 - 2020/01/02'], ['nan'], ['NaT'], ['today'], ['2020/01/01 - now']]
for t in tests:
    try:
        w = utils.find_days_to_exclude(t)
        try:
            d = utils.expand_time_windows(w)
            print(t, '->', len(d), sorted(d)[:6], 'dups' if len(set(d))!=len(d) else '')
        except Exception as e:
            print(t, 'PARSED', w, 'expand raised', type(e).__name__, str(e)[:60])
    except Exception as e:
        print(t, type(e).__name__, str(e)[:70])
