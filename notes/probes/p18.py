import warnings; warnings.filterwarnings('ignore')
import math, numpy as np, itertools
from matched_markets.methodology import tbrmmdesignparameters as P
inf=float('inf'); nan=float('nan')
def nb(x): return [np.nextafter(x,-inf).item(), x, np.nextafter(x,inf).item()]
# documented domain (from the docstring)
def isnum(v): return isinstance(v,(int,float))
def isint(v): return isnum(v) and not (isinstance(v,float) and (math.isnan(v) or math.isinf(v))) and int(v)==v
def fin(v): return isnum(v) and not (isinstance(v,float) and (math.isnan(v) or math.isinf(v)))
dom = {
 'n_test': lambda v: isint(v) and v>=1,
 'iroas': lambda v: isnum(v) and v>=0.0,
 'volume_ratio_tolerance': lambda v: v is None or (isnum(v) and v>0),
 'geo_ratio_tolerance': lambda v: v is None or (isnum(v) and v>0),
 'treatment_share_range': lambda v: v is None or (isinstance(v,tuple) and len(v)==2 and all(isnum(x) for x in v) and 0<v[0]<v[1]<1),
 'budget_range': lambda v: v is None or (isinstance(v,tuple) and len(v)==2 and all(isnum(x) for x in v) and 0<=v[0]<v[1]<inf),
 'treatment_geos_range': lambda v: v is None or (isinstance(v,tuple) and len(v)==2 and all(isint(x) for x in v) and 1<=v[0]<=v[1]),
 'control_geos_range': lambda v: v is None or (isinstance(v,tuple) and len(v)==2 and all(isint(x) for x in v) and 1<=v[0]<=v[1]),
 'n_geos_max': lambda v: v is None or (isint(v) and v>=2),
 'n_pretest_max': lambda v: isint(v) and v>=3,
 'n_designs': lambda v: isint(v) and v>=1,
 'rho_max': lambda v: isnum(v) and 0.9<=v<1,
 'sig_level': lambda v: isnum(v) and 0<v<1,
 'power_level': lambda v: isnum(v) and 0<v<1,
 'min_corr': lambda v: isnum(v) and 0.8<=v<1,
 'flevel': lambda v: isnum(v) and 0.9<=v<1,
}
scal = [None, True, False, 'a', [1], (1,), 0, 1, 2, 3, -1, 10**20, inf, -inf, nan] + nb(0.0)+nb(1.0)+nb(0.9)+nb(0.8)+nb(2.0)+nb(3.0)+[0.5,1.5,2.5,1e308]
pairs=[(a,b) for a in [0,1,2,0.0,0.5,1.0,1.5,inf,nan,-1,'a',None,True] for b in [0,1,2,3,0.0,0.5,1.0,2.5,inf,nan,'a',None]] 
bad={}
n=0
for f,ok in dom.items():
    vals = list(scal)
    if 'range' in f: vals = vals + pairs + [[1,2],(1,2,3),(),(2,1),(1,1),(0.2,0.2),(0.3,0.2)]
    for v in vals:
        kw=dict(n_test=1, iroas=1.0); kw[f]=v
        n+=1
        try:
            P.TBRMMDesignParameters(**kw); got='ok'
        except ValueError: got='ValueError'
        except Exception as e: got=type(e).__name__
        try: exp='ok' if ok(v) else 'ValueError'
        except Exception as e: exp='ValueError'
        if got!=exp: bad.setdefault((f,got,exp),[]).append(v)
print('cases',n)
for k,v in bad.items(): print(k, v[:12])
