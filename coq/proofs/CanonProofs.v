(* C15: the canonical data object faithfully represents the input panel. *)
From Coq Require Import List ZArith QArith Bool Lia Sorting.Permutation.
From MM Require Import model.Elig model.Canon.
Import ListNotations.

Lemma memz_spec x l : memz x l = true <-> In x l.
Proof.
  unfold memz. rewrite existsb_exists. split.
  - intros [y [Hy E]]. apply Z.eqb_eq in E. subst. exact Hy.
  - intro H. exists x. split; [exact H|apply Z.eqb_refl].
Qed.
Lemma dedupz_In l x : In x (dedupz l) <-> In x l.
Proof.
  induction l as [|y l IH]; cbn; [tauto|]. destruct (memz y l) eqn:E.
  - rewrite IH. apply memz_spec in E. split; [auto|]. intros [<-|H]; assumption.
  - cbn. rewrite IH. tauto.
Qed.
Lemma dedupz_NoDup l : NoDup (dedupz l).
Proof.
  induction l as [|y l IH]; cbn; [constructor|]. destruct (memz y l) eqn:E; [exact IH|].
  constructor; [|exact IH]. rewrite dedupz_In. intro H. apply memz_spec in H. congruence.
Qed.
Lemma ins_z_perm x l : Permutation (ins_z x l) (x :: l).
Proof. induction l as [|y l IH]; cbn; [reflexivity|]. destruct (x <=? y)%Z; [reflexivity|]. rewrite IH. apply perm_swap. Qed.
Lemma sort_z_perm l : Permutation (sort_z l) l.
Proof. induction l as [|x l IH]; cbn; [reflexivity|]. rewrite ins_z_perm. constructor. exact IH. Qed.
Inductive ascending : list Z -> Prop :=
| asc_nil : ascending []
| asc_cons x l : (forall y, In y l -> (x <= y)%Z) -> ascending l -> ascending (x :: l).
Lemma ins_z_asc x l : ascending l -> ascending (ins_z x l).
Proof.
  induction 1 as [|y l Hy Hl IH]; cbn; [constructor; [intros ? []|constructor]|].
  destruct (Z.leb_spec x y).
  - constructor; [|constructor; assumption]. intros z [<-|Hz]; [lia|]. specialize (Hy z Hz). lia.
  - constructor; [|exact IH]. intros z Hz. apply (Permutation_in _ (ins_z_perm x l)) in Hz. destruct Hz as [<-|Hz]; [lia|auto].
Qed.
Lemma sort_z_asc l : ascending (sort_z l).
Proof. induction l; cbn; [constructor|apply ins_z_asc; assumption]. Qed.

(* one row per distinct geo id, one column per distinct date, columns in chronological order *)
Theorem geos_of_spec rows g : In g (geos_of rows) <-> exists r, In r rows /\ l_geo r = g.
Proof.
  unfold geos_of. split.
  - intro H. apply (Permutation_in _ (sort_z_perm _)) in H. apply dedupz_In, in_map_iff in H. destruct H as [r [E H]]. exists r. tauto.
  - intros [r [H E]]. apply (Permutation_in _ (Permutation_sym (sort_z_perm _))). apply dedupz_In, in_map_iff. exists r. tauto.
Qed.
Theorem geos_of_NoDup rows : NoDup (geos_of rows).
Proof. unfold geos_of. eapply Permutation_NoDup; [apply Permutation_sym, sort_z_perm|apply dedupz_NoDup]. Qed.
Theorem dates_of_spec rows d : In d (dates_of rows) <-> exists r, In r rows /\ l_date r = d.
Proof.
  unfold dates_of. split.
  - intro H. apply (Permutation_in _ (sort_z_perm _)) in H. apply dedupz_In, in_map_iff in H. destruct H as [r [E H]]. exists r. tauto.
  - intros [r [H E]]. apply (Permutation_in _ (Permutation_sym (sort_z_perm _))). apply dedupz_In, in_map_iff. exists r. tauto.
Qed.
Theorem dates_of_NoDup rows : NoDup (dates_of rows).
Proof. unfold dates_of. eapply Permutation_NoDup; [apply Permutation_sym, sort_z_perm|apply dedupz_NoDup]. Qed.
Theorem dates_chronological rows : ascending (dates_of rows).
Proof. apply sort_z_asc. Qed.

(* missing cells are zero *)
Theorem missing_cell_zero rows g d : (forall r, In r rows -> l_geo r = g -> l_date r = d -> False) -> cell rows g d = 0.
Proof.
  intro H. unfold cell. destruct (filter _ rows) as [|r l] eqn:E; [reflexivity|]. exfalso.
  assert (Hin : In r (filter (fun r => (l_geo r =? g)%Z && (l_date r =? d)%Z) rows)) by (rewrite E; left; reflexivity).
  apply filter_In in Hin. destruct Hin as [Hin Hb]. apply andb_true_iff in Hb. destruct Hb as [H1 H2].
  apply Z.eqb_eq in H1, H2. eapply H; eassumption.
Qed.

(* the canonical rows are the geos of the data, each once, by non-increasing mean *)
Lemma ins_by_mean_perm rows g l : Permutation (ins_by_mean rows g l) (g :: l).
Proof.
  induction l as [|h l IH]; cbn; [reflexivity|]. destruct (Qle_bool _ _); [|reflexivity]. rewrite IH. apply perm_swap.
Qed.
Theorem geo_order_perm rows : Permutation (geo_order rows) (geos_of rows).
Proof.
  unfold geo_order. induction (geos_of rows) as [|g l IH]; cbn; [reflexivity|]. rewrite ins_by_mean_perm. constructor. exact IH.
Qed.
Inductive by_mean_desc (rows : list lrow) : list Z -> Prop :=
| bmd_nil : by_mean_desc rows []
| bmd_cons g l : (forall h, In h l -> geo_mean rows h <= geo_mean rows g) -> by_mean_desc rows l -> by_mean_desc rows (g :: l).
Lemma ins_by_mean_desc rows g l : by_mean_desc rows l -> by_mean_desc rows (ins_by_mean rows g l).
Proof.
  induction 1 as [|h l Hh Hl IH]; cbn; [constructor; [intros ? []|constructor]|].
  destruct (Qle_bool (geo_mean rows g) (geo_mean rows h)) eqn:E.
  - apply Qle_bool_iff in E. constructor; [|exact IH]. intros k Hk.
    apply (Permutation_in _ (ins_by_mean_perm rows g l)) in Hk. destruct Hk as [<-|Hk]; [exact E|auto].
  - assert (Hlt : geo_mean rows h < geo_mean rows g).
    { apply Qnot_le_lt. intro Hle. apply Qle_bool_iff in Hle. congruence. }
    constructor; [|constructor; assumption]. intros k [<-|Hk]; [apply Qlt_le_weak; exact Hlt|].
    eapply Qle_trans; [apply Hh; exact Hk|apply Qlt_le_weak; exact Hlt].
Qed.
Theorem geo_order_by_mean rows : by_mean_desc rows (geo_order rows).
Proof. unfold geo_order. induction (geos_of rows); cbn; [constructor|apply ins_by_mean_desc; assumption]. Qed.

(* shares sum to one when the total mean is not zero *)
Lemma qsum_scale (l : list Q) c : qsum (map (fun x => x / c) l) == qsum l / c.
Proof.
  unfold qsum. induction l as [|x l IH]; cbn [map fold_right]; [unfold Qdiv; ring|]. rewrite IH. unfold Qdiv. ring.
Qed.
Theorem shares_sum_to_one rows : ~ qsum (map (geo_mean rows) (geos_of rows)) == 0 ->
  qsum (map (share rows) (geos_of rows)) == 1.
Proof.
  intro H. unfold share. set (t := qsum (map (geo_mean rows) (geos_of rows))) in *.
  rewrite <- (map_map (geo_mean rows) (fun x => x / t)), qsum_scale. fold t. field. exact H.
Qed.

(* reconciliation: geos of the table absent from the data are dropped when they may be excluded,
   rejected otherwise *)
Theorem reconcile_spec rows tbl :
  (forall e, In e tbl -> memz (fst e) (geos_of rows) = false -> ex (snd e) = true) ->
  reconcile rows tbl = Accept (filter (fun e => memz (fst e) (geos_of rows)) tbl) \/
  (reconcile rows tbl = Accept tbl /\ forallb (fun e => memz (fst e) (geos_of rows)) tbl = true).
Proof.
  intro H. unfold reconcile. destruct (forallb _ tbl) eqn:E; [right; split; reflexivity|left].
  destruct (existsb _ tbl) eqn:E2; [|reflexivity]. exfalso. apply existsb_exists in E2. destruct E2 as [e [He Hb]].
  apply andb_true_iff in Hb. destruct Hb as [H1 H2]. apply negb_true_iff in H1, H2. rewrite (H e He H1) in H2. discriminate.
Qed.
Theorem reconcile_rejects rows tbl e : In e tbl -> memz (fst e) (geos_of rows) = false -> ex (snd e) = false ->
  reconcile rows tbl = RaiseValueError.
Proof.
  intros He H1 H2. unfold reconcile.
  assert (E : forallb (fun e => memz (fst e) (geos_of rows)) tbl = false).
  { apply not_true_is_false. intro F. rewrite forallb_forall in F. rewrite (F e He) in H1. discriminate. }
  rewrite E. assert (E2 : existsb (fun e => negb (memz (fst e) (geos_of rows)) && negb (ex (snd e))) tbl = true).
  { apply existsb_exists. exists e. split; [exact He|]. rewrite H1, H2. reflexivity. }
  rewrite E2. reflexivity.
Qed.
Theorem assignable_spec tbl g : In g (assignable tbl) <-> exists e, In (g, e) tbl /\ is_x_fixed e = false.
Proof.
  unfold assignable. rewrite in_map_iff. split.
  - intros [[g' e] [E H]]. cbn in E. subst. apply filter_In in H. destruct H as [H1 H2]. exists e. split; [exact H1|]. apply negb_true_iff in H2. exact H2.
  - intros [e [H1 H2]]. exists (g, e). split; [reflexivity|]. apply filter_In. split; [exact H1|]. cbn. rewrite H2. reflexivity.
Qed.

(* ---- aggregates over an index set, in the order fixed by the chosen geo index *)
Lemma vadd_length a b : length a = length b -> length (vadd a b) = length a.
Proof. revert b; induction a as [|x a IH]; intros [|y b] H; cbn in *; try discriminate; [reflexivity|]. f_equal. apply IH. now injection H. Qed.
Lemma vadd_nth a : forall b k, length a = length b -> (k < length a)%nat -> nth k (vadd a b) 0 = nth k a 0 + nth k b 0.
Proof.
  induction a as [|x a IH]; intros [|y b] k H Hk; cbn in *; try discriminate; try (exfalso; inversion Hk; fail).
  destruct k as [|k]; [reflexivity|]. apply IH; [now injection H|apply Nat.succ_lt_mono; exact Hk].
Qed.
Lemma series_length rows g : length (series rows g) = length (dates_of rows).
Proof. unfold series. apply map_length. Qed.
Lemma aggregate_series_length rows gi idx : length (aggregate_series rows gi idx) = length (dates_of rows).
Proof.
  unfold aggregate_series. induction idx as [|i idx IH]; cbn [fold_right]; [apply map_length|].
  rewrite vadd_length; [apply series_length|]. now rewrite series_length, IH.
Qed.
(* on the k-th date the aggregate is the sum, over the positions in the index set, of the cell of the geo that the geo
   index puts at that position *)
Theorem aggregate_series_spec rows gi idx k : (k < length (dates_of rows))%nat ->
  nth k (aggregate_series rows gi idx) 0
  == qsum (map (fun i => cell rows (nth i gi 0%Z) (nth k (dates_of rows) 0%Z)) idx).
Proof.
  intros Hk. induction idx as [|i idx IH].
  - unfold aggregate_series. cbn [fold_right map qsum]. clear Hk. revert k.
    induction (dates_of rows) as [|d ds IHd]; intros [|k]; cbn [map nth]; try reflexivity. apply IHd.
  - change (aggregate_series rows gi (i :: idx)) with (vadd (series rows (nth i gi 0%Z)) (aggregate_series rows gi idx)).
    rewrite vadd_nth; [|now rewrite series_length, aggregate_series_length|now rewrite series_length].
    rewrite IH. cbn [map qsum fold_right]. unfold series.
    rewrite (nth_indep _ 0 (cell rows (nth i gi 0%Z) 0%Z)) by (now rewrite map_length). rewrite map_nth. reflexivity.
Qed.
Theorem aggregate_share_spec rows gi idx :
  aggregate_share rows gi idx = qsum (map (fun i => geo_mean rows (nth i gi 0%Z) / qsum (map (geo_mean rows) (geos_of rows))) idx).
Proof. reflexivity. Qed.
(* the geo index is accepted exactly when it is a non-empty list of assignable geos *)
Theorem set_geo_index_spec tbl gi :
  set_geo_index tbl gi = Accept gi <-> (gi <> [] /\ forall g, In g gi -> In g (assignable tbl)).
Proof.
  unfold set_geo_index. destruct (forallb (fun g => memz g (assignable tbl)) gi) eqn:H.
  - rewrite forallb_forall in H. destruct gi as [|g gi]; split.
    + discriminate.
    + intros [Hn _]. now elim Hn.
    + intros _. split; [discriminate|]. intros x Hx. apply memz_spec. now apply H.
    + reflexivity.
  - split; [discriminate|]. intros [_ Hall]. exfalso.
    assert (forallb (fun g => memz g (assignable tbl)) gi = true); [|congruence].
    apply forallb_forall. intros x Hx. apply memz_spec. now apply Hall.
Qed.
