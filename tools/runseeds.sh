#!/bin/sh
# Runs the quick tier of every check under several seeds (robustness of the checks themselves on the unchanged tree).
cd "$(dirname "$0")/.." || exit 2
for s in "$@"; do
  echo "== VERIF_SEED=$s"
  VERIF_SEED=$s tools/runall.sh quick
done
