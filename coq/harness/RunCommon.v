(* helpers shared by the generated case files *)
From Coq Require Import List Arith ZArith Bool.
Import ListNotations.

Fixpoint list_eqb {A} (eqb : A -> A -> bool) (a b : list A) : bool :=
  match a, b with
  | [], [] => true
  | x :: a', y :: b' => eqb x y && list_eqb eqb a' b'
  | _, _ => false
  end.
Fixpoint ins_nat (x : nat) (l : list nat) : list nat :=
  match l with [] => [x] | y :: l' => if Nat.leb x y then x :: l else y :: ins_nat x l' end.
Definition sort_nat (l : list nat) : list nat := fold_right ins_nat [] l.
Definition set_list_eqb (a b : list (list nat)) : bool :=
  list_eqb (list_eqb Nat.eqb) (map sort_nat a) (map sort_nat b).
Definition option_eqb {A} (eqb : A -> A -> bool) (a b : option A) : bool :=
  match a, b with Some x, Some y => eqb x y | None, None => true | _, _ => false end.

Section Mis.
  Context {C : Type} (agrees : C -> bool).
  Fixpoint mismatches_from (i : nat) (cs : list C) : list nat :=
    match cs with
    | [] => []
    | c :: cs' => if agrees c then mismatches_from (S i) cs' else i :: mismatches_from (S i) cs'
    end.
  Definition mismatches := mismatches_from 0.
End Mis.
