"""Shared harness of the TBR post-analysis properties (C05, C06, C07, C18): experiment frames,
runs of tbr.TBR / tbr_iroas.TBRiROAS / TBRMMDiagnostics, exact rational encoding for the Coq model."""
import math
import random
from fractions import Fraction

REL = 1e-8


def gen_frame(seed, cooldown=None, scenario=None, min_pre=5):
  """Specification of an experiment frame (JSON-able)."""
  rng = random.Random(seed)
  n_pre = rng.randint(min_pre, 40)
  rd = random.Random(seed * 47 + 9)
  degenerate = rd.random() < 0.15
  if degenerate and rd.random() < 0.5:
    n_pre = rd.choice([3, 4])                      # the shortest pre-periods on which the posterior exists
  n_test = rng.randint(3, 14)
  n_cool = (rng.choice([0, 0, 3, 6]) if cooldown is None else (rng.randint(2, 6) if cooldown else 0))
  one_day = degenerate and cooldown is None and rd.random() < 0.25
  if one_day:
    n_test, n_cool = 1, 0                          # a test period of a single day
  nd = n_pre + n_test + n_cool
  base = [100.0]
  for _ in range(nd - 1):
    base.append(base[-1] + rng.gauss(0, 2.0))
  geos = []
  ng_c, ng_t = rng.randint(1, 4), rng.randint(1, 4)
  lift = rng.choice([0.0, 5.0, 20.0, -8.0])
  scenario = scenario or rng.choice(['fixed', 'fixed', 'variable'])
  for g in range(ng_c + ng_t):
    grp = 1 if g < ng_c else 2
    sc = rng.choice([1, 2, 3, 5])
    resp, cost = [], []
    for t in range(nd):
      in_test = n_pre <= t < n_pre + n_test
      v = sc * base[t] + rng.gauss(0, 1.5 * sc) + (lift * sc if (grp == 2 and in_test) else 0.0)
      resp.append(round(v * 8) / 8)
      if scenario == 'fixed':
        c = (rng.choice([4.0, 8.0, 16.0]) * sc) if (grp == 2 and in_test) else 0.0
      else:
        c = sc * (10 + rng.gauss(0, 1)) + (sc * rng.choice([6.0, 12.0]) if (grp == 2 and in_test) else 0.0)
      cost.append(round(c * 8) / 8)
    geos.append({'id': g + 1, 'group': grp, 'response': resp, 'cost': cost})
  if degenerate:
    kind = rd.choice(['negative', 'flat-control', 'one-geo-each'])
    if kind == 'negative':                         # responses are net changes: negative levels
      for g in geos:
        g['response'] = [v - 700.0 for v in g['response']]
    elif kind == 'flat-control':                   # the control geos sell exactly the same amount on every analysed day
      for g in geos:
        if g['group'] == 1:
          g['response'] = g['response'][:n_pre] + [g['response'][n_pre]] * (nd - n_pre)
    elif kind == 'one-geo-each':                   # one geo per group
      keep = [next(g for g in geos if g['group'] == 1), next(g for g in geos if g['group'] == 2)]
      geos[:] = keep
  int_values = random.Random(seed * 43 + 5).random() < 0.2
  if int_values:
    # counts: whole numbers, stored in integer columns
    for g in geos:
      g['response'] = [float(round(v)) for v in g['response']]
      g['cost'] = [float(round(v)) for v in g['cost']]
  return {'seed': seed, 'n_pre': n_pre, 'n_test': n_test, 'n_cool': n_cool, 'geos': geos, 'scenario': scenario,
          'custom_names': random.Random(seed * 41 + 1).random() < 0.3, 'int_values': int_values}


NAMING = {'key_geo': 'market', 'key_date': 'day', 'key_period': 'phase', 'key_group': 'arm', 'key_response': 'sales',
          'key_cost': 'spend', 'group_control': 7, 'group_treatment': 3, 'period_pre': 5, 'period_test': 6, 'period_cooldown': 9}


# the same names with period labels that are not in chronological order (the pre-period has the largest label)
NAMING_B = dict(NAMING, period_pre=8, period_test=3, period_cooldown=5)


def naming(spec):
  return NAMING_B if spec.get('seed', 0) % 2 else NAMING


def fit_kwargs(spec):
  """Keyword arguments of fit() for a specification with custom column names and labels."""
  return dict(naming(spec)) if spec.get('custom_names') else {}


def apply_names(spec, df):
  """Renames the columns / index and relabels groups and periods of a default-named frame."""
  if not spec.get('custom_names'):
    return df
  n = naming(spec)
  df = df.copy()
  df['group'] = df['group'].map({1: n['group_control'], 2: n['group_treatment']}).fillna(df['group']).astype(int)
  df['period'] = df['period'].map({0: n['period_pre'], 1: n['period_test'], 2: n['period_cooldown']}).fillna(df['period']).astype(int)
  df = df.rename(columns={'geo': n['key_geo'], 'period': n['key_period'], 'group': n['key_group'], 'response': n['key_response'],
                          'cost': n['key_cost']})
  df.index.name = n['key_date']
  return df


def build_df(spec, shuffle=None, extra=False, split=False, outside=False):
  """Long frame of a specification. extra: add an unassigned geo and rows of a foreign period;
  split: spread the first geo of each group over two geos with the same total."""
  return apply_names(spec, build_df0(spec, shuffle, extra, split, outside))


def build_df0(spec, shuffle=None, extra=False, split=False, outside=False):
  import pandas as pd
  t0 = pd.Timestamp('2022-01-03')
  recs = []
  nd = spec['n_pre'] + spec['n_test'] + spec['n_cool']
  geos = list(spec['geos'])
  if split:
    out, done = [], set()
    for g in geos:
      if g['group'] not in done:
        done.add(g['group'])
        a = [round(v * 0.25 * 8) / 8 for v in g['response']]
        b = [v - w for v, w in zip(g['response'], a)]
        ca = [round(v * 0.5 * 8) / 8 for v in g['cost']]
        cb = [v - w for v, w in zip(g['cost'], ca)]
        out.append(dict(g, response=a, cost=ca))
        out.append(dict(g, id=g['id'] + 100, response=b, cost=cb))
      else:
        out.append(g)
    geos = out
  for g in geos:
    for t in range(nd):
      per = 0 if t < spec['n_pre'] else 1 if t < spec['n_pre'] + spec['n_test'] else 2
      recs.append({'geo': g['id'], 'date': t0 + pd.Timedelta(days=t), 'period': per, 'group': g['group'],
                   'response': g['response'][t], 'cost': g['cost'][t]})
  if extra:
    for t in range(nd):
      per = 0 if t < spec['n_pre'] else 1 if t < spec['n_pre'] + spec['n_test'] else 2
      recs.append({'geo': 900, 'date': t0 + pd.Timedelta(days=t), 'period': per, 'group': -1, 'response': 77.0 + t, 'cost': 3.0})
    # dates outside the experiment (period label -1, "unassigned") before the pre-period, for every geo
    for g in geos:
      for k in range(1, 4):
        recs.append({'geo': g['id'], 'date': t0 - pd.Timedelta(days=k), 'period': -1, 'group': g['group'],
                     'response': 1000.0 * k, 'cost': 50.0})
  if outside and not extra:
    # days before the pre-period, labelled "unassigned" (-1), on which the experiment's geos already spent and sold
    for g in geos:
      for k in range(1, 4):
        recs.append({'geo': g['id'], 'date': t0 - pd.Timedelta(days=k), 'period': -1, 'group': g['group'],
                     'response': 1000.0 * k, 'cost': 50.0})
  df = pd.DataFrame(recs)
  if spec.get('int_values') and all(float(v).is_integer() for c in ('response', 'cost') for v in df[c]):
    df['response'] = df['response'].astype('int64')
    df['cost'] = df['cost'].astype('int64')
  if shuffle is not None:
    df = df.sample(frac=1.0, random_state=shuffle % (2 ** 31)).reset_index(drop=True)
  return df.set_index('date')


def totals(spec, col='response'):
  """Per-date (control, treatment) totals for pre / test(+cooldown) dates."""
  nd = spec['n_pre'] + spec['n_test'] + spec['n_cool']
  x = [sum(g[col][t] for g in spec['geos'] if g['group'] == 1) for t in range(nd)]
  y = [sum(g[col][t] for g in spec['geos'] if g['group'] == 2) for t in range(nd)]
  pre = list(zip(x[:spec['n_pre']], y[:spec['n_pre']]))
  test = list(zip(x[spec['n_pre']:spec['n_pre'] + spec['n_test']], y[spec['n_pre']:spec['n_pre'] + spec['n_test']]))
  cool = list(zip(x[spec['n_pre'] + spec['n_test']:], y[spec['n_pre'] + spec['n_test']:]))
  return pre, test, cool


def qz(v):
  f = Fraction(float(v))
  return '(%d) %d' % (f.numerator, f.denominator)


def qm(v):
  f = Fraction(float(v))
  return '(Qmake (%d) %d)' % (f.numerator, f.denominator)


def pts(pairs):
  return '[' + '; '.join('P %s %s' % (qz(a), qz(b)) for a, b in pairs) + ']'


def close(a, b, rel=REL, floor=1e-9):
  if a != a or b != b:
    return a != a and b != b
  if math.isinf(a) or math.isinf(b):
    return a == b
  return abs(a - b) <= rel * max(abs(a), abs(b), floor)


def fit_tbr(spec, target='response', use_cooldown=None, history=None, **frame_kw):
  """history: a specification analysed (fitted and queried) on the same TBR object first."""
  from matched_markets.methodology import tbr
  uc = spec['n_cool'] > 0 if use_cooldown is None else use_cooldown
  m = tbr.TBR(use_cooldown=uc)
  if history is not None:
    m.fit(build_df(history), target if not history.get('custom_names') else NAMING['key_' + target], **fit_kwargs(history))
    m.causal_cumulative_distribution()
    m.summary(level=0.9, tails=1)
  m.fit(build_df(spec, **frame_kw), target if not spec.get('custom_names') else NAMING['key_' + target], **fit_kwargs(spec))
  return m


def posterior(m):
  d = m.causal_cumulative_distribution()
  loc = [float(v) for v in d.kwds['loc']]
  scale = [float(v) for v in d.kwds['scale']]
  return loc, scale, float(d.args[0])


# ---------------------------------------------------------------------------
# executed tie of the regenerated closed formulas (gen/Gen_Formulas.v evaluated on binary64 floats)
FORMULAS_PRELUDE = ('From Coq Require Import List ZArith Bool PrimFloat.\nFrom MM Require Import lib.Values gen.Gen_Formulas '
                    'harness.RunCommon harness.RunFormulas.\nImport ListNotations.\n')


def fl(v):
  from .common import float_lit
  return '(%s)%%float' % float_lit(float(v))


def impact_term(diag, y, n_test, sig, power, flevel, corr):
  """(n_test, n, phi, tq_sig, tq_pow, std_y, corr, estimate_required_impact(corr)): the kernel values as the library
  obtains them, and what the library answered."""
  import numpy as np
  from scipy import stats
  n = len(y)
  return '(%d%%Z, %d%%Z, %s, %s, %s, %s, %s, %s)' % (
      n_test, n, fl(stats.f(dfn=1, dfd=n - 1).ppf(flevel)), fl(stats.t.ppf(sig, df=n - 2)), fl(stats.t.ppf(power, df=n - 2)),
      fl(np.std(np.array(y), ddof=2)), fl(corr), fl(diag.estimate_required_impact(corr)))


def tbrfit_term(diag, x, y, n_test, sig, xt, yt):
  import numpy as np
  from scipy import stats
  n = len(x)
  _, b, sigma, _ = diag.pretestfit
  fit = diag.tbrfit(xt, yt)
  return '(%d%%Z, %d%%Z, %s, %s, %s, %s, %s, %s, %s, %s, (%s, %s, %s, %s))' % (
      n_test, n, fl(np.array(x).mean()), fl(np.array(y).mean()), fl(b), fl(sigma), fl(np.var(np.array(x), ddof=0)),
      fl(stats.t.ppf(sig, df=n - 2)), fl(xt), fl(yt), fl(fit.estimate), fl(fit.cihw), fl(fit.sigma), fl(fit.scale))


def formulas_compare(ck, iterms, fterms, tag, shard=200):
  """Returns (indices of disagreeing impact terms, indices of disagreeing tbrfit terms)."""
  from . import common
  jobs = []
  for kind, terms, ty, fn in (('i', iterms, 'icase', 'iagrees'), ('f', fterms, 'fcase', 'fagrees')):
    for k in range(0, len(terms), shard):
      jobs.append(('%s_formulas_%s_%d' % (tag, kind, k // shard), FORMULAS_PRELUDE +
                   'Definition cases : list %s := %s.\nEval vm_compute in (mismatches %s cases).\n'
                   % (ty, common.coq_list(terms[k:k + shard]), fn)))
  res = common.coq_eval_many(jobs) if jobs else {}
  bad = {'i': [], 'f': []}
  for name, (rc, o) in res.items():
    mm = common.parse_nat_list(o) if rc == 0 else None
    kind, k = name.rsplit('_', 2)[1:]
    if mm is None:
      ck.tie_broken('correspondence', 'evaluation of the regenerated formulas failed (%s)' % name, o[-1500:])
    else:
      bad[kind] += [int(k) * shard + i for i in mm]
  return sorted(bad['i']), sorted(bad['f'])
