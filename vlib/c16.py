"""C16 -- eligibility tables are validated and partitioned correctly.

Proof: coq/props/C16.v.  Tie: (T) GeoAssignments.__init__ is translated on every
run and proved equal to the model by the bridge lemma; (X) tables built from a
generated *specification* (so the ground truth does not come from the code) are
given to GeoEligibility / get_eligible_assignments and to the model
(validate, assignments_of) evaluated inside Coq; (O) the partition property is
evaluated directly on the implementation's answers.
"""
import random

from . import common
from .common import Check, coq_list

TRUSTED = [
    'Coq 8.16.1 kernel and vm_compute',
    'axioms: none',
    'translator translate/py2v.py (target geoassignments)',
    'modelled, not verified: pandas column/index handling inside GeoEligibility.__init__ and '
    'get_eligible_assignments (tied by executed correspondence on generated tables)',
    'harness: a cell counts as 0 / 1 exactly when Python says cell == 0 / cell == 1; IDs are compared after str()',
]

ROWS = {'c': (1, 0, 0), 't': (0, 1, 0), 'x': (0, 0, 1), 'ct': (1, 1, 0), 'cx': (1, 0, 1), 'tx': (0, 1, 1),
        'ctx': (1, 1, 1), 'zero': (0, 0, 0)}
CLASS = {(1, 0, 0): 'c_fixed', (0, 1, 0): 't_fixed', (0, 0, 1): 'x_fixed', (1, 1, 0): 'ct', (1, 0, 1): 'cx',
         (1, 1, 1): 'ctx', (0, 1, 1): 'tx'}
ODD = [2, -1, float('nan'), '1', 'a', None, 0.5]
FIELDS = ['all', 'c', 't', 'x', 't_fixed', 'c_fixed', 'x_fixed', 'ct', 'cx', 'ctx', 'tx']


def gen_spec(rng, idx, malformed):
  n = rng.choice([1, 2, 3, 4, 5, 6, 8, 12])
  kinds = [k for k in ROWS if k != 'zero']
  ids = rng.sample(range(1, 60), n)
  idstyle = rng.choice(['str', 'int', 'mixed'])
  rows = []
  for g in ids:
    gid = str(g) if idstyle == 'str' or (idstyle == 'mixed' and rng.random() < 0.5) else g
    c, t, x = ROWS[rng.choice(kinds)]
    style = rng.choice(['int', 'float', 'bool']) if rng.random() < 0.3 else 'int'
    conv = {'int': int, 'float': float, 'bool': bool}[style]
    rows.append([gid, conv(c), conv(t), conv(x)])
  spec = {'idx': idx, 'rows': rows, 'geo_as': rng.choice(['column', 'index']), 'drop': [], 'dup': None,
          'shuffle_cols': rng.random() < 0.3, 'extra_col': rng.random() < 0.2}
  if malformed:
    m = rng.choice(['zero_row', 'odd_cell', 'dup_id', 'dup_id_str', 'drop_value_col', 'drop_geo', 'dup_col', 'two'])
    spec['malformed'] = m
    picks = [m] if m != 'two' else rng.sample(['zero_row', 'odd_cell', 'dup_id', 'drop_value_col'], 2)
    for m in picks:
      r = rng.randrange(n)
      if m == 'zero_row':
        rows[r][1:] = [0, 0, 0]
      elif m == 'odd_cell':
        rows[r][rng.randint(1, 3)] = rng.choice(ODD)
      elif m == 'dup_id':
        rows.append([rows[r][0]] + list(ROWS[rng.choice(kinds)]))
      elif m == 'dup_id_str':
        g = rows[r][0]
        rows.append([int(g) if isinstance(g, str) else str(g)] + list(ROWS[rng.choice(kinds)]))
      elif m == 'drop_value_col':
        spec['drop'].append(rng.choice(['control', 'treatment', 'exclude']))
      elif m == 'drop_geo':
        spec['drop'].append('geo')
      elif m == 'dup_col':
        spec['dup'] = rng.choice(['control', 'treatment', 'exclude'])
  else:
    spec['malformed'] = None
  return spec


def build_frame(spec):
  import pandas as pd
  cols = ['geo', 'control', 'treatment', 'exclude']
  df = pd.DataFrame([dict(zip(cols, r)) for r in spec['rows']], columns=cols)
  if spec['extra_col']:
    df['note'] = 'n'
  for d in spec['drop']:
    if d in df.columns:
      df = df.drop(columns=[d])
  if spec['dup']:
    df = pd.concat([df, df[[spec['dup']]]], axis=1)
  if spec['shuffle_cols']:
    df = df[list(reversed(list(df.columns)))]
  if spec['geo_as'] == 'index' and 'geo' in df.columns:
    df = df.set_index('geo')
  return df


def cell_class(v):
  try:
    if v == 0:
      return 'C0'
    if v == 1:
      return 'C1'
  except Exception:
    pass
  return 'COther'


def spec_truth(spec):
  """The documented acceptance condition, evaluated on the specification."""
  ids = [str(r[0]) for r in spec['rows']]
  cells_ok = all(cell_class(v) != 'COther' for r in spec['rows'] for v in r[1:])
  ok = ('geo' not in spec['drop'] and not spec['dup'] and not any(d in spec['drop'] for d in ('control', 'treatment', 'exclude'))
        and len(set(ids)) == len(ids) and cells_ok
        and all(any(cell_class(v) == 'C1' for v in r[1:]) for r in spec['rows']))
  return ok


def run_impl(spec, subset_seed):
  from matched_markets.methodology import geoeligibility as G
  df = build_frame(spec)
  before = df.copy()
  try:
    ge = G.GeoEligibility(df)
    outcome = 'accept'
  except ValueError:
    return {'outcome': 'ValueError'}
  except Exception as e:
    return {'outcome': 'other:' + type(e).__name__, 'msg': str(e)[:200]}
  res = {'outcome': outcome, 'input_unmodified': bool(before.equals(df))}
  ids = [str(r[0]) for r in spec['rows']]
  rng = random.Random(subset_seed)
  k = rng.randint(1, len(ids))
  subset = rng.sample(ids, k)
  res['subset'] = subset
  res['earlier_calls'] = subset_seed % 2 == 1
  if res['earlier_calls']:
    # the object has answered before: the same geos in another order, other geos, everything
    try:
      ge.get_eligible_assignments(list(reversed(subset)), indices=True)
      ge.get_eligible_assignments(sorted(subset), indices=True)
      ge.get_eligible_assignments(list(reversed(subset)), indices=False)
      ge.get_eligible_assignments(rng.sample(ids, rng.randint(1, len(ids))), indices=True)
      ge.get_eligible_assignments()
    except Exception:
      pass
  try:
    a_idx = ge.get_eligible_assignments(subset, indices=True)
    a_ids = ge.get_eligible_assignments(subset, indices=False)
    a_all = ge.get_eligible_assignments()
  except Exception as e:
    res['outcome'] = 'other-in-assignments:' + type(e).__name__
    res['msg'] = str(e)[:200]
    return res
  res['idx'] = [sorted(int(v) for v in getattr(a_idx, f)) for f in FIELDS]
  res['ids'] = [sorted(str(v) for v in getattr(a_ids, f)) for f in FIELDS]
  res['full'] = [sorted(str(v) for v in getattr(a_all, f)) for f in FIELDS]
  return res


def oracle(spec, res):
  """The property evaluated on the implementation's answers."""
  fails = []
  want_accept = spec_truth(spec)
  if want_accept and res['outcome'] != 'accept':
    fails.append('well-formed table rejected (%s)' % res['outcome'])
  if (not want_accept) and res['outcome'] != 'ValueError':
    fails.append('malformed table (%s) gave %s instead of ValueError' % (spec['malformed'], res['outcome']))
  if res['outcome'] != 'accept' or not want_accept:
    return fails
  rowof = {str(r[0]): tuple(1 if cell_class(v) == 'C1' else 0 for v in r[1:]) for r in spec['rows']}
  sub = res['subset']
  for label, answer, universe, name in (('indices', res['idx'], list(range(len(sub))), lambda i: sub[i]),
                                        ('ids', res['ids'], sorted(sub), lambda g: g),
                                        ('all', res['full'], sorted(rowof), lambda g: g)):
    d = dict(zip(FIELDS, answer))
    seven = ['c_fixed', 't_fixed', 'x_fixed', 'ct', 'cx', 'ctx', 'tx']
    seen = {}
    for cl in seven:
      for g in d[cl]:
        if g in seen:
          fails.append('%s: %r in both %s and %s' % (label, g, seen[g], cl))
        seen[g] = cl
        if g not in universe:
          fails.append('%s: %r in %s is not one of the requested geos' % (label, g, cl))
        elif CLASS[rowof[name(g)]] != cl:
          fails.append('%s: geo %r with row %r reported in class %s' % (label, name(g), rowof[name(g)], cl))
    if sorted(seen) != sorted(universe):
      fails.append('%s: classes cover %r, requested %r' % (label, sorted(seen), sorted(universe)))
    for f, col in (('c', 0), ('t', 1), ('x', 2)):
      want = sorted(g for g in universe if rowof[name(g)][col] == 1)
      if sorted(d[f]) != want:
        fails.append('%s: set %s is %r, expected %r' % (label, f, d[f], want))
    if sorted(d['all']) != sorted(universe):
      fails.append('%s: all is %r' % (label, d['all']))
  if not res['input_unmodified']:
    fails.append('caller frame modified')
  return fails


def encode(spec, res):
  idnum = {}
  rows = []
  for r in spec['rows']:
    k = idnum.setdefault(str(r[0]), len(idnum))
    rows.append('(%d, %s, %s, %s)' % (k, cell_class(r[1]), cell_class(r[2]), cell_class(r[3])))
  b = lambda x: 'true' if x else 'false'
  t = ('{| has_geo := %s; dup_columns := %s; has_control := %s; has_treatment := %s; has_exclude := %s; rows := %s |}'
       % (b('geo' not in spec['drop']), b(bool(spec['dup'])), b('control' not in spec['drop']),
          b('treatment' not in spec['drop']), b('exclude' not in spec['drop']), coq_list(rows)))
  accepted = res['outcome'] == 'accept'
  if accepted and 'idx' in res:
    rowof = {str(r[0]): [cell_class(v) == 'C1' for v in r[1:]] for r in spec['rows']}
    es = coq_list(['E %s %s %s' % tuple(b(v) for v in rowof[g]) for g in res['subset']])
    ans = coq_list([coq_list(['%d' % i for i in s]) for s in res['idx']])
  else:
    es, ans = '[]', '[]'
  return '(%s, %s, %s, %s)' % (t, b(accepted), es, ans)


PRELUDE = ('From Coq Require Import List Arith Bool.\nFrom MM Require Import lib.ListSet model.Elig harness.RunCommon harness.RunC16.\n'
           'Import ListNotations.\n')
GPRELUDE = ('From Coq Require Import List Arith Bool ZArith.\nFrom MM Require Import lib.ListSet model.Elig model.EligFrame harness.RunCommon '
            'harness.RunC16.\nImport ListNotations.\nOpen Scope Z_scope.\n')


def gencode(spec, res):
  """A query of an accepted table for the translated get_eligible_assignments (None when there is nothing to compare)."""
  if res.get('outcome') != 'accept' or 'idx' not in res:
    return None
  idnum = {}
  for r in spec['rows']:
    idnum.setdefault(str(r[0]), len(idnum))
  b = lambda x: 'true' if x else 'false'
  frame = coq_list(['(%d, E %s %s %s)' % ((idnum[str(r[0])],) + tuple(b(cell_class(v) == 'C1') for v in r[1:])) for r in spec['rows']])
  zl = lambda l: coq_list(['%d' % v for v in l])
  trip = lambda sets, conv: '(%s, %s, %s)' % tuple(zl(sorted(conv(v) for v in sets[k])) for k in (1, 2, 3))     # FIELDS: all, c, t, x, ...
  return '(%s, %s, %s, %s, %s)' % (frame, zl([idnum[g] for g in res['subset']]), trip(res['idx'], int),
                                   trip(res['ids'], lambda g: idnum[g]), trip(res['full'], lambda g: idnum[g]))


def _one(args):
  spec, sseed = args
  try:
    res = run_impl(spec, sseed)
  except Exception as e:
    res = {'outcome': 'harness-error:' + type(e).__name__, 'msg': str(e)[:300]}
  return res


def run(tier):
  ck = Check('C16', tier)
  ck.prove('props/C16.v', gen_targets=['geoassignments', 'eligassign'], extra=['harness/RunC16.vo'])
  rng = random.Random(ck.seed * 1000003 + 16)
  n = common.sz(tier, 500, 20000)
  specs = [gen_spec(rng, i, malformed=(i % 3 == 2)) for i in range(n)]
  # exhaustive part: every ordered pair/triple of row types as a table (7^1 + 7^2 + 7^3 tables)
  kinds = [k for k in ROWS if k != 'zero']
  import itertools
  for ln in (1, 2, 3):
    for combo in itertools.product(kinds, repeat=ln):
      specs.append({'idx': len(specs), 'rows': [[str(j + 1)] + list(ROWS[k]) for j, k in enumerate(combo)],
                    'geo_as': 'column', 'drop': [], 'dup': None, 'shuffle_cols': False, 'extra_col': False,
                    'malformed': None})
  args = [(s, ck.seed + 7919 * i) for i, s in enumerate(specs)]
  results = common.pmap(_one, args, chunksize=50)
  dist = {'accepted': 0, 'ValueError': 0, 'malformed_kinds': {}, 'rows_total': 0, 'geo_as_index': 0}
  terms = []
  for s, r in zip(specs, results):
    dist['accepted' if r['outcome'] == 'accept' else 'ValueError' if r['outcome'] == 'ValueError' else 'other'] = \
        dist.get('accepted' if r['outcome'] == 'accept' else 'ValueError' if r['outcome'] == 'ValueError' else 'other', 0) + 1
    dist['malformed_kinds'][str(s['malformed'])] = dist['malformed_kinds'].get(str(s['malformed']), 0) + 1
    dist['rows_total'] += len(s['rows'])
    dist['geo_as_index'] += s['geo_as'] == 'index'
    ck.count((repr(s['rows']), s['geo_as'], tuple(s['drop']), s['dup'], tuple(r.get('subset', []))),
             nontrivial=len(s['rows']) >= 2 or s['malformed'] is not None)
    fails = oracle(s, r) if not r['outcome'].startswith('harness-error') else ['harness error ' + r['msg']]
    if fails:
      ck.fail('elig-' + ('validation' if r['outcome'] != 'accept' or not spec_truth(s) else 'partition'),
              fails[0], {'spec': s, 'result': r, 'all_failures': fails[:5]})
    terms.append(encode(s, r))
  gterms = [(i, t) for i, t in ((i, gencode(s, r)) for i, (s, r) in enumerate(zip(specs, results))) if t is not None]
  ck.sample({'spec': specs[0], 'result': results[0]})
  ck.sample({'spec': specs[2], 'result': results[2]})
  jobs = []
  shard = 500
  for k in range(0, len(terms), shard):
    jobs.append(('c16_cases_%d' % (k // shard), PRELUDE + 'Definition cases : list case := %s.\nEval vm_compute in (mismatches agrees cases).\n'
                 % coq_list(terms[k:k + shard]).replace('; ({|', ';\n ({|')))
  for k in range(0, len(gterms), shard):
    jobs.append(('c16_gen_%d' % (k // shard), GPRELUDE + 'Definition cases : list gcase := %s.\nEval vm_compute in (mismatches gagrees cases).\n'
                 % coq_list([t for _, t in gterms[k:k + shard]]).replace('; ([', ';\n ([')))
  res = common.coq_eval_many(jobs)
  bad, gbad = [], []
  for name, (rc, out) in res.items():
    mm = common.parse_nat_list(out) if rc == 0 else None
    if mm is None:
      ck.tie_broken('correspondence', 'model evaluation failed (%s)' % name, out[-1500:])
    elif name.startswith('c16_gen_'):
      base = int(name.split('_')[-1]) * shard
      gbad += [gterms[base + i][0] for i in mm]
    else:
      base = int(name.split('_')[-1]) * shard
      bad += [base + i for i in mm]
  if gbad:
    i = sorted(gbad)[0]
    ck.tie_broken('correspondence', 'translated get_eligible_assignments (gen/Gen_EligAssign.v) vs the implementation on %d of %d queries'
                  % (len(gbad), len(gterms)), {'spec': specs[i], 'result': results[i]})
  ck.cov['translated_get_eligible_assignments_vs_impl'] = {'queries': len(gterms), 'disagreements': len(gbad)}
  if bad:
    i = sorted(bad)[0]
    ck.tie_broken('correspondence', 'GeoEligibility vs model/Elig.v on %d of %d tables' % (len(bad), len(specs)),
                  {'spec': specs[i], 'impl': results[i]})
  ck.cov['rule'] = ('tables built from generated specifications: 1-12 geos over the 7 legal row types, int/str/mixed IDs, '
                    'int/float/bool cells, geo as column or index, shuffled/extra columns; every third table malformed '
                    '(all-zero row, cell 2/-1/NaN/str/None/0.5, duplicate ID incl. 1 vs "1", missing value column, '
                    'missing geo, duplicated column, two defects); plus exhaustively every table of 1-3 rows over the '
                    '7 legal row types; for each accepted table a random non-empty ordered subset is queried with '
                    'indices=True, indices=False and with no subset (in every other case after the same object has answered for the same geos in other orders, for other geos and for all). non-trivial: >= 2 rows or malformed; '
                    'distinct: (rows, layout, subset)')
  ck.cov['exhaustive_part'] = 'all 7 + 49 + 343 tables with 1..3 rows of legal types'
  ck.cov['distribution'] = dist
  ck.cov['correspondence'] = {'tables_compared_model_vs_impl': len(specs), 'disagreements': len(bad)}
  ck.assumptions = ['empty ordered subset is outside the quantifier (the code documents geos=None/empty as "all geos")']
  return ck.finish('proof', TRUSTED)


def replay(data):
  inp = data.get('input') or next((b['detail'] for b in data.get('tie_broken', []) if isinstance(b.get('detail'), dict)), None)
  if isinstance(inp, str) or inp is None:
    print('replay: no executable input recorded:', data.get('tie_broken'))
    return 1
  spec = inp['spec']
  res = run_impl(spec, data.get('seed', 0))
  if 'result' in inp and 'subset' in inp['result']:
    pass
  fails = oracle(spec, res)
  print('spec:', spec)
  print('implementation:', res)
  print('property failures:', fails or 'none')
  return 1 if fails else 0
