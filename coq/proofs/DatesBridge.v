(* The translated utils.expand_time_windows and TimeWindow.__post_init__ (gen/Gen_Dates.v) are the model's. *)
From Coq Require Import List ZArith Bool Lia.
From MM Require Import model.Dates gen.Gen_Dates proofs.DatesProofs.
Import ListNotations.
Open Scope Z_scope.

Lemma fold_app_flat {A B} (f : A -> list B) : forall l acc,
  fold_left (fun acc a => acc ++ f a) l acc = acc ++ flat_map f l.
Proof.
  induction l as [|a l IH]; intros acc; cbn [fold_left flat_map].
  - now rewrite app_nil_r.
  - rewrite IH. now rewrite app_assoc.
Qed.

Theorem gen_expand_is_model ws : gen_expand_time_windows ws = expand ws.
Proof.
  unfold gen_expand_time_windows, expand. cbv zeta.
  rewrite (fold_app_flat (fun w => zrange (fst w) (snd w + 1))). reflexivity.
Qed.

(* the constructor of a window raises exactly when the first day is after the last day *)
Theorem gen_timewindow_raises_spec a b : gen_timewindow_raises a b = (b <? a).
Proof.
  unfold gen_timewindow_raises. cbn [negb]. rewrite Z.gtb_ltb. now destruct (b <? a).
Qed.

(* window_of rejects a well-formed range exactly when the translated constructor raises *)
Theorem window_of_range_uses_constructor a b : valid_date a = true -> valid_date b = true ->
  window_of (Range a b) =
  if gen_timewindow_raises (days_from_civil a) (days_from_civil b) then RaiseValueError
  else Ok (days_from_civil a, days_from_civil b).
Proof.
  intros Ha Hb. cbn [window_of]. rewrite Ha, Hb, gen_timewindow_raises_spec. reflexivity.
Qed.
Theorem window_of_single_never_raises_in_constructor d :
  gen_timewindow_raises (days_from_civil d) (days_from_civil d) = false.
Proof. rewrite gen_timewindow_raises_spec. apply Z.ltb_irrefl. Qed.

(* ---- find_days_to_exclude.  An entry of the model and the pieces its text splits into at '-' signs, each piece
   being what pd.Timestamp makes of it (Some day number / None = ValueError). *)
Definition parse (d : date) : option Z := if valid_date d then Some (days_from_civil d) else None.
Inductive pieces_of : entry -> list (option Z) -> Prop :=
| P_single d : pieces_of (Single d) [parse d]
| P_range a b : pieces_of (Range a b) [parse a; parse b]
| P_malformed ps : (length ps <> 1%nat /\ length ps <> 2%nat) \/ In None ps -> pieces_of Malformed ps.

Definition outcome_of (r : result (Z * Z)) : outcome :=
  match r with Ok w => Window w | RaiseValueError => ValueErr end.
Definition outcomes_of (r : result (list (Z * Z))) : outcomes :=
  match r with Ok ws => Windows ws | RaiseValueError => RaisesValueError end.

Lemma gen_window_of_pieces_is_model e ps : pieces_of e ps -> gen_window_of_pieces ps = outcome_of (window_of e).
Proof.
  intros H. destruct H as [d|a b|ps H].
  - unfold gen_window_of_pieces, parse. cbn [length nth_error window_of]. change (Z.of_nat 1 =? 1) with true. cbv iota.
    destruct (valid_date d); [|reflexivity].
    rewrite gen_timewindow_raises_spec, Z.ltb_irrefl. reflexivity.
  - unfold gen_window_of_pieces, parse. cbn [length nth_error window_of].
    change (Z.of_nat 2 =? 1) with false. change (Z.of_nat 2 =? 2) with true. cbv iota.
    destruct (valid_date a), (valid_date b); cbn [andb]; try reflexivity.
    rewrite gen_timewindow_raises_spec. now destruct (days_from_civil b <? days_from_civil a).
  - cbn [window_of outcome_of]. unfold gen_window_of_pieces.
    destruct ps as [|p [|q [|r ps]]].
    + reflexivity.
    + cbn [length nth_error]. change (Z.of_nat 1 =? 1) with true. cbv iota.
      destruct H as [[H _]|H]; [now elim H|]. destruct H as [->|[]]. reflexivity.
    + cbn [length nth_error]. change (Z.of_nat 2 =? 1) with false. change (Z.of_nat 2 =? 2) with true. cbv iota.
      destruct H as [[_ H]|H]; [now elim H|]. destruct H as [->|[->|[]]]; [reflexivity|]. now destruct p.
    + replace (Z.of_nat (length (p :: q :: r :: ps)) =? 1) with false
        by (symmetry; apply Z.eqb_neq; cbn [length]; lia).
      replace (Z.of_nat (length (p :: q :: r :: ps)) =? 2) with false
        by (symmetry; apply Z.eqb_neq; cbn [length]; lia).
      reflexivity.
Qed.

Lemma fold_find_days es : forall pss acc, Forall2 pieces_of es pss ->
  fold_left (fun acc x =>
    match acc with
    | Windows days_exclude =>
        match gen_window_of_pieces x with
        | Window w => Windows (days_exclude ++ [w])
        | ValueErr => RaisesValueError
        | IndexErr => RaisesIndexError
        end
    | _ => acc
    end) pss (Windows acc) =
  match windows_of es with Ok ws => Windows (acc ++ ws) | RaiseValueError => RaisesValueError end.
Proof.
  induction es as [|e es IH]; intros pss acc H; inversion H as [|e' ps es' pss' Hp Hr]; subst; cbn [fold_left windows_of].
  - now rewrite app_nil_r.
  - rewrite (gen_window_of_pieces_is_model _ _ Hp). destruct (window_of e) as [w|]; cbn [outcome_of].
    + rewrite (IH _ _ Hr). destruct (windows_of es) as [ws|]; [|reflexivity]. now rewrite <- app_assoc.
    + clear. induction pss' as [|x l IHl]; [reflexivity|exact IHl].
Qed.

Theorem gen_find_days_is_model es pss : Forall2 pieces_of es pss ->
  gen_find_days_to_exclude pss = outcomes_of (windows_of es).
Proof. intros H. unfold gen_find_days_to_exclude. rewrite (fold_find_days es pss [] H). reflexivity. Qed.

(* the whole pipeline find_days_to_exclude + expand_time_windows on the translated functions *)
Definition gen_days_to_exclude (pss : list (list (option Z))) : result (list Z) :=
  match gen_find_days_to_exclude pss with
  | Windows ws => Ok (gen_expand_time_windows ws)
  | _ => RaiseValueError
  end.
Theorem gen_days_to_exclude_is_model es pss : Forall2 pieces_of es pss -> gen_days_to_exclude pss = days_to_exclude es.
Proof.
  intros H. unfold gen_days_to_exclude, days_to_exclude. rewrite (gen_find_days_is_model _ _ H).
  destruct (windows_of es) as [ws|]; cbn [outcomes_of]; [|reflexivity]. now rewrite gen_expand_is_model.
Qed.
(* tmp[i] is never read outside the list: no IndexError on any list of pieces (not only those of well-formed entries) *)
Theorem gen_find_days_never_index_error pss : gen_find_days_to_exclude pss <> RaisesIndexError.
Proof.
  unfold gen_find_days_to_exclude.
  assert (G : forall acc, acc <> RaisesIndexError ->
    fold_left (fun acc x =>
      match acc with
      | Windows days_exclude =>
          match gen_window_of_pieces x with
          | Window w => Windows (days_exclude ++ [w])
          | ValueErr => RaisesValueError
          | IndexErr => RaisesIndexError
          end
      | _ => acc
      end) pss acc <> RaisesIndexError).
  { induction pss as [|ps pss IH]; intros acc Hacc; cbn [fold_left]; [exact Hacc|]. apply IH.
    destruct acc as [l| |]; try assumption.
    assert (Hw : gen_window_of_pieces ps <> IndexErr).
    { unfold gen_window_of_pieces. destruct ps as [|p [|q [|r ps]]]; cbn [length nth_error].
      - discriminate.
      - change (Z.of_nat 1 =? 1) with true. cbv iota. destruct p; [destruct (gen_timewindow_raises _ _)|]; discriminate.
      - change (Z.of_nat 2 =? 1) with false. change (Z.of_nat 2 =? 2) with true. cbv iota.
        destruct p, q; try discriminate. destruct (gen_timewindow_raises _ _); discriminate.
      - replace (Z.of_nat (S (S (S (length ps)))) =? 1) with false by (symmetry; apply Z.eqb_neq; lia).
        replace (Z.of_nat (S (S (S (length ps)))) =? 2) with false by (symmetry; apply Z.eqb_neq; lia). discriminate. }
    destruct (gen_window_of_pieces ps); try discriminate. now elim Hw. }
  apply G. discriminate.
Qed.

(* ---- the pipeline, stated on entries: what an accepted list expands to *)
Definition covers (e : entry) (d : Z) : Prop :=
  match e with
  | Single x => d = days_from_civil x
  | Range a b => days_from_civil a <= d <= days_from_civil b
  | Malformed => False
  end.
Lemma windows_of_In es : forall ws, windows_of es = Ok ws ->
  forall w, In w ws <-> exists e, In e es /\ window_of e = Ok w.
Proof.
  induction es as [|e es IH]; cbn [windows_of]; intros ws H w.
  - injection H as <-. split; [intros []|intros (e & [] & _)].
  - destruct (window_of e) as [w0|] eqn:Hw; [|discriminate].
    destruct (windows_of es) as [ws0|]; [|discriminate]. injection H as <-. cbn [In]. rewrite (IH ws0 eq_refl w). split.
    + intros [<-|(e' & Hin & He')]; [exists e; auto|exists e'; auto].
    + intros (e' & [<-|Hin] & He'); [left; congruence|right; exists e'; auto].
Qed.
Lemma window_covers e w : window_of e = Ok w -> forall d, fst w <= d <= snd w <-> covers e d.
Proof.
  destruct e as [x|a b|]; cbn [window_of covers]; intros H d.
  - destruct (valid_date x); [|discriminate]. injection H as <-. cbn [fst snd]. lia.
  - destruct (valid_date a && valid_date b); [|discriminate].
    destruct (days_from_civil b <? days_from_civil a); [discriminate|]. injection H as <-. cbn [fst snd]. lia.
  - discriminate.
Qed.
Theorem days_to_exclude_exact es ds : days_to_exclude es = Ok ds ->
  NoDup ds /\ forall d, In d ds <-> exists e, In e es /\ covers e d.
Proof.
  unfold days_to_exclude. destruct (windows_of es) as [ws|] eqn:Hws; [|discriminate]. intros H. injection H as <-.
  split; [apply expand_NoDup|]. intros d. rewrite expand_spec. split.
  - intros (w & Hin & Hd). apply (windows_of_In es ws Hws) in Hin. destruct Hin as (e & He & Hw).
    exists e. split; [exact He|]. now apply (window_covers e w Hw).
  - intros (e & He & Hc). destruct (window_of e) as [w|] eqn:Hw.
    + exists w. split; [apply (windows_of_In es ws Hws); exists e; auto|]. now apply (window_covers e w Hw).
    + exfalso. apply in_split in He. destruct He as (l1 & l2 & ->).
      pose proof (one_bad_entry_rejects_all l1 e l2 Hw) as Hbad. unfold days_to_exclude in Hbad. now rewrite Hws in Hbad.
Qed.
Theorem days_to_exclude_accepts_iff es : (exists ds, days_to_exclude es = Ok ds) <-> forall e, In e es -> window_of e <> RaiseValueError.
Proof.
  split.
  - intros (ds & H) e He Hw. apply in_split in He. destruct He as (l1 & l2 & ->).
    rewrite (one_bad_entry_rejects_all l1 e l2 Hw) in H. discriminate.
  - intros H. unfold days_to_exclude. induction es as [|e es IH]; cbn [windows_of]; [eexists; reflexivity|].
    destruct (window_of e) as [w|] eqn:Hw; [|now elim (H e (or_introl eq_refl))].
    destruct IH as (ds & Hds); [intros e' He'; apply H; now right|].
    destruct (windows_of es) as [ws|]; [eexists; reflexivity|discriminate].
Qed.
