(* Model of the lazy caching of TBRMMDiagnostics (tbrmmdiagnostics.py:118-192, 268-482).
   Definitions only.  The cache structure (which member memoises in which slot, which
   slots the control-series setter resets, which members a member reads) is a parameter:
   the checks instantiate it with the tables regenerated from the source on every run.

   A value is abstracted to the snapshot (control series id, treatment series id) of the
   inputs it was computed from: every kernel is a deterministic function of the two series
   and the parameters, so a read is fresh iff its snapshot is the current one. *)
From Coq Require Import List String Bool Arith.
Import ListNotations.
Open Scope string_scope.

Definition snap := (option nat * nat)%type.
Definition snap_eqb (a b : snap) : bool :=
  match fst a, fst b with
  | Some x, Some y => Nat.eqb x y | None, None => true | _, _ => false
  end && Nat.eqb (snd a) (snd b).

Record dstate := { d_x : option nat; d_y : nat; d_cache : list (string * snap) }.
Definition cur (st : dstate) : snap := (d_x st, d_y st).
Inductive dop := SetX (v : option nat) | SetY (v : nat) | Read (m : string).

Fixpoint assoc {B} (l : list (string * B)) (k : string) : option B :=
  match l with [] => None | (k', v) :: l' => if String.eqb k' k then Some v else assoc l' k end.
Definition smem (k : string) (l : list string) : bool := existsb (String.eqb k) l.

Section Cache.
  Variables (memo : list (string * option string)) (deps : list (string * list string))
            (x_resets : list string) (y_clears_x : bool).

  Definition memo_of (m : string) : option string := match assoc memo m with Some o => o | None => None end.
  Definition deps_of (m : string) : list string := match assoc deps m with Some l => l | None => [] end.
  Definition cache_set (st : dstate) (s : string) (v : snap) : dstate :=
    {| d_x := d_x st; d_y := d_y st; d_cache := (s, v) :: d_cache st |}.

  Definition slot_prefix := "slot:".
  Definition is_slot_dep (d : string) : option string :=
    if String.prefix slot_prefix d then Some (String.substring 5 (String.length d - 5) d) else None.

  (* computing a value from the members it reads, each obtained through [rd]: the result carries
     the current snapshot unless something that was read is stale *)
  Definition compute_with (rd : dstate -> string -> dstate * snap) (ds : list string) (st : dstate) : dstate * snap :=
    fold_left (fun (acc : dstate * snap) d =>
                 let '(st1, v) := acc in
                 match is_slot_dep d with
                 | Some s => match assoc (d_cache st1) s with
                             | Some w => (st1, if snap_eqb w (cur st1) then v else w)
                             | None => (st1, v) end
                 | None => let '(st2, w) := rd st1 d in
                           (st2, if snap_eqb w (cur st2) then v else w)
                 end) ds (st, cur st).

  (* reading member [m]: a filled slot is served as it is; otherwise the value is computed from
     the members it reads (each read recursively) and stored *)
  Fixpoint read (fuel : nat) (st : dstate) (m : string) : dstate * snap :=
    match fuel with
    | O => (st, cur st)
    | S f =>
        match memo_of m with
        | Some s => match assoc (d_cache st) s with
                    | Some v => (st, v)
                    | None => let '(st', v) := compute_with (read f) (deps_of m) st in (cache_set st' s v, v)
                    end
        | None => compute_with (read f) (deps_of m) st
        end
    end.

  Definition set_x (st : dstate) (v : option nat) : dstate :=
    {| d_x := v; d_y := d_y st; d_cache := filter (fun e => negb (smem (fst e) x_resets)) (d_cache st) |}.
  Definition set_y (st : dstate) (v : nat) : dstate :=
    let st' := {| d_x := d_x st; d_y := v; d_cache := d_cache st |} in
    if y_clears_x then set_x st' None else st'.

  Definition dstep (fuel : nat) (st : dstate) (o : dop) : dstate * option snap :=
    match o with
    | SetX v => (set_x st v, None)
    | SetY v => (set_y st v, None)
    | Read m => let '(st', v) := read fuel st m in (st', Some v)
    end.
  (* all reads of a history, each paired with the snapshot a fresh object would report *)
  Fixpoint drun (fuel : nat) (st : dstate) (ops : list dop) : list (snap * snap) :=
    match ops with
    | [] => []
    | o :: ops' =>
        let '(st', out) := dstep fuel st o in
        match out with
        | Some v => (v, cur st') :: drun fuel st' ops'
        | None => drun fuel st' ops'
        end
    end.
  Definition dinit (y : nat) : dstate := {| d_x := None; d_y := y; d_cache := [] |}.

  (* the decidable condition on the tables *)
  Definition tables_ok : bool :=
    forallb (fun e => match snd e with Some s => smem s x_resets | None => true end) memo && y_clears_x.
End Cache.
