"""C02 -- returned designs satisfy every user-specified numeric constraint."""
from . import searchfam, search_oracles as so
from . import common
from .c01 import RULE


def oracle(ck, case, out):
  skipped = 0
  for which in ('exhaustive', 'greedy'):
    r = out.get(which)
    if not r or r['outcome'] != 'ok':
      continue
    fails, sk = so.c02_within(case, out, r, which)
    skipped += sk
    if fails:
      ck.fail('constraint-violated', '%s search: %s' % (which, fails[0]), {'case': searchfam.slim(case), 'which': which})
  ck.cov['near_threshold_skipped'] = ck.cov.get('near_threshold_skipped', 0) + skipped


COMPONENTS = ['tsize_range', 'csizes', 'within', 'exhaustive', 'greedy']


def boundary_cases(ck, tier):
  """Instances exactly on a size bound or a geo-ratio bound (tol in {1/4, 1/2, 1, 2, 3})."""
  from . import search
  out = []
  k = 0
  for tol in (0.25, 0.5, 1.0, 2.0, 3.0):
    for tr in ((1, 1), (1, 2), (2, 2), (2, 4)):
      for cr in ((1, 1), (2, 2), (1, 4), (3, 6)):
        if tier == 'quick' and (k % 4) != 0:
          k += 1
          continue
        c = search.gen_case(ck.seed * 7 + k, tier, max_geos=6)
        c['elig'] = {str(g + 1): 'ctx' for g in range(len(c['rows']))}
        c['par'] = {'n_test': 3, 'iroas': 1.0, 'n_designs': 50, 'n_pretest_max': 90,
                    'geo_ratio_tolerance': tol, 'treatment_geos_range': tr, 'control_geos_range': cr}
        c['want_share'] = c['want_budget'] = False
        out.append(c)
        k += 1
  # the data object served an analysis over a longer window first; budget range on the short window
  for j in range(common.sz(tier, 10, 60)):
    c = search.gen_case(ck.seed * 11 + 500 + j, tier, max_geos=5)
    c['par'] = dict(c['par'], n_pretest_max=12)
    if j % 3 != 2:
      # the older part of the history is at another level and noisier (some geos carried three times their recent
      # volume): required budgets over the long window differ markedly from those over the analysis window
      nd, n = len(c['rows'][0]), len(c['rows'])
      half = nd // 2
      rj = __import__('random').Random(ck.seed * 11 + 500 + j)
      for g in rj.sample(range(n), max(1, n // 2)):
        c['rows'][g] = [(v * 3 + rj.choice([-9.0, 0.0, 9.0])) if t < half else v for t, v in enumerate(c['rows'][g])]
      c['par']['n_pretest_max'] = max(c['par']['n_test'] + 3, nd - half)
      c.pop('drift', None)
    c['want_budget'] = True
    c['budget_mode'] = ['hi-bites', 'lo-bites', 'pair-median-lo', 'pair-median-hi', 'pair-median-lo'][j % 5]
    c['history'] = 'longer-window-first'
    out.append(c)
  # a geo that enters the panel late (no rows on the first half of the dates): its share counts the missing days as zeros,
  # and the volume-ratio / share constraints are tight
  for j in range(common.sz(tier, 8, 60)):
    c = search.gen_case(ck.seed * 19 + 800 + j, tier, max_geos=5)
    n, nd = len(c['rows']), len(c['rows'][0])
    if n < 3:
      continue
    rj = __import__('random').Random(ck.seed * 19 + 800 + j)
    g, k = rj.randrange(n), nd // 2
    c['rows'][g] = [0.0] * k + [abs(v) + 1.0 for v in c['rows'][g][k:]]
    c['missing_head'] = [g, k]
    c['elig'] = {str(i + 1): rj.choice(['ctx', 'ctx', 'ct', 'cx', 'tx']) for i in range(n)}
    c['par'] = {'n_test': 3, 'iroas': 1.0, 'n_designs': 50, 'n_pretest_max': 90,
                'volume_ratio_tolerance': rj.choice([0.1, 0.2, 0.35])}
    c['want_share'] = j % 2 == 0
    c['want_budget'] = False
    c['history'] = None
    for key in ('zero_sum_geo', 'drift', 'int_response', 'float_valued_integers', 'window_bound_above_history', 'non_default_statistics'):
      c.pop(key, None)
    out.append(c)
  # a low rho_max: designs whose groups correlate better than the planning bound need LESS than the optimistic budget of
  # their treatment group, so the per-design lower budget bound is the only thing that rejects them
  for j in range(common.sz(tier, 8, 60)):
    c = search.gen_case(ck.seed * 17 + 700 + j, tier, max_geos=5)
    rj = __import__('random').Random(ck.seed * 17 + 700 + j)
    nd = len(c['rows'][0])
    walk = [50.0]
    for _ in range(nd - 1):
      walk.append(walk[-1] + rj.gauss(0, 2.0))
    c['rows'] = [[round((s * w + rj.gauss(0, 0.15 * s)) * 8) / 8 for w in walk] for s in rj.sample([1, 2, 3, 5, 8], rj.randint(3, 5))]
    c['elig'] = {str(g + 1): rj.choice(['ctx', 'ctx', 'ct', 'cx', 'tx']) for g in range(len(c['rows']))}
    c['par'] = {'n_test': 4, 'iroas': 1.0, 'n_designs': rj.choice([5, 50]), 'n_pretest_max': 90, 'rho_max': rj.choice([0.9, 0.92])}
    c['want_share'] = False
    c['want_budget'] = True
    c['budget_mode'] = 'pair-median-lo'
    c['history'] = None
    for k in ('zero_sum_geo', 'drift', 'int_response'):
      c.pop(k, None)
    out.append(c)
  # group sizes whose ratio equals a bound in exact arithmetic but not in binary64 (1 + 2/3 < 5/3, 3/5 < 1/(1 + 2/3))
  for j, (tr, cr) in enumerate([((5, 5), None), ((3, 3), (5, 5))] if tier == 'quick' else
                               [((5, 5), None), ((3, 3), (5, 5)), ((5, 5), (3, 3)), ((3, 5), None)]):
    c = search.gen_case(ck.seed * 13 + 900 + j, tier, max_geos=6)
    rng = __import__('random').Random(ck.seed * 13 + 900 + j)
    nd = len(c['rows'][0])
    base = c['rows'][0]
    c['rows'] = [[round((s * b / max(1.0, base[0]) * 50 + rng.gauss(0, 0.5 * s)) * 8) / 8 for b in base] for s in (1, 2, 3, 5, 8, 13, 21, 34)]
    c['elig'] = {str(g + 1): 'ctx' for g in range(8)}
    par = {'n_test': 3, 'iroas': 1.0, 'n_designs': 5, 'n_pretest_max': 90, 'geo_ratio_tolerance': 2.0 / 3.0, 'treatment_geos_range': tr}
    if cr:
      par['control_geos_range'] = cr
    c['par'] = par
    c['want_share'] = c['want_budget'] = False
    c['history'] = None
    c.pop('zero_sum_geo', None)
    c.pop('int_response', None)
    c.pop('drift', None)
    out.append(c)
    if j < 2:
      # the same panel with three geos fixed to treatment, three to control and two optional controls: the only way to a
      # 3:5 design is to add both optional controls, which the ratio bound forbids in binary64 (5/3 > 1 + 2/3)
      c2 = dict(c, seed=c['seed'] + 7777, par=dict(par), elig={str(g + 1): t for g, t in enumerate(['t', 'c', 't', 'c', 't', 'c', 'cx', 'cx'] if j == 0 else
                                                                                          ['c', 't', 'cx', 'c', 't', 'c', 't', 'cx'])})
      c2['par'].pop('treatment_geos_range', None)
      c2['par'].pop('control_geos_range', None)
      if j == 1:
        c2['par']['control_geos_range'] = (5, 5)        # ... and here nothing else is allowed: no feasible design at all
      c2.pop('par_final', None)
      out.append(c2)
  return out


def run(tier):
  return searchfam.run_family('C02', tier, 'props/C02.v', COMPONENTS, oracle, 150, 3000,
                              RULE + '; plus a boundary grid (geo-ratio tolerance in {1/4,1/2,1,2,3} x size ranges that '
                              'put group sizes exactly on a bound, n_designs=50 so all feasible designs are returned), cases whose data object served a '
                              'longer pretest window first (with a budget range), and 8-geo cases with geo_ratio_tolerance = 2/3 and 5:3 / 3:5 groups '
                              '(ratios equal to a bound in exact arithmetic only)',
                              extra_cases=boundary_cases,
                              assumptions=['cases within 1e-9 (relative) of a float threshold are skipped and counted',
                                           'bit-level inclusivity of the geo-ratio bound is tested on the boundary grid, '
                                           'proved only over an abstract value type'], gen_targets=searchfam.GEN_TARGETS_ALL)


def replay(data):
  return searchfam.replay_family(data, oracle)
