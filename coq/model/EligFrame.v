(* The eligibility table as a frame: rows (label, flags) in table order; what pandas' .loc[list], .reset_index() and
   boolean-mask selection of index labels do to it.  Definitions only. *)
From Coq Require Import List ZArith Bool.
From MM Require Import model.Elig.
Import ListNotations.

Definition frame := list (Z * elig).
Inductive ga_outcome := GA (c t x : list Z) | GAValueError | GAKeyError.

Definition truthy {A} (o : option (list A)) : bool := match o with Some (_ :: _) => true | _ => false end.
Definition unwrap {A} (o : option (list A)) : list A := match o with Some l => l | None => [] end.
Fixpoint lookup (df : frame) (g : Z) : option elig :=
  match df with [] => None | (g', e) :: df' => if Z.eqb g g' then Some e else lookup df' g end.
(* df.loc[geos]: the rows of the given IDs, in the given order; None = KeyError *)
Fixpoint loc (df : frame) (geos : list Z) : option frame :=
  match geos with
  | [] => Some []
  | g :: gs => match lookup df g, loc df gs with Some e, Some r => Some ((g, e) :: r) | _, _ => None end
  end.
(* df.reset_index(): the rows keep their order, the labels become 0, 1, ... *)
Fixpoint relabel_from (i : Z) (df : frame) : frame :=
  match df with [] => [] | (_, e) :: df' => (i, e) :: relabel_from (i + 1) df' end.
Definition reset_index (df : frame) : frame := relabel_from 0 df.
(* set(df.index[df[col] == 1]): the labels of the rows whose flag is set *)
Definition labels_where (f : elig -> bool) (df : frame) : list Z := map fst (filter (fun r => f (snd r)) df).
