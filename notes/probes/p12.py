import sys, itertools, numpy as np, pandas as pd
from lib import *
def run(df, spec, kw, method):
    mm,par = build(df, spec, kw)
    res = getattr(mm, method)()
    return [(tuple(sorted(d.treatment_geos)), tuple(sorted(d.control_geos)), d.score.score[:5], d.score.score[5], d.diag.required_impact, d.diag.corr) for d in res]
viol=0;n=0
for seed in range(int(sys.argv[1]), int(sys.argv[2])):
    rng = np.random.RandomState(seed)
    ngeos = rng.randint(2,6); df = panel(rng, ngeos, 14)
    spec = {str(g+1): (rng.choice(TYPES) if rng.rand()<0.4 else 'ctx') for g in range(ngeos)}
    kw={}
    if rng.rand()<0.3: kw['treatment_geos_range']=tuple(int(v) for v in sorted(rng.randint(1,4,2)))
    if rng.rand()<0.3: kw['geo_ratio_tolerance']=float(rng.choice([0.5,1.0,2.0]))
    if rng.rand()<0.3: kw['volume_ratio_tolerance']=float(rng.choice([0.5,1.0,3.0]))
    if rng.rand()<0.5: kw['budget_range']=tuple(float(v) for v in sorted(rng.uniform(0,40,2)))
    if rng.rand()<0.3: kw['treatment_share_range']=tuple(float(v) for v in sorted(rng.uniform(0.05,0.95,2)))
    if rng.rand()<0.2: kw['n_geos_max']=int(rng.randint(2,5))
    kw['n_designs']=int(rng.choice([1,3]))
    for method in ['exhaustive_search','greedy_search']:
        try: base = run(df, spec, kw, method)
        except Exception as e: continue
        n+=1
        # shuffle + date shift
        d2 = df.sample(frac=1.0, random_state=seed).reset_index(drop=True); d2['date']=d2['date']+pd.Timedelta(days=1000)
        r2 = run(d2, spec, kw, method)
        if r2!=base: viol+=1; print(seed,method,'shuffle/shift differs')
        # int ids
        d3 = df.copy(); d3['geo']=d3['geo'].astype(int)
        r3 = run(d3, spec, kw, method)
        if r3!=base: viol+=1; print(seed,method,'int ids differs')
        # rename
        ren = {str(g+1): 'G'+str((7*(g+1))%11) for g in range(ngeos)}
        d4 = df.copy(); d4['geo']=d4['geo'].map(ren); spec4={ren[g]:v for g,v in spec.items()}
        r4 = run(d4, spec4, kw, method)
        b4 = [(tuple(sorted(ren[g] for g in t)), tuple(sorted(ren[g] for g in c)))+tuple(rest) for (t,c,*rest) in base]
        r4 = [(t,c)+tuple(rest) for (t,c,*rest) in r4]
        if r4!=b4: viol+=1; print(seed,method,'rename differs', base, r4)
        # scale
        c=4.0
        d5 = df.copy(); d5['response']=d5['response']*c; kw5=dict(kw)
        if 'budget_range' in kw: kw5['budget_range']=tuple(v*c for v in kw['budget_range'])
        r5 = run(d5, spec, kw5, method)
        ok = len(r5)==len(base) and all(a[0]==b[0] and a[1]==b[1] and a[2]==b[2] and a[5]==b[5] and a[4]==c*b[4] for a,b in zip(r5,base))
        if not ok: viol+=1; print(seed,method,'scale differs', base[:1], r5[:1])
print('runs',n,'viol',viol)
