(* C07 -- iROAS summary is coherent with its incremental response and cost (fixed-cost scenario).
   A posterior quantile is loc + scale * tq; the fixed-cost report rescales the response posterior
   by 1 / cost. *)
From Coq Require Import QArith.
From MM Require Import model.TBRMath proofs.TBRMathProofs.
Open Scope Q_scope.

Theorem C07_iroas_is_response_over_cost :
  forall loc scale tq cost, ~ cost == 0 ->
    quantile (loc * (1 / cost)) (scale * (1 / cost)) tq == quantile loc scale tq / cost.
Proof. exact iroas_is_response_over_cost. Qed.
Theorem C07_incremental_response_bounds_are_iroas_bounds_times_cost :
  forall loc scale tq cost, ~ cost == 0 ->
    quantile (loc * (1 / cost)) (scale * (1 / cost)) tq * cost == quantile loc scale tq.
Proof. exact incremental_bounds_are_iroas_bounds_times_cost. Qed.
(* multiplying cost by a and response by b multiplies every iROAS figure by b / a *)
Theorem C07_unit_change :
  forall loc scale tq cost a b, ~ cost == 0 -> ~ a == 0 ->
    quantile ((b * loc) * (1 / (a * cost))) ((b * scale) * (1 / (a * cost))) tq
    == (b / a) * quantile (loc * (1 / cost)) (scale * (1 / cost)) tq.
Proof. exact iroas_unit_change. Qed.
(* ordering is inherited from the response posterior when the cost is positive *)
Theorem C07_order :
  forall loc scale tq_lo tq_hi, 0 <= scale -> tq_lo <= 0 -> 0 <= tq_hi ->
    quantile loc scale tq_lo <= loc /\ loc <= quantile loc scale tq_hi.
Proof. exact summary_order. Qed.
(* a negative incremental cost hands a negative scale to the t distribution (known finding) *)
Theorem C07_negative_cost_refuted : forall scale cost, 0 < scale -> cost < 0 -> scale * (1 / cost) < 0.
Proof. exact negative_cost_gives_negative_scale. Qed.

Print Assumptions C07_iroas_is_response_over_cost.
Print Assumptions C07_incremental_response_bounds_are_iroas_bounds_times_cost.
Print Assumptions C07_unit_change.
Print Assumptions C07_negative_cost_refuted.

(* ---- the scenario label.  TBRiROAS._is_fixed_cost_scenario and utils.float_order are regenerated from the source on every
   run (gen/Gen_Scenario.v) over a frame of (group, period, cost) rows; over the rationals, with numeric oracles of which
   only "floor(log10 a) < -10 iff a < 1e-10" and "-inf < -10" are assumed: the label is "fixed" exactly when the pre-period
   cost (of all groups) plus the control group's test-period cost is below 1e-10 in absolute value; all those costs being
   zero gives "fixed"; and with non-negative costs "fixed" bounds each of them by 1e-10 *)
From Coq Require Import List ZArith Qabs.
From MM Require Import lib.Values model.CostFrame gen.Gen_Scenario proofs.FormulasBridge proofs.ScenarioBridge.
Theorem C07_translated_label_is_fixed_iff_non_incremental_cost_is_negligible :
  forall (floor_log10 : Q -> Q) (neg_inf : Q),
    (forall a, 0 < a -> (floor_log10 a < inject_Z (-10) <-> a < tiny)) -> neg_inf < inject_Z (-10) ->
    forall adata pre test control,
      gen_is_fixed_cost_scenario QOps Qabs floor_log10 neg_inf adata pre test control = true
      <-> Qabs (non_incremental_cost adata pre test control) < tiny.
Proof. exact gen_fixed_cost_iff. Qed.
Theorem C07_translated_zero_costs_give_the_fixed_label :
  forall (floor_log10 : Q -> Q) (neg_inf : Q),
    (forall a, 0 < a -> (floor_log10 a < inject_Z (-10) <-> a < tiny)) -> neg_inf < inject_Z (-10) ->
    forall adata pre test control,
      (forall r, In r adata -> c_period r = pre -> c_cost r == 0) ->
      (forall r, In r adata -> c_period r = test -> c_group r = control -> c_cost r == 0) ->
      gen_is_fixed_cost_scenario QOps Qabs floor_log10 neg_inf adata pre test control = true.
Proof. exact zero_costs_give_fixed. Qed.
Theorem C07_translated_fixed_label_bounds_every_non_incremental_cost :
  forall (floor_log10 : Q -> Q) (neg_inf : Q),
    (forall a, 0 < a -> (floor_log10 a < inject_Z (-10) <-> a < tiny)) -> neg_inf < inject_Z (-10) ->
    forall adata pre test control,
      (forall r, In r adata -> 0 <= c_cost r) ->
      gen_is_fixed_cost_scenario QOps Qabs floor_log10 neg_inf adata pre test control = true ->
      (forall r, In r adata -> c_period r = pre -> c_cost r < tiny) /\
      (forall r, In r adata -> c_period r = test -> c_group r = control -> c_cost r < tiny).
Proof. exact fixed_bounds_every_cost. Qed.
Print Assumptions C07_translated_label_is_fixed_iff_non_incremental_cost_is_negligible.
Print Assumptions C07_translated_fixed_label_bounds_every_non_incremental_cost.
