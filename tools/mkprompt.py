#!/usr/bin/env python3
"""usage: mkprompt.py <property id> <round tag>  -> writes /tmp/mut_<tag>_prompt.txt, creates worktree /tmp/mut_<tag>.
The prompt contains only the property text (nothing from /verif)."""
import json
import os
import subprocess
import sys

pid, tag = sys.argv[1], sys.argv[2]
hint = sys.argv[3] if len(sys.argv) > 3 else ''
p = [json.loads(l) for l in open('/verif/properties.jsonl') if json.loads(l)['id'] == pid][0]
wt, out = '/tmp/mut_%s' % tag, '/tmp/mut_%s_out' % tag
if not os.path.isdir(wt):
  subprocess.check_call(['git', '-C', '/repo', 'worktree', 'add', '--detach', '-q', wt, 'HEAD'])
os.makedirs(out, exist_ok=True)
anchors = p.get('anchors')
files = ', '.join(anchors['files'])
mech = '; '.join('%s (%s)' % (m['name'], m['where']) for m in anchors['mechanism'])
txt = f"""You are helping to evaluate a verification tool by producing ONE realistic, subtle bug ("seeded change") in a Python library.

The library is google/matched_markets (geo-experiment design/analysis: Time Based Regression, matched-markets search). You have your OWN scratch git worktree of it at: {wt}   (work ONLY there; never touch /repo or /verif, do not look at /verif). Python to use: /venv/bin/python with PYTHONPATH={wt} (e.g. `cd {wt} && PYTHONPATH={wt} /venv/bin/python -m pytest -q -p no:cacheprovider matched_markets -x -q`). The full test suite takes ~25 s; about 20 tests fail on the untouched tree for environment reasons (pandas 3) -- those do not count; every test that passes on the untouched tree must still pass with your change.

THE PROPERTY YOUR CHANGE MUST BREAK (a semantic property users rely on):
ID: {p['id']}
TITLE: {p['title']}
STATEMENT: {p['statement']}
QUANTIFIER: {p['quantifier']['text'] if isinstance(p['quantifier'], dict) else p['quantifier']}
ANCHORS (files): {files}
MECHANISMS: {mech}
{hint}

YOUR TASK
1. Read the code the property is anchored in.
2. Make a small change to the library source (not the tests) that a plausible maintainer edit / refactor / "optimisation" could introduce, that BREAKS the property, still imports/compiles, and keeps every previously-passing test passing.
3. The break must need something specific to manifest -- a particular call sequence, an unusual but valid input, a boundary value, a specific combination of parameters, or two cooperating sites that each look fine alone -- NOT something that ordinary use or a trivial smoke test would expose at once. Prefer changes in the decision/bookkeeping/arithmetic logic over changes that make everything crash.
4. Write a demonstration: a small standalone Python script {out}/demo.py that exits 0 when the property holds and exits 1 (printing what went wrong) when it is violated. It must FAIL (exit 1) with your change applied and PASS (exit 0) on the untouched tree. It should import the library from the PYTHONPATH given on the command line (do not hard-code the worktree path inside it).
5. Save `git -C {wt} diff > {out}/patch.diff` (the patch must apply to the untouched tree with `git apply`).
6. Verify all of it yourself: (a) test suite with the change: same set of passing tests as without; (b) demo fails with change; (c) revert with `git -C {wt} apply -R {out}/patch.diff` (do NOT use `git stash`: the stash is shared with other worktrees), demo passes without the change; then re-apply your change with `git -C {wt} apply {out}/patch.diff`.
7. Write {out}/meta.json with keys: "property" (the ID), "summary" (one sentence: what was changed), "needs" (what specific input/sequence/combination is needed for the violation to manifest), "files" (list of changed files), "verified" (what commands you ran and their outcome).

Final answer: a short report of the change, what it needs to manifest, and the verification results. Do not produce more than one change. Keep the diff small (ideally < 15 changed lines).
"""
open('/tmp/mut_%s_prompt.txt' % tag, 'w').write(txt)
print(txt[:200].replace('\n', ' '), '...')
