(* Finite sums over lists, binomial-weighted sums, Vandermonde's identity and the
   weighted three-class count of k-combinations.  Used by proofs/CountProofs.v (C11). *)
From Coq Require Import List Arith ZArith Bool Lia.
From MM Require Import lib.ListExtra lib.Combi lib.Values.
Import ListNotations.
Open Scope Z_scope.

Definition ind (b : bool) : Z := if b then 1 else 0.
Lemma if_ind (b : bool) v : (if b then v else 0) = ind b * v.
Proof. destruct b; unfold ind; lia. Qed.

Fixpoint lsum {X} (l : list X) (f : X -> Z) : Z :=
  match l with [] => 0 | x :: l' => f x + lsum l' f end.

Lemma lsum_app {X} (l m : list X) f : lsum (l ++ m) f = lsum l f + lsum m f.
Proof. induction l as [|x l IH]; cbn [lsum app]; lia. Qed.
Lemma lsum_map {X Y} (h : X -> Y) l f : lsum (map h l) f = lsum l (fun x => f (h x)).
Proof. induction l as [|x l IH]; cbn [lsum map]; [reflexivity|]. rewrite IH; reflexivity. Qed.
Lemma lsum_ext {X} (l : list X) f g : (forall x, In x l -> f x = g x) -> lsum l f = lsum l g.
Proof.
  induction l as [|x l IH]; intro H; cbn [lsum]; [reflexivity|].
  rewrite (H x) by (left; reflexivity). rewrite IH; [reflexivity|].
  intros y Hy; apply H; right; exact Hy.
Qed.
Lemma lsum_zero {X} (l : list X) f : (forall x, In x l -> f x = 0) -> lsum l f = 0.
Proof.
  induction l as [|x l IH]; intro H; cbn [lsum]; [reflexivity|].
  rewrite (H x) by (left; reflexivity). rewrite IH; [reflexivity|].
  intros y Hy; apply H; right; exact Hy.
Qed.
Lemma lsum_mul_l {X} (l : list X) k f : lsum l (fun x => k * f x) = k * lsum l f.
Proof. induction l as [|x l IH]; cbn [lsum]; [lia|]. rewrite IH. ring. Qed.
Lemma lsum_add {X} (l : list X) f g : lsum l (fun x => f x + g x) = lsum l f + lsum l g.
Proof. induction l as [|x l IH]; cbn [lsum]; [lia|]. rewrite IH. ring. Qed.
Lemma lsum_swap {X Y} (l : list X) (m : list Y) f :
  lsum l (fun x => lsum m (fun y => f x y)) = lsum m (fun y => lsum l (fun x => f x y)).
Proof.
  induction l as [|x l IH]; cbn [lsum].
  - symmetry. apply lsum_zero. reflexivity.
  - rewrite IH, <- lsum_add. reflexivity.
Qed.
Lemma length_flat_map {X Y} (f : X -> list Y) l :
  Z.of_nat (length (flat_map f l)) = lsum l (fun x => Z.of_nat (length (f x))).
Proof.
  induction l as [|x l IH]; cbn [flat_map lsum]; [reflexivity|].
  rewrite app_length, Nat2Z.inj_add, IH. reflexivity.
Qed.

Lemma memZ_spec x l : memZ x l = true <-> In x l.
Proof.
  unfold memZ. rewrite existsb_exists. split.
  - intros [y [Hy E]]. apply Z.eqb_eq in E. subst. exact Hy.
  - intro H. exists x. split; [exact H|apply Z.eqb_refl].
Qed.
Lemma memZ_false x l : memZ x l = false <-> ~ In x l.
Proof. rewrite <- memZ_spec. destruct (memZ x l); split; congruence. Qed.

(* a sum against a point indicator picks one term *)
Lemma lsum_delta (l : list Z) x h : NoDup l ->
  lsum l (fun n => ind (n =? x) * h n) = ind (memZ x l) * h x.
Proof.
  induction l as [|a l IH]; intro Hl; cbn [lsum]; [unfold memZ, ind; cbn; lia|].
  inversion Hl as [|? ? Ha Hl']; subst. rewrite (IH Hl').
  unfold memZ. cbn [existsb]. fold (memZ x l).
  destruct (Z.eqb_spec a x) as [->|Hne].
  - rewrite Z.eqb_refl. cbn [orb]. apply memZ_false in Ha. rewrite Ha. unfold ind. lia.
  - destruct (Z.eqb_spec x a) as [->|_]; [congruence|]. cbn [orb]. unfold ind at 1. lia.
Qed.

(* sums over 0 .. n-1 *)
Definition nsum (n : nat) (f : nat -> Z) : Z := lsum (seq 0 n) f.
Lemma nsum_S_last n f : nsum (S n) f = nsum n f + f n.
Proof. unfold nsum. rewrite seq_S, lsum_app. cbn [lsum Nat.add]. lia. Qed.
Lemma nsum_S_first n f : nsum (S n) f = f 0%nat + nsum n (fun i => f (S i)).
Proof. unfold nsum. cbn [seq lsum]. rewrite <- seq_shift, lsum_map. reflexivity. Qed.
Lemma nsum_ext n f g : (forall i, (i < n)%nat -> f i = g i) -> nsum n f = nsum n g.
Proof. intro H. apply lsum_ext. intros i Hi. apply in_seq in Hi. apply H. lia. Qed.
Lemma nsum_add n f g : nsum n (fun i => f i + g i) = nsum n f + nsum n g.
Proof. apply lsum_add. Qed.
Lemma nsum_mul_l n k f : nsum n (fun i => k * f i) = k * nsum n f.
Proof. apply lsum_mul_l. Qed.

(* binomially weighted sums: BS A f = sum_{i=0}^{A} binom A i * f i *)
Definition BS (A : nat) (f : nat -> Z) : Z := nsum (S A) (fun i => Z.of_nat (binom A i) * f i).

Lemma BS_0 f : BS 0 f = f 0%nat.
Proof. unfold BS, nsum. cbn [seq lsum binom]. lia. Qed.
Lemma BS_ext A f g : (forall i, (i <= A)%nat -> f i = g i) -> BS A f = BS A g.
Proof. intro H. apply nsum_ext. intros i Hi. rewrite H by lia. reflexivity. Qed.
Lemma BS_zero A f : (forall i, (i <= A)%nat -> f i = 0) -> BS A f = 0.
Proof.
  intro H. unfold BS, nsum. apply lsum_zero. intros i Hi. apply in_seq in Hi.
  rewrite H by lia. lia.
Qed.
Lemma BS_add A f g : BS A (fun i => f i + g i) = BS A f + BS A g.
Proof.
  unfold BS. rewrite <- nsum_add. apply nsum_ext. intros i _. ring.
Qed.
Lemma BS_mul_l A k f : BS A (fun i => k * f i) = k * BS A f.
Proof.
  unfold BS. rewrite <- nsum_mul_l. apply nsum_ext. intros i _. ring.
Qed.
Lemma BS_lsum {X} A (l : list X) (g : nat -> X -> Z) :
  BS A (fun i => lsum l (g i)) = lsum l (fun x => BS A (fun i => g i x)).
Proof.
  unfold BS, nsum.
  rewrite (lsum_ext (seq 0 (S A)) _ (fun i => lsum l (fun x => Z.of_nat (binom A i) * g i x)))
    by (intros i _; symmetry; apply lsum_mul_l).
  apply lsum_swap.
Qed.

Lemma BS_step A f : BS (S A) f = BS A f + BS A (fun i => f (S i)).
Proof.
  unfold BS. rewrite (nsum_S_first (S A)). cbv beta.
  rewrite (nsum_ext (S A) _ (fun i => Z.of_nat (binom A i) * f (S i) + Z.of_nat (binom A (S i)) * f (S i))).
  2:{ intros i _. cbn [binom]. rewrite Nat2Z.inj_add. ring. }
  rewrite nsum_add.
  rewrite (nsum_S_last A (fun i => Z.of_nat (binom A (S i)) * f (S i))).
  rewrite (binom_gt A (S A)) by lia.
  rewrite (nsum_S_first A (fun i => Z.of_nat (binom A i) * f i)). cbv beta.
  rewrite !binom_n_0. change (Z.of_nat 1) with 1. change (Z.of_nat 0) with 0. lia.
Qed.

Lemma BS_delta A : forall r h, BS A (fun i => ind (i =? r)%nat * h i) = Z.of_nat (binom A r) * h r.
Proof.
  induction A as [|A IH]; intros r h.
  - rewrite BS_0. destruct r; cbn; unfold ind; lia.
  - rewrite BS_step, IH. destruct r as [|r].
    + rewrite BS_zero by (intros i _; cbn; unfold ind; lia). rewrite !binom_n_0. lia.
    + rewrite (BS_ext A _ (fun i => ind (i =? r)%nat * h (S i))) by (intros i _; reflexivity).
      rewrite (IH r (fun i => h (S i))). cbn [binom]. rewrite Nat2Z.inj_add. ring.
Qed.

Lemma vandermonde A B : forall r,
  BS A (fun i => BS B (fun j => ind (i + j =? r)%nat)) = Z.of_nat (binom (A + B) r).
Proof.
  induction A as [|A IH]; intro r.
  - rewrite BS_0. rewrite (BS_ext B _ (fun j => ind (j =? r)%nat * 1)) by (intros j _; cbn [Nat.add]; lia).
    rewrite BS_delta. cbn [Nat.add]. lia.
  - rewrite BS_step, IH. destruct r as [|r].
    + rewrite BS_zero by (intros i _; apply BS_zero; intros j _; reflexivity).
      rewrite !binom_n_0. lia.
    + rewrite (BS_ext A _ (fun i => BS B (fun j => ind (i + j =? r)%nat))) by (intros i _; reflexivity).
      rewrite IH. cbn [Nat.add binom]. rewrite Nat2Z.inj_add. ring.
Qed.

(* triple binomial sums *)
Definition T3 (A B C : nat) (f : nat -> nat -> nat -> Z) : Z :=
  BS A (fun a => BS B (fun b => BS C (fun c => f a b c))).

Lemma T3_ext A B C f g : (forall a b c, (a <= A)%nat -> (b <= B)%nat -> (c <= C)%nat -> f a b c = g a b c) ->
  T3 A B C f = T3 A B C g.
Proof.
  intro H. unfold T3. apply BS_ext; intros a Ha. apply BS_ext; intros b Hb. apply BS_ext; intros c Hc. auto.
Qed.
Lemma T3_zero A B C f : (forall a b c, (a <= A)%nat -> (b <= B)%nat -> (c <= C)%nat -> f a b c = 0) -> T3 A B C f = 0.
Proof.
  intro H. unfold T3. apply BS_zero; intros a Ha. apply BS_zero; intros b Hb. apply BS_zero; intros c Hc. auto.
Qed.
Lemma T3_add A B C f g : T3 A B C (fun a b c => f a b c + g a b c) = T3 A B C f + T3 A B C g.
Proof.
  unfold T3. rewrite <- BS_add. apply BS_ext; intros a _. rewrite <- BS_add. apply BS_ext; intros b _.
  apply BS_add.
Qed.
Lemma T3_step1 A B C f : T3 (S A) B C f = T3 A B C f + T3 A B C (fun a => f (S a)).
Proof. unfold T3. apply BS_step. Qed.
Lemma T3_step2 A B C f : T3 A (S B) C f = T3 A B C f + T3 A B C (fun a b => f a (S b)).
Proof.
  unfold T3. rewrite <- BS_add. apply BS_ext; intros a _. apply BS_step.
Qed.
Lemma T3_step3 A B C f : T3 A B (S C) f = T3 A B C f + T3 A B C (fun a b c => f a b (S c)).
Proof.
  rewrite <- T3_add. unfold T3. apply BS_ext; intros a _. apply BS_ext; intros b _. rewrite BS_step. symmetry. apply BS_add.
Qed.
Lemma T3_lsum {X} A B C (l : list X) (g : nat -> nat -> nat -> X -> Z) :
  T3 A B C (fun a b c => lsum l (g a b c)) = lsum l (fun x => T3 A B C (fun a b c => g a b c x)).
Proof.
  unfold T3.
  rewrite (BS_ext A _ (fun a => lsum l (fun x => BS B (fun b => BS C (fun c => g a b c x))))).
  - apply BS_lsum.
  - intros a _. rewrite (BS_ext B _ (fun b => lsum l (fun x => BS C (fun c => g a b c x)))).
    + apply BS_lsum.
    + intros b _. apply BS_lsum.
Qed.

Lemma lsum_combs_cons {X} (x : X) l k (F : list X -> Z) :
  lsum (combs k (x :: l)) F =
  match k with O => 0 | S k' => lsum (combs k' l) (fun c => F (x :: c)) end + lsum (combs k l) F.
Proof.
  destruct k as [|k]; cbn [combs].
  - destruct l; cbn [combs]; lia.
  - rewrite lsum_app, lsum_map. reflexivity.
Qed.

(* weighted count of the k-combinations of a list whose elements fall into three
   classes p / neither / q, the weight depending on the numbers taken from p and q *)
Section W3.
  Context {X : Type} (p q : X -> bool).
  Hypothesis Hpq : forall x, p x = true -> q x = false.
  Definition rest (x : X) : bool := negb (p x) && negb (q x).

  Lemma combs_wsum l : forall k (g : nat -> nat -> Z),
    lsum (combs k l) (fun c => g (cnt p c) (cnt q c)) =
    T3 (cnt p l) (cnt rest l) (cnt q l) (fun a b c => ind (a + b + c =? k)%nat * g a c).
  Proof.
    induction l as [|x l IH]; intros k g.
    - unfold T3, cnt. cbn [filter length]. rewrite !BS_0.
      destruct k; cbn [combs lsum filter length Nat.add Nat.eqb]; unfold ind; lia.
    - rewrite lsum_combs_cons, (IH k g).
      destruct (p x) eqn:Px; [|destruct (q x) eqn:Qx].
      + pose proof (Hpq x Px) as Qx.
        rewrite (cnt_cons_t p x l Px), (cnt_cons_f q x l Qx), (cnt_cons_f rest x l) by (unfold rest; rewrite Px; reflexivity).
        rewrite T3_step1. destruct k as [|k].
        * rewrite (T3_zero _ _ _ (fun a b c => ind (S a + b + c =? 0)%nat * g (S a) c)) by (intros; reflexivity). lia.
        * rewrite (lsum_ext _ _ (fun c => g (S (cnt p c)) (cnt q c)))
            by (intros c _; rewrite (cnt_cons_t p x c Px), (cnt_cons_f q x c Qx); reflexivity).
          rewrite (IH k (fun a c => g (S a) c)).
          rewrite Z.add_comm. f_equal.
      + rewrite (cnt_cons_f p x l Px), (cnt_cons_t q x l Qx), (cnt_cons_f rest x l) by (unfold rest; rewrite Px, Qx; reflexivity).
        rewrite T3_step3. destruct k as [|k].
        * rewrite (T3_zero _ _ _ (fun a b c => ind (a + b + S c =? 0)%nat * g a (S c))).
          2:{ intros a b c _ _ _. rewrite Nat.add_succ_r. reflexivity. }
          lia.
        * rewrite (lsum_ext _ _ (fun c => g (cnt p c) (S (cnt q c))))
            by (intros c _; rewrite (cnt_cons_f p x c Px), (cnt_cons_t q x c Qx); reflexivity).
          rewrite (IH k (fun a c => g a (S c))).
          rewrite Z.add_comm. f_equal. apply T3_ext. intros a b c _ _ _. rewrite Nat.add_succ_r. reflexivity.
      + rewrite (cnt_cons_f p x l Px), (cnt_cons_f q x l Qx), (cnt_cons_t rest x l) by (unfold rest; rewrite Px, Qx; reflexivity).
        rewrite T3_step2. destruct k as [|k].
        * rewrite (T3_zero _ _ _ (fun a b c => ind (a + S b + c =? 0)%nat * g a c)).
          2:{ intros a b c _ _ _. rewrite Nat.add_succ_r. reflexivity. }
          lia.
        * rewrite (lsum_ext _ _ (fun c => g (cnt p c) (cnt q c)))
            by (intros c _; rewrite (cnt_cons_f p x c Px), (cnt_cons_f q x c Qx); reflexivity).
          rewrite (IH k g).
          rewrite Z.add_comm. f_equal. apply T3_ext. intros a b c _ _ _. rewrite Nat.add_succ_r. reflexivity.
  Qed.
End W3.
