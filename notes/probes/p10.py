import sys, itertools, numpy as np, pandas as pd
from lib import *
viol=0; n=0
for seed in range(int(sys.argv[1]), int(sys.argv[2])):
    rng = np.random.RandomState(seed)
    ngeos = rng.randint(2,6); df = panel(rng, ngeos, 14)
    spec = {str(g+1): (rng.choice(TYPES) if rng.rand()<0.4 else 'ctx') for g in range(ngeos)}
    kw={}
    if rng.rand()<0.4: kw['treatment_geos_range']=tuple(int(v) for v in sorted(rng.randint(1,4,2)))
    if rng.rand()<0.4: kw['control_geos_range']=tuple(int(v) for v in sorted(rng.randint(1,4,2)))
    if rng.rand()<0.4: kw['geo_ratio_tolerance']=float(rng.choice([0.5,1.0,2.0]))
    if rng.rand()<0.4: kw['volume_ratio_tolerance']=float(rng.choice([0.5,1.0,3.0]))
    kw['n_designs']=int(rng.choice([1,2,5,50]))
    try:
        mm,par = build(df, spec, kw); ex = mm.exhaustive_search()
        mm2,par2 = build(df, spec, kw); gr = mm2.greedy_search()
    except Exception as e:
        continue
    n+=1
    exs = [(frozenset(d.treatment_geos), frozenset(d.control_geos)) for d in ex]
    # greedy within exhaustive feasible set? use n_designs large to get whole set
    kw2=dict(kw); kw2['n_designs']=100000
    mm3,_ = build(df, spec, kw2); full = mm3.exhaustive_search()
    fullset = {(frozenset(d.treatment_geos), frozenset(d.control_geos)): d.score.score for d in full}
    for d in gr:
        key=(frozenset(d.treatment_geos), frozenset(d.control_geos))
        if key not in fullset:
            viol+=1; print(seed, 'greedy design not in exhaustive feasible set', spec, kw, sorted(key[0]), sorted(key[1]))
        elif full and d.score.score > full[0].score.score:
            viol+=1; print(seed,'greedy beats exhaustive')
    if not ex and gr: print(seed,'exhaustive empty but greedy not'); viol+=1
    # top-k check
    scs = sorted(fullset.values(), reverse=True)
    if [d.score.score for d in ex] != scs[:kw['n_designs']]:
        viol+=1; print(seed,'topk mismatch')
    if len(set(exs))!=len(exs): print(seed,'dups in exhaustive'); viol+=1
    # dup in greedy
print('cases',n,'viol',viol)
