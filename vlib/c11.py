"""C11 -- count_max_designs equals the size of the enumerated design space."""
import itertools
import random

from . import searchfam, search
from . import common
from .search import TYPES, members


def brute_count(case, out):
  """Number of ways to put each admitted geo into control, treatment or neither that respect
  its eligibility row, the size ranges and the geo-ratio tolerance, both groups non-empty."""
  par = case['par_final']
  el = {g: TYPES[v] for g, v in (case['elig'] or {}).items()}
  gi = [out['geos'][i] for i in out['geo_index']]
  rows = [el.get(g, (1, 1, 1)) for g in gi]
  n = len(rows)
  tr, cr, gt = par.get('treatment_geos_range'), par.get('control_geos_range'), par.get('geo_ratio_tolerance')
  cnt = 0
  for assign in itertools.product((0, 1, 2), repeat=n):       # 0 neither, 1 treatment, 2 control
    ok = True
    for a, r in zip(assign, rows):
      if (a == 1 and r[1] != 1) or (a == 2 and r[0] != 1) or (a == 0 and r[2] != 1):
        ok = False
        break
    if not ok:
      continue
    nt, nc = assign.count(1), assign.count(2)
    if nt == 0 or nc == 0:
      continue
    if tr and not (tr[0] <= nt <= tr[1]):
      continue
    if cr and not (cr[0] <= nc <= cr[1]):
      continue
    if gt is not None and not (1 / (1 + gt) <= nc / nt <= 1 + gt):
      continue
    cnt += 1
  return cnt


def oracle(ck, case, out):
  if out.get('build') != 'ok' or not isinstance(out.get('geo_index'), list):
    return
  comp = out['components']
  n = out['n']
  if isinstance(comp['count'], str):
    ck.fail('count-raises', 'count_max_designs raised %s' % comp['count'], {'case': searchfam.slim(case)})
    return
  # generators: distinct pairs over the admissible treatment sizes
  try:
    mm, _ = search.build(case)
    pairs = set()
    total = 0
    for k in mm.treatment_group_size_range():
      for T in mm.treatment_group_generator(k):
        for C in mm.control_group_generator(T):
          pairs.add((frozenset(T), frozenset(C)))
          total += 1
  except Exception as e:
    ck.fail('generator-raises', 'enumerating the design space raised %s: %s' % (type(e).__name__, e),
            {'case': searchfam.slim(case)})
    return
  if total != len(pairs):
    ck.fail('count-mismatch', 'the generators produce %d pairs, %d distinct' % (total, len(pairs)), {'case': searchfam.slim(case)})
  if comp['count'] != len(pairs):
    ck.fail('count-mismatch', 'count_max_designs() = %d but the generators enumerate %d distinct pairs'
            % (comp['count'], len(pairs)), {'case': searchfam.slim(case)})
  if n <= 9:
    b = brute_count(case, out)
    if b != comp['count']:
      ck.fail('count-mismatch', 'count_max_designs() = %d but %d assignments are valid' % (comp['count'], b),
              {'case': searchfam.slim(case)})
  ex = out.get('exhaustive')
  if ex and ex['outcome'] == 'ok' and len(ex['designs']) > comp['count']:
    ck.fail('count-mismatch', 'exhaustive search returned %d designs, count is %d' % (len(ex['designs']), comp['count']),
            {'case': searchfam.slim(case)})


def class_vector_cases(ck, tier):
  """Multisets of eligibility row types (0-4 geos per class) x size-range / geo-ratio settings."""
  rng = random.Random(ck.seed * 17 + 11)
  out = []
  n_cases = common.sz(tier, 150, 2500)
  for k in range(n_cases):
    counts = {t: rng.choice([0, 0, 1, 1, 2, 3, 4]) for t in TYPES}
    while sum(counts.values()) > 8 or sum(counts.values()) == 0:
      t = rng.choice(list(TYPES))
      counts[t] = max(0, counts[t] - 1) if sum(counts.values()) > 8 else 1
    kinds = [t for t, c in counts.items() for _ in range(c)]
    rng.shuffle(kinds)
    n = len(kinds)
    c = search.gen_case(ck.seed * 19 + k, tier, max_geos=2)
    nd = 14
    base = [50.0 + rng.gauss(0, 1) for _ in range(nd)]
    scales = rng.sample(range(1, 40), n)
    c['rows'] = [[round((s * b + rng.gauss(0, 1)) * 8) / 8 for b in base] for s in scales]
    c['n_dates'] = nd
    c['elig'] = {str(g + 1): kinds[g] for g in range(n)}
    par = {'n_test': 3, 'iroas': 1.0, 'n_designs': 1, 'n_pretest_max': 90}
    if rng.random() < 0.5:
      a = rng.randint(1, 4)
      par['treatment_geos_range'] = (a, a + rng.randint(0, 3))
    if rng.random() < 0.5:
      a = rng.randint(1, 4)
      par['control_geos_range'] = (a, a + rng.randint(0, 4))
    if rng.random() < 0.5:
      par['geo_ratio_tolerance'] = rng.choice([0.1, 0.25, 0.5, 1.0, 2.0, 3.0])
    c['par'] = par
    c['want_share'] = c['want_budget'] = False
    c['shuffle'] = False
    out.append(c)
  return out


COMPONENTS = ['classes', 'tsize_range', 'csizes', 'treat_groups', 'control_groups', 'count']


def run(tier):
  return searchfam.run_family(
      'C11', tier, 'props/C11.v', COMPONENTS, oracle, 60, 1000,
      'class-count vectors (0-4 geos of each of the seven row types, at most 8 geos) x treatment / control size ranges x '
      'geo-ratio tolerance, plus general search cases; for every case count_max_designs(), the listings of the two '
      'generators (as sets of sets) and a brute force over all 3^n assignments are compared, and the count, size ranges '
      'and listings are compared with the model. non-trivial: at least two admitted geos',
      want=('components', 'exhaustive'), extra_cases=class_vector_cases, gen_targets=searchfam.GEN_TARGETS_EXH)


def replay(data):
  return searchfam.replay_family(data, oracle, want=('components', 'exhaustive'))
