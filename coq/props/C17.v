(* C17 -- Design parameters are accepted exactly when in their documented domain. *)
From Coq Require Import List String ZArith QArith Bool.
From MM Require Import model.Params gen.Gen_Params proofs.ParamsProofs.
Import ListNotations.

(* for the field table and the checks of __post_init__ regenerated from the source on this run,
   and any arguments that provide the required fields: construction succeeds exactly when every
   field lies in its documented domain, and fails with ValueError otherwise *)
Theorem C17_accept_iff_documented_domain :
  forall args vals, with_defaults gen_fields args = Some vals ->
    construct gen_fields gen_checks args = if in_documented_domain vals then Accept else ValueError.
Proof. exact construct_accepts_documented_domain. Qed.
Theorem C17_rejection_is_ValueError :
  forall args vals, with_defaults gen_fields args = Some vals ->
    construct gen_fields gen_checks args <> OtherError.
Proof. exact construct_never_other. Qed.
Theorem C17_defaults_are_documented :
  map (fun f => (fst (fst (fst f)), snd f)) gen_fields = documented_defaults.
Proof. exact defaults_are_documented. Qed.
Theorem C17_defaults_accepted :
  construct gen_fields gen_checks [("n_test", VNum false (NInt 14)); ("iroas", VNum false (NFloat (Fin 1)))]%string = Accept.
Proof. exact defaults_accepted. Qed.

Print Assumptions C17_accept_iff_documented_domain.
Print Assumptions C17_rejection_is_ValueError.
Print Assumptions C17_defaults_are_documented.
