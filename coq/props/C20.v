(* C20 -- Expansion of excluded days is exact. *)
From Coq Require Import List ZArith Bool.
From MM Require Import model.Dates proofs.DatesProofs gen.Gen_Dates proofs.DatesBridge.
Import ListNotations.
Open Scope Z_scope.

(* the expanded list holds exactly the days covered by at least one window, each once,
   whatever the order, duplication or overlap of the windows *)
Theorem C20_expand_spec : forall ws d, In d (expand ws) <-> exists w, In w ws /\ fst w <= d <= snd w.
Proof. exact expand_spec. Qed.
Theorem C20_expand_no_duplicates : forall ws, NoDup (expand ws).
Proof. exact expand_NoDup. Qed.
Theorem C20_expand_order_and_duplication_irrelevant :
  forall ws1 ws2, (forall w, In w ws1 <-> In w ws2) -> forall d, In d (expand ws1) <-> In d (expand ws2).
Proof. exact expand_same_days. Qed.
Theorem C20_expand_overlap_irrelevant :
  forall ws w, (exists w', In w' ws /\ fst w' <= fst w /\ snd w <= snd w') ->
  forall d, In d (expand (w :: ws)) <-> In d (expand ws).
Proof. exact expand_overlap_irrelevant. Qed.
(* malformed entries, invalid calendar dates and reversed ranges raise ValueError for the whole list *)
Theorem C20_malformed_rejected : window_of Malformed = RaiseValueError.
Proof. exact malformed_rejected. Qed.
Theorem C20_reversed_rejected : forall a b, days_from_civil b < days_from_civil a -> window_of (Range a b) = RaiseValueError.
Proof. exact reversed_rejected. Qed.
Theorem C20_invalid_date_rejected : forall d, valid_date d = false -> window_of (Single d) = RaiseValueError.
Proof. exact invalid_date_rejected. Qed.
Theorem C20_one_bad_entry_rejects_all :
  forall es1 e es2, window_of e = RaiseValueError -> days_to_exclude (es1 ++ e :: es2) = RaiseValueError.
Proof. exact one_bad_entry_rejects_all. Qed.
(* day numbers and calendar days correspond one to one over 1900-01-01 .. 2199-12-31
   (finite sweep by vm_compute; the bound is part of the statement) *)
Theorem C20_calendar_days_of_numbers :
  forall n, day_lo <= n <= day_hi -> valid_date (civil_from_days n) = true /\ days_from_civil (civil_from_days n) = n.
Proof. exact civil_roundtrip. Qed.
Theorem C20_numbers_of_calendar_days :
  forall y m d, 1900 <= y < 2200 -> valid_date (y, m, d) = true ->
    civil_from_days (days_from_civil (y, m, d)) = (y, m, d) /\
    (day_lo <=? days_from_civil (y, m, d)) = true /\ (days_from_civil (y, m, d) <=? day_hi) = true.
Proof. exact days_roundtrip. Qed.

(* the same about the functions translated from utils.expand_time_windows and TimeWindow.__post_init__
   (gen/Gen_Dates.v, regenerated from the source on every run) *)
Theorem C20_translated_expand_spec :
  forall ws d, In d (gen_expand_time_windows ws) <-> exists w, In w ws /\ fst w <= d <= snd w.
Proof. intros ws d. rewrite gen_expand_is_model. apply expand_spec. Qed.
Theorem C20_translated_expand_no_duplicates : forall ws, NoDup (gen_expand_time_windows ws).
Proof. intros ws. rewrite gen_expand_is_model. apply expand_NoDup. Qed.
Theorem C20_translated_expand_order_and_duplication_irrelevant :
  forall ws1 ws2, (forall w, In w ws1 <-> In w ws2) ->
  forall d, In d (gen_expand_time_windows ws1) <-> In d (gen_expand_time_windows ws2).
Proof. intros ws1 ws2 H d. rewrite !gen_expand_is_model. now apply expand_same_days. Qed.
Theorem C20_translated_window_constructor_rejects_exactly_reversed :
  forall first_day last_day, gen_timewindow_raises first_day last_day = true <-> last_day < first_day.
Proof. intros a b. rewrite gen_timewindow_raises_spec. apply Z.ltb_lt. Qed.
Theorem C20_model_range_check_is_the_translated_constructor :
  forall a b, valid_date a = true -> valid_date b = true ->
  window_of (Range a b) =
  if gen_timewindow_raises (days_from_civil a) (days_from_civil b) then RaiseValueError
  else Ok (days_from_civil a, days_from_civil b).
Proof. exact window_of_range_uses_constructor. Qed.

(* the pipeline find_days_to_exclude + expand_time_windows.  On entries (model): an accepted list expands to exactly the
   covered days, each once; a list is accepted iff no entry is malformed, invalid or reversed *)
Theorem C20_pipeline_exact : forall es ds, days_to_exclude es = Ok ds ->
  NoDup ds /\ forall d, In d ds <-> exists e, In e es /\ covers e d.
Proof. exact days_to_exclude_exact. Qed.
Theorem C20_pipeline_accepts_iff :
  forall es, (exists ds, days_to_exclude es = Ok ds) <-> forall e, In e es -> window_of e <> RaiseValueError.
Proof. exact days_to_exclude_accepts_iff. Qed.
(* ... and on the code: find_days_to_exclude translated over the pieces of each entry's text (what pd.Timestamp makes of
   the text between '-' signs: Some day / None = ValueError) composed with the translated expansion is the model, and
   reads no piece outside the list it was given *)
Theorem C20_translated_pipeline_is_model :
  forall es pss, Forall2 pieces_of es pss -> gen_days_to_exclude pss = days_to_exclude es.
Proof. exact gen_days_to_exclude_is_model. Qed.
Theorem C20_translated_pipeline_exact : forall es pss ds, Forall2 pieces_of es pss -> gen_days_to_exclude pss = Ok ds ->
  NoDup ds /\ forall d, In d ds <-> exists e, In e es /\ covers e d.
Proof. intros es pss ds H. rewrite (gen_days_to_exclude_is_model es pss H). apply days_to_exclude_exact. Qed.
Theorem C20_translated_parser_never_reads_outside_its_pieces : forall pss, gen_find_days_to_exclude pss <> RaisesIndexError.
Proof. exact gen_find_days_never_index_error. Qed.

Print Assumptions C20_expand_spec.
Print Assumptions C20_pipeline_exact.
Print Assumptions C20_translated_pipeline_is_model.
Print Assumptions C20_translated_pipeline_exact.
Print Assumptions C20_translated_expand_spec.
Print Assumptions C20_translated_expand_no_duplicates.
Print Assumptions C20_translated_window_constructor_rejects_exactly_reversed.
Print Assumptions C20_expand_no_duplicates.
Print Assumptions C20_one_bad_entry_rejects_all.
Print Assumptions C20_calendar_days_of_numbers.
Print Assumptions C20_numbers_of_calendar_days.

Example C20_example :
  days_to_exclude [Range (2020, 2, 27) (2020, 3, 1); Single (2020, 2, 28); Range (2019, 12, 31) (2020, 1, 1)]
  = Ok [18319; 18321; 18322; 18320; 18261; 18262].
Proof. vm_compute. reflexivity. Qed.
Example C20_translated_example :
  gen_days_to_exclude [[Some 18319; Some 18322]; [Some 18320]; [Some 18261; Some 18262]]
  = Ok [18319; 18321; 18322; 18320; 18261; 18262]
  /\ gen_days_to_exclude [[Some 18319; Some 18322]; [Some 18322; Some 18321]] = RaiseValueError
  /\ gen_days_to_exclude [[Some 18319]; [None]] = RaiseValueError
  /\ gen_days_to_exclude [[Some 1; Some 2; Some 3]] = RaiseValueError.
Proof. vm_compute. repeat split; reflexivity. Qed.
