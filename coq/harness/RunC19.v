From Coq Require Import List ZArith QArith Bool.
From MM Require Import model.Screen harness.RunCommon.
Import ListNotations.

Definition R (g d p gr : Z) (n : Z) (den : positive) : row :=
  {| r_geo := g; r_date := d; r_period := p; r_group := gr; r_val := Qmake n den |}.
Definition row_eqb (a b : row) : bool :=
  (r_geo a =? r_geo b)%Z && (r_date a =? r_date b)%Z && (r_period a =? r_period b)%Z && (r_group a =? r_group b)%Z
  && Qeq_bool (r_val a) (r_val b).
Definition qopt_eqb (a b : option Q) : bool := option_eqb Qeq_bool a b.
(* input rows; what the detectors reported in the implementation's run (used as the oracles);
   the screened rows the implementation returned; analysis cells (date, period, x, y) it returned *)
Definition case := (list row * option (list Z) * list Z * Z * Z * list row * list (Z * Z * option Q * option Q))%type.
Definition agrees (c : case) : bool :=
  let '(rows, ng, od, gc, gt, out_rows, cells) := c in
  let f := fit (fun _ => ng) (fun _ => od) rows in
  list_eqb row_eqb (f_data f) out_rows &&
  forallb (fun e => let '(d, p, x, y) := e in
                    let '(mx, my) := analysis_cell gc gt (f_data f) d p in qopt_eqb mx x && qopt_eqb my y) cells.
