(* C17: the validation of TBRMMDesignParameters accepts exactly the documented domain and
   otherwise raises ValueError; defaults are the documented ones. *)
From Coq Require Import List String ZArith QArith Bool.
From MM Require Import model.Params gen.Gen_Params.
Import ListNotations.
Open Scope string_scope.

(* ---- the documented domain, written from the class docstring (tbrmmdesignparameters.py:31-86) ---- *)
Definition is_integer_valued (n : num) : bool := match int_check n with IsInt => true | _ => false end.
Definition qge (q : Q) (n : num) : bool := xle (Fin q) (to_xf n).      (* n >= q *)
Definition qgt (q : Q) (n : num) : bool := xlt (Fin q) (to_xf n).      (* n > q  *)
Definition qlt (n : num) (q : Q) : bool := xlt (to_xf n) (Fin q).      (* n < q  *)
Definition finite_below_inf (n : num) : bool := xlt (to_xf n) PInf.    (* n < +inf (also excludes NaN) *)

Definition D_num (P : num -> bool) (v : pyval) : bool := match v with VNum _ n => P n | _ => false end.
Definition D_opt (D : pyval -> bool) (v : pyval) : bool := match v with VNone => true | _ => D v end.
Definition D_pair (P : num -> num -> bool) (v : pyval) : bool :=
  match v with VTuple [VNum _ a; VNum _ b] => P a b | _ => false end.

Definition D_int_ge (k : Z) := D_num (fun n => is_integer_valued n && qge (inject_Z k) n).
Definition D_float_ge (q : Q) := D_num (qge q).
Definition D_float_gt (q : Q) := D_num (qgt q).
Definition D_unit_interval_open := D_num (fun n => qgt 0 n && qlt n 1).
Definition D_ge_lt1 (q : Q) := D_num (fun n => qge q n && qlt n 1).

Definition q09 : Q := 8106479329266893 # 9007199254740992.     (* the binary64 value of 0.9 *)
Definition q08 : Q := 3602879701896397 # 4503599627370496.     (* the binary64 value of 0.8 *)

Definition documented : list (string * (pyval -> bool)) :=
  [ ("n_test", D_int_ge 1);                                     (* an integer >= 1, required *)
    ("iroas", D_float_ge 0);                                    (* a float >= 0.0, required *)
    ("volume_ratio_tolerance", D_opt (D_float_gt 0));           (* optional, > 0 *)
    ("geo_ratio_tolerance", D_opt (D_float_gt 0));              (* optional, > 0 *)
    ("treatment_share_range",                                   (* optional pair, 0 < lo < hi < 1 *)
       D_opt (D_pair (fun a b => qgt 0 a && xlt (to_xf a) (to_xf b) && qlt b 1)));
    ("budget_range",                                            (* optional pair, 0 <= lo < hi < inf *)
       D_opt (D_pair (fun a b => qge 0 a && xlt (to_xf a) (to_xf b) && finite_below_inf b)));
    ("treatment_geos_range",                                    (* optional pair of integers, 1 <= lo <= hi < inf *)
       D_opt (D_pair (fun a b => qge 1 a && xle (to_xf a) (to_xf b) && finite_below_inf b
                                 && is_integer_valued a && is_integer_valued b)));
    ("control_geos_range",
       D_opt (D_pair (fun a b => qge 1 a && xle (to_xf a) (to_xf b) && finite_below_inf b
                                 && is_integer_valued a && is_integer_valued b)));
    ("n_geos_max", D_opt (D_int_ge 2));                         (* optional integer >= 2 *)
    ("n_pretest_max", D_int_ge 3);                              (* integer >= 3 *)
    ("n_designs", D_int_ge 1);                                  (* integer >= 1 *)
    ("rho_max", D_ge_lt1 q09);                                  (* 0.9 <= . < 1 *)
    ("sig_level", D_unit_interval_open);                        (* 0 < . < 1 *)
    ("power_level", D_unit_interval_open);
    ("min_corr", D_ge_lt1 q08);                                 (* 0.8 <= . < 1 *)
    ("flevel", D_ge_lt1 q09) ].

Definition in_documented_domain (vals : list (string * pyval)) : bool :=
  forallb (fun e => match assoc vals (fst e) with Some v => snd e v | None => false end) documented.

(* ---- each kind of check against its documented reading ---- *)
Definition decide (b : bool) : outcome := if b then Accept else ValueError.
Ltac crush :=
  cbn; repeat (match goal with
               | |- context [Qlt_le_dec ?a ?b] => destruct (Qlt_le_dec a b)
               | |- context [Qden (Qred ?q)] => destruct (Qden (Qred q))
               end; cbn); try reflexivity.

Lemma thr_int_ge opt k v :
  check_thr opt v OGe (NInt k) = decide ((if opt then D_opt (D_int_ge k) else D_int_ge k) v).
Proof.
  unfold check_thr, decide, D_opt, D_int_ge, D_num, is_integer_valued, qge, apply_op, is_int_bound, to_xf.
  destruct v as [|b n|l|l|]; destruct opt; try reflexivity;
  destruct n as [z|[| | |q]]; crush.
Qed.
Lemma thr_float opt op q v : (op = OGe \/ op = OGt) ->
  check_thr opt v op (NFloat (Fin q)) =
  decide ((if opt then D_opt else (fun D => D)) (match op with OGe => D_float_ge q | _ => D_float_gt q end) v).
Proof.
  intros [-> | ->]; unfold check_thr, decide, D_opt, D_float_ge, D_float_gt, D_num, qge, qgt, apply_op, is_int_bound, to_xf;
  destruct v as [|b n|l|l|]; destruct opt; try reflexivity;
  destruct n as [z|[| | |p]]; crush.
Qed.
Lemma win_float lo (op1 : cmpop) v (closed : bool) :
  op1 = (if closed then OLe else OLt) ->
  check_win false v (NFloat (Fin lo)) op1 OLt (NFloat (Fin 1)) =
  decide (D_num (fun n => (if closed then qge lo n else qgt lo n) && qlt n 1) v).
Proof.
  intros ->. unfold check_win, decide, D_num, qge, qgt, qlt, apply_op, is_int_bound, to_xf.
  destruct v as [|b n|l|l|]; try reflexivity. destruct closed;
  destruct n as [z|[| | |p]]; crush.
Qed.

Lemma rng_float lo (op1 : cmpop) (hi : xf) v (closed : bool) :
  op1 = (if closed then OLe else OLt) -> (hi = PInf \/ exists q, hi = Fin q) ->
  check_rng true v (NFloat (Fin lo)) op1 OLt OLt (NFloat hi) =
  decide (D_opt (D_pair (fun a b => (if closed then qge lo a else qgt lo a) && xlt (to_xf a) (to_xf b)
                                    && xlt (to_xf b) hi)) v).
Proof.
  intros -> Hhi. unfold check_rng, decide, D_opt, D_pair, apply_op, is_int_bound, qge, qgt.
  destruct v as [|b n|l|l|]; try reflexivity.
  destruct l as [|[|b1 a|l1|l1|] [|[|b2 c|l2|l2|] [|x r]]]; try reflexivity.
  cbn [to_xf].
  destruct closed.
  - destruct (xle (Fin lo) (to_xf a)), (xlt (to_xf c) hi), (xlt (to_xf a) (to_xf c)); reflexivity.
  - destruct (xlt (Fin lo) (to_xf a)), (xlt (to_xf c) hi), (xlt (to_xf a) (to_xf c)); reflexivity.
Qed.

Lemma int_check_fin q : int_check (NFloat (Fin q)) = IsInt \/ int_check (NFloat (Fin q)) = NotInt.
Proof. unfold int_check. destruct (Z.eqb _ 1); auto. Qed.
Lemma rng_int k v :
  check_rng true v (NInt k) OLe OLe OLt (NFloat PInf) =
  decide (D_opt (D_pair (fun a b => qge (inject_Z k) a && xle (to_xf a) (to_xf b) && finite_below_inf b
                                    && is_integer_valued a && is_integer_valued b)) v).
Proof.
  unfold check_rng, decide, D_opt, D_pair, apply_op, is_int_bound, qge, finite_below_inf, is_integer_valued.
  destruct v as [|b n|l|l|]; try reflexivity.
  destruct l as [|[|b1 a|l1|l1|] [|[|b2 c|l2|l2|] [|x r]]]; try reflexivity.
  cbn [to_xf].
  destruct (xle (Fin (inject_Z k)) (to_xf a)) eqn:E1; cbn [andb]; [|reflexivity].
  destruct (xlt (to_xf c) PInf) eqn:E2; cbn [andb].
  2:{ destruct (xle (to_xf a) (to_xf c)); reflexivity. }
  destruct (xle (to_xf a) (to_xf c)) eqn:E3; cbn [andb negb]; [|reflexivity].
  (* both ends are finite numbers here, so int() cannot raise *)
  assert (Hc : int_check c = IsInt \/ int_check c = NotInt).
  { destruct c as [z|[| | |q]]; cbn [to_xf xlt] in E2; try discriminate; [left; reflexivity| |apply int_check_fin].
    destruct a as [z|[| | |q]]; cbn [to_xf xle] in E1, E3; discriminate. }
  assert (Ha : int_check a = IsInt \/ int_check a = NotInt).
  { destruct a as [z|[| | |q]]; cbn [to_xf xle] in E1; try discriminate; [left; reflexivity| |apply int_check_fin].
    destruct c as [z|[| | |q]]; cbn [to_xf xle xlt] in E2, E3; discriminate. }
  destruct Ha as [-> | ->], Hc as [-> | ->]; reflexivity.
Qed.

(* ---- the whole constructor, for the tables regenerated from the source on this run ---- *)
Lemma generated_values args vals : with_defaults gen_fields args = Some vals ->
  exists v1 v2 v3 v4 v5 v6 v7 v8 v9 v10 v11 v12 v13 v14 v15 v16,
    vals = [("n_test", v1); ("iroas", v2); ("volume_ratio_tolerance", v3); ("geo_ratio_tolerance", v4);
            ("treatment_share_range", v5); ("budget_range", v6); ("treatment_geos_range", v7);
            ("control_geos_range", v8); ("n_geos_max", v9); ("n_pretest_max", v10); ("n_designs", v11);
            ("sig_level", v12); ("power_level", v13); ("min_corr", v14); ("rho_max", v15); ("flevel", v16)].
Proof.
  unfold with_defaults. destruct (forallb _ gen_fields); [|discriminate]. intro H. injection H as <-.
  unfold gen_fields. cbn [map fst snd]. repeat eexists.
Qed.

Theorem construct_accepts_documented_domain args vals :
  with_defaults gen_fields args = Some vals ->
  construct gen_fields gen_checks args = decide (in_documented_domain vals).
Proof.
  intro Hv. unfold construct. rewrite Hv.
  destruct (generated_values args vals Hv) as [v1 [v2 [v3 [v4 [v5 [v6 [v7 [v8 [v9 [v10 [v11 [v12 [v13 [v14 [v15 [v16 ->]]]]]]]]]]]]]]]].
  unfold gen_checks, in_documented_domain, documented.
  cbn [run_checks run_check assoc String.eqb Ascii.eqb Bool.eqb is_optional gen_fields existsb fst snd andb orb forallb].
  rewrite !thr_int_ge.
  rewrite (thr_float false OGe 0 v2) by (left; reflexivity).
  rewrite (thr_float true OGt 0 v3) by (right; reflexivity).
  rewrite (thr_float true OGt 0 v4) by (right; reflexivity).
  rewrite (rng_float 0 OLt (Fin 1) v5 false eq_refl) by (right; eexists; reflexivity).
  rewrite (rng_float 0 OLe PInf v6 true eq_refl) by (left; reflexivity).
  rewrite !rng_int.
  unfold q09, q08.
  rewrite (win_float _ OLe v15 true eq_refl), (win_float _ OLt v12 false eq_refl), (win_float _ OLt v13 false eq_refl),
          (win_float _ OLe v14 true eq_refl), (win_float _ OLe v16 true eq_refl).
  unfold decide, D_unit_interval_open, D_ge_lt1, finite_below_inf, qlt, inject_Z.
  repeat match goal with
         | |- match (if ?b then Accept else ValueError) with _ => _ end = _ => destruct b; [cbn [andb]|reflexivity]
         end.
  reflexivity.
Qed.

(* rejection is always ValueError *)
Corollary construct_never_other args vals :
  with_defaults gen_fields args = Some vals -> construct gen_fields gen_checks args <> OtherError.
Proof. intro H. rewrite (construct_accepts_documented_domain args vals H). unfold decide. destruct (in_documented_domain vals); discriminate. Qed.

(* defaults *)
Definition documented_defaults : list (string * option pyval) :=
  [ ("n_test", None); ("iroas", None); ("volume_ratio_tolerance", Some VNone); ("geo_ratio_tolerance", Some VNone);
    ("treatment_share_range", Some VNone); ("budget_range", Some VNone); ("treatment_geos_range", Some VNone);
    ("control_geos_range", Some VNone); ("n_geos_max", Some VNone);
    ("n_pretest_max", Some (VNum false (NInt 90))); ("n_designs", Some (VNum false (NInt 1)));
    ("sig_level", Some (VNum false (NFloat (Fin q09)))); ("power_level", Some (VNum false (NFloat (Fin q08))));
    ("min_corr", Some (VNum false (NFloat (Fin q08))));
    ("rho_max", Some (VNum false (NFloat (Fin (8962163258467287 # 9007199254740992)))));   (* 0.995 *)
    ("flevel", Some (VNum false (NFloat (Fin q09)))) ].
Theorem defaults_are_documented : map (fun f => (fst (fst (fst f)), snd f)) gen_fields = documented_defaults.
Proof. reflexivity. Qed.
(* the defaults themselves are inside the documented domain *)
Theorem defaults_accepted :
  construct gen_fields gen_checks [("n_test", VNum false (NInt 14)); ("iroas", VNum false (NFloat (Fin 1)))] = Accept.
Proof. vm_compute. reflexivity. Qed.
