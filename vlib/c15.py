"""C15 -- the canonical data object faithfully represents the input panel.

Proof: props/C15.v.  Tie: long frames built from a generated specification are given to TBRMMData
and to the model (exact rationals); oracle: the same facts recomputed in Python from the
specification.
"""
import random
from fractions import Fraction

from . import common
from .common import Check, coq_list
from .search import TYPES

TRUSTED = [
    'Coq 8.16.1 kernel and vm_compute; axioms: none',
    'modelled, not verified: pandas pivot_table / mean / sort_values / .loc inside TBRMMData (hand-written model/Canon.v, '
    'tied by executed correspondence with exact rational inputs)',
    'harness: values are multiples of 1/8 and duplicate (geo, date) rows come in 1, 2 or 4 copies, so cell means are exact in '
    'binary64; shares are compared to 1e-12; the order of geos is compared up to ties in the mean',
]
COMP = ['dates', 'row order', 'cells', 'shares', 'reconciliation', 'assignable', 'geo index / aggregates']


def gen_case(rng, idx):
  n = rng.randint(1, 7)
  nd = rng.randint(3, 12)
  ids = rng.sample(range(1, 40), n)
  dates = sorted(rng.sample(range(0, 60), nd))
  rows = []
  for g in ids:
    scale = rng.choice([1, 2, 3, 5, 8])
    for d in dates:
      if rng.random() < 0.12:
        continue                       # missing cell
      for _ in range(rng.choice([1, 1, 1, 2, 4])):
        rows.append((g, d, round(scale * (50 + rng.gauss(0, 5)) * 8) / 8))
  if not rows:
    rows.append((ids[0], dates[0], 8.0))
  if rng.random() < 0.08 and n >= 2:       # an exact tie in the mean
    a, b = ids[0], ids[1]
    rows = [r for r in rows if r[0] != b] + [(b, d, v) for (g, d, v) in rows if g == a]
  rs = random.Random(idx * 7919 + 5)
  if rs.random() < 0.15:
    # net changes: every level is shifted down so that the sum of the geo means is negative (or only some geos are negative)
    shift = rs.choice([600.0, 300.0, 120.0])
    rows = [(g, d, v - shift) for g, d, v in rows]
  rng.shuffle(rows)
  mode = rng.choice(['none', 'equal', 'subset', 'superset-ok', 'superset-bad', 'mixed-ok', 'mixed-bad'])
  elig = None
  in_data = sorted({r[0] for r in rows})
  if mode != 'none':
    elig = {g: rng.choice(list(TYPES)) for g in in_data}
    if mode == 'subset' and len(elig) > 1:
      for g in rng.sample(in_data, rng.randint(1, len(in_data) - 1)):
        del elig[g]
    if mode in ('mixed-ok', 'mixed-bad') and len(elig) > 1:
      # neither a subset nor a superset: some geos of the data are missing from the table, foreign geos are listed,
      # and the table is not longer than the data (same length when exactly as many are added as dropped)
      drop = rng.sample(in_data, rng.randint(1, len(in_data) - 1))
      for g in drop:
        del elig[g]
      for k in range(rng.randint(1, len(drop))):
        elig[90 + (idx + k) % 7] = rng.choice(['x', 'cx', 'tx', 'ctx'] if mode == 'mixed-ok' else ['c', 't', 'ct'])
    if mode == 'superset-ok':
      elig[90 + idx % 5] = rng.choice(['x', 'cx', 'tx', 'ctx'])
    if mode == 'superset-bad':
      elig[90 + idx % 5] = rng.choice(['c', 't', 'ct'])
  return {'idx': idx, 'rows': rows, 'elig': elig, 'int_ids': rng.random() < 0.5, 'seed': rng.randint(0, 10 ** 6)}


def run_impl(case):
  import pandas as pd
  from matched_markets.methodology import tbrmmdata, geoeligibility as G
  t0 = pd.Timestamp('2020-01-01')
  cv = (lambda g: g) if case['int_ids'] else str
  rc = 'response' if case['seed'] % 3 else 'net sales'       # the response column is named by the caller
  df = pd.DataFrame([{'geo': cv(g), 'date': t0 + pd.Timedelta(days=d), rc: v, 'other': 1, 'response2': -1.0} for g, d, v in case['rows']])
  before = df.copy(deep=True)
  ge = None
  if case['elig'] is not None:
    et = pd.DataFrame([{'geo': cv(g), 'control': TYPES[t][0], 'treatment': TYPES[t][1], 'exclude': TYPES[t][2]}
                       for g, t in case['elig'].items()])
    if case['seed'] % 4 == 2:
      et = et.set_index('geo')              # the documented alternative form: geo IDs as the index of the table
    ge = G.GeoEligibility(et)
  try:
    data = tbrmmdata.TBRMMData(df, rc, ge)
  except ValueError as e:
    return {'outcome': 'ValueError', 'msg': str(e)[:100]}
  except Exception as e:
    return {'outcome': 'other:%s: %s' % (type(e).__name__, str(e)[:100])}
  res = {'outcome': 'ok', 'input_unmodified': bool(before.equals(df))}
  res['index_types'] = sorted({type(g).__name__ for g in data.df.index})
  res['order'] = [int(g) for g in data.df.index]
  res['dates'] = [int((pd.Timestamp(c) - t0).days) for c in data.df.columns]
  res['cells'] = [[float(v) for v in data.df.loc[g]] for g in data.df.index]
  res['shares'] = [float(data.geo_share[g]) for g in data.df.index]
  res['geos_in_data'] = sorted(int(g) for g in data.geos_in_data)
  res['elig_geos'] = sorted(int(g) for g in data.geo_eligibility.data.index)
  res['assignable'] = sorted(int(g) for g in data.assignable)
  # a second data object (another response column of the same geos), alive at the same time and used in between
  other = None
  try:
    df2 = df.copy(deep=True)
    df2[rc] = df2[rc] * 3.0 + 1.0
    other = tbrmmdata.TBRMMData(df2, rc, ge)
  except Exception:
    other = None
  res['interference'] = []
  rng = random.Random(case['seed'])
  res['aggr'] = []
  pool = res['elig_geos'] + ([res['geos_in_data'][0]] if res['geos_in_data'] else [])
  own = []          # in every other case the caller keeps ONE list, edits it in place and assigns it again
  res['own_list'] = case['seed'] % 2 == 1
  for _ in range(4):
    if not pool:
      break
    gi = rng.sample(pool, rng.randint(1, len(pool)))
    gi = list(dict.fromkeys(gi))
    idx = sorted(rng.sample(range(len(gi)), rng.randint(1, len(gi))))
    try:
      if res['own_list']:
        own[:] = [str(g) for g in gi]
        data.geo_index = own
      else:
        data.geo_index = [str(g) for g in gi]
      s0 = [float(v) for v in data.aggregate_time_series(set(idx))]
      if other is not None:
        try:
          other.geo_index = [str(g) for g in gi]
          other.aggregate_time_series(set(idx))
          other.aggregate_geo_share(set(idx))
        except Exception:
          pass
      s = [float(v) for v in data.aggregate_time_series(set(idx))]
      if s != s0:
        res['interference'].append((gi, idx))
      sh = float(data.aggregate_geo_share(set(idx)))
      ga = data.geo_assignments
      res['aggr'].append((gi, idx, (s, sh), sorted(int(i) for i in ga.all)))
    except ValueError:
      res['aggr'].append((gi, idx, None, None))
    except Exception as e:
      res['aggr'].append((gi, idx, 'other:%s' % type(e).__name__, None))
  return res


def oracle(case, r):
  """The property recomputed from the specification with exact fractions."""
  fails = []
  if r.get('interference'):
    fails.append('aggregate over %s of geo index %s changed after a second TBRMMData object (same geos, other response) '
                 'was indexed and aggregated in between' % (r['interference'][0][1], r['interference'][0][0]))
  rows = case['rows']
  geos = sorted({g for g, _, _ in rows})
  dates = sorted({d for _, d, _ in rows})
  cellmap = {}
  for g, d, v in rows:
    cellmap.setdefault((g, d), []).append(Fraction(v))
  cell = lambda g, d: (sum(cellmap[(g, d)]) / len(cellmap[(g, d)])) if (g, d) in cellmap else Fraction(0)
  mean = {g: sum(cell(g, d) for d in dates) / len(dates) for g in geos}
  elig = case['elig']
  want_error = elig is not None and any(g not in geos and TYPES[t][2] == 0 for g, t in elig.items())
  if r['outcome'].startswith('other'):
    return ['constructing the data object raised %s' % r['outcome'][6:]]
  if want_error:
    return [] if r['outcome'] == 'ValueError' else ['a geo that cannot be excluded is absent from the data but no ValueError was raised']
  if r['outcome'] == 'ValueError':
    return ['ValueError (%s) on a valid input' % r['msg']]
  if r['index_types'] != ['str']:
    fails.append('geo IDs of the canonical frame are %s, not strings' % r['index_types'])
  if r['dates'] != dates:
    fails.append('columns are %s, expected the dates %s in chronological order' % (r['dates'], dates))
  if sorted(r['order']) != geos:
    fails.append('rows are %s, expected one row per geo %s' % (r['order'], geos))
  else:
    for a, b in zip(r['order'], r['order'][1:]):
      if mean[a] < mean[b]:
        fails.append('rows are not ordered by decreasing mean (%s before %s)' % (a, b))
        break
    want = [[float(cell(g, d)) for d in dates] for g in r['order']]
    if r['cells'] != want:
      fails.append('cell values differ from the mean of the matching input rows (missing cells zero)')
    tot = sum(mean.values())
    for g, s in zip(r['order'], r['shares']):
      if abs(s - float(mean[g] / tot)) > 1e-12:
        fails.append('share of geo %s is %r, expected %r' % (g, s, float(mean[g] / tot)))
        break
  et = {g: TYPES[t] for g, t in elig.items()} if elig is not None else {g: (1, 1, 1) for g in geos}
  kept = sorted(g for g in et if g in geos)
  if r['elig_geos'] != kept:
    fails.append('eligibility table after reconciliation lists %s, expected %s' % (r['elig_geos'], kept))
  assignable = sorted(g for g in kept if et[g] != (0, 0, 1))
  if r['assignable'] != assignable:
    fails.append('assignable geos %s, expected %s' % (r['assignable'], assignable))
  tot = sum(mean.values())
  for gi, idx, got, all_idx in r['aggr']:
    ok = all(g in assignable for g in gi)
    if not ok:
      if got is not None:
        fails.append('geo index %s contains an unassignable geo but was accepted' % gi)
      continue
    if got is None or isinstance(got, str):
      fails.append('geo index %s of assignable geos was rejected (%s)' % (gi, got))
      continue
    s, sh = got
    want_s = [float(sum(cell(gi[i], d) for i in idx)) for d in dates]
    if s != want_s:
      fails.append('aggregate series over positions %s of geo index %s differs from the sum of those rows' % (idx, gi))
    if abs(sh - float(sum(mean[gi[i]] for i in idx) / tot)) > 1e-12:
      fails.append('aggregate share over positions %s of geo index %s differs' % (idx, gi))
    if all_idx != list(range(len(gi))):
      fails.append('index assignments refer to %s, expected positions 0..%d' % (all_idx, len(gi) - 1))
  if not r['input_unmodified']:
    fails.append('the caller\'s frame was modified')
  return fails


def q(v):
  a, b = Fraction(v).numerator, Fraction(v).denominator
  return '(Qmake (%d) %d)' % (a, b)


def encode(case, r):
  if r['outcome'].startswith('other'):
    return None
  b = lambda x: 'true' if x else 'false'
  rows = coq_list(['L %d %d (%d) %d' % (g, d, Fraction(v).numerator, Fraction(v).denominator) for g, d, v in case['rows']])
  geos = sorted({g for g, _, _ in case['rows']})
  et = case['elig'] if case['elig'] is not None else {g: 'ctx' for g in geos}
  tbl = coq_list(['(%d%%Z, E %s %s %s)' % (g, b(TYPES[t][0]), b(TYPES[t][1]), b(TYPES[t][2])) for g, t in et.items()])
  zl = lambda l: coq_list(['%d%%Z' % v for v in l])
  if r['outcome'] == 'ValueError':
    x = ('{| x_dates := %s; x_order := %s; x_cells := %s; x_shares := []; x_reconcile := None; x_assignable := []; x_aggr := [] |}'
         % (zl(sorted({d for _, d, _ in case['rows']})), zl(geos), 'SKIP'))
    return None      # the data object was rejected before anything can be compared: covered by the oracle
  aggr = []
  for gi, idx, got, _ in r['aggr']:
    if isinstance(got, str):
      continue
    res = 'None' if got is None else '(Some (%s, %s))' % (coq_list([q(v) for v in got[0]]), q(got[1]))
    aggr.append('(%s, %s, %s)' % (zl(gi), coq_list(['%d%%nat' % i for i in idx]), res))
  x = ('{| x_dates := %s; x_order := %s; x_cells := %s; x_shares := %s; x_reconcile := Some %s; x_assignable := %s; x_aggr := %s |}'
       % (zl(r['dates']), zl(r['order']), coq_list([coq_list([q(v) for v in row]) for row in r['cells']]),
          coq_list([q(v) for v in r['shares']]), zl(r['elig_geos']), zl(r['assignable']), coq_list(aggr)))
  return '(%s, %s, %s)' % (rows, tbl, x)


def _one(case):
  try:
    return run_impl(case)
  except Exception:
    import traceback
    return {'outcome': 'other:harness: ' + traceback.format_exc()[-400:]}


PRELUDE = ('From Coq Require Import List ZArith QArith Bool.\nFrom MM Require Import model.Elig model.Canon harness.RunCommon harness.RunC15.\n'
           'Import ListNotations.\n')


def run(tier):
  ck = Check('C15', tier)
  ck.prove('props/C15.v', gen_targets=[], extra=['harness/RunC15.vo'])
  rng = random.Random(ck.seed * 53 + 15)
  n = common.sz(tier, 300, 5000)
  cases = [gen_case(rng, i) for i in range(n)]
  res = common.pmap(_one, cases, chunksize=10)
  dist = {'ok': 0, 'ValueError': 0, 'elig_modes': {}}
  terms, index = [], []
  for c, r in zip(cases, res):
    dist['ok' if r['outcome'] == 'ok' else 'ValueError' if r['outcome'] == 'ValueError' else 'other'] = \
        dist.get('ok' if r['outcome'] == 'ok' else 'ValueError' if r['outcome'] == 'ValueError' else 'other', 0) + 1
    ck.count((c['idx'], c['seed']), nontrivial=len({g for g, _, _ in c['rows']}) >= 2)
    fails = oracle(c, r)
    if fails:
      ck.fail('canonical-data-mismatch', fails[0], {'case': c, 'all': fails[:4]})
    t = encode(c, r)
    if t:
      terms.append(t)
      index.append(c['idx'])
  ck.sample({'rows': cases[0]['rows'][:12], 'elig': cases[0]['elig'], 'int_ids': cases[0]['int_ids']})
  jobs, shard = [], 12
  for k in range(0, len(terms), shard):
    jobs.append(('c15_%d' % (k // shard), PRELUDE + 'Definition cases : list case := %s.\nEval vm_compute in (failing cases).\n'
                 % coq_list(terms[k:k + shard])))
  out = common.coq_eval_many(jobs)
  bad = []
  for name, (rc, o) in out.items():
    codes = common.parse_nat_list(o) if rc == 0 else None
    if codes is None:
      ck.tie_broken('correspondence', 'model evaluation failed (%s)' % name, o[-1500:])
    else:
      bad += [(index[int(name.split('_')[1]) * shard + code // 100], COMP[code % 100]) for code in codes]
  if bad:
    ck.tie_broken('correspondence', 'TBRMMData vs model/Canon.v: %s (%d disagreements)' % (bad[0][1], len(bad)),
                  {'case': cases[bad[0][0]], 'component': bad[0][1]})
  ck.cov['rule'] = ('long frames of 1-7 geos x 3-12 dates with ~12% missing cells, duplicate (geo, date) rows (1, 2 or 4 copies), an '
                    'exact tie in the mean in 8% of the frames, shuffled rows, integer or string IDs, an extra column; eligibility '
                    'table absent / equal to / subset of / superset of / overlapping with the data (foreign geos excludable or required); '
                    'four random geo indices (possibly with unassignable geos; in every other case one caller-owned list edited in place and assigned again) x random position sets. non-trivial: >= 2 geos')
  ck.cov['distribution'] = dist
  ck.cov['correspondence'] = {'frames_model_vs_impl': len(terms), 'disagreements': len(bad)}
  return ck.finish('proof', TRUSTED)


def replay(data):
  inp = data.get('input') or next((b['detail'] for b in data.get('tie_broken', []) if isinstance(b.get('detail'), dict)), None)
  if not isinstance(inp, dict) or 'case' not in inp:
    print('replay: nothing executable recorded:', [b['name'] for b in data.get('tie_broken', [])])
    return 1
  c = inp['case']
  c['rows'] = [tuple(r) for r in c['rows']]
  if c['elig'] is not None:
    c['elig'] = {int(k): v for k, v in c['elig'].items()}
  r = _one(c)
  fails = oracle(c, r)
  print('outcome:', r['outcome'], '| property failures:', fails or 'none')
  return 1 if fails else 0
