(* translator refused: Unsupported: x setter returns early: the resets below it are not unconditional *)
Translator_refused_this_source.
