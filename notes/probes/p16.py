import warnings; warnings.filterwarnings('ignore')
import numpy as np, pandas as pd, signal
from matched_markets.methodology import tbrdiagnostics
def handler(s,f): raise TimeoutError()
signal.signal(signal.SIGALRM, handler)
for N in (5,6,7,8,10,12):
  for seed in range(3):
    rng=np.random.RandomState(seed)
    x=np.arange(N,dtype=float)*10+100+rng.normal(0,1,N); y=2*x+5+rng.normal(0,1e-3,N)
    y[N//2]+=1.0   # outlier huge relative to noise, tiny relative to signal
    d=tbrdiagnostics.TBRDiagnostics()
    d._analysis_data=pd.DataFrame({'period':0,'x':x,'y':y}, index=pd.date_range('2020-01-01',periods=N))
    d._analysis_data.index.name='date'
    signal.alarm(10)
    try:
        r=d._detect_outliers(0.1); print(N, seed, 'outliers', len(r))
    except TimeoutError: print(N, seed, 'DID NOT TERMINATE within 10s')
    except Exception as e: print(N, seed, type(e).__name__, str(e)[:80])
    signal.alarm(0)
