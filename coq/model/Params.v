(* Model of TBRMMDesignParameters validation (tbrmmdesignparameters.py:114-281).
   Definitions only.  Python numbers are modelled exactly: ints as Z, floats as NaN, the two
   infinities or an exact rational (every finite binary64 is a dyadic rational); Python compares
   int and float values mathematically, so comparison over Q is bit-faithful. *)
From Coq Require Import List String ZArith QArith Bool.
Import ListNotations.
Open Scope string_scope.

Inductive xf := NaN | PInf | NInf | Fin (q : Q).
Inductive num := NInt (z : Z) | NFloat (f : xf).
Inductive pyval :=
| VNone
| VNum (is_bool : bool) (n : num)      (* int (bool is an int), float *)
| VTuple (l : list pyval)
| VList (l : list pyval)
| VOther.                              (* str, complex, Decimal, dict ... *)

Definition to_xf (n : num) : xf := match n with NInt z => Fin (inject_Z z) | NFloat f => f end.

(* Python's <, <= on int/float values *)
Definition xlt (a b : xf) : bool :=
  match a, b with
  | NaN, _ | _, NaN => false
  | PInf, _ => false | _, NInf => false
  | NInf, _ => true | _, PInf => true
  | Fin p, Fin q => if Qlt_le_dec p q then true else false
  end.
Definition xle (a b : xf) : bool :=
  match a, b with
  | NaN, _ | _, NaN => false
  | NInf, _ => true | _, PInf => true
  | PInf, _ => false | _, NInf => false
  | Fin p, Fin q => if Qlt_le_dec q p then false else true
  end.
Inductive cmpop := OLt | OLe | OGt | OGe.
Definition apply_op (o : cmpop) (a b : num) : bool :=
  match o with
  | OLt => xlt (to_xf a) (to_xf b) | OLe => xle (to_xf a) (to_xf b)
  | OGt => xlt (to_xf b) (to_xf a) | OGe => xle (to_xf b) (to_xf a)
  end.

(* int(value) != value for a numeric value that is not +inf; int(nan), int(-inf) raise in Python *)
Inductive intcheck := IsInt | NotInt | IntRaises.
Definition int_check (n : num) : intcheck :=
  match n with
  | NInt _ => IsInt
  | NFloat (Fin q) => if Z.eqb (Z.pos (Qden (Qred q))) 1 then IsInt else NotInt
  | NFloat _ => IntRaises
  end.
Definition is_int_bound (n : num) : bool := match n with NInt _ => true | _ => false end.
Definition is_pinf (n : num) : bool := match n with NFloat PInf => true | _ => false end.

Inductive outcome := Accept | ValueError | OtherError.

Inductive check :=
| Thr (attr : string) (op : cmpop) (bound : num)
| Win (lower : num) (op1 : cmpop) (attr : string) (op2 : cmpop) (upper : num)
| Rng (lower : num) (op1 : cmpop) (attr : string) (op3 op2 : cmpop) (upper : num).

(* _test_value_vs_threshold (:163-193) *)
Definition check_thr (optional : bool) (v : pyval) (op : cmpop) (bound : num) : outcome :=
  match v with
  | VNone => if optional then Accept else ValueError
  | VNum _ n =>
      if negb (apply_op op n bound) then ValueError
      else if is_int_bound bound then
        (if is_pinf n then ValueError
         else match int_check n with IsInt => Accept | NotInt => ValueError | IntRaises => OtherError end)
      else Accept
  | _ => ValueError
  end.
(* _test_value_within_bounds (:195-230) *)
Definition check_win (optional : bool) (v : pyval) (lower : num) (op1 op2 : cmpop) (upper : num) : outcome :=
  match v with
  | VNone => if optional then Accept else ValueError
  | VNum _ n =>
      if negb (apply_op op1 lower n && apply_op op2 n upper) then ValueError
      else if is_int_bound lower then
        match int_check n with IsInt => Accept | NotInt => ValueError | IntRaises => OtherError end
      else Accept
  | _ => ValueError
  end.
(* _test_range (:232-281) *)
Definition check_rng (optional : bool) (v : pyval) (lower : num) (op1 op3 op2 : cmpop) (upper : num) : outcome :=
  match v with
  | VNone => if optional then Accept else ValueError
  | VTuple [VNum _ lo; VNum _ hi] =>
      if apply_op op1 lower lo && apply_op op2 hi upper then
        (if negb (apply_op op3 lo hi) then ValueError
         else if is_int_bound lower then
           match int_check lo, int_check hi with
           | IsInt, IsInt => Accept
           | IntRaises, _ => OtherError
           | NotInt, _ => ValueError
           | IsInt, IntRaises => OtherError
           | IsInt, NotInt => ValueError
           end
         else Accept)
      else ValueError
  | _ => ValueError
  end.

Fixpoint assoc {B} (l : list (string * B)) (k : string) : option B :=
  match l with [] => None | (k', v) :: l' => if String.eqb k' k then Some v else assoc l' k end.

Section Table.
  Variables (fields : list (string * bool * bool * option pyval)) (checks : list check).
  Definition is_optional (a : string) : bool :=
    existsb (fun f => String.eqb (fst (fst (fst f))) a && snd (fst (fst f))) fields.
  Definition run_check (vals : list (string * pyval)) (c : check) : outcome :=
    match c with
    | Thr a op b => match assoc vals a with Some v => check_thr (is_optional a) v op b | None => OtherError end
    | Win lo o1 a o2 up => match assoc vals a with Some v => check_win (is_optional a) v lo o1 o2 up | None => OtherError end
    | Rng lo o1 a o3 o2 up => match assoc vals a with Some v => check_rng (is_optional a) v lo o1 o3 o2 up | None => OtherError end
    end.
  (* __post_init__: the first failing check decides *)
  Fixpoint run_checks (vals : list (string * pyval)) (cs : list check) : outcome :=
    match cs with
    | [] => Accept
    | c :: cs' => match run_check vals c with Accept => run_checks vals cs' | o => o end
    end.
  (* the constructor: explicit arguments override defaults; a missing required field is a TypeError
     raised by the dataclass machinery before validation (outside the property) *)
  Definition field_value (args : list (string * pyval)) (f : string * bool * bool * option pyval) : option pyval :=
    match assoc args (fst (fst (fst f))) with Some v => Some v | None => snd f end.
  Definition with_defaults (args : list (string * pyval)) : option (list (string * pyval)) :=
    if forallb (fun f => match field_value args f with Some _ => true | None => false end) fields
    then Some (map (fun f => (fst (fst (fst f)), match field_value args f with Some v => v | None => VNone end)) fields)
    else None.
  Definition construct (args : list (string * pyval)) : outcome :=
    match with_defaults args with Some vals => run_checks vals checks | None => OtherError end.
End Table.
