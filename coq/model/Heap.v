(* Model of matched_markets/methodology/heapdict.py (HeapDict).

   Definitions only (no proofs): the model keeps running when a proof breaks.

   Items are values of an arbitrary type [A] that Python compares through
   [__lt__]; the model compares them through a key [key : A -> K.t] into a
   total order [K] (ints: the value itself; tuples: the tuple; designs: the
   score tuple).  A queue is a bag (list); Python's heap layout is not
   modelled: [heappushpop] removes *a* minimum (the root), the model removes
   the first element whose key is minimal.  Which of several equal-key items
   survives is therefore not fixed by the model, and the theorems speak about
   keys (the property's "as a multiset").  *)
From Coq Require Import List Arith ZArith Orders Bool.
Import ListNotations.

Inductive op {A : Type} := Push (k : Z) (x : A) | Read.
Arguments op : clear implicits.

  Section Items.
    (* [ltk] is the strict comparison of keys (Python's [<] on what the items
       are compared by); the theorems instantiate it with the [<] of a total order *)
    Context {K A : Type} (ltk : K -> K -> bool) (key : A -> K).

    (* Python: a < b  (TBRMMDesign.__lt__ -> score < score) *)
    Definition lt_item (a b : A) : bool := ltk (key a) (key b).

    (* descending insertion; used only by the reader (sorted copy) *)
    Fixpoint ins (x : A) (l : list A) : list A :=
      match l with
      | [] => [x]
      | y :: l' => if lt_item y x then x :: l else y :: ins x l'
      end.
    Definition sortd (l : list A) : list A := fold_right ins [] l.

    (* a minimum of a :: l *)
    Fixpoint minl (a : A) (l : list A) : A :=
      match l with
      | [] => a
      | b :: l' => minl (if lt_item b a then b else a) l'
      end.

    Fixpoint remove_first (p : A -> bool) (l : list A) : list A :=
      match l with
      | [] => []
      | y :: l' => if p y then l' else y :: remove_first p l'
      end.

    (* heapq.heappush *)
    Definition heappush (q : list A) (x : A) : list A := x :: q.

    (* heapq.heappushpop: `if heap and heap[0] < item: swap; siftup` *)
    Definition heappushpop (q : list A) (x : A) : list A :=
      match q with
      | [] => []
      | a :: q' =>
          let m := minl a q' in
          if lt_item m x
          then x :: remove_first (fun y => negb (lt_item m y)) q
          else q
      end.

    (* HeapDict.push on one queue, heapdict.py:55-69 *)
    Definition push (size : nat) (q : list A) (x : A) : list A :=
      if length q <? size then heappush q x else heappushpop q x.

    (* heapq.nlargest(len(q), q) = sorted(q, reverse=True) *)
    Definition nlargest_all (q : list A) : list A := sortd q.

    (* ---- the dictionary of queues ---- *)
    Definition dict := list (Z * list A).          (* keys in first-push order *)

    Fixpoint dd_get (d : dict) (k : Z) : list A :=  (* defaultdict(list) lookup *)
      match d with
      | [] => []
      | (k', q) :: d' => if Z.eqb k' k then q else dd_get d' k
      end.
    Fixpoint dd_set (d : dict) (k : Z) (q : list A) : dict :=
      match d with
      | [] => [(k, q)]
      | (k', q') :: d' => if Z.eqb k' k then (k', q) :: d' else (k', q') :: dd_set d' k q
      end.

    Record heapdict := { hd_size : nat; hd_result : dict }.
    Definition hd_init (size : nat) : heapdict := {| hd_size := size; hd_result := [] |}.

    Definition hd_set_result (h : heapdict) (d : dict) : heapdict :=
      {| hd_size := hd_size h; hd_result := d |}.

    Definition hd_push (h : heapdict) (k : Z) (x : A) : heapdict :=
      hd_set_result h (dd_set (hd_result h) k (push (hd_size h) (dd_get (hd_result h) k) x)).

    Definition hd_get_result (h : heapdict) : list (Z * list A) :=
      map (fun kq => (fst kq, nlargest_all (snd kq))) (hd_result h).

    (* state machine with interleaved reads *)
    Definition step (h : heapdict) (o : op A) : heapdict * option (list (Z * list A)) :=
      match o with
      | Push k x => (hd_push h k x, None)
      | Read => (h, Some (hd_get_result h))
      end.
    Fixpoint run (h : heapdict) (ops : list (op A)) : list (list (Z * list A)) :=
      match ops with
      | [] => []
      | o :: ops' =>
          let (h', out) := step h o in
          match out with
          | Some r => r :: run h' ops'
          | None => run h' ops'
          end
      end.
    Fixpoint final (h : heapdict) (ops : list (op A)) : heapdict :=
      match ops with [] => h | o :: ops' => final (fst (step h o)) ops' end.
  End Items.

  (* specification side: the [k] largest keys of a list, descending *)
  Definition topk {K : Type} (ltk : K -> K -> bool) (k : nat) (l : list K) : list K :=
    firstn k (sortd ltk (fun x => x) l).

(* executable instance: keys are integers (ranks supplied by the harness) *)
Module HeapZ.
  Definition ltk := Z.ltb.
  Definition run := @run Z Z Z.ltb (fun x => x).
  Definition final := @final Z Z Z.ltb (fun x => x).
  Definition hd_get_result := @hd_get_result Z Z Z.ltb (fun x => x).
End HeapZ.
