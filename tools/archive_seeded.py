#!/usr/bin/env python3
"""usage: archive_seeded.py <id> <src dir> <property> <caught_by (comma list)> <first_result> [note]
Copies a validated seeded change into /verif/seeded/<id>/ and extends meta.json."""
import json
import os
import shutil
import sys

sid, src, prop, caught, first = sys.argv[1:6]
note = sys.argv[6] if len(sys.argv) > 6 else ''
dst = os.path.join('/verif/seeded', sid)
os.makedirs(dst, exist_ok=True)
for f in ('patch.diff', 'demo.py'):
  shutil.copy(os.path.join(src, f), os.path.join(dst, f))
meta = {}
try:
  meta = json.load(open(os.path.join(src, 'meta.json')))
except Exception as e:
  meta = {'note': 'agent meta.json unreadable: %s' % e}
meta.update({
    'id': sid, 'breaks_property': prop,
    'confirmed_by_me': 'tools/validate_seeded.sh in a fresh scratch worktree of /repo: patch applies; all 529 baseline-passing tests '
                       'still pass; demo.py exits 0 on the clean tree and 1 with the change',
    'checks_run': 'tools/try_seeded.sh (git -C /repo apply; ./check <prop> --tier quick; git -C /repo checkout -- .)',
    'caught_by': [c for c in caught.split(',') if c],
    'first_run_result': first, 'strengthening': note})
json.dump(meta, open(os.path.join(dst, 'meta.json'), 'w'), indent=1)
print('archived', sid)
