import warnings; warnings.filterwarnings('ignore')
import numpy as np, pandas as pd, dataclasses, traceback, copy
from matched_markets.methodology import tbrmmdesignparameters as P, tbrmmdata, geoeligibility as G, tbrmatchedmarkets as MM
from p3 import panel, elig
df = panel(4, 25)
par = P.TBRMMDesignParameters(n_test=3, iroas=1.0, n_designs=3)
before = dataclasses.asdict(par)
data = tbrmmdata.TBRMMData(df, 'response')
ncols_before = data.df.shape
mm = MM.TBRMatchedMarkets(data, par)
r1 = mm.exhaustive_search()
print('r1', [(sorted(d.treatment_geos), sorted(d.control_geos)) for d in r1])
try:
    r2 = mm.search_results()
    print('r2', [(sorted(d.treatment_geos), sorted(d.control_geos)) for d in r2])
except Exception as e:
    print('second search_results:', type(e).__name__, e)
mm2 = MM.TBRMatchedMarkets(tbrmmdata.TBRMMData(df, 'response'), par)
g = mm2.greedy_search()
print('greedy', [(sorted(d.treatment_geos), sorted(d.control_geos)) for d in g])
print('par changed by greedy:', {k:(before[k], v) for k,v in dataclasses.asdict(par).items() if before[k]!=v})
print('count_max after greedy', mm2.count_max_designs(), 'fresh', MM.TBRMatchedMarkets(tbrmmdata.TBRMMData(df, 'response'), P.TBRMMDesignParameters(n_test=3, iroas=1.0, n_designs=3)).count_max_designs())
# data.df truncated by constructor
par3 = P.TBRMMDesignParameters(n_test=3, iroas=1.0, n_pretest_max=10)
d3 = tbrmmdata.TBRMMData(df, 'response'); print('df cols before', d3.df.shape); MM.TBRMatchedMarkets(d3, par3); print('after', d3.df.shape)
