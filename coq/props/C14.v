(* C14 -- Results are ordered best-first and capped; the bounded queue keeps the top k.
   This file only states the property theorems; every proof is `exact <lemma>`. *)
From Coq Require Import List ZArith Orders Sorting.Permutation.
From MM Require Import lib.ListSet lib.Values model.Heap model.Elig model.SearchParams model.Search gen.Gen_HeapDict
  proofs.HeapProofs proofs.HeapBridge proofs.ExhaustiveProofs proofs.GreedyProofs.
Import ListNotations.
Local Open Scope nat_scope.

Module C14 (K : UsualOrderedTypeFull').
  Module P := HeapProofs K.
  Import P.

  (* For every item type compared through a key into a total order, every capacity,
     every history of pushes (any keys) and reads: each queue of the snapshot holds the
     [size] largest keys pushed under its dictionary key, in descending order. *)
  Theorem C14_container_topk :
    forall (A : Type) (key : A -> K.t) (size : nat) (ops : list (op A)) (k : Z),
      map key (dd_get (hd_get_result key (final key (hd_init size) ops)) k)
      = topk size (map key (pushes_of k ops)).
  Proof. exact @heapdict_topk. Qed.

  Theorem C14_queue_descending :
    forall (A : Type) (key : A -> K.t) (k : nat) (xs : list A),
      desc (map key (nlargest_all key (fold_left (push key k) xs []))).
  Proof. exact @heap_sorted. Qed.

  Theorem C14_queue_capped :
    forall (A : Type) (key : A -> K.t) (k : nat) (xs : list A),
      length (nlargest_all key (fold_left (push key k) xs [])) <= k.
  Proof. exact @heap_capped. Qed.

  (* retained items are pushed items, with multiplicity *)
  Theorem C14_retained_are_pushed :
    forall (A : Type) (key : A -> K.t) (k : nat) (xs : list A),
      exists dropped, Permutation xs (nlargest_all key (fold_left (push key k) xs []) ++ dropped).
  Proof. exact @heap_retained_sub. Qed.

  (* reading does not change the container; reads anywhere in a history are transparent *)
  Theorem C14_read_pure :
    forall (A : Type) (key : A -> K.t) (h : heapdict), fst (step key h Read) = h.
  Proof. exact @read_pure. Qed.
  Theorem C14_reads_transparent :
    forall (A : Type) (key : A -> K.t) (h : heapdict) (ops : list (op A)),
      final key h ops = final key h (filter is_push ops).
  Proof. exact @reads_transparent. Qed.
  Theorem C14_read_reports_prefix :
    forall (A : Type) (key : A -> K.t) (h : heapdict) (ops1 ops2 : list (op A)),
      run key h (ops1 ++ Read :: ops2) =
      run key h ops1 ++ hd_get_result key (final key h ops1) :: run key (final key h ops1) ops2.
  Proof. exact @run_read. Qed.


  (* both searches return at most n_designs designs, in non-increasing score order *)
  Module E := ExhTopK K.
  Module G := GreedyTopK K.
  Theorem C14_exhaustive_sorted :
    forall (V : Type) (O : vops V) (es : list elig) (par : spar V)
           (shareS optB : set -> V) (bud : set -> set -> V) (skey : set -> set -> K.t),
      E.HP.desc (map (ekey skey) (exhaustive O E.HP.kltb (assignments_of es) par shareS optB bud skey)).
  Proof. exact @E.exhaustive_sorted. Qed.
  Theorem C14_exhaustive_capped :
    forall (V : Type) (O : vops V) (es : list elig) (par : spar V)
           (shareS optB : set -> V) (bud : set -> set -> V) (skey : set -> set -> K.t),
      length (exhaustive O E.HP.kltb (assignments_of es) par shareS optB bud skey)
      = Nat.min (p_n_designs par) (length (pushed O es par shareS optB bud)).
  Proof. exact @E.exhaustive_length. Qed.
  Theorem C14_greedy_sorted_capped :
    forall (V : Type) (O : vops V) (A : assignments) (par : spar V)
           (shareS : set -> V) (bud : set -> set -> V) (gkey : set -> set -> K.t) (zero_key : K.t)
           (fuel : nat) (ds : list design),
      greedy O G.HP.kltb A par shareS bud gkey zero_key fuel = Some ds ->
      G.HP.desc (map (fun d => gkey (fst d) (snd d)) ds) /\ (length ds <= p_n_designs par)%nat.
  Proof. exact @G.greedy_sorted_capped. Qed.
End C14.

(* tie: the code regenerated from heapdict.py on this run is the model, on every history,
   for every comparison function *)
Theorem C14_generated_code_is_model :
  forall (K A : Type) (ltk : K -> K -> bool) (key : A -> K) (size : nat) (ops : list (op A)),
    HeapBridge.gen_run ltk key (GenHeapDict.gen_init size) ops = run ltk key (hd_init size) ops.
Proof. exact @HeapBridge.bridge_run. Qed.
Print Assumptions C14_generated_code_is_model.

Module C14Z := C14 Z.
Print Assumptions C14Z.C14_container_topk.
Print Assumptions C14Z.C14_queue_descending.
Print Assumptions C14Z.C14_queue_capped.
Print Assumptions C14Z.C14_retained_are_pushed.
Print Assumptions C14Z.C14_read_pure.
Print Assumptions C14Z.C14_reads_transparent.
Print Assumptions C14Z.C14_read_reports_prefix.
Print Assumptions C14Z.C14_exhaustive_sorted.
Print Assumptions C14Z.C14_exhaustive_capped.
Print Assumptions C14Z.C14_greedy_sorted_capped.

(* non-vacuity: a concrete history with ties, two keys, capacity 2 *)
Example C14_example :
  HeapZ.hd_get_result
    (HeapZ.final (hd_init 2) [Push 0 5; Push 1 7; Push 0 5; Read; Push 0 9; Push 0 1]%Z)
  = [(0, [9; 5]); (1, [7])]%Z.
Proof. vm_compute. reflexivity. Qed.
