"""A small fail-closed Python -> Gallina compiler for the pure fragments of
matched_markets that the Coq development reasons about.

Only a whitelisted subset of Python is accepted; anything else raises
`Unsupported` and the caller produces no output at all ("tie broken
(translator)").  The compiler is typed: every expression is compiled to
(coq_text, type) where type is one of

  'N'  natural number (len(...), sizes)         'Z'  integer
  'B'  bool                                      'V'  float (abstract value type of the model)
  'S'  set of geo indices (list nat)             'L<t>' list of t
  'O<t>' optional t (None-able)                  'P<t1>,<t2>' pair
  any other string: an opaque model type (passed through unchanged)

Statements are compiled in continuation-passing style into nested lets;
`for` loops become `fold_left` over the compiled iterable with the tuple of
loop-carried variables as accumulator; `yield e` appends to the accumulator
`out__`; `continue` returns the accumulator tuple.
"""
import ast


class Unsupported(Exception):
  pass


def fail(node, why):
  line = getattr(node, 'lineno', '?')
  raise Unsupported('line %s: %s: %s' % (line, why, ast.dump(node)[:200]))


class Env:
  """Typing/translation environment of one target function."""

  def __init__(self, names=None, attrs=None, calls=None, methods=None, known=None, localdefs=None, hints=None):
    self.names = dict(names or {})      # python name -> (coq, type)
    self.attrs = dict(attrs or {})      # dotted python attribute -> (coq, type)
    self.calls = dict(calls or {})      # dotted callee -> handler(tr, node, args)
    self.methods = dict(methods or {})  # (type-prefix, method) -> handler(tr, recv, args)
    self.known = dict(known or {})      # optional name/attribute -> 'none' | 'some' (decided by an enclosing test)
    self.localdefs = dict(localdefs or {})  # nested function name -> ast.FunctionDef (inlined at each call)
    self.hints = dict(hints or {})      # name -> type of an empty-list initialiser
    self.verbatim = {}                  # exact source of a statement -> handler(tr, env) -> (code, env2)

  def copy(self):
    e = Env(self.names, self.attrs, self.calls, self.methods, self.known, self.localdefs, self.hints)
    e.verbatim = self.verbatim
    return e


def dotted(node):
  if isinstance(node, ast.Name):
    return node.id
  if isinstance(node, ast.Attribute):
    d = dotted(node.value)
    return None if d is None else d + '.' + node.attr
  return None


def toZ(c, t):
  if t == 'Z':
    return c
  if t == 'N':
    return '(Z.of_nat %s)' % c
  if t == 'B':
    return '(Z.b2z %s)' % c
  raise Unsupported('cannot coerce %s : %s to Z' % (c, t))


def toV(c, t):
  if t == 'V':
    return c
  if t in ('Z', 'N', 'B'):
    return '(vofZ %s)' % toZ(c, t)
  raise Unsupported('cannot coerce %s : %s to V' % (c, t))


class Tr:
  def __init__(self, env, mode='value'):
    self.env = env
    self.mode = mode          # 'value' | 'raises' (does it raise ValueError?) | 'safe' (no ZeroDivisionError?)
    self.checks = []          # pending divisor checks (safe mode)
    self.seen_types = {}
    self.ret_type = None
    self.fuel = None          # name of the fuel argument: `while` loops become a fuelled local fixpoint, the result an option
    self.nat_plus_literal = False   # len(..) + 1 stays a natural number
    self.join_ifs = False     # compile `if` statements whose branches only assign names as one tuple-valued conditional

  def pre(self):
    """Code for the divisor checks collected while compiling the current statement's expressions."""
    if self.mode != 'safe' or not self.checks:
      self.checks = []
      return ''
    code = ''.join('let ok__ := (ok__ && negb (Z.eqb %s 0%%Z)) in\n' % c for c in self.checks)
    self.checks = []
    return code

  # ---------------------------------------------------------------- exprs
  def expr(self, n, env=None):
    env = env or self.env
    if isinstance(n, ast.Constant):
      v = n.value
      if v is None:
        return ('None', 'O?')
      if isinstance(v, bool):
        return ('true' if v else 'false', 'B')
      if isinstance(v, int):
        return (('%d%%Z' % v) if v >= 0 else ('(%d)%%Z' % v), 'Z')
      if isinstance(v, float):
        return ('(vlit %s)' % mant_exp(v), 'V')
      fail(n, 'constant')
    if isinstance(n, ast.Name):
      if n.id in env.names:
        return env.names[n.id]
      fail(n, 'unknown name')
    if isinstance(n, ast.Attribute):
      d = dotted(n)
      if d in env.attrs:
        return env.attrs[d]
      if isinstance(n.value, ast.Name) and n.value.id in env.names:
        c, t = env.names[n.value.id]
        if ('attr', t, n.attr) in env.methods:
          return env.methods[('attr', t, n.attr)](self, c)
      fail(n, 'unknown attribute')
    if isinstance(n, (ast.GeneratorExp, ast.ListComp)):
      # (x for x in s if c) / [x for x in s if c] over a list of geo positions: a filter that keeps the order
      g = n.generators
      if (len(g) != 1 or g[0].is_async or not isinstance(g[0].target, ast.Name) or not isinstance(n.elt, ast.Name)
          or n.elt.id != g[0].target.id):
        fail(n, 'comprehension')
      it, itt = self.expr(g[0].iter, env)
      if itt != 'S':
        fail(n, 'comprehension over ' + itt)
      env2 = env.copy()
      env2.names[n.elt.id] = (n.elt.id, 'N')
      conds = [self.truth(*self.expr(c, env2), c) for c in g[0].ifs] or ['true']
      return ('(filter (fun %s => %s) %s)' % (n.elt.id, ' && '.join(conds), it), 'S')
    if isinstance(n, ast.SetComp):
      # {f(x) for x in s}: the image of a set of geo indices
      if len(n.generators) != 1 or n.generators[0].ifs or n.generators[0].is_async or not isinstance(n.generators[0].target, ast.Name):
        fail(n, 'set comprehension')
      it, itt = self.expr(n.generators[0].iter, env)
      if itt != 'S':
        fail(n, 'set comprehension over ' + itt)
      env2 = env.copy()
      x = n.generators[0].target.id
      env2.names[x] = (x, 'N')
      c, t = self.expr(n.elt, env2)
      return ('(map (fun %s => %s) %s)' % (x, c, it), 'S' + t)
    if isinstance(n, ast.List) and not n.elts:
      fail(n, 'empty list literal outside a typed initialisation')
    if isinstance(n, ast.List):
      parts = [self.expr(e, env) for e in n.elts]
      if all(t == 'N' for _, t in parts):
        return ('[' + '; '.join(c for c, _ in parts) + ']', 'S')
      fail(n, 'list literal')
    if isinstance(n, ast.Dict) and len(n.keys) == 1 and n.keys[0] is not None:
      k, kt = self.expr(n.keys[0], env)
      v, vt = self.expr(n.values[0], env)
      if vt == 'S':
        return ('(dd_set [] %s %s)' % (toZ(k, kt), v), 'DS')
      return ('(ad_set [] %s %s)' % (toZ(k, kt), v), 'A' + vt)
    if isinstance(n, ast.Subscript):
      d = dotted(n.value)
      if isinstance(n.slice, ast.Slice) and n.slice.lower is None and n.slice.step is None and n.slice.upper is not None:
        c, t = self.expr(n.value, env)
        k, kt = self.expr(n.slice.upper, env)
        if t == 'S' and kt in ('N', 'Z'):
          return ('(firstn %s %s)' % (k if kt == 'N' else '(Z.to_nat %s)' % k, c), 'S')     # l[:k], k >= 0 is the caller's obligation
        fail(n, 'slice')
      if (isinstance(n.slice, ast.UnaryOp) and isinstance(n.slice.op, ast.USub) and isinstance(n.slice.operand, ast.Constant)
          and n.slice.operand.value == 1):
        c, t = self.expr(n.value, env)
        if t == 'LZ':
          return ('(last %s 0%%Z)' % c, 'Z')       # l[-1]; IndexError on [] is the caller's obligation
        fail(n, 'subscript [-1] of ' + t)
      if isinstance(n.slice, ast.Constant) and isinstance(n.slice.value, int):
        key = '%s[%d]' % (d, n.slice.value)
        if key in env.attrs:
          return env.attrs[key]
        c, t = self.expr(n.value, env)
        if ('subscript', t) in env.methods:
          return env.methods[('subscript', t)](self, c, ('%d%%Z' % n.slice.value, 'Z'))
        if t.startswith('P'):
          a, b = t[1:].split(',', 1)
          return ('(%s %s)' % ('fst' if n.slice.value == 0 else 'snd', c),
                  a if n.slice.value == 0 else b)
        fail(n, 'subscript')
      c, t = self.expr(n.value, env)
      k, kt = self.expr(n.slice, env)
      if t.startswith('D') and len(t) > 1 and t != 'D?':
        return ('(dd_get %s %s)' % (c, toZ(k, kt)), t[1:])
      if ('subscript', t) in env.methods:
        return env.methods[('subscript', t)](self, c, (k, kt))
      fail(n, 'subscript')
    if isinstance(n, ast.BoolOp):
      parts = [self.expr(v, env) for v in n.values]
      parts = [(self.truth(c, t, n), 'B') for c, t in parts]
      op = ' && ' if isinstance(n.op, ast.And) else ' || '
      return ('(' + op.join(c for c, _ in parts) + ')', 'B')
    if isinstance(n, ast.UnaryOp):
      c, t = self.expr(n.operand, env)
      if isinstance(n.op, ast.Not):
        return ('(negb %s)' % self.truth(c, t, n), 'B')
      if isinstance(n.op, ast.USub) and t == 'Z':
        return ('(- %s)%%Z' % c, 'Z')
      fail(n, 'unary op')
    if isinstance(n, ast.Compare):
      if len(n.ops) != 1:
        fail(n, 'chained comparison')
      return self.compare(n.ops[0], n.left, n.comparators[0], env, n)
    if isinstance(n, ast.BinOp):
      return self.binop(n, env)
    if isinstance(n, ast.Call):
      return self.call(n, env)
    if isinstance(n, ast.Tuple) and len(n.elts) == 2:
      (a, ta), (b, tb) = self.expr(n.elts[0], env), self.expr(n.elts[1], env)
      return ('(%s, %s)' % (a, b), 'P%s,%s' % (ta, tb))
    if isinstance(n, ast.Dict) and not n.keys:
      return ('[]', 'D?')
    if isinstance(n, ast.IfExp) and isinstance(n.orelse, ast.Constant) and n.orelse.value is None:
      c, tc = self.expr(n.test, env)
      a, ta = self.expr(n.body, env)
      return ('(if %s then Some %s else None)' % (self.truth(c, tc, n), a), 'O' + ta)
    if isinstance(n, ast.IfExp):
      c, tc = self.expr(n.test, env)
      a, ta = self.expr(n.body, env)
      b, tb = self.expr(n.orelse, env)
      if ta != tb:
        fail(n, 'ifexp branches of different type')
      return ('(if %s then %s else %s)' % (self.truth(c, tc, n), a, b), ta)
    fail(n, 'expression')

  def truth(self, c, t, n):
    """Python truthiness."""
    if t == 'B':
      return c
    if t == 'S' or t.startswith('L') or t == 'RES':
      return '(negb (is_nil %s))' % c
    if t in ('N',):
      return '(negb (Nat.eqb %s 0))' % c
    if t == 'Z':
      return '(negb (Z.eqb %s 0))' % c
    fail(n, 'truthiness of type ' + t)

  def compare(self, op, l, r, env, n):
    # `x is None` / `x is not None`
    if isinstance(op, (ast.Is, ast.IsNot)) and isinstance(r, ast.Constant) and r.value is None:
      c, t = self.expr(l, env)
      if not t.startswith('O'):
        fail(n, 'is None on non-optional')
      return ('(%s %s)' % ('is_none' if isinstance(op, ast.Is) else 'is_some', c), 'B')
    (a, ta), (b, tb) = self.expr(l, env), self.expr(r, env)
    if isinstance(op, ast.NotIn) and ta in ('N',) and tb == 'S':
      return ('(negb (mem %s %s))' % (a, b), 'B')
    if isinstance(op, ast.In):
      if ta in ('N',) and tb == 'S':
        return ('(mem %s %s)' % (a, b), 'B')
      if ta in ('Z', 'N') and tb == 'LZ':
        return ('(memZ %s %s)' % (toZ(a, ta), b), 'B')
      fail(n, 'in')
    names = {ast.Lt: 'ltb', ast.LtE: 'leb', ast.Gt: 'gtb', ast.GtE: 'geb', ast.Eq: 'eqb', ast.NotEq: 'neqb'}
    if type(op) not in names:
      fail(n, 'comparison operator')
    nm = names[type(op)]
    if ta in ('Z', 'N') and tb == 'OZ' and nm in ('eqb', 'neqb'):     # int == Optional[int]
      e = '(match %s with Some v__ => Z.eqb %s v__ | None => false end)' % (b, toZ(a, ta))
      return (e if nm == 'eqb' else '(negb %s)' % e, 'B')
    if ta == 'N' and tb == 'N':
      pre = 'Nat.'
      if nm in ('gtb', 'geb'):
        a, b, nm = b, a, {'gtb': 'ltb', 'geb': 'leb'}[nm]
      if nm == 'neqb':
        return ('(negb (Nat.eqb %s %s))' % (a, b), 'B')
      return ('(%s%s %s %s)' % (pre, nm, a, b), 'B')
    if ta in ('N', 'Z', 'B') and tb in ('N', 'Z', 'B'):
      a, b = toZ(a, ta), toZ(b, tb)
      if nm == 'neqb':
        return ('(negb (Z.eqb %s %s))' % (a, b), 'B')
      return ('(Z.%s %s %s)' % (nm, a, b), 'B')
    if ta == 'K' and tb == 'K' and nm in ('ltb', 'gtb'):
      return ('(ltk %s %s)' % ((a, b) if nm == 'ltb' else (b, a)), 'B')
    if 'V' in (ta, tb):
      a, b = toV(a, ta), toV(b, tb)
      if nm in ('gtb', 'geb'):
        a, b, nm = b, a, {'gtb': 'ltb', 'geb': 'leb'}[nm]
      if nm == 'neqb':
        return ('(negb (veqb %s %s))' % (a, b), 'B')
      return ('(v%s %s %s)' % (nm, a, b), 'B')
    fail(n, 'comparison of %s and %s' % (ta, tb))

  def binop(self, n, env):
    (a, ta), (b, tb) = self.expr(n.left, env), self.expr(n.right, env)
    op = type(n.op)
    if ta == 'S' and tb == 'S':
      f = {ast.BitOr: 'union', ast.BitAnd: 'inter', ast.Sub: 'diff'}.get(op)
      if f is None:
        fail(n, 'set operator')
      return ('(%s %s %s)' % (f, a, b), 'S')
    if ta.startswith('L') and ta == tb and op is ast.Add:
      return ('(%s ++ %s)' % (a, b), ta)
    if ta == 'B' and tb == 'B' and op in (ast.BitOr, ast.BitAnd):
      return ('(%s %s %s)' % ('orb' if op is ast.BitOr else 'andb', a, b), 'B')
    if op is ast.Pow and ta == 'V' and isinstance(n.right, ast.Constant) and n.right.value == 2 and not isinstance(n.right.value, bool):
      return ('(vmul %s %s)' % (a, a), 'V')
    if op is ast.Div:
      # Python true division always yields a float; int / int raises ZeroDivisionError on 0
      if ta in ('N', 'Z', 'B') and tb in ('N', 'Z', 'B'):
        self.checks.append(toZ(b, tb))
      return ('(vdiv %s %s)' % (toV(a, ta), toV(b, tb)), 'V')
    if 'V' in (ta, tb):
      f = {ast.Add: 'vadd', ast.Sub: 'vsub', ast.Mult: 'vmul'}.get(op)
      if f is None:
        fail(n, 'float operator')
      return ('(%s %s %s)' % (f, toV(a, ta), toV(b, tb)), 'V')
    if ta in ('N', 'Z', 'B') and tb in ('N', 'Z', 'B'):
      if ta == 'N' and tb == 'N' and op is ast.Add:
        return ('(%s + %s)' % (a, b), 'N')
      if (self.nat_plus_literal and ta == 'N' and op is ast.Add and isinstance(n.right, ast.Constant)
          and isinstance(n.right.value, int) and not isinstance(n.right.value, bool) and n.right.value >= 0):
        return ('(%s + %d)%%nat' % (a, n.right.value), 'N')
      f = {ast.Add: '+', ast.Sub: '-', ast.Mult: '*'}.get(op)
      if f is None:
        fail(n, 'integer operator')
      return ('(%s %s %s)%%Z' % (toZ(a, ta), f, toZ(b, tb)), 'Z')
    fail(n, 'binary operator on %s, %s' % (ta, tb))

  def call(self, n, env):
    d = dotted(n.func)
    if d in env.calls:
      return env.calls[d](self, n, env)
    if isinstance(n.func, ast.Name) and n.func.id in env.localdefs:
      return self.inline_local(env.localdefs[n.func.id], n, env)
    if isinstance(n.func, ast.Attribute) and n.keywords:
      recv, rt = self.expr(n.func.value, env)
      key = ('kwmethod', rt, n.func.attr)
      if key in env.methods and not n.args:
        return env.methods[key](self, recv, {k.arg: self.expr(k.value, env) for k in n.keywords})
      fail(n, 'call with keywords')
    if isinstance(n.func, ast.Name) and n.func.id in env.names and env.names[n.func.id][1].startswith('FUN:'):
      kind = env.names[n.func.id][1][4:]
      if kind == 'comb':
        kws = {k.arg: k.value for k in n.keywords}
        if len(n.args) != 2 or set(kws) != {'exact'} or not (isinstance(kws['exact'], ast.Constant) and kws['exact'].value is True):
          fail(n, 'comb() must be called as comb(n, k, exact=True)')
        (a, ta), (b, tb) = [self.expr(x, env) for x in n.args]
        return ('(zbinom %s %s)' % (toZ(a, ta), toZ(b, tb)), 'Z')
      fail(n, 'call of function value')
    if isinstance(n.func, ast.Attribute):
      recv, rt = self.expr(n.func.value, env)
      key = (rt, n.func.attr)
      if key in env.methods:
        return env.methods[key](self, recv, [self.expr(a, env) for a in n.args])
    if d == 'len' and len(n.args) == 1:
      c, t = self.expr(n.args[0], env)
      if t == 'S' or t.startswith('L') or t == 'Q':
        return ('(length %s)' % c, 'N')
      fail(n, 'len of ' + t)
    if d in ('max', 'min') and len(n.args) == 2:
      (a, ta), (b, tb) = [self.expr(x, env) for x in n.args]
      if ta == 'N' and tb == 'N':
        return ('(Nat.%s %s %s)' % (d, a, b), 'N')
      return ('(Z.%s %s %s)' % (d, toZ(a, ta), toZ(b, tb)), 'Z')
    if d == 'range':
      args = [self.expr(x, env) for x in n.args]
      if len(args) == 1:
        return ('(zrange 0 %s)' % toZ(*args[0]), 'LZ')
      if len(args) == 2:
        return ('(zrange %s %s)' % (toZ(*args[0]), toZ(*args[1])), 'LZ')
      fail(n, 'range arity')
    if d == 'set' and len(n.args) == 1:
      c, t = self.expr(n.args[0], env)
      if t == 'LZ':
        return (c, 'LZ')      # sets of sizes are only tested with `in`
      if t == 'S':
        return (c, 'S')
      fail(n, 'set() of ' + t)
    if d == 'list' and len(n.args) == 1:
      c, t = self.expr(n.args[0], env)
      if t.startswith('L'):
        return (c, t)
      fail(n, 'list() of ' + t)
    fail(n, 'call')

  ANNOT = {'Set[GeoIndex]': 'S'}

  def inline_local(self, fn, n, env):
    """A nested function is inlined at each call with the bindings of the call site (a Python closure reads
    its free variables when it is called, not when it is defined)."""
    a = fn.args
    if a.defaults or a.kwonlyargs or a.vararg or a.kwarg or n.keywords or len(a.args) != len(n.args):
      fail(n, 'call of nested function: arity')
    env2 = env.copy()
    for p, arg in zip(a.args, n.args):
      want = self.ANNOT.get(ast.unparse(p.annotation)) if p.annotation is not None else None
      c, t = self.expr(arg, env)
      if want is None or want != t:
        fail(n, 'nested function parameter %s: annotation %s, argument %s' % (p.arg, want, t))
      env2.names[p.arg] = (c, t)
    if any(isinstance(x, (ast.Assign, ast.AugAssign, ast.Yield, ast.Global, ast.Nonlocal)) for st in fn.body for x in ast.walk(st)):
      fail(fn, 'nested function with assignments')
    saved, self.ret_type = self.ret_type, None
    try:
      code = self.block(list(fn.body), env2, lambda e: fail(fn, 'nested function falls off its end'))
      t = self.ret_type
    finally:
      self.ret_type = saved
    return ('(%s)' % code, t)

  def any_idiom(self, s, rest, env):
    """for p in it: if test: return True  /  return False   ==>   existsb (fun p => test) it"""
    if not (isinstance(s, ast.For) and not s.orelse and isinstance(s.target, ast.Name) and len(s.body) == 1
            and isinstance(s.body[0], ast.If) and not s.body[0].orelse and len(s.body[0].body) == 1
            and isinstance(s.body[0].body[0], ast.Return) and isinstance(s.body[0].body[0].value, ast.Constant)
            and s.body[0].body[0].value.value is True and len(rest) == 1 and isinstance(rest[0], ast.Return)
            and isinstance(rest[0].value, ast.Constant) and rest[0].value.value is False):
      return None
    it, itt = self.expr(s.iter, env)
    if not itt.startswith('L'):
      fail(s, 'iteration over ' + itt)
    env_b = env.copy()
    env_b.names[s.target.id] = (s.target.id, itt[1:])
    c, t = self.expr(s.body[0].test, env_b)
    self.ret_type = 'B'
    return '(existsb (fun %s => %s) %s)' % (s.target.id, self.truth(c, t, s), it)


  COQTYPES = {'N': 'nat', 'Z': 'Z', 'B': 'bool', 'S': 'set', 'V': 'V', 'K': 'K', 'DS': '(list (Z * list nat))', 'U': 'unit'}

  def coqtype(self, t):
    if t in self.COQTYPES:
      return self.COQTYPES[t]
    if t.startswith('A'):
      return '(list (Z * %s))' % self.coqtype(t[1:])
    if t.startswith('L'):
      return '(list %s)' % self.coqtype(t[1:])
    if t.startswith('P'):
      a, b = t[1:].split(',', 1)
      return '(%s * %s)' % (self.coqtype(a), self.coqtype(b))
    if t in getattr(self, 'extra_coqtypes', {}):
      return self.extra_coqtypes[t]
    raise Unsupported('no Coq type for %s' % t)

  @staticmethod
  def simple_assignments(stmts):
    return bool(stmts) and all(isinstance(x, ast.Assign) and len(x.targets) == 1 and isinstance(x.targets[0], ast.Name)
                               for x in stmts)

  def join_if(self, s, rest, env, tail, in_loop):
    """if c: a = ..; b = ..  [else: a = ..]   ==>   let '(a, b) := if c then (.., ..) else (.., ..) in rest"""
    names = self.assigned(list(s.body) + list(s.orelse))
    c, t = self.expr(s.test, env)
    c = self.truth(c, t, s)
    pre = self.pre()
    found = {}

    def probe(tag):
      def k(e):
        found[tag] = [e.names[v][1] if v in e.names else None for v in names]
        return 'tt'
      return k
    saved = dict(self.seen_types)
    self.block(list(s.body), env, probe('a'), in_loop)
    self.block(list(s.orelse), env, probe('b'), in_loop)
    self.seen_types = saved
    target = []
    for ta, tb in zip(found['a'], found['b']):
      if ta is None or tb is None:
        return None
      if ta == tb:
        target.append(ta)
      elif {ta, tb} <= {'N', 'Z', 'B'}:
        target.append('Z')
      elif 'D?' in (ta, tb) and (ta + tb).replace('D?', '', 1).startswith('D'):
        target.append(ta if ta != 'D?' else tb)
      else:
        return None

    def out(e):
      parts = []
      for v, tt in zip(names, target):
        cc, ct = e.names[v]
        parts.append(cc if (ct == tt or ct == 'D?') else toZ(cc, ct))
      return parts[0] if len(parts) == 1 else '(' + ', '.join(parts) + ')'
    a = self.block(list(s.body), env, out, in_loop)
    b = self.block(list(s.orelse), env, out, in_loop)
    env2 = env.copy()
    for v, tt in zip(names, target):
      env2.names[v] = (v, tt)
      self.seen_types[v] = tt
    pat = names[0] if len(names) == 1 else "'(" + ', '.join(names) + ')'
    return pre + 'let %s := (if %s\n then %s\n else %s) in\n%s' % (pat, c, a, b, self.block(rest, env2, tail, in_loop))


  def join_none_if(self, s, rest, env, tail, in_loop):
    """if self.parameters.F is None: <fill F in>  else: <read F>   (straight-line branches)
       ==>  let '(names.., F__, par) := match F with None => (..) | Some F__ => (..) end in rest   -- one copy of rest"""
    nt = self.none_test(s.test, env)
    if nt is None or nt[0] != 'attr':
      return None
    kind, key, coq, inner, none_first = nt
    stmts = list(s.body) + list(s.orelse)
    if any(isinstance(x, (ast.For, ast.While, ast.Continue, ast.Break, ast.Return, ast.Raise, ast.FunctionDef))
           for st in stmts for x in ast.walk(st)):
      return None
    body_none, body_some = (s.body, s.orelse) if none_first else (s.orelse, s.body)
    var = key.replace('.', '_').replace('self_parameters_', '') + '__'
    env_n, env_s = env.copy(), env.copy()
    env_n.known[key] = 'none'
    env_s.attrs[key] = (var, inner)
    env_s.known[key] = 'some'
    names = self.assigned(stmts)
    found = {}

    def probe(tag):
      def k(e):
        found[tag] = ({v: e.names[v][1] for v in names if v in e.names}, e.attrs.get(key, (None, None))[1], e.known.get(key))
        return 'tt'
      return k
    saved = dict(self.seen_types)
    self.block(list(body_none), env_n, probe('n'), in_loop)
    self.block(list(body_some), env_s, probe('s'), in_loop)
    self.seen_types = saved
    (tn, an, kn), (ts, as_, ks) = found['n'], found['s']
    if (an, kn) != (inner, 'some') or (as_, ks) != (inner, 'some'):
      return None
    joined, target = [], []
    for v in names:
      if v in tn and v in ts:
        if tn[v] == ts[v]:
          joined.append(v); target.append(tn[v])
        elif {tn[v], ts[v]} <= {'N', 'Z', 'B'}:
          joined.append(v); target.append('Z')
        else:
          return None

    def out(e):
      parts = []
      for v, tt in zip(joined, target):
        cc, ct = e.names[v]
        parts.append(cc if ct == tt else toZ(cc, ct))
      return '(' + ', '.join(parts + [e.attrs[key][0], 'par']) + ')'
    a = self.block(list(body_none), env_n, out, in_loop)
    b = self.block(list(body_some), env_s, out, in_loop)
    env2 = env.copy()
    for v, tt in zip(joined, target):
      env2.names[v] = (v, tt)
      self.seen_types[v] = tt
    env2.attrs[key] = (var, inner)
    env2.known[key] = 'some'
    pat = "'(" + ', '.join(joined + [var, 'par']) + ')'
    return ('let %s := (match %s with\n | None => %s\n | Some %s => %s\n end) in\n%s'
            % (pat, coq, a, var, b, self.block(rest, env2, tail, in_loop)))

  def while_loop(self, s, rest, env, tail, in_loop):
    if not self.fuel or in_loop or s.orelse or self.mode != 'value':
      fail(s, 'while loop')
    if self.has_raise(s.body):
      fail(s, 'raise inside a loop')
    accs = [x for x in self.assigned(s.body) if x in env.names]
    if not accs:
      fail(s, 'while loop without state')
    c, t = self.expr(s.test, env)
    cond = self.truth(c, t, s)
    if self.pre():
      fail(s, 'while condition with a checked division')
    types = ' * '.join(self.coqtype(env.names[x][1]) for x in accs)
    saved = dict(self.seen_types)
    body = self.block(list(s.body), env, lambda e: self.tup(accs, e), in_loop=True)    # `continue` = next iteration
    for x in accs:
      if self.seen_types.get(x, env.names[x][1]) != env.names[x][1] and saved.get(x) != self.seen_types.get(x):
        fail(s, 'loop-carried variable %s changes type' % x)
    pat = self.pat(accs, env) if len(accs) > 1 else env.names[accs[0]][0]
    after = self.block(rest, env, tail, in_loop)
    return ('match fuel_loop (fun st__ : %s =>\nlet %s := st__ in\n%s)\n (fun st__ : %s =>\nlet %s := st__ in\n%s)\n %s %s with\n'
            '| None => None\n| Some st__ => let %s := st__ in\nSome (\n%s)\nend'
            % (types, pat, cond, types, pat, body, self.fuel, self.tup(accs, env), pat, after))

  # ---------------------------------------------------------------- stmts
  MUTATING_METHODS = ('append', 'push', 'pop')

  def assigned(self, stmts, attr_targets=False):
    out = []
    for s in stmts:
      for x in ast.walk(s):
        tgt = None
        if isinstance(x, ast.Assign) and len(x.targets) == 1 and isinstance(x.targets[0], ast.Name):
          tgt = x.targets[0].id
        elif (isinstance(x, ast.Assign) and len(x.targets) == 1 and isinstance(x.targets[0], ast.Subscript)
              and isinstance(x.targets[0].value, ast.Name)):
          tgt = x.targets[0].value.id
        elif isinstance(x, ast.AugAssign) and isinstance(x.target, ast.Name):
          tgt = x.target.id
        elif isinstance(x, (ast.Yield, ast.YieldFrom)):
          tgt = 'out__'
        elif (attr_targets and isinstance(x, ast.Assign) and len(x.targets) == 1 and isinstance(x.targets[0], ast.Attribute)
              and isinstance(x.targets[0].value, ast.Name) and x.targets[0].value.id != 'self'):
          tgt = x.targets[0].value.id          # obj.field = ...: the local object changes
        elif isinstance(x, ast.Expr) and isinstance(x.value, ast.Call):
          d = dotted(x.value.func)
          if d in self.mutators:
            tgt = x.value.args[self.mutators[d][1]].id
          elif (isinstance(x.value.func, ast.Attribute) and isinstance(x.value.func.value, ast.Name)
                and x.value.func.attr in self.MUTATING_METHODS):
            tgt = x.value.func.value.id
        if tgt and tgt not in out:
          out.append(tgt)
    return out

  mutators = {}   # dotted callee -> (coq function, index of the mutated argument)

  def tup(self, names, env):
    if not names:
      return 'tt'
    return '(' + ', '.join(env.names[x][0] for x in names) + ')'

  def pat(self, names, env):
    if not names:
      return '_'
    if len(names) == 1:
      return env.names[names[0]][0]
    return "'(" + ', '.join(env.names[x][0] for x in names) + ')'

  # -- helpers for control flow -----------------------------------------
  @staticmethod
  def has_raise(stmts):
    return any(isinstance(x, ast.Raise) for st in stmts for x in ast.walk(st))

  @staticmethod
  def ends_with_raise(body):
    return bool(body) and isinstance(body[-1], ast.Raise)

  def check_raise(self, r):
    """Only `raise ValueError(...)` is a modelled outcome; anything else is refused."""
    exc = r.exc
    name = dotted(exc.func) if isinstance(exc, ast.Call) else dotted(exc) if exc is not None else None
    if name != 'ValueError':
      fail(r, 'raise of something other than ValueError')

  def none_test(self, test, env):
    """`X is None` / `X is not None` on a name or known attribute of optional type.
    Returns (key, coq, inner_type, is_none_branch_first) or None."""
    if (isinstance(test, ast.Compare) and len(test.ops) == 1 and isinstance(test.ops[0], (ast.Is, ast.IsNot))
        and isinstance(test.comparators[0], ast.Constant) and test.comparators[0].value is None):
      d = dotted(test.left)
      if d in env.known:
        return ('static', d, None, None, (env.known[d] == 'none') == isinstance(test.ops[0], ast.Is))
      if isinstance(test.left, ast.Name) and d in env.names and env.names[d][1].startswith('O'):
        return ('name', d, env.names[d][0], env.names[d][1][1:], isinstance(test.ops[0], ast.Is))
      if d in env.attrs and env.attrs[d][1].startswith('O'):
        return ('attr', d, env.attrs[d][0], env.attrs[d][1][1:], isinstance(test.ops[0], ast.Is))
    return None

  def block(self, stmts, env, tail, in_loop=False):
    """Compile stmts; `tail(env)` gives the Gallina for falling off the end."""
    if not stmts:
      return tail(env)
    if self.mode == 'raises' and not self.has_raise(stmts):
      return 'false'
    s, rest = stmts[0], stmts[1:]
    if isinstance(s, ast.Expr) and isinstance(s.value, ast.Constant) and isinstance(s.value.value, str):
      return self.block(rest, env, tail, in_loop)           # docstring
    if env.verbatim:
      src = ast.unparse(s)
      if src in env.verbatim:
        code, env2 = env.verbatim[src](self, env)
        return code + self.block(rest, env2, tail, in_loop)
    if isinstance(s, ast.While):
      return self.while_loop(s, rest, env, tail, in_loop)
    if (self.join_ifs and isinstance(s, ast.If) and self.mode == 'value' and self.simple_assignments(list(s.body))
        and (not s.orelse or self.simple_assignments(list(s.orelse))) and self.none_test(s.test, env) is None):
      joined = self.join_if(s, rest, env, tail, in_loop)
      if joined is not None:
        return joined
    if self.join_ifs and isinstance(s, ast.If) and self.mode == 'value' and rest:
      joined = self.join_none_if(s, rest, env, tail, in_loop)
      if joined is not None:
        return joined
    if isinstance(s, ast.FunctionDef):
      if s.decorator_list or s.name in env.names:
        fail(s, 'nested function')
      env2 = env.copy()
      env2.localdefs[s.name] = s
      return self.block(rest, env2, tail, in_loop)
    idiom = self.any_idiom(s, rest, env) if self.mode == 'value' else None
    if idiom is not None:
      return idiom
    if isinstance(s, ast.Assign) and len(s.targets) == 1:
      t0 = s.targets[0]
      if isinstance(t0, ast.Name) and isinstance(s.value, ast.List) and not s.value.elts and t0.id in env.hints:
        return self.let(t0.id, '[]', env.hints[t0.id], rest, env, tail, in_loop)
      if isinstance(t0, ast.Name):
        d = dotted(s.value)
        if d in env.attrs and env.attrs[d][1].startswith('FUN:'):
          env2 = env.copy()
          env2.names[t0.id] = env.attrs[d]
          return self.block(rest, env2, tail, in_loop)
        c, t = self.expr(s.value, env)
        return self.pre() + self.let(t0.id, c, t, rest, env, tail, in_loop)
      if isinstance(t0, ast.Tuple) and all(isinstance(e, ast.Name) for e in t0.elts) and len(t0.elts) == 2:
        c, t = self.expr(s.value, env)
        if not t.startswith('P'):
          fail(s, 'tuple unpacking of non-pair')
        ta, tb = t[1:].split(',', 1)
        env2 = env.copy()
        na, nb = t0.elts[0].id, t0.elts[1].id
        env2.names[na] = (na, ta)
        env2.names[nb] = (nb, tb)
        self.seen_types[na], self.seen_types[nb] = ta, tb
        return self.pre() + "let '(%s, %s) := %s in\n%s" % (na, nb, c, self.block(rest, env2, tail, in_loop))
      d = dotted(t0)
      if (isinstance(t0, ast.Attribute) and isinstance(t0.value, ast.Name) and t0.value.id in env.names
          and ('setattr', env.names[t0.value.id][1], t0.attr) in env.methods):
        c, t = self.expr(s.value, env)
        code, env2 = env.methods[('setattr', env.names[t0.value.id][1], t0.attr)](self, env, t0.value.id, c, t)
        return self.pre() + code + self.block(rest, env2, tail, in_loop)
      if d is not None and ('set', d) in env.methods:
        c, t = self.expr(s.value, env)
        code, env2 = env.methods[('set', d)](self, env, c, t)
        return self.pre() + code + self.block(rest, env2, tail, in_loop)
      if isinstance(t0, ast.Subscript) and isinstance(t0.value, ast.Name) and \
          env.names.get(t0.value.id, (None, 'x'))[1][:1] in ('D', 'A'):
        k, kt = self.expr(t0.slice, env)
        c, t = self.expr(s.value, env)
        nm = t0.value.id
        old = env.names[nm][1]
        if old == 'A' + t:
          return self.pre() + self.let(nm, '(ad_set %s %s %s)' % (env.names[nm][0], toZ(k, kt), c), old, rest, env, tail, in_loop)
        if old not in ('D?', 'D' + t):
          fail(s, 'dict value type changes')
        return self.pre() + self.let(nm, '(dd_set %s %s %s)' % (env.names[nm][0], toZ(k, kt), c), 'D' + t,
                                     rest, env, tail, in_loop)
      if isinstance(t0, ast.Subscript):
        d = dotted(t0.value)
        if d is not None and ('setitem', d) in env.methods:
          k = self.expr(t0.slice, env)
          c, t = self.expr(s.value, env)
          code, env2 = env.methods[('setitem', d)](self, env, k, (c, t))
          return self.pre() + code + self.block(rest, env2, tail, in_loop)
      fail(s, 'assignment target')
    if isinstance(s, ast.AugAssign) and isinstance(s.target, ast.Name):
      fake = ast.BinOp(left=ast.Name(id=s.target.id, ctx=ast.Load()), op=s.op, right=s.value)
      ast.copy_location(fake, s)
      c, t = self.expr(fake, env)
      return self.pre() + self.let(s.target.id, c, t, rest, env, tail, in_loop)
    if isinstance(s, ast.Expr) and isinstance(s.value, (ast.Yield, ast.YieldFrom)):
      c, t = self.expr(s.value.value, env)
      if self.mode != 'value':
        return self.pre() + self.block(rest, env, tail, in_loop)
      o, ot = env.names['out__']
      if isinstance(s.value, ast.Yield):
        if ot != 'L' + t:
          fail(s, 'yield of %s into %s' % (t, ot))
        return self.let('out__', '(%s ++ [%s])' % (o, c), ot, rest, env, tail, in_loop)
      if ot != t:
        fail(s, 'yield from of %s into %s' % (t, ot))
      return self.let('out__', '(%s ++ %s)' % (o, c), ot, rest, env, tail, in_loop)
    if isinstance(s, ast.Expr) and isinstance(s.value, ast.Call):
      d = dotted(s.value.func)
      if d in self.mutators:
        f, i = self.mutators[d]
        args = [self.expr(a, env) for a in s.value.args]
        tgt = s.value.args[i]
        if not isinstance(tgt, ast.Name):
          fail(s, 'mutated argument must be a local name')
        return self.pre() + self.let(tgt.id, '(%s %s)' % (f, ' '.join(a for a, _ in args)), args[i][1],
                                     rest, env, tail, in_loop)
      fn = s.value.func
      if (isinstance(fn, ast.Attribute) and isinstance(fn.value, ast.Name) and fn.value.id in env.names
          and fn.attr in self.MUTATING_METHODS and not s.value.keywords):
        recv, rt = env.names[fn.value.id]
        args = [self.expr(a, env) for a in s.value.args]
        if fn.attr == 'append' and rt.startswith('L') and len(args) == 1 and args[0][1] == rt[1:]:
          return self.pre() + self.let(fn.value.id, '(%s ++ [%s])' % (recv, args[0][0]), rt, rest, env, tail, in_loop)
        if (fn.attr == 'pop' and (rt.startswith('D') or rt.startswith('A')) and len(s.value.args) == 2
            and isinstance(s.value.args[1], ast.Constant) and s.value.args[1].value is None):
          return self.pre() + self.let(fn.value.id, '(ad_remove %s %s)' % (recv, toZ(*args[0])), rt, rest, env, tail, in_loop)
        if ('mut', rt, fn.attr) in env.methods:
          c = env.methods[('mut', rt, fn.attr)](self, recv, args)
          return self.pre() + self.let(fn.value.id, c, rt, rest, env, tail, in_loop)
      fail(s, 'expression statement')
    if isinstance(s, ast.Raise):
      self.check_raise(s)
      if self.mode == 'raises':
        return 'true'
      return tail(env) if self.mode == 'value' else 'ok__'
    if isinstance(s, ast.If):
      if self.ends_with_raise(s.body):
        # guard: `if cond: ...; raise ValueError(...)` -- only the test matters
        self.check_raise(s.body[-1])
        c, t = self.expr(s.test, env)
        c = self.truth(c, t, s)
        pre = self.pre()
        if self.mode == 'raises':
          hit = 'true'
        elif self.mode == 'safe':
          hit = 'ok__'
        else:
          hit = tail(env)
        other = self.block(list(s.orelse) + rest, env, tail, in_loop)
        return pre + '(if %s\n then %s\n else %s)' % (c, hit, other)
      # hoist the continuation when the branches assign nothing it reads (keeps the output linear)
      if (rest and self.mode == 'value' and not getattr(self, '_hoisting', False)
          and not any(isinstance(x, ast.Continue) for st in list(s.body) + list(s.orelse) for x in ast.walk(st))):
        assigned = set(self.assigned(list(s.body) + list(s.orelse), attr_targets=True))
        used = {x.id for st in rest for x in ast.walk(st) if isinstance(x, ast.Name)}
        sets_self = any(isinstance(x, ast.Assign) and len(x.targets) == 1 and isinstance(x.targets[0], ast.Attribute)
                        and ('set', dotted(x.targets[0])) in env.methods
                        for st in list(s.body) + list(s.orelse) for x in ast.walk(st))
        if not (assigned & used) and 'out__' not in assigned and not (sets_self and self.fuel):
          self.kcount = getattr(self, 'kcount', 0) + 1
          k = 'k__%d' % self.kcount
          rest_code = self.block(rest, env, tail, in_loop)
          only_if = ast.If(test=s.test, body=s.body, orelse=s.orelse)
          ast.copy_location(only_if, s)
          self._hoisting = True
          try:
            inner = self.block_if_only(only_if, env, lambda e: k, in_loop)
          finally:
            self._hoisting = False
          return 'let %s := %s in\n%s' % (k, rest_code, inner)
      if (isinstance(s.test, ast.BoolOp) and isinstance(s.test.op, ast.And) and len(s.test.values) >= 2
          and self.none_test(s.test.values[0], env) is not None):
        # `if X is not None and B: body else: orelse`  ==  if X is not None: (if B: body else: orelse) else: orelse
        others = s.test.values[1:]
        inner_test = others[0] if len(others) == 1 else ast.BoolOp(op=ast.And(), values=others)
        inner_if = ast.If(test=inner_test, body=s.body, orelse=s.orelse)
        outer_if = ast.If(test=s.test.values[0], body=[inner_if], orelse=s.orelse)
        for x in (inner_test, inner_if, outer_if):
          ast.copy_location(x, s)
        ast.fix_missing_locations(outer_if)
        return self.block([outer_if] + rest, env, tail, in_loop)
      nt = self.none_test(s.test, env)
      if nt is not None and nt[0] == 'static':
        taken = s.body if nt[4] else s.orelse
        return self.block(list(taken) + rest, env, tail, in_loop)
      if nt is not None:
        kind, key, coq, inner, none_first = nt
        body_none, body_some = (s.body, s.orelse) if none_first else (s.orelse, s.body)
        env_s, env_n = env.copy(), env.copy()
        var = key.replace('.', '_').replace('self_parameters_', '') + '__'
        if kind == 'name':
          env_s.names[key] = (var, inner)
        else:
          env_s.attrs[key] = (var, inner)
        env_s.known[key] = 'some'
        env_n.known[key] = 'none'
        a = self.block(list(body_none) + rest, env_n, tail, in_loop)
        b = self.block(list(body_some) + rest, env_s, tail, in_loop)
        return '(match %s with\n | None => %s\n | Some %s => %s\n end)' % (coq, a, var, b)
      c, t = self.expr(s.test, env)
      c = self.truth(c, t, s)
      pre = self.pre()
      a = self.block(list(s.body) + rest, env, tail, in_loop)
      b = self.block(list(s.orelse) + rest, env, tail, in_loop)
      return pre + '(if %s\n then %s\n else %s)' % (c, a, b)
    if isinstance(s, ast.For) and not s.orelse:
      if self.has_raise(s.body):
        fail(s, 'raise inside a loop')
      it, itt = self.expr(s.iter, env)
      pre = self.pre()
      if itt == 'S':
        it, itt = '(ascending %s)' % it, 'LN'      # CPython iterates a set of small ints in ascending order
      elif itt.startswith('D') and itt != 'D?':
        it, itt = '(map fst %s)' % it, 'LZ'        # dict: keys in insertion order
      if not itt.startswith('L'):
        fail(s, 'iteration over ' + itt)
      et = itt[1:]
      accs = [x for x in self.assigned(s.body) if x in env.names]
      if self.mode == 'safe' and 'ok__' not in accs:
        accs.append('ok__')
      if self.mode != 'value':
        accs = [x for x in accs if x != 'out__']
      env_b = env.copy()
      unpack = ''
      if isinstance(s.target, ast.Name):
        env_b.names[s.target.id] = (s.target.id, et)
        var = s.target.id
      elif (isinstance(s.target, ast.Tuple) and len(s.target.elts) == 2 and et.startswith('P')
            and all(isinstance(e, ast.Name) for e in s.target.elts)):
        ta, tb = et[1:].split(',', 1)
        na, nb = s.target.elts[0].id, s.target.elts[1].id
        env_b.names[na] = (na, ta)
        env_b.names[nb] = (nb, tb)
        var = 'it__'
        unpack = "let '(%s, %s) := it__ in\n" % (na, nb)
      else:
        fail(s, 'loop target')
      saved = dict(self.seen_types)
      body = unpack + self.block(list(s.body), env_b, lambda e: self.tup(accs, e), in_loop=True)
      env_after = env.copy()
      for x in accs:
        told, tnew = env.names[x][1], self.seen_types.get(x, env.names[x][1])
        if told == 'D?' and tnew.startswith('D'):
          env_after.names[x] = (env.names[x][0], tnew)
        elif saved.get(x, told) != tnew and told != tnew:
          fail(s, 'loop-carried variable %s changes type %s -> %s' % (x, told, tnew))
      acc0 = self.tup(accs, env)
      code = "let %s := fold_left (fun %s %s =>\n%s) %s %s in\n" % (
          self.pat(accs, env) if len(accs) != 1 else env.names[accs[0]][0],
          ("acc__" if len(accs) > 1 else (env.names[accs[0]][0] if accs else '_')), var,
          ("let %s := acc__ in\n%s" % (self.pat(accs, env), body)) if len(accs) > 1 else body,
          it, acc0)
      return pre + code + self.block(rest, env_after, tail, in_loop)
    if isinstance(s, ast.Continue):
      if not in_loop:
        fail(s, 'continue outside loop')
      return tail(env)
    if isinstance(s, ast.Return):
      if in_loop:
        fail(s, 'return inside loop')
      if s.value is None:
        return tail(env)
      c, t = self.expr(s.value, env)
      pre = self.pre()
      if self.mode == 'raises':
        return 'false'
      if self.mode == 'safe':
        return pre + 'ok__'
      if self.ret_type not in (None, t):
        fail(s, 'return types differ: %s vs %s' % (self.ret_type, t))
      self.ret_type = t
      return c
    if isinstance(s, ast.Pass):
      return self.block(rest, env, tail, in_loop)
    fail(s, 'statement')

  def block_if_only(self, s, env, tail, in_loop):
    self._hoisting = False     # nested statements may hoist again
    nt = self.none_test(s.test, env)
    if nt is not None and nt[0] == 'static':
      return self.block(list(s.body if nt[4] else s.orelse), env, tail, in_loop)
    if nt is not None:
      kind, key, coq, inner, none_first = nt
      body_none, body_some = (s.body, s.orelse) if none_first else (s.orelse, s.body)
      env_s = env.copy()
      var = key.replace('.', '_').replace('self_parameters_', '') + '__'
      if kind == 'name':
        env_s.names[key] = (var, inner)
      else:
        env_s.attrs[key] = (var, inner)
      env_s.known[key] = 'some'
      env = env.copy()
      env.known[key] = 'none'
      a = self.block(list(body_none), env, tail, in_loop)
      b = self.block(list(body_some), env_s, tail, in_loop)
      return '(match %s with\n | None => %s\n | Some %s => %s\n end)' % (coq, a, var, b)
    c, t = self.expr(s.test, env)
    c = self.truth(c, t, s)
    a = self.block(list(s.body), env, tail, in_loop)
    b = self.block(list(s.orelse), env, tail, in_loop)
    return '(if %s\n then %s\n else %s)' % (c, a, b)

  def let(self, name, c, t, rest, env, tail, in_loop):
    env2 = env.copy()
    env2.names[name] = (name, t)
    self.seen_types[name] = t
    return 'let %s := %s in\n%s' % (name, c, self.block(rest, env2, tail, in_loop))


def mant_exp(v):
  """A finite binary64 as 'm e' with v = m * 2^e exactly (m an integer)."""
  import math
  if v != v or v in (float('inf'), float('-inf')):
    raise Unsupported('non-finite float literal')
  m, e = math.frexp(v)
  m, e = int(m * (1 << 53)), e - 53
  while m and m % 2 == 0:
    m //= 2
    e += 1
  if m == 0:
    e = 0
  z = lambda k: ('%d%%Z' % k) if k >= 0 else ('(%d)%%Z' % k)
  return '%s %s' % (z(m), z(e))


def float_lit(v):
  """Exact hexadecimal literal for a binary64 value (Coq's %float syntax)."""
  if v != v:
    return 'nan'
  if v in (float('inf'), float('-inf')):
    return 'infinity' if v > 0 else 'neg_infinity'
  h = float(v).hex()               # e.g. 0x1.8000000000000p+3
  neg = h.startswith('-')
  h = h.lstrip('-')
  mant, exp = h.split('p')
  lit = '%sp%s' % (mant, exp.lstrip('+'))
  return ('(-%s)%%float' % lit) if neg else ('%s%%float' % lit)


def find_def(tree, cls, name):
  for n in tree.body:
    if isinstance(n, ast.ClassDef) and n.name == cls:
      for m in n.body:
        if isinstance(m, ast.FunctionDef) and m.name == name:
          return m
  raise Unsupported('%s.%s not found' % (cls, name))


def find_class(tree, cls):
  for n in tree.body:
    if isinstance(n, ast.ClassDef) and n.name == cls:
      return n
  raise Unsupported('class %s not found' % cls)
