From Coq Require Import Reals Lra List Psatz.
Import ListNotations.
Open Scope R_scope.

(* sums over paired series *)
Fixpoint sum (l : list R) : R := match l with [] => 0 | a :: l' => a + sum l' end.
Definition len (l : list R) : R := INR (length l).
Definition xs_of (d : list (R*R)) := map fst d.
Definition ys_of (d : list (R*R)) := map snd d.
Definition Sx d := sum (xs_of d).  Definition Sy d := sum (ys_of d).
Definition Sxx_raw (d : list (R*R)) := sum (map (fun p => fst p * fst p) d).
Definition Syy_raw (d : list (R*R)) := sum (map (fun p => snd p * snd p) d).
Definition Sxy_raw (d : list (R*R)) := sum (map (fun p => fst p * snd p) d).
Definition N (d : list (R*R)) := INR (length d).
(* centred sums *)
Definition Sxx d := Sxx_raw d - Sx d * Sx d / N d.
Definition Syy d := Syy_raw d - Sy d * Sy d / N d.
Definition Sxy d := Sxy_raw d - Sx d * Sy d / N d.
Definition slope d := Sxy d / Sxx d.
Definition icept d := Sy d / N d - slope d * (Sx d / N d).
Definition resid a b (p : R*R) := snd p - a - b * fst p.
Definition rss a b (d : list (R*R)) := sum (map (fun p => resid a b p * resid a b p) d).

Lemma sum_resid a b d : sum (map (resid a b) d) = Sy d - N d * a - b * Sx d.
Proof.
  unfold Sy, Sx, N, ys_of, xs_of. induction d as [|[x y] d IH]; [cbn; lra|].
  change (length ((x,y)::d)) with (S (length d)). rewrite S_INR. cbn [map sum fst snd]. rewrite IH.
  unfold resid; cbn. lra.
Qed.

Lemma rss_expand a b d :
  rss a b d = Syy_raw d + N d * a * a + b * b * Sxx_raw d - 2 * a * Sy d - 2 * b * Sxy_raw d + 2 * a * b * Sx d.
Proof.
  unfold rss, Syy_raw, Sxx_raw, Sxy_raw, Sy, Sx, N, ys_of, xs_of.
  induction d as [|[x y] d IH]; [cbn; lra|].
  change (length ((x,y)::d)) with (S (length d)). rewrite S_INR. cbn [map sum fst snd]. rewrite IH.
  unfold resid; cbn. ring.
Qed.

Lemma det_ne d : N d <> 0 -> Sxx d <> 0 -> Sxx_raw d * N d - Sx d * Sx d <> 0.
Proof.
  intros Hn Hx H. apply Hx. unfold Sxx.
  replace (Sxx_raw d - Sx d * Sx d / N d) with ((Sxx_raw d * N d - Sx d * Sx d) / N d) by (field; exact Hn).
  rewrite H. field. exact Hn.
Qed.
Ltac side := repeat split; try assumption; try (apply det_ne; assumption).

(* residuals of the OLS fit sum to zero (C18) *)
Theorem ols_resid_sum_zero d : N d <> 0 -> sum (map (resid (icept d) (slope d)) d) = 0.
Proof. intro Hn. rewrite sum_resid. unfold icept. field. exact Hn. Qed.

(* residual variance identity behind sigma = std(y, ddof=2) * sqrt(1 - corr^2)  (C05) *)
Theorem rss_closed_form d : N d <> 0 -> Sxx d <> 0 ->
  rss (icept d) (slope d) d = Syy d - Sxy d * Sxy d / Sxx d.
Proof.
  intros Hn Hx. rewrite rss_expand. unfold icept, slope.
  pose proof (det_ne d Hn Hx). unfold Sxx, Syy, Sxy in *. field. side.
Qed.
Corollary rss_corr d : N d <> 0 -> Sxx d <> 0 -> Syy d <> 0 ->
  rss (icept d) (slope d) d = Syy d * (1 - (Sxy d * Sxy d) / (Sxx d * Syy d)).
Proof. intros. rewrite rss_closed_form by assumption. field. side. Qed.

(* quadratic form of the OLS parameter covariance with (1,u): Kerman eq. 5 core (C05/C06) *)
Theorem quad_form d s2 u : N d <> 0 -> Sxx d <> 0 ->
  let det := N d * Sxx_raw d - Sx d * Sx d in
  let v00 := s2 * Sxx_raw d / det in let v01 := - s2 * Sx d / det in let v11 := s2 * N d / det in
  v00 + 2 * u * v01 + u * u * v11 = s2 * (1 / N d + (u - Sx d / N d) * (u - Sx d / N d) / Sxx d).
Proof.
  intros Hn Hx. cbv zeta.
  assert (Hdet : N d * Sxx_raw d - Sx d * Sx d = N d * Sxx d) by (unfold Sxx; field; exact Hn).
  rewrite Hdet. pose proof (det_ne d Hn Hx). unfold Sxx in *. field. side.
Qed.

(* cumulative posterior variance on day t given control test-period mean ubar (C06) *)
Definition tbr_var d s2 (t ubar : R) :=
  let det := N d * Sxx_raw d - Sx d * Sx d in
  t * t * (s2 * Sxx_raw d / det + 2 * ubar * (- s2 * Sx d / det) + ubar * ubar * (s2 * N d / det)) + t * s2.
Definition design_var d s2 (T dx : R) :=    (* tbrfit: (n_test*sigma)^2 * ((1 + dx^2/var0)/n + 1/n_test) *)
  T * T * s2 * ((1 + dx * dx / (Sxx d / N d)) / N d + 1 / T).
Theorem design_side_agrees d s2 T ubar : N d <> 0 -> Sxx d <> 0 -> T <> 0 ->
  tbr_var d s2 T ubar = design_var d s2 T (ubar - Sx d / N d).
Proof.
  intros Hn Hx HT. unfold tbr_var, design_var. rewrite (quad_form d s2 ubar Hn Hx).
  pose proof (det_ne d Hn Hx). unfold Sxx in *. field. side.
Qed.

(* required impact calibration (squared form; the sqrt statement follows by sqrt_mult) *)
Theorem required_impact_calibrated d s2 T phi ubar q : N d <> 0 -> Sxx d <> 0 -> T <> 0 -> N d - 1 <> 0 ->
  (ubar - Sx d / N d) * (ubar - Sx d / N d) = phi * (N d + 1) * Sxx d / (N d * T * (N d - 1)) ->
  (q * T) * (q * T) * (phi * (N d + 1) / (N d * T * (N d - 1)) + 1 / N d + 1 / T) * s2
  = q * q * tbr_var d s2 T ubar.
Proof.
  intros Hn Hx HT Hn1 Hdx. rewrite design_side_agrees by assumption. unfold design_var.
  rewrite Hdx. pose proof (det_ne d Hn Hx). unfold Sxx in *. field. side.
Qed.
Print Assumptions required_impact_calibrated.
