import warnings; warnings.filterwarnings('ignore')
import numpy as np, pandas as pd, dataclasses, traceback
from matched_markets.methodology import tbrmmdesignparameters as P, tbrmmdata, geoeligibility as G, tbrmatchedmarkets as MM

def panel(ngeos, ndates, seed=0):
    rng = np.random.RandomState(seed)
    base = np.cumsum(rng.normal(0,1,ndates))+50
    rows=[]
    for g in range(ngeos):
        s = (g+1)*base + rng.normal(0,1,ndates)*(g+1)
        for t in range(ndates):
            rows.append(dict(geo=str(g+1), date=pd.Timestamp('2020-01-01')+pd.Timedelta(days=t), response=float(np.round(s[t]*8)/8)))
    return pd.DataFrame(rows)

def elig(spec):
    # spec: dict geo -> 'c','t','x','ct','cx','tx','ctx'
    rows=[dict(geo=g, control=int('c' in v), treatment=int('t' in v), exclude=int('x' in v)) for g,v in spec.items()]
    return G.GeoEligibility(pd.DataFrame(rows))

def run(name, ngeos, spec, **kw):
    df = panel(ngeos, 25)
    ge = elig(spec) if spec else None
    for method in ['exhaustive_search','greedy_search']:
        try:
            par = P.TBRMMDesignParameters(n_test=3, iroas=1.0, **kw)
            data = tbrmmdata.TBRMMData(df, 'response', ge)
            mm = MM.TBRMatchedMarkets(data, par)
            res = getattr(mm, method)()
            print(name, method, 'OK', [(sorted(d.treatment_geos), sorted(d.control_geos)) for d in res])
        except Exception as e:
            print(name, method, type(e).__name__, str(e)[:80])

run('empty trt size range', 3, None, treatment_geos_range=(4,5))
run('1 geo', 1, None)
run('2 geos', 2, None)
run('no treatment-eligible + georatio', 3, {'1':'cx','2':'cx','3':'c'}, treatment_geos_range=(1,2), geo_ratio_tolerance=1.0)
run('no treatment-eligible', 3, {'1':'cx','2':'cx','3':'c'})
run('no control-eligible', 3, {'1':'tx','2':'tx','3':'t'})
run('no control-eligible +georatio', 3, {'1':'tx','2':'tx','3':'t'}, geo_ratio_tolerance=1.0, control_geos_range=(1,2))
run('all excluded', 3, {'1':'x','2':'x','3':'x'})
run('unsat', 4, None, treatment_geos_range=(1,1), control_geos_range=(3,3), geo_ratio_tolerance=0.5)
run('fixed t only', 3, {'1':'t','2':'t','3':'t'})
run('n_geos_max', 5, {'1':'ctx','2':'c','3':'t','4':'ctx','5':'ctx'}, n_geos_max=2)
