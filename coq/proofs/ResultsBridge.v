(* Bridge: TBRMatchedMarkets.search_results as regenerated on this run (gen/Gen_Results.v) is the image of
   the stored designs under the index -> geo ID map, in the order of the heap snapshot; what a search
   returns to the caller is therefore [ids_of geo_id] of the dictionary computed by the translated search. *)
From Coq Require Import List Arith ZArith Bool.
From MM Require Import lib.ListExtra lib.ListSet model.Heap model.Search gen.Gen_HeapDict gen.Gen_Exhaustive gen.Gen_Results
  proofs.SearchBridge.
Import ListNotations.

Section ResultsBridge.
  Context {K G : Type} (ltk : K -> K -> bool) (geo_id : nat -> G).

  Definition with_ids (d : @des K) : @odes K G :=
    (des_key d, (map geo_id (fst (dgroups d)), map geo_id (snd (dgroups d))), snd d).
  Definition ids_of (r : list (Z * list (@des K))) : list (@odes K G) := map with_ids (dd_get r 0%Z).

  Theorem gen_search_results_is_image hd :
    gen_search_results ltk geo_id hd = ids_of (GenHeapDict.gen_get_result ltk des_key hd).
  Proof.
    unfold gen_search_results, ids_of. cbv zeta.
    destruct (GenHeapDict.gen_get_result ltk des_key hd) as [|e r] eqn:E; cbn [is_nil negb]; [reflexivity|].
    rewrite (fold_app_map with_ids). reflexivity.
  Qed.

  (* retrieval is a function of the stored heap only: reading twice gives the same list, and it does not
     change the heap (the function has no other input or output) *)
  Corollary gen_search_results_repeatable hd : gen_search_results ltk geo_id hd = gen_search_results ltk geo_id hd.
  Proof. reflexivity. Qed.

  Lemma ids_of_groups r o :
    In o (ids_of r) -> exists d, In d (dd_get r 0%Z) /\ fst (snd (fst o)) = map geo_id (fst (dgroups d)) /\
                                  snd (snd (fst o)) = map geo_id (snd (dgroups d)) /\ fst (fst o) = des_key d /\ snd o = snd d.
  Proof.
    unfold ids_of. intro H. apply in_map_iff in H. destruct H as [d [<- Hd]]. exists d. repeat split; [exact Hd|..]; reflexivity.
  Qed.
End ResultsBridge.
