(* C19 -- Post-analysis data screening removes exactly what it reports. *)
From Coq Require Import List ZArith QArith Bool Sorting.Permutation.
From MM Require Import model.Screen proofs.ScreenProofs.
Import ListNotations.

(* for every behaviour of the two statistical detectors: *)
Theorem C19_screened_data_is_input_minus_reported :
  forall noisy outliers rows,
    let f := fit noisy outliers rows in
    f_data f = filter (fun r => negb (memz (r_geo r) (reported_geos f)) && negb (memz (r_date r) (f_outliers f))) rows.
Proof. exact screened_data_def. Qed.
Theorem C19_row_survives_iff_not_reported :
  forall noisy outliers rows r,
    let f := fit noisy outliers rows in
    In r (f_data f) <-> In r rows /\ memz (r_geo r) (reported_geos f) = false /\ memz (r_date r) (f_outliers f) = false.
Proof. exact screened_row_iff. Qed.
Theorem C19_row_order_irrelevant :
  forall noisy outliers,
    (forall a b, Permutation a b -> noisy a = noisy b) ->
    (forall a b, Permutation a b -> outliers a = outliers b) ->
    forall a b, Permutation a b ->
      f_noisy (fit noisy outliers a) = f_noisy (fit noisy outliers b) /\
      f_outliers (fit noisy outliers a) = f_outliers (fit noisy outliers b) /\
      Permutation (f_data (fit noisy outliers a)) (f_data (fit noisy outliers b)).
Proof. exact row_order_irrelevant. Qed.
(* the aggregated analysis series: per (date, period), x = control total and y = treatment total of the SCREENED data.
   Each total is the total over the input of the rows that survive the screening; a reported outlier date has no entry;
   an entry exists iff some row of that cell survives; totals depend neither on row order nor on rows of other cells *)
Theorem C19_analysis_totals_are_totals_of_surviving_input_rows :
  forall noisy outliers rows d p g,
    let f := fit noisy outliers rows in
    total (f_data f) d p g = fold_right Qplus 0%Q (map r_val (filter (fun r => kept f r && cell d p g r) rows)).
Proof. exact analysis_total_of_screened. Qed.
Theorem C19_analysis_has_no_entry_for_reported_dates :
  forall noisy outliers rows d p g,
    let f := fit noisy outliers rows in
    memz d (f_outliers f) = true -> present (f_data f) d p g = false.
Proof. exact analysis_has_no_entry_for_reported_dates. Qed.
Theorem C19_analysis_entry_iff_a_surviving_row :
  forall noisy outliers rows d p g,
    let f := fit noisy outliers rows in
    present (f_data f) d p g = true <-> exists r, In r rows /\ kept f r = true /\ cell d p g r = true.
Proof. exact analysis_entry_iff_a_surviving_row. Qed.
Theorem C19_analysis_totals_row_order_irrelevant :
  forall a b d p g, Permutation a b -> (total a d p g == total b d p g)%Q.
Proof. exact analysis_total_row_order_irrelevant. Qed.
Theorem C19_analysis_totals_ignore_other_cells :
  forall rows extra d p g, (forall r, In r extra -> cell d p g r = false) -> total (rows ++ extra) d p g = total rows d p g.
Proof. exact analysis_total_ignores_other_cells. Qed.
Print Assumptions C19_screened_data_is_input_minus_reported.
Print Assumptions C19_analysis_totals_are_totals_of_surviving_input_rows.
Print Assumptions C19_analysis_entry_iff_a_surviving_row.
Print Assumptions C19_row_survives_iff_not_reported.
Print Assumptions C19_row_order_irrelevant.
