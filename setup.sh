#!/bin/sh
# Offline build of the verification framework: regenerate coq/gen from /repo, full .vo build.
cd "$(dirname "$0")" || exit 2
python3 translate/py2v.py --repo "${VERIF_REPO:-/repo}" > /tmp/.verif_translate.json 2>&1 || { cat /tmp/.verif_translate.json; echo "translator refused some source (checks will report it)"; }
rm -f /tmp/.verif_translate.json
timeout 3000 coq/build.sh || exit 1
echo setup ok
