import warnings; warnings.filterwarnings('ignore')
import numpy as np, pandas as pd, random
from matched_markets.methodology import tbrmmdata, geoeligibility as G
TYPES=['c','t','x','ct','cx','tx','ctx']
bad=0; n=0; errs={}
for seed in range(600):
    rng=np.random.RandomState(seed)
    ng=rng.randint(1,6); nd=rng.randint(3,8)
    ids=[str(i+1) for i in range(ng)] if rng.rand()<0.5 else [int(i+1) for i in range(ng)]
    rows=[]
    scales=rng.permutation(np.arange(1,ng+1))
    for gi,g in enumerate(ids):
        for t in range(nd):
            if rng.rand()<0.15: continue   # missing cell
            rows.append(dict(geo=g, date=pd.Timestamp('2021-01-01')+pd.Timedelta(days=int(t)), response=float(scales[gi]*8+rng.randint(0,8))))
    if not rows: continue
    df=pd.DataFrame(rows).sample(frac=1.0, random_state=seed)
    present=sorted({str(r['geo']) for r in rows})
    # eligibility: subset / equal / superset
    mode=rng.choice(['none','subset','equal','superset'])
    elig=None; spec=None
    if mode!='none':
        geos=list(present)
        if mode=='subset' and len(geos)>1: geos=geos[:-1]
        if mode=='superset': geos=geos+['98','99']
        spec={g: rng.choice(TYPES) for g in geos}
        elig=G.GeoEligibility(pd.DataFrame([dict(geo=g,control=int('c' in v),treatment=int('t' in v),exclude=int('x' in v)) for g,v in spec.items()]))
    n+=1
    try:
        d=tbrmmdata.TBRMMData(df,'response',elig); out='ok'
    except ValueError as e: out='ValueError'
    except Exception as e: out=type(e).__name__; errs[out]=errs.get(out,0)+1
    # expectation
    if spec is None: spec={g:'ctx' for g in present}
    absent=[g for g in spec if g not in present]
    exp='ValueError' if any('x' not in spec[g] for g in absent) else 'ok'
    if out!=exp: bad+=1; print(seed, mode, 'expected',exp,'got',out, spec); continue
    if out!='ok': continue
    # canonical form
    wide={}
    alld=sorted({r['date'] for r in rows})
    for g in present:
        wide[g]=[np.mean([r['response'] for r in rows if str(r['geo'])==g and r['date']==dt]) if any(str(r['geo'])==g and r['date']==dt for r in rows) else 0.0 for dt in alld]
    means={g:np.mean(v) for g,v in wide.items()}
    order=sorted(present,key=lambda g:-means[g])
    ok = list(d.df.index)==order and list(d.df.columns)==alld and all(np.array_equal(d.df.loc[g].values, np.array(wide[g])) for g in present)
    tot=sum(means.values())
    ok = ok and all(abs(d.geo_share[g]-means[g]/tot)<1e-12 for g in present)
    keep={g for g in spec if g in present}
    ok = ok and d.assignable=={g for g in keep if spec[g]!='x'}
    # geo_index in random order over assignable
    gi=list(d.assignable); random.Random(seed).shuffle(gi)
    if gi:
        d.geo_index=gi
        S=set(i for i in range(len(gi)) if rng.rand()<0.6)
        ts=d.aggregate_time_series(S); sh=d.aggregate_geo_share(S)
        ok = ok and np.allclose(ts, sum((np.array(wide[gi[i]]) for i in S), np.zeros(len(alld)))) and abs(sh-sum(means[gi[i]]/tot for i in S))<1e-12
        ga=d.geo_assignments
        ok = ok and ga.c=={i for i,g in enumerate(gi) if 'c' in spec[g]} and ga.t=={i for i,g in enumerate(gi) if 't' in spec[g]}
    if not ok: bad+=1; print(seed,mode,'canonical mismatch')
print('cases',n,'bad',bad,'non-ValueError',errs)
