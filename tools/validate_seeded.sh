#!/bin/sh
# usage: tools/validate_seeded.sh <name> <dir with patch.diff demo.py meta.json>
# Confirms a seeded change independently in a fresh scratch worktree: patch applies, the
# baseline-passing tests still pass, the demo passes without and fails with the change.
name="$1"; dir="$2"; wt="/tmp/val_$name"
git -C /repo worktree remove --force "$wt" 2>/dev/null
git -C /repo worktree add -q "$wt" HEAD || exit 2
cd "$wt" || exit 2
PYTHONPATH="$wt" PYTHONHASHSEED=0 /venv/bin/python "$dir/demo.py" >/tmp/val_$name.clean.log 2>&1; clean=$?
git apply "$dir/patch.diff" || { echo "PATCH DOES NOT APPLY"; git -C /repo worktree remove --force "$wt"; exit 1; }
PYTHONPATH="$wt" PYTHONHASHSEED=0 /venv/bin/python "$dir/demo.py" >/tmp/val_$name.mut.log 2>&1; mut=$?
PYTHONPATH="$wt" /venv/bin/python -m pytest -q -p no:cacheprovider --timeout=900 --continue-on-collection-errors --junitxml=/tmp/val_$name.xml matched_markets/tests >/dev/null 2>&1
/venv/bin/python - "$name" <<'PY'
import json, sys, xml.etree.ElementTree as ET
name = sys.argv[1]
stable = set(json.load(open('/root/.vp/BASELINE.json'))['stable_pass'])
ok = set()
for tc in ET.parse('/tmp/val_%s.xml' % name).iter('testcase'):
  if not any(ch.tag in ('failure', 'error', 'skipped') for ch in tc):
    ok.add(tc.get('classname') + '::' + tc.get('name'))
missing = sorted(stable - ok)
print('tests: %d of %d baseline-passing tests pass%s' % (len(stable & ok), len(stable), '' if not missing else '; NOW FAILING: %s' % missing[:5]))
PY
echo "demo: clean tree exit=$clean, with change exit=$mut"
tail -2 /tmp/val_$name.mut.log | cut -c1-200
cd /; git -C /repo worktree remove --force "$wt"; rm -f /tmp/val_$name.xml /tmp/val_$name.*.log
