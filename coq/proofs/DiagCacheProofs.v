(* C08: with cache tables satisfying [tables_ok] no history of assignments and reads ever
   observes a stale value. *)
From Coq Require Import List String Bool Arith Lia.
From MM Require Import model.DiagCache.
Import ListNotations.
Open Scope string_scope.

Lemma snap_eqb_refl a : snap_eqb a a = true.
Proof. destruct a as [[x|] y]; unfold snap_eqb; cbn; rewrite ?Nat.eqb_refl; reflexivity. Qed.

Lemma assoc_forallb {B} (P : string * B -> bool) l k v :
  forallb P l = true -> assoc l k = Some v -> exists k', P (k', v) = true.
Proof.
  induction l as [|[k0 w] l IH]; cbn; [discriminate|]. intros H E. apply andb_true_iff in H. destruct H as [H1 H2].
  destruct (String.eqb k0 k); [injection E as ->; exists k0; exact H1|apply IH; assumption].
Qed.

Section Proofs.
  Variables (memo : list (string * option string)) (deps : list (string * list string))
            (x_resets : list string) (y_clears_x : bool).
  Hypothesis Hok : tables_ok memo x_resets y_clears_x = true.

  Lemma memo_slot_reset m s : memo_of memo m = Some s -> smem s x_resets = true.
  Proof.
    unfold memo_of. destruct (assoc memo m) as [o|] eqn:E; [|discriminate]. intros ->.
    unfold tables_ok in Hok. apply andb_true_iff in Hok. destruct Hok as [H _].
    destruct (assoc_forallb _ _ _ _ H E) as [k' Hk]. exact Hk.
  Qed.

  (* invariant: every cached entry sits in a resettable slot and holds the current snapshot *)
  Definition fresh (st : dstate) : Prop :=
    forall s v, In (s, v) (d_cache st) -> smem s x_resets = true /\ v = cur st.

  Lemma assoc_In {B} (l : list (string * B)) k v : assoc l k = Some v -> exists k', In (k', v) l /\ String.eqb k' k = true.
  Proof.
    induction l as [|[k' w] l IH]; cbn; [discriminate|]. destruct (String.eqb k' k) eqn:E.
    - intro H. injection H as ->. exists k'. split; [left; reflexivity|exact E].
    - intro H. destruct (IH H) as [k2 [H1 H2]]. exists k2. split; [right; exact H1|exact H2].
  Qed.

  Definition reader_ok (rd : dstate -> string -> dstate * snap) : Prop :=
    forall st m, fresh st -> fresh (fst (rd st m)) /\ snd (rd st m) = cur st /\ cur (fst (rd st m)) = cur st.

  Lemma compute_fresh rd ds : reader_ok rd -> forall st0, fresh st0 ->
    fresh (fst (compute_with rd ds st0)) /\ snd (compute_with rd ds st0) = cur st0 /\
    cur (fst (compute_with rd ds st0)) = cur st0.
  Proof.
    intros Hrd st0 Hf0. unfold compute_with.
    assert (G : forall l (acc : dstate * snap), fresh (fst acc) -> snd acc = cur st0 -> cur (fst acc) = cur st0 ->
      let r := fold_left (fun (acc : dstate * snap) d =>
                     let '(st1, v) := acc in
                     match is_slot_dep d with
                     | Some s => match assoc (d_cache st1) s with
                                 | Some w => (st1, if snap_eqb w (cur st1) then v else w)
                                 | None => (st1, v) end
                     | None => let '(st2, w) := rd st1 d in
                               (st2, if snap_eqb w (cur st2) then v else w)
                     end) l acc in
      fresh (fst r) /\ snd r = cur st0 /\ cur (fst r) = cur st0).
    { induction l as [|d l IHl]; intros [st1 v] H1 H2 H3; cbn [fold_left fst snd] in *; [tauto|].
      apply IHl.
      - destruct (is_slot_dep d) as [s|].
        + destruct (assoc (d_cache st1) s); exact H1.
        + destruct (Hrd st1 d H1) as [Ha _]. destruct (rd st1 d). exact Ha.
      - destruct (is_slot_dep d) as [s|].
        + destruct (assoc (d_cache st1) s) as [w|] eqn:Ea; cbn [snd]; [|exact H2].
          apply assoc_In in Ea. destruct Ea as [k' [Hin _]]. destruct (H1 _ _ Hin) as [_ ->].
          rewrite snap_eqb_refl. exact H2.
        + destruct (Hrd st1 d H1) as [_ [Hb Hc']]. destruct (rd st1 d) as [st2 w]. cbn [fst snd] in *.
          subst w. rewrite Hc', snap_eqb_refl. exact H2.
      - destruct (is_slot_dep d) as [s|].
        + destruct (assoc (d_cache st1) s); exact H3.
        + destruct (Hrd st1 d H1) as [_ [_ Hc']]. destruct (rd st1 d). cbn [fst] in *. congruence. }
    apply G; [exact Hf0|reflexivity|reflexivity].
  Qed.

  Lemma read_fresh fuel : reader_ok (read memo deps fuel).
  Proof.
    induction fuel as [|f IH]; intros st m Hf; [cbn; split; [exact Hf|split; reflexivity]|].
    cbn [read]. pose proof (compute_fresh (read memo deps f) (deps_of deps m) IH st Hf) as Hc.
    destruct (memo_of memo m) as [s|] eqn:Em; [|exact Hc].
    destruct (assoc (d_cache st) s) as [v|] eqn:Ea.
    - cbn [fst snd]. apply assoc_In in Ea. destruct Ea as [k' [Hin _]]. destruct (Hf _ _ Hin) as [_ ->].
      split; [exact Hf|split; reflexivity].
    - destruct Hc as [H1 [H2 H3]]. destruct (compute_with (read memo deps f) (deps_of deps m) st) as [st' v].
      cbn [fst snd] in *. split; [|split; [exact H2|exact H3]].
      intros s0 v0 [E|Hin]; [|apply H1; exact Hin]. injection E as <- <-.
      split; [eapply memo_slot_reset; exact Em|]. change (v = cur st'). congruence.
  Qed.

  Lemma set_x_clears st v : (forall s w, In (s, w) (d_cache st) -> smem s x_resets = true) ->
    d_cache (set_x x_resets st v) = [].
  Proof.
    intro H. unfold set_x. cbn [d_cache]. induction (d_cache st) as [|[s w] l IH]; cbn; [reflexivity|].
    rewrite (H s w) by (left; reflexivity). cbn. apply IH. intros s' w' Hin. apply (H s' w'). right. exact Hin.
  Qed.
  Lemma set_x_fresh st v : fresh st -> fresh (set_x x_resets st v).
  Proof.
    intros Hf s w Hin. rewrite set_x_clears in Hin; [destruct Hin|]. intros s' w' H. apply (Hf s' w' H).
  Qed.
  Lemma set_y_fresh st v : fresh st -> fresh (set_y x_resets y_clears_x st v).
  Proof.
    intros Hf s w Hin. unfold set_y in Hin. unfold tables_ok in Hok. apply andb_true_iff in Hok. destruct Hok as [_ Hy].
    rewrite Hy in Hin. rewrite set_x_clears in Hin; [destruct Hin|]. cbn [d_cache]. intros s' w' H. apply (Hf s' w' H).
  Qed.

  (* C08: every read of every history reports what a fresh object with the current inputs reports *)
  Theorem no_stale_reads fuel ops : forall st, fresh st ->
    Forall (fun p => fst p = snd p) (drun memo deps x_resets y_clears_x fuel st ops).
  Proof.
    induction ops as [|o ops IH]; intros st Hf; cbn [drun]; [constructor|].
    destruct o as [v|v|m]; cbn [dstep].
    - apply IH, set_x_fresh, Hf.
    - apply IH, set_y_fresh, Hf.
    - pose proof (read_fresh fuel st m Hf) as H. destruct (read memo deps fuel st m) as [st' v].
      cbn [fst snd] in H. destruct H as [H1 [H2 H3]]. constructor; [cbn; congruence|apply IH; exact H1].
  Qed.
  Corollary no_stale_from_init fuel y ops :
    Forall (fun p => fst p = snd p) (drun memo deps x_resets y_clears_x fuel (dinit y) ops).
  Proof. apply no_stale_reads. intros s v []. Qed.
End Proofs.

(* conversely: a memoised slot that the setter does not reset is observable as a stale read *)
Example stale_when_not_reset :
  let memo := [("tests_ok", Some "_tests_ok")] in
  drun memo [] [] true 3 (dinit 0) [SetX (Some 1); Read "tests_ok"; SetX (Some 2); Read "tests_ok"]
  = [((Some 1, 0), (Some 1, 0)); ((Some 1, 0), (Some 2, 0))].
Proof. vm_compute. reflexivity. Qed.
