(* The translated TBRiROAS._is_fixed_cost_scenario / utils.float_order (gen/Gen_Scenario.v) over the rationals. *)
From Coq Require Import List ZArith QArith Qabs Bool Lia Lqa.
From MM Require Import lib.Values model.CostFrame gen.Gen_Scenario proofs.FormulasBridge.
Import ListNotations.
Open Scope Q_scope.

Definition tiny : Q := 1 # 10000000000.                    (* 1e-10 *)

Section Bridge.
  Variables (floor_log10 : Q -> Q) (neg_inf : Q).
  (* what is assumed of the two numeric oracles: floor(log10 a) < -10 exactly when a < 1e-10, and -inf < -10 *)
  Hypothesis floor_log10_spec : forall a, 0 < a -> (floor_log10 a < inject_Z (-10) <-> a < tiny).
  Hypothesis neg_inf_small : neg_inf < inject_Z (-10).

  Definition non_incremental_cost (adata : cframe Q) (pre test control : Z) : Q :=
    vsum QOps (costs (in_period pre adata)) + vsum QOps (costs (of_group control (in_period test adata))).

  Lemma ltb_true (a b : Q) : vltb QOps a b = true <-> a < b.
  Proof.
    cbn [QOps Values.vltb]. rewrite negb_true_iff. split.
    - intros H. apply Qnot_le_lt. intros Hle. apply Qle_bool_iff in Hle. congruence.
    - intros H. apply not_true_is_false. intros Hle. apply Qle_bool_iff in Hle. lra.
  Qed.
  Theorem gen_float_order_small x :
    vltb QOps (gen_float_order QOps Qabs floor_log10 neg_inf x) (inject_Z (-10)) = true <-> Qabs x < tiny.
  Proof.
    unfold gen_float_order. cbv zeta. destruct (vltb QOps (vofZ QOps 0) (Qabs x)) eqn:H.
    - apply ltb_true in H. change (vofZ QOps 0) with 0 in H. rewrite ltb_true. now apply floor_log10_spec.
    - rewrite ltb_true. split; [intros _|intros _; exact neg_inf_small].
      assert (Hz : ~ 0 < Qabs x) by (intros Hp; apply ltb_true in Hp; change (vofZ QOps 0) with 0 in *; congruence).
      pose proof (Qabs_nonneg x). unfold tiny. assert (Qabs x == 0) by lra. rewrite H1. reflexivity.
  Qed.
  (* the label is "fixed" exactly when the pre-period cost of all groups plus the control group's test-period cost is
     below 1e-10 in absolute value *)
  Theorem gen_fixed_cost_iff adata pre test control :
    gen_is_fixed_cost_scenario QOps Qabs floor_log10 neg_inf adata pre test control = true
    <-> Qabs (non_incremental_cost adata pre test control) < tiny.
  Proof. unfold gen_is_fixed_cost_scenario. cbv zeta. apply gen_float_order_small. Qed.

  (* sums of non-negative costs *)
  Lemma vsum_from (l : list Q) : forall acc, fold_left Qplus l acc == acc + fold_left Qplus l 0.
  Proof.
    induction l as [|x l IH]; intros acc; cbn [fold_left]; [ring|]. rewrite (IH (acc + x)), (IH (0 + x)). ring.
  Qed.
  Lemma vsum_zero l : (forall c, In c l -> c == 0) -> vsum QOps l == 0.
  Proof.
    unfold vsum. cbn [QOps Values.vadd Values.vofZ]. change (inject_Z 0) with 0.
    induction l as [|x l IH]; intros H; cbn [fold_left]; [reflexivity|].
    rewrite vsum_from, IH by (intros c Hc; apply H; now right). rewrite (H x (or_introl eq_refl)). ring.
  Qed.
  Lemma vsum_nonneg_bound l : (forall c, In c l -> 0 <= c) -> 0 <= vsum QOps l /\ forall c, In c l -> c <= vsum QOps l.
  Proof.
    unfold vsum. cbn [QOps Values.vadd Values.vofZ]. change (inject_Z 0) with 0.
    induction l as [|x l IH]; intros H; cbn [fold_left]; [split; [lra|intros c []]|].
    destruct IH as [I1 I2]; [intros c Hc; apply H; now right|]. pose proof (H x (or_introl eq_refl)) as Hx.
    pose proof (vsum_from l (0 + x)) as E. split; [rewrite E; lra|]. intros c [<-|Hc]; rewrite E; [lra|]. specialize (I2 c Hc). lra.
  Qed.
  (* "costs are zero" => fixed; and, for non-negative costs, fixed => every such cost is below 1e-10 *)
  Theorem zero_costs_give_fixed adata pre test control :
    (forall r, In r adata -> c_period r = pre -> c_cost r == 0) ->
    (forall r, In r adata -> c_period r = test -> c_group r = control -> c_cost r == 0) ->
    gen_is_fixed_cost_scenario QOps Qabs floor_log10 neg_inf adata pre test control = true.
  Proof.
    intros H1 H2. apply gen_fixed_cost_iff. unfold non_incremental_cost.
    rewrite (vsum_zero (costs (in_period pre adata))), (vsum_zero (costs (of_group control (in_period test adata)))).
    - reflexivity.
    - intros c Hc. unfold costs in Hc. apply in_map_iff in Hc. destruct Hc as (r & <- & Hr).
      unfold of_group, in_period in Hr. apply filter_In in Hr. destruct Hr as [Hr Hg]. apply filter_In in Hr. destruct Hr as [Hr Hp].
      apply H2; [exact Hr|now apply Z.eqb_eq|now apply Z.eqb_eq].
    - intros c Hc. unfold costs in Hc. apply in_map_iff in Hc. destruct Hc as (r & <- & Hr).
      unfold in_period in Hr. apply filter_In in Hr. destruct Hr as [Hr Hp]. apply H1; [exact Hr|now apply Z.eqb_eq].
  Qed.
  Theorem fixed_bounds_every_cost adata pre test control :
    (forall r, In r adata -> 0 <= c_cost r) ->
    gen_is_fixed_cost_scenario QOps Qabs floor_log10 neg_inf adata pre test control = true ->
    (forall r, In r adata -> c_period r = pre -> c_cost r < tiny) /\
    (forall r, In r adata -> c_period r = test -> c_group r = control -> c_cost r < tiny).
  Proof.
    intros Hnn Hf. apply gen_fixed_cost_iff in Hf. unfold non_incremental_cost in Hf.
    set (a := costs (in_period pre adata)) in *. set (b := costs (of_group control (in_period test adata))) in *.
    assert (Ha : forall c, In c a -> 0 <= c).
    { intros c Hc. unfold a, costs in Hc. apply in_map_iff in Hc. destruct Hc as (r & <- & Hr). apply filter_In in Hr. apply Hnn, Hr. }
    assert (Hb : forall c, In c b -> 0 <= c).
    { intros c Hc. unfold b, costs in Hc. apply in_map_iff in Hc. destruct Hc as (r & <- & Hr). apply filter_In in Hr.
      destruct Hr as [Hr _]. apply filter_In in Hr. apply Hnn, Hr. }
    destruct (vsum_nonneg_bound a Ha) as [A0 A1]. destruct (vsum_nonneg_bound b Hb) as [B0 B1].
    rewrite Qabs_pos in Hf by lra. split.
    - intros r Hr Hp. assert (In (c_cost r) a).
      { unfold a, costs. apply in_map. apply filter_In. split; [exact Hr|now apply Z.eqb_eq]. }
      specialize (A1 _ H). lra.
    - intros r Hr Hp Hg. assert (In (c_cost r) b).
      { unfold b, costs. apply in_map. apply filter_In. split; [apply filter_In; split; [exact Hr|now apply Z.eqb_eq]|now apply Z.eqb_eq]. }
      specialize (B1 _ H). lra.
  Qed.
End Bridge.
