(* Executed tie of the regenerated formulas (gen/Gen_Formulas.v): the same statements evaluated on binary64 floats, fed
   with the kernel values the implementation used, must give what the implementation returned (up to a few units in
   the last place: numpy evaluates x ** 2 with pow). *)
From Coq Require Import List ZArith Bool PrimFloat.
From MM Require Import lib.Values gen.Gen_Formulas harness.RunCommon.
Import ListNotations.
Open Scope float_scope.

Definition fclose (a b : float) : bool :=
  PrimFloat.eqb a b || (PrimFloat.leb (abs (a - b)) (0x1p-44 * (abs a + abs b))).

(* (n_test, n, phi, tq_sig, tq_pow, std_y, corr) and estimate_required_impact(corr) *)
Definition icase := (Z * Z * float * float * float * float * float * float)%type.
Definition iagrees (c : icase) : bool :=
  let '(n_test, n, phi, tqs, tqp, std_y, corr, want) := c in
  fclose (gen_estimate_required_impact FloatOps PrimFloat.sqrt n_test n phi tqs tqp std_y corr) want
  && negb (gen_required_impact_raises FloatOps corr).
(* (n_test, n, x_mean, y_mean, b, sigma, var_x, tq_sig, xt, yt) and tbrfit(xt, yt) = (estimate, cihw, sigma, scale) *)
Definition fcase := (Z * Z * float * float * float * float * float * float * float * float * (float * float * float * float))%type.
Definition fagrees (c : fcase) : bool :=
  let '(n_test, n, xm, ym, b, sigma, var_x, tqs, xt, yt, want) := c in
  let '(e, h, s, sc) := gen_tbrfit FloatOps PrimFloat.sqrt n_test n xm ym b sigma var_x tqs xt yt in
  let '(e', h', s', sc') := want in
  fclose e e' && fclose h h' && fclose s s' && fclose sc sc'.
(* correlations the code must reject *)
Definition rejects (corr : float) : bool := gen_required_impact_raises FloatOps corr.
