import warnings; warnings.filterwarnings('ignore')
import numpy as np, pandas as pd, itertools, sys
from matched_markets.methodology import tbrmmdesignparameters as P, tbrmmdata, geoeligibility as G, tbrmatchedmarkets as MM, tbrmmdiagnostics as D, tbrmmscore as S
from p5 import panel, TYPES

def subsets(s):
    s=list(s)
    for r in range(len(s)+1):
        for c in itertools.combinations(s,r): yield set(c)

bad=0
for seed in range(int(sys.argv[1]), int(sys.argv[2])):
    rng = np.random.RandomState(seed)
    ngeos = rng.randint(2,7); nd = 14
    df = panel(rng, ngeos, nd)
    spec = {str(g+1): (rng.choice(TYPES) if rng.rand()<0.6 else 'ctx') for g in range(ngeos)}
    kw={}
    if rng.rand()<0.4: kw['treatment_geos_range']=tuple(int(v) for v in sorted(rng.randint(1,5,2)))
    if rng.rand()<0.4: kw['control_geos_range']=tuple(int(v) for v in sorted(rng.randint(1,5,2)))
    if rng.rand()<0.4: kw['geo_ratio_tolerance']=float(rng.choice([0.5,1.0,2.0,0.1]))
    par = P.TBRMMDesignParameters(n_test=3, iroas=2.0, **kw)
    ge = G.GeoEligibility(pd.DataFrame([dict(geo=g, control=int('c' in v), treatment=int('t' in v), exclude=int('x' in v)) for g,v in spec.items()]))
    try:
        data = tbrmmdata.TBRMMData(df, 'response', ge)
        mm = MM.TBRMatchedMarkets(data, par)
        cnt = mm.count_max_designs()
        ga = mm.geo_assignments
    except ValueError as e:
        continue
    gen = []
    for n in mm.treatment_group_size_range():
        for T in mm.treatment_group_generator(n):
            for C in mm.control_group_generator(T):
                gen.append((frozenset(T), frozenset(C)))
    # brute force over assignments on indices
    idx = data.geo_index
    sp = [spec[g] for g in idx]
    bf=set()
    for assign in itertools.product('ctx', repeat=len(idx)):
        if all(a in sp[i] for i,a in enumerate(assign)):
            T=frozenset(i for i,a in enumerate(assign) if a=='t'); C=frozenset(i for i,a in enumerate(assign) if a=='c')
            if not T or not C: continue
            if 'treatment_geos_range' in kw and not kw['treatment_geos_range'][0]<=len(T)<=kw['treatment_geos_range'][1]: continue
            if 'control_geos_range' in kw and not kw['control_geos_range'][0]<=len(C)<=kw['control_geos_range'][1]: continue
            if 'geo_ratio_tolerance' in kw:
                tol=kw['geo_ratio_tolerance']; r=len(C)/len(T)
                if not (1.0/(1.0+tol) <= r <= 1.0+tol): continue
            bf.add((T,C))
    ok = (cnt==len(gen)==len(set(gen))==len(bf)) and set(gen)==bf
    if not ok:
        bad+=1; print(seed, spec, kw, 'count',cnt,'gen',len(gen),'distinct',len(set(gen)),'bf',len(bf))
print('bad',bad)
