(* Bridge: the Gallina regenerated from heapdict.py on this run (gen/Gen_HeapDict.v)
   coincides with the hand-written model the C14 theorems are about. *)
From Coq Require Import List Arith ZArith Orders Bool Lia.
From MM Require Import model.Heap gen.Gen_HeapDict proofs.HeapProofs.
Import ListNotations.

Module HeapBridge.
  Import GenHeapDict.
  Section Items.
    Context {K A : Type} (ltk : K -> K -> bool) (key : A -> K).
    Notation gen_push := (gen_push ltk key).
    Notation gen_get_result := (gen_get_result ltk key).
    Notation hd_push := (hd_push ltk key).
    Notation hd_get_result := (hd_get_result ltk key).
    Notation nlargest_all := (nlargest_all ltk key).
    Notation final := (final ltk key).
    Notation run := (run ltk key).

    Lemma bridge_init size : gen_init size = hd_init (A:=A) size.
    Proof. reflexivity. Qed.

    Lemma bridge_push (h : heapdict) k x : gen_push h k x = hd_push h k x.
    Proof.
      unfold gen_push, hd_push, push. cbv zeta.
      destruct (length (dd_get (hd_result h) k) <? hd_size h); reflexivity.
    Qed.

    (* dictionaries built by pushes have distinct keys *)
    Definition keys_nodup (d : @dict A) : Prop := NoDup (map fst d).
    Lemma dd_set_in_keys (d : @dict A) k q k2 : In k2 (map fst (dd_set d k q)) <-> In k2 (map fst d) \/ k2 = k.
    Proof.
      induction d as [|[k' q'] d IH]; cbn; [intuition|].
      destruct (Z.eqb_spec k' k) as [->|Hne]; cbn; [intuition|]. rewrite IH. intuition.
    Qed.
    Lemma dd_set_nodup (d : @dict A) k q : keys_nodup d -> keys_nodup (dd_set d k q).
    Proof.
      unfold keys_nodup. induction d as [|[k' q'] d IH]; cbn; intro H.
      - constructor; [intros []|constructor].
      - inversion H as [|? ? Hnin Hnd]; subst. destruct (Z.eqb_spec k' k) as [->|Hne]; cbn.
        + constructor; assumption.
        + constructor; [|apply IH; assumption]. rewrite dd_set_in_keys. intros [Hin|Heq]; [auto|congruence].
    Qed.
    Lemma final_nodup h ops : keys_nodup (hd_result h) -> keys_nodup (hd_result (final h ops)).
    Proof.
      revert h; induction ops as [|[k x|] ops IH]; intros h H; cbn; [exact H| |].
      - apply IH. cbn. apply dd_set_nodup. exact H.
      - apply IH. exact H.
    Qed.

    Lemma dd_set_fresh (d : @dict A) k q : ~ In k (map fst d) -> dd_set d k q = d ++ [(k, q)].
    Proof.
      induction d as [|[k' q'] d IH]; cbn; intro H; [reflexivity|].
      destruct (Z.eqb_spec k' k) as [->|Hne]; [tauto|]. f_equal. apply IH. tauto.
    Qed.

    Lemma bridge_get_result (h : heapdict) :
      keys_nodup (hd_result h) -> gen_get_result h = hd_get_result h.
    Proof.
      unfold gen_get_result, hd_get_result, keys_nodup. cbv zeta.
      set (f := fun kq : Z * list A => (fst kq, nlargest_all (snd kq))).
      assert (G : forall d acc, NoDup (map fst acc ++ map fst d) ->
                fold_left (fun result it__ => let '(key0, q) := it__ in dd_set result key0 (nlargest_all q)) d acc
                = acc ++ map f d).
      { induction d as [|[k q] d IH]; intros acc Hnd; cbn [fold_left map]; [rewrite app_nil_r; reflexivity|].
        rewrite dd_set_fresh.
        - rewrite IH.
          + rewrite <- app_assoc. reflexivity.
          + rewrite map_app. cbn [map fst]. rewrite <- app_assoc. exact Hnd.
        - cbn [map fst] in Hnd. apply NoDup_remove_2 in Hnd. intro Hin. apply Hnd. apply in_or_app. left; exact Hin. }
      intro H. rewrite (G (hd_result h) []); [reflexivity|exact H].
    Qed.

    (* the generated container, run as a state machine, equals the model on every history *)
    Definition gen_step (h : heapdict) (o : op A) : heapdict * option (list (Z * list A)) :=
      match o with
      | Push k x => (gen_push h k x, None)
      | Read => (h, Some (gen_get_result h))
      end.
    Fixpoint gen_run (h : heapdict) (ops : list (op A)) : list (list (Z * list A)) :=
      match ops with
      | [] => []
      | o :: ops' =>
          let (h', out) := gen_step h o in
          match out with Some r => r :: gen_run h' ops' | None => gen_run h' ops' end
      end.
    Theorem bridge_run size ops : gen_run (gen_init size) ops = run (hd_init size) ops.
    Proof.
      rewrite bridge_init.
      assert (G : forall h, keys_nodup (hd_result h) -> gen_run h ops = run h ops).
      { induction ops as [|[k x|] ops IH]; intros h H; cbn; [reflexivity| |].
        - rewrite bridge_push. apply IH. cbn. apply dd_set_nodup. exact H.
        - rewrite bridge_get_result by exact H. f_equal. apply IH. exact H. }
      apply G. constructor.
    Qed.
  End Items.
End HeapBridge.
