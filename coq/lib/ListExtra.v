From Coq Require Import List Arith Lia.
Import ListNotations.

Lemma NoDup_app_intro {A} (a b : list A) :
  NoDup a -> NoDup b -> (forall x, In x a -> In x b -> False) -> NoDup (a ++ b).
Proof.
  induction a as [|x a IH]; cbn; intros Ha Hb H; [exact Hb|].
  inversion Ha; subst. constructor.
  - rewrite in_app_iff. intros [Hx|Hx]; [contradiction|]. apply (H x); [left; reflexivity|exact Hx].
  - apply IH; try assumption. intros y Hy1 Hy2. apply (H y); [right; exact Hy1|exact Hy2].
Qed.
Lemma NoDup_app_inv {A} (a b : list A) :
  NoDup (a ++ b) -> NoDup a /\ NoDup b /\ (forall x, In x a -> In x b -> False).
Proof.
  induction a as [|x a IH]; cbn; intro H.
  - split; [constructor|split; [exact H|intros ? []]].
  - inversion H as [|? ? Hx Hn]; subst. destruct (IH Hn) as [Ha [Hb Hd]].
    rewrite in_app_iff in Hx. split; [constructor; tauto|split; [exact Hb|]].
    intros y [<-|Hy] Hy2; [tauto|eapply Hd; eassumption].
Qed.

Lemma fold_ext {A B} (f g : A -> B -> A) l acc :
  (forall a b, f a b = g a b) -> fold_left f l acc = fold_left g l acc.
Proof. intro H. revert acc; induction l as [|x l IH]; intro acc; cbn; [reflexivity|]. rewrite H. apply IH. Qed.
