(* C05 -- Required impact is calibrated to the post-analysis test at the stated power.
   Exact rational arithmetic; scales and the required impact appear as squares.  tqs, tqp are the
   t-quantiles at sig_level and power_level (n-2 d.f.), phi the planning F-quantile: oracles. *)
From Coq Require Import List ZArith QArith.
From MM Require Import model.TBRMath proofs.TBRMathProofs.
Import ListNotations.
Open Scope Q_scope.

(* the design-side residual variance std(y, ddof=2)^2 (1 - corr^2) is the OLS residual variance *)
Theorem C05_sigma_is_residual_variance :
  forall d, ~ nQ d == 0 -> ~ Sxx d == 0 -> ~ Syy d == 0 -> ~ nQ d - 2 == 0 -> sigma2_of_corr d (corr2 d) == s2 d.
Proof. exact sigma_identity. Qed.
(* required impact = (tqs + tqp) x posterior scale of the cumulative effect of a T-day test whose
   control mean is displaced by the planning F-quantile *)
Theorem C05_required_impact_calibrated :
  forall d T phi tqs tqp ubar,
    ~ nQ d == 0 -> ~ Sxx d == 0 -> ~ Syy d == 0 -> ~ T == 0 -> ~ nQ d - 1 == 0 -> ~ nQ d - 2 == 0 ->
    (ubar - xbar d) * (ubar - xbar d) == phi * (nQ d + 1) * Sxx d / (nQ d * T * (nQ d - 1)) ->
    impact2 d T phi tqs tqp (corr2 d) == (tqs + tqp) * (tqs + tqp) * var_at d T ubar.
Proof. exact required_impact_calibrated. Qed.
(* when the test period shows exactly a given total lift, the post-analysis estimates that lift ... *)
Theorem C05_lift_is_recovered :
  forall d test lift_per_day,
    (forall p, In p test -> snd p == icept d + slope d * fst p + lift_per_day) ->
    qsum (effects d test) == nQ test * lift_per_day.
Proof. exact lift_recovered. Qed.
(* ... and its one-sided lower bound at confidence sig_level is the power_level quantile times the scale *)
Theorem C05_lower_bound_at_power : forall tqs tqp scale, (tqs + tqp) * scale - tqs * scale == tqp * scale.
Proof. exact lower_bound_at_power. Qed.
(* linear in the response unit, blind to level shifts, decreasing in corr^2 when the multiplier is positive *)
Theorem C05_scale_equivariant :
  forall c d T phi tqs tqp rho2, ~ nQ d == 0 -> ~ nQ d - 2 == 0 ->
    impact2 (map (scale_pt c) d) T phi tqs tqp rho2 == c * c * impact2 d T phi tqs tqp rho2.
Proof. exact impact2_scale_equivariant. Qed.
Theorem C05_shift_invariant :
  forall kx ky d T phi tqs tqp rho2, ~ nQ d == 0 ->
    impact2 (map (shift_pt kx ky) d) T phi tqs tqp rho2 == impact2 d T phi tqs tqp rho2.
Proof. exact impact2_shift_invariant. Qed.
Theorem C05_decreasing_in_correlation :
  forall d T phi tqs tqp r1 r2,
    0 < term2 (nQ d) T phi tqs tqp * (Syy d / (nQ d - 2)) -> r1 < r2 ->
    impact2 d T phi tqs tqp r2 < impact2 d T phi tqs tqp r1.
Proof. exact impact2_decreasing_in_corr2. Qed.

Print Assumptions C05_sigma_is_residual_variance.
Print Assumptions C05_required_impact_calibrated.
Print Assumptions C05_lift_is_recovered.
Print Assumptions C05_scale_equivariant.
Print Assumptions C05_shift_invariant.
Print Assumptions C05_decreasing_in_correlation.
