#!/bin/sh
# usage: tools/try_seeded.sh <patch.diff> <property> [more properties...]
# Applies a seeded change to /repo, runs the quick checks of the given properties, reverts.
patch="$1"; shift
cd /repo || exit 2
git diff --quiet || { echo "/repo has uncommitted changes"; exit 2; }
git apply "$patch" || { echo "patch does not apply"; exit 2; }
cd /verif
for p in "$@"; do
  ./check "$p" --tier quick 2>/dev/null | grep -E "^VIOLATION|^KNOWN|^C[0-9]+ (ok|FAIL)" | cut -c1-260
done
git -C /repo checkout -- .
rm -f /verif/replays/*.json
