#!/venv/bin/python
"""Writes the regression corpus of the search family: one case per repaired defect
(each reproduces the defect when the corresponding fix commit is reverted)."""
import json
import os
import sys

sys.path.insert(0, os.path.dirname(os.path.dirname(os.path.abspath(__file__))))
from vlib import search  # noqa: E402

V = os.path.dirname(os.path.dirname(os.path.abspath(__file__)))


def base(seed, n):
  c = search.gen_case(seed, 'quick', max_geos=n)
  tries = 0
  while len(c['rows']) != n:
    seed += 1
    c = search.gen_case(seed, 'quick', max_geos=n)
    tries += 1
    if tries > 500:
      raise SystemExit('no base case with %d geos' % n)
  c.update({'want_share': False, 'want_budget': False, 'shuffle': False, 'int_ids': False, 'degenerate': False})
  return c


cases = []
c = base(100, 5)
order = sorted(range(5), key=lambda g: sum(c['rows'][g]))      # smallest geos first
c['elig'] = {str(g + 1): 'ctx' for g in range(5)}
c['elig'][str(order[0] + 1)] = 'c'
c['elig'][str(order[1] + 1)] = 't'
c['par'] = {'n_test': 3, 'iroas': 2.0, 'n_designs': 3, 'n_pretest_max': 90, 'n_geos_max': 2}
cases.append(('F1_n_geos_max_must_include', ['C01', 'C09', 'C10'], c))
c = base(200, 4)
c['elig'] = {'1': 't', '2': 'ctx', '3': 'ctx', '4': 'ctx'}
c['par'] = {'n_test': 3, 'iroas': 2.0, 'n_designs': 5, 'n_pretest_max': 90}
c['want_budget'] = True
c['u'] = [0.5, 0.5, 0.02, 0.001]
cases.append(('F2_greedy_budget_fixed_treatment', ['C02', 'C13'], c))
c = base(300, 3)
c['elig'] = None
c['par'] = {'n_test': 3, 'iroas': 1.0, 'n_designs': 1, 'n_pretest_max': 90, 'treatment_geos_range': (4, 5)}
cases.append(('F4_empty_treatment_size_range', ['C09', 'C03', 'C01'], c))
c = base(400, 4)
c['elig'] = None
c['par'] = {'n_test': 3, 'iroas': 1.0, 'n_designs': 2, 'n_pretest_max': 90, 'geo_ratio_tolerance': 0.5}
c['want_budget'] = True
c['u'] = [0.5, 0.5, 0.0001, 0.0001]
cases.append(('F5_greedy_empty_treatment_geo_ratio', ['C09', 'C02'], c))
c = base(500, 1)
c['elig'] = None
c['par'] = {'n_test': 3, 'iroas': 1.0, 'n_designs': 1, 'n_pretest_max': 90}
cases.append(('F4_single_geo', ['C09'], c))
for name, props, case in cases:
  case['par'] = {k: (list(v) if isinstance(v, tuple) else v) for k, v in case['par'].items()}
  with open(os.path.join(V, 'corpus', name + '.json'), 'w') as f:
    json.dump({'props': props, 'case': case, 'origin': name}, f)
  print('wrote', name)
