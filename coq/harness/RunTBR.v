From Coq Require Import List ZArith QArith Qabs Bool.
From MM Require Import model.TBRMath harness.RunCommon.
Import ListNotations.

Definition P (xn : Z) (xd : positive) (yn : Z) (yd : positive) : pt := (Qmake xn xd, Qmake yn yd).
(* |a - b| <= 1e-8 * max(|b|, floor) *)
Definition qclose8 (floor a b : Q) : bool :=
  Qle_bool (Qabs (a - b)) ((1 # 100000000) * (if Qle_bool floor (Qabs b) then Qabs b else floor)).

(* analysis side: pre-period pairs, test(+cooldown) pairs, and per analysed date the location and
   scale reported by TBR.causal_cumulative_distribution() (exact values of the floats), df *)
Definition acase := (list pt * list pt * list (Q * Q) * Q)%type.
Definition acheck (c : acase) : bool :=
  let '(pre, test, expected, dfree) := c in
  let locs := posterior_locs pre test in
  let vars := posterior_vars pre test in
  let mag := fold_right (fun p m => if Qle_bool m (Qabs (snd p)) then Qabs (snd p) else m) 1 pre in
  Nat.eqb (length expected) (length locs) && Qeq_bool dfree (df pre) &&
  forallb (fun t => let '(l, v, e) := t in qclose8 (mag) l (fst e) && qclose8 (1 # 1000000) v (snd e * snd e))
          (combine (combine locs vars) expected).

(* design side: pre-period pairs, n_test, F quantile, the two t quantiles, the required impact and
   the impact estimated at rho = 0.9 reported by TBRMMDiagnostics, tbrfit(xt, yt) = (estimate, scale) *)
Definition dcase := (list pt * Q * Q * Q * Q * Q * Q * (Q * Q * Q * Q))%type.
Definition dcheck (c : dcase) : bool :=
  let '(pre, T, phi, tqs, tqp, impact, impact09, fit) := c in
  let '(xt, yt, est, scale) := fit in
  qclose8 (1 # 1000000) (impact2 pre T phi tqs tqp (corr2 pre)) (impact * impact) &&
  qclose8 (1 # 1000000) (impact2 pre T phi tqs tqp ((81 # 100))) (impact09 * impact09) &&
  qclose8 1 (fit_estimate pre T xt yt) est && qclose8 (1 # 1000000) (fit_scale2 pre T xt) (scale * scale).
