#!/bin/sh
# usage: dbg.sh file line [tail-lines]  -- show the proof state after the given line
(head -n "$2" "$1"; echo "Show.") | timeout 120 coqtop -R . MM -w none 2>&1 | tail -n "${3:-40}"
