(* The analysis data of the cost model as a frame of rows (group, period, cost), and the pandas selections used by
   TBRiROAS._is_fixed_cost_scenario.  Definitions only. *)
From Coq Require Import List ZArith Bool.
From MM Require Import lib.Values.
Import ListNotations.

Definition crow (V : Type) := (Z * Z * V)%type.            (* group label, period label, cost *)
Definition cframe (V : Type) := list (crow V).
Definition c_group {V} (r : crow V) : Z := fst (fst r).
Definition c_period {V} (r : crow V) : Z := snd (fst r).
Definition c_cost {V} (r : crow V) : V := snd r.
(* adata.loc[adata[period] == p] *)
Definition in_period {V} (p : Z) (f : cframe V) : cframe V := filter (fun r => Z.eqb (c_period r) p) f.
(* subset.loc[g]  (the frame is indexed by group) *)
Definition of_group {V} (g : Z) (f : cframe V) : cframe V := filter (fun r => Z.eqb (c_group r) g) f.
(* ...[cost] *)
Definition costs {V} (f : cframe V) : list V := map c_cost f.
(* Python's sum(): left to right from 0 *)
Definition vsum {V} (O : vops V) (l : list V) : V := fold_left (vadd O) l (vofZ O 0%Z).
