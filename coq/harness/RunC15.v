From Coq Require Import List ZArith QArith Qabs Bool.
From MM Require Import model.Elig model.Canon harness.RunCommon.
Import ListNotations.

Definition L (g d n : Z) (den : positive) : lrow := {| l_geo := g; l_date := d; l_val := Qmake n den |}.
Definition E (c t x : bool) : elig := {| ec := c; et := t; ex := x |}.
Definition qclose (a b : Q) : bool :=       (* |a - b| <= 1e-12 * max(1, |b|) *)
  Qle_bool (Qabs (a - b)) ((1 # 1000000000000) * (if Qle_bool 1 (Qabs b) then Qabs b else 1)).
Fixpoint ins_z (x : Z) (l : list Z) : list Z :=
  match l with [] => [x] | y :: l' => if (x <=? y)%Z then x :: l else y :: ins_z x l' end.
Definition sortz (l : list Z) := fold_right ins_z [] l.

Record expect := {
  x_dates : list Z;                      (* columns of .df *)
  x_order : list Z;                      (* index of .df *)
  x_cells : list (list Q);               (* .df values, row by row *)
  x_shares : list Q;                     (* geo_share in .df order *)
  x_reconcile : option (list Z);         (* None = ValueError; else geos of the reconciled eligibility table *)
  x_assignable : list Z;
  x_aggr : list (list Z * list nat * option (list Q * Q))   (* geo index, positions, (series, share) or ValueError *)
}.
Definition case := (list lrow * list (Z * elig) * expect)%type.

(* the order of the canonical rows is compared up to ties in the mean *)
Definition order_ok (rows : list lrow) (got : list Z) : bool :=
  list_eqb Z.eqb (sortz got) (geos_of rows) &&
  (fix desc (l : list Z) : bool := match l with a :: ((b :: _) as l') => Qle_bool (geo_mean rows b) (geo_mean rows a) && desc l' | _ => true end) got.

Definition check (c : case) : list bool :=
  let '(rows, tbl, x) := c in
  let rec := reconcile rows tbl in
  [ list_eqb Z.eqb (dates_of rows) (x_dates x);
    order_ok rows (x_order x);
    list_eqb (list_eqb Qeq_bool) (map (series rows) (x_order x)) (x_cells x);
    list_eqb qclose (map (share rows) (x_order x)) (x_shares x);
    match rec, x_reconcile x with
    | RaiseValueError, None => true
    | Accept t, Some gs => list_eqb Z.eqb (sortz (map fst t)) (sortz gs)
    | _, _ => false end;
    match rec with Accept t => list_eqb Z.eqb (sortz (assignable t)) (sortz (x_assignable x)) | _ => true end;
    match rec with
    | Accept t =>
        forallb (fun e => let '(gi, idx, r) := e in
                   match set_geo_index t gi, r with
                   | RaiseValueError, None => true
                   | Accept g, Some (s, sh) => list_eqb Qeq_bool (aggregate_series rows g idx) s && qclose (aggregate_share rows g idx) sh
                   | _, _ => false end) (x_aggr x)
    | _ => true end ].
Fixpoint failing_from (i : nat) (cs : list case) : list nat :=
  match cs with
  | [] => []
  | c :: cs' => let flags := check c in
      map (fun j => (100 * i + j)%nat) (filter (fun j => negb (nth j flags true)) (seq 0 (length flags))) ++ failing_from (S i) cs'
  end.
Definition failing := failing_from 0.
