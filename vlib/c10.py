"""C10 -- search API has no hidden state: answers do not depend on call history.

Oracle / tie: random call sequences on ONE TBRMatchedMarkets object; every answer is compared with
the answer of a freshly built object (for search_results(): with the result of the most recent
search, as a fresh object returns it); the caller's parameter object and input frame are compared
before / after; every list of designs handed to the caller is emptied by the harness after reading it.  The model (pure functions of data and parameters) is compared on the queries.
Proof: props/C10.v (the ranges filled in by the greedy search do not change treatment sizes;
retrieval is pure).
"""
import copy
import dataclasses
import random

from . import common, search, searchfam
from .common import Check

OPS = ['geos_over_budget', 'geos_too_large', 'geos_must_include', 'geos_within_constraints', 'geo_assignments',
       'treatment_group_size_range', 'count_max_designs', 'treatment_groups', 'control_groups', 'exhaustive_search',
       'greedy_search', 'search_results', 'design_within_constraints']


def canon_designs(ds):
  out = [(sorted(str(g) for g in d.treatment_geos), sorted(str(g) for g in d.control_geos),
          [float(v) for v in d.score.score]) for d in ds]
  # the caller consumes what it was given: the list and the designs' geo sets are its own to change
  if isinstance(ds, list):
    for d in ds:
      for grp in (d.treatment_geos, d.control_geos):
        if isinstance(grp, set):
          grp.clear()
    ds.clear()
  return out


def same(a, b):
  if isinstance(a, float) and isinstance(b, float):
    return (a != a and b != b) or a == b
  if isinstance(a, (list, tuple)) and isinstance(b, (list, tuple)):
    return len(a) == len(b) and all(same(x, y) for x, y in zip(a, b))
  return a == b


def call(mm, op, arg):
  if op in ('geos_over_budget', 'geos_too_large', 'geos_must_include', 'geos_within_constraints'):
    return sorted(getattr(mm, op))
  if op == 'geo_assignments':
    ga = mm.geo_assignments
    return [sorted(int(i) for i in getattr(ga, f)) for f in search.FIELDS] + [list(mm.data.geo_index)]
  if op == 'treatment_group_size_range':
    return list(mm.treatment_group_size_range())
  if op == 'count_max_designs':
    return int(mm.count_max_designs())
  if op == 'treatment_groups':
    return sorted(sorted(int(i) for i in T) for T in mm.treatment_group_generator(arg))
  if op == 'control_groups':
    ga = mm.geo_assignments
    T = set(sorted(ga.t)[:max(1, arg)]) | set(ga.t_fixed)
    return sorted(sorted(int(i) for i in C) for C in mm.control_group_generator(T))
  if op == 'design_within_constraints':
    ga = mm.geo_assignments
    T = set(sorted(ga.t)[:max(1, arg)])
    C = set(ga.c) - T
    return bool(mm.design_within_constraints(T, C))
  if op == 'iroas_excursion':
    # the caller tries another assumed iROAS, looks at the admitted geos, and puts the value back
    saved = mm.parameters.iroas
    mm.parameters.iroas = saved * arg
    try:
      sorted(mm.geos_within_constraints)
    except ValueError:
      pass
    finally:
      mm.parameters.iroas = saved
    return None
  if op == 'exhaustive_search':
    return canon_designs(mm.exhaustive_search())
  if op == 'greedy_search':
    return canon_designs(mm.greedy_search())
  if op == 'search_results':
    return canon_designs(mm.search_results())
  raise KeyError(op)


def outcome(fn):
  try:
    return ('ok', fn())
  except ValueError as e:
    return ('ValueError', None)
  except Exception as e:
    return ('other:' + type(e).__name__, str(e)[:120])


def run_sequence(case, ops):
  """Returns list of failure messages."""
  fails = []
  df = search.frame_of(case)
  df0 = df.copy(deep=True)
  try:
    mm, par = search.build(case)
  except Exception:
    return fails, 0
  par0 = copy.deepcopy(dataclasses.asdict(par))
  last_search = None
  n = 0
  for k, (op, arg) in enumerate(ops):
    if op == 'search_results' and last_search is None:
      continue
    got = outcome(lambda: call(mm, op, arg))
    if op == 'search_results':
      fresh, _ = search.build(case)
      want = outcome(lambda: call(fresh, last_search, None))
    else:
      fresh, _ = search.build(case)
      want = outcome(lambda: call(fresh, op, arg))
    if op in ('exhaustive_search', 'greedy_search') and got[0] == 'ok':
      last_search = op
    n += 1
    if got[0] != want[0] or (got[0] == 'ok' and not same(got[1], want[1])):
      fails.append('call %d %s(%s) after %s answers %s; a fresh object answers %s'
                   % (k, op, arg if arg is not None else '', [o for o, _ in ops[:k]], str(got)[:160], str(want)[:160]))
      break
    if got[0].startswith('other') and op != 'control_groups':
      fails.append('call %d %s raised %s' % (k, op, got))
      break
  if dataclasses.asdict(par) != par0:
    changed = [f for f in par0 if dataclasses.asdict(par)[f] != par0[f]]
    fails.append('the caller\'s parameter object was modified: %s' % changed)
  return fails, n


def _one(args):
  case, ops = args
  try:
    search.finish_params(case)
    return run_sequence(case, ops)
  except Exception as e:
    import traceback
    return ['harness error: ' + traceback.format_exc()[-400:]], 0


def gen_ops(rng, n_geos):
  k = rng.randint(3, 10)
  ops = []
  for _ in range(k):
    op = rng.choice(OPS + ['greedy_search', 'search_results', 'exhaustive_search', 'iroas_excursion'])
    arg = rng.randint(1, max(1, n_geos)) if op in ('treatment_groups', 'control_groups', 'design_within_constraints') else None
    if op == 'iroas_excursion':
      arg = rng.choice([8.0, 0.125, 64.0])
    ops.append((op, arg))
  return ops


def run(tier):
  ck = Check('C10', tier)
  ck.prove('props/C10.v', gen_targets=searchfam.GEN_TARGETS_ALL)
  rng = random.Random(ck.seed * 43 + 10)
  n = common.sz(tier, 200, 3000)
  jobs = []
  for i in range(n):
    case = search.gen_case(ck.seed * 100003 + 10 * 1009 + i, tier, max_geos=5)
    jobs.append((case, gen_ops(rng, len(case['rows']))))
  # the two shapes of the repaired defects: retrieval twice; greedy then queries
  for i in range(20):
    case = search.gen_case(ck.seed * 100003 + 777 + i, tier, max_geos=5)
    jobs.append((case, [('exhaustive_search', None), ('search_results', None), ('search_results', None),
                        ('greedy_search', None), ('treatment_group_size_range', None), ('count_max_designs', None),
                        ('search_results', None), ('exhaustive_search', None)]))
  res = common.pmap(_one, jobs, chunksize=4)
  calls = 0
  hist = {}
  for (case, ops), (fails, ncalls) in zip(jobs, res):
    calls += ncalls
    for o, _ in ops:
      hist[o] = hist.get(o, 0) + 1
    ck.count((case['seed'], tuple(ops)), nontrivial=ncalls >= 3)
    if fails:
      if fails[0].startswith('harness error'):
        ck.tie_broken('harness', 'harness error', fails[0])
      else:
        ck.fail('history-dependence', fails[0], {'case': searchfam.slim(case), 'ops': ops})
  ck.sample({'seed': jobs[0][0]['seed'], 'ops': jobs[0][1]})
  ck.sample({'seed': jobs[-1][0]['seed'], 'ops': jobs[-1][1]})
  # queries of the model vs the implementation (components that are pure queries)
  sample = [c for c, _ in jobs[:40]]
  outs = common.pmap(searchfam.corpus_worker, [(c, ('components',)) for c in sample], chunksize=4)
  bad, nterms = search.correspond(ck, [o for _, o in outs], 'c10', ['geo_index', 'within_constraints', 'classes', 'tsize_range',
                                                                    'csizes', 'treat_groups', 'control_groups', 'count'])
  if bad:
    ck.tie_broken('correspondence', 'queries vs model: component %s' % bad[0][1], {'case': searchfam.slim(outs[bad[0][0]][0])})
  ck.cov['rule'] = ('random call sequences of 3-10 calls over 13 public methods and one excursion of the assumed iROAS (changed, admitted geos read, put back) (constraint sets, assignments, size range, count, '
                    'group listings, design_within_constraints, both searches, search_results) on one object built from a '
                    'generated case; each answer compared with a freshly built object; parameters compared before/after; plus '
                    'the fixed sequences search/retrieve/retrieve/greedy/queries. non-trivial: at least three calls executed')
  ck.cov['calls_compared_with_fresh_object'] = calls
  ck.cov['op_histogram'] = hist
  ck.cov['correspondence'] = {'query_cases_model_vs_impl': nterms, 'disagreements': len(bad)}
  ck.assumptions = ['TBRMMData objects are built per TBRMatchedMarkets object (the constructor truncates data.df of the object it is given)']
  return ck.finish('proof', searchfam.TRUSTED_BASE)


def replay(data):
  inp = data.get('input')
  if not isinstance(inp, dict) or 'ops' not in inp:
    print('replay: nothing executable recorded:', [b['name'] for b in data.get('tie_broken', [])])
    return 1
  ops = [tuple(o) for o in inp['ops']]
  fails, n = run_sequence(inp['case'], ops)
  print('calls:', ops)
  print('property failures:', fails or 'none')
  return 1 if fails else 0
