From Coq Require Import List String ZArith QArith Bool.
From MM Require Import model.Params gen.Gen_Params harness.RunCommon.
Import ListNotations.

Definition outcome_code (o : outcome) : nat := match o with Accept => 0 | ValueError => 1 | OtherError => 2 end.
(* constructor arguments and the outcome of the implementation (0 accept, 1 ValueError, 2 other) *)
Definition case := (list (string * pyval) * nat)%type.
Definition agrees (c : case) : bool := Nat.eqb (outcome_code (construct gen_fields gen_checks (fst c))) (snd c).
Definition I (z : Z) := VNum false (NInt z).
Definition B (b : bool) := VNum true (NInt (if b then 1 else 0)).
Definition F (n d : Z) := VNum false (NFloat (Fin (Qmake n (Z.to_pos d)))).
Definition Finf := VNum false (NFloat PInf).
Definition Fninf := VNum false (NFloat NInf).
Definition Fnan := VNum false (NFloat NaN).
