From Coq Require Import List Arith Bool.
From MM Require Import lib.ListSet model.Elig harness.RunCommon.
Import ListNotations.

Definition fields (a : assignments) : list set :=
  [a_all a; a_c a; a_t a; a_x a; a_t_fixed a; a_c_fixed a; a_x_fixed a; a_ct a; a_cx a; a_ctx a; a_tx a].
Definition is_accept {A} (o : outcome A) : bool := match o with Accept _ => true | _ => false end.

(* (table, did the implementation accept it, rows of the ordered subset asked for,
    the eleven index sets the implementation answered) *)
Definition case := (raw_table * bool * list elig * list set)%type.
Definition agrees (c : case) : bool :=
  let '(t, accepted, es, answer) := c in
  Bool.eqb (is_accept (validate t)) accepted &&
  (negb accepted || set_list_eqb (fields (assignments_of es)) answer).
Definition E (c t x : bool) : elig := {| ec := c; et := t; ex := x |}.
