(* The admitted geo set / geo index (model/Search.v, Section Admitted) and the
   transfer of legality from index sets to the geos of the data (C01). *)
From Coq Require Import List Arith ZArith Bool Lia PrimFloat.
From MM Require Import lib.ListExtra lib.ListSet lib.Values model.Elig model.SearchParams model.Search
  proofs.EligProofs proofs.GroupSpecs.
Import ListNotations.
Open Scope nat_scope.

Section AdmittedGeos.
  Context {V : Type} (O : vops V).
  Variables (par : spar V) (gs : list (grec V)).
  Notation geo := (geo O gs).
  Notation admitted0 := (admitted0 O par gs).
  Notation within_constraints := (within_constraints O par gs).
  Notation geo_index := (geo_index O par gs).
  Notation must_include := (must_include O gs).
  Notation assignable := (assignable O gs).

  Lemma In_admitted0 i : In i admitted0 <->
    i < length gs /\ ((assignable i && negb (too_large O par gs i || over_budget O par gs i)) || must_include i) = true.
  Proof. unfold Search.admitted0. rewrite filter_In, in_seq. intuition lia. Qed.

  Lemma firstn_incl {A} k (l : list A) : incl (firstn k l) l.
  Proof. intros x Hx. rewrite <- (firstn_skipn k l). apply in_or_app. left. exact Hx. Qed.
  Lemma ins_by_impact_In i l x : In x (ins_by_impact O gs i l) <-> x = i \/ In x l.
  Proof.
    induction l as [|j l IH]; cbn; [intuition|]. destruct (vltb O _ _); cbn; [intuition|]. rewrite IH. intuition.
  Qed.
  Lemma by_impact_desc_In l x : In x (by_impact_desc O gs l) <-> In x l.
  Proof. unfold by_impact_desc. induction l as [|i l IH]; cbn; [tauto|]. rewrite ins_by_impact_In, IH. intuition. Qed.

  Lemma In_positions_filter (p : nat -> bool) i : In i (filter p (positions gs)) <-> i < length gs /\ p i = true.
  Proof. unfold positions. rewrite filter_In, in_seq. intuition lia. Qed.

  (* the geos admitted before the n_geos_max cut *)
  Lemma geos_before_cut_admitted x :
    In x (union (diff (assignable_set O gs) (union (too_large_set O par gs) (over_budget_set O par gs))) (must_include_set O gs))
    <-> In x admitted0.
  Proof.
    rewrite In_union, In_diff, In_union. unfold assignable_set, too_large_set, over_budget_set, must_include_set.
    rewrite !In_positions_filter, In_admitted0.
    destruct (assignable x), (too_large O par gs x), (over_budget O par gs x), (must_include x); cbn; intuition (try discriminate; try lia).
  Qed.

  Lemma within_constraints_incl : incl within_constraints admitted0.
  Proof.
    unfold Search.within_constraints. cbv zeta. destruct (p_n_geos_max par) as [m|];
      [destruct (_ >? _)%Z|]; intros x Hx; try (apply geos_before_cut_admitted; exact Hx).
    apply In_union in Hx. destruct Hx as [Hx|Hx].
    - apply geos_before_cut_admitted. apply In_union. right. exact Hx.
    - apply firstn_incl in Hx. apply filter_In in Hx. destruct Hx as [_ Hx]. apply andb_true_iff in Hx.
      destruct Hx as [Hx _]. apply mem_spec in Hx. apply geos_before_cut_admitted. exact Hx.
  Qed.
  (* n_geos_max never removes a geo that must be included *)
  Lemma must_include_kept i : i < length gs -> must_include i = true -> In i within_constraints.
  Proof.
    intros Hi Hm.
    assert (H0 : In i (must_include_set O gs)) by (apply In_positions_filter; split; assumption).
    unfold Search.within_constraints. cbv zeta. destruct (p_n_geos_max par) as [m|];
      [destruct (_ >? _)%Z|]; apply In_union; [left|right|right]; exact H0.
  Qed.

  Lemma In_geo_index i : In i geo_index <-> i < length gs /\ In i within_constraints.
  Proof. unfold Search.geo_index. rewrite filter_In, in_seq, mem_spec. intuition lia. Qed.
  Lemma geo_index_NoDup : NoDup geo_index.
  Proof. apply NoDup_filter, seq_NoDup. Qed.

  (* C01, admission: only geos with an eligibility row that are not must-exclude ... *)
  Theorem admitted_only_eligible i : In i geo_index ->
    g_in_elig (geo i) = true /\ p_x_fixed (g_e (geo i)) = false.
  Proof.
    intro H. apply In_geo_index in H. destruct H as [_ H]. apply within_constraints_incl in H.
    apply In_admitted0 in H. destruct H as [_ H]. unfold Search.assignable, Search.must_include, p_x_fixed in *.
    destruct (g_in_elig (geo i)); cbn in H; [|discriminate]. split; [reflexivity|].
    destruct (g_e (geo i)) as [[] [] []]; cbn in *; try reflexivity; discriminate.
  Qed.
  (* ... and every geo whose row forbids exclusion *)
  Theorem admitted_all_must_include i : i < length gs -> must_include i = true -> In i geo_index.
  Proof. intros Hi Hm. apply In_geo_index. split; [exact Hi|apply must_include_kept; assumption]. Qed.

  (* transfer: a design over positions of the geo index, legal for the admitted rows,
     is a legal assignment of the geos of the data *)
  Notation es := (admitted_rows O par gs).
  Definition to_geos (s : set) : list nat := map (fun j => nth j geo_index 0) s.

  Lemma admitted_rows_nth j : j < length geo_index ->
    nth j es elig_zero = g_e (geo (nth j geo_index 0)).
  Proof.
    intro Hj. unfold Search.admitted_rows.
    rewrite (nth_indep _ elig_zero (g_e (geo 0))) by (rewrite map_length; exact Hj).
    apply (map_nth (fun i => g_e (geo i))).
  Qed.
  Lemma admitted_rows_length : length es = length geo_index.
  Proof. apply map_length. Qed.

  Hypothesis rows_valid : forall i, g_in_elig (geo i) = true -> elig_valid (g_e (geo i)) = true.

  Theorem design_geos_legal T C : legal es T C ->
    let Tg := to_geos T in let Cg := to_geos C in
    Tg <> [] /\ Cg <> [] /\ NoDup Tg /\ NoDup Cg /\ (forall g, In g Tg -> In g Cg -> False) /\
    (forall g, In g Tg -> g < length gs /\ g_in_elig (geo g) = true /\ et (g_e (geo g)) = true) /\
    (forall g, In g Cg -> g < length gs /\ g_in_elig (geo g) = true /\ ec (g_e (geo g)) = true) /\
    (forall g, g < length gs -> g_in_elig (geo g) = true -> ex (g_e (geo g)) = false -> In g Tg \/ In g Cg) /\
    (forall g, In g Tg \/ In g Cg -> p_x_fixed (g_e (geo g)) = false).
  Proof.
    intros [HT [HC [Hd [HnT [HnC [Ht [Hc Hm]]]]]]]. cbv zeta. unfold to_geos.
    rewrite admitted_rows_length in *.
    assert (Hinj : forall a b, a < length geo_index -> b < length geo_index ->
                   nth a geo_index 0 = nth b geo_index 0 -> a = b)
      by (intros a b Ha Hb E; apply (proj1 (NoDup_nth geo_index 0) geo_index_NoDup a b Ha Hb E)).
    assert (Hmem : forall j, j < length geo_index -> In (nth j geo_index 0) geo_index) by (intros; apply nth_In; assumption).
    repeat split.
    - destruct T; [congruence|discriminate].
    - destruct C; [congruence|discriminate].
    - clear - HnT Ht Hinj. induction T as [|a T IH]; cbn; [constructor|]. inversion HnT; subst. constructor.
      + rewrite in_map_iff. intros [b [E Hb]]. apply Hinj in E; [subst; contradiction|apply Ht; right; exact Hb|apply Ht; left; reflexivity].
      + apply IH; [assumption|]. intros i Hi. apply Ht. right. exact Hi.
    - clear - HnC Hc Hinj. induction C as [|a C IH]; cbn; [constructor|]. inversion HnC; subst. constructor.
      + rewrite in_map_iff. intros [b [E Hb]]. apply Hinj in E; [subst; contradiction|apply Hc; right; exact Hb|apply Hc; left; reflexivity].
      + apply IH; [assumption|]. intros i Hi. apply Hc. right. exact Hi.
    - intros g H1 H2. apply in_map_iff in H1, H2. destruct H1 as [a [Ea Ha]], H2 as [b [Eb Hb]].
      assert (a = b) by (apply Hinj; [apply Ht; exact Ha|apply Hc; exact Hb|congruence]). subst. eapply Hd; eassumption.
    - apply in_map_iff in H. destruct H as [j [<- Hj]]. apply In_geo_index, Hmem, Ht, Hj.
    - apply in_map_iff in H. destruct H as [j [<- Hj]]. apply admitted_only_eligible, Hmem, Ht, Hj.
    - apply in_map_iff in H. destruct H as [j [<- Hj]]. destruct (Ht j Hj) as [Hlt He].
      rewrite admitted_rows_nth in He by exact Hlt. exact He.
    - apply in_map_iff in H. destruct H as [j [<- Hj]]. apply In_geo_index, Hmem, Hc, Hj.
    - apply in_map_iff in H. destruct H as [j [<- Hj]]. apply admitted_only_eligible, Hmem, Hc, Hj.
    - apply in_map_iff in H. destruct H as [j [<- Hj]]. destruct (Hc j Hj) as [Hlt He].
      rewrite admitted_rows_nth in He by exact Hlt. exact He.
    - intros g Hg Hie Hx.
      assert (Hin : In g geo_index).
      { apply admitted_all_must_include; [exact Hg|]. unfold Search.must_include. rewrite Hie, Hx. reflexivity. }
      apply (In_nth _ _ 0) in Hin. destruct Hin as [j [Hj Ej]].
      destruct (Hm j Hj) as [H|H].
      + rewrite admitted_rows_nth, Ej by exact Hj. apply rows_valid. exact Hie.
      + rewrite admitted_rows_nth, Ej by exact Hj. exact Hx.
      + left. apply in_map_iff. exists j. split; assumption.
      + right. apply in_map_iff. exists j. split; assumption.
    - intros g [H|H]; apply in_map_iff in H; destruct H as [j [<- Hj]]; apply admitted_only_eligible, Hmem;
        [apply Ht|apply Hc]; exact Hj.
  Qed.
End AdmittedGeos.
