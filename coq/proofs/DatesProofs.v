(* C20: expansion of excluded days is exact. *)
From Coq Require Import List ZArith Bool Lia.
From MM Require Import model.Dates.
Import ListNotations.
Open Scope Z_scope.

Lemma zrange_from_In fuel : forall a x, In x (zrange_from fuel a) <-> a <= x < a + Z.of_nat fuel.
Proof.
  induction fuel as [|f IH]; intros a x; cbn [zrange_from In]; [lia|]. rewrite IH. lia.
Qed.
Lemma zrange_In a b x : In x (zrange a b) <-> a <= x < b.
Proof. unfold zrange. rewrite zrange_from_In. lia. Qed.
Lemma dedup_In l x : In x (dedup l) <-> In x l.
Proof.
  induction l as [|y l IH]; cbn; [tauto|]. destruct (existsb (Z.eqb y) l) eqn:E.
  - rewrite IH. split; [auto|]. intros [<-|H]; [|exact H].
    apply existsb_exists in E. destruct E as [z [Hz Ez]]. apply Z.eqb_eq in Ez. subst. exact Hz.
  - cbn. rewrite IH. tauto.
Qed.
Lemma dedup_NoDup l : NoDup (dedup l).
Proof.
  induction l as [|y l IH]; cbn; [constructor|]. destruct (existsb (Z.eqb y) l) eqn:E; [exact IH|].
  constructor; [|exact IH]. rewrite dedup_In. intro H.
  assert (existsb (Z.eqb y) l = true) by (apply existsb_exists; exists y; split; [exact H|apply Z.eqb_refl]). congruence.
Qed.

(* the expanded list contains exactly the days covered by at least one window ... *)
Theorem expand_spec ws d : In d (expand ws) <-> exists w, In w ws /\ fst w <= d <= snd w.
Proof.
  unfold expand. rewrite dedup_In, in_flat_map. split; intros [w [Hw H]]; exists w; (split; [exact Hw|]).
  - apply zrange_In in H. lia.
  - apply zrange_In. lia.
Qed.
(* ... each exactly once ... *)
Theorem expand_NoDup ws : NoDup (expand ws).
Proof. apply dedup_NoDup. Qed.
(* ... independently of order, duplication or overlap of the entries *)
Theorem expand_same_days ws1 ws2 :
  (forall w, In w ws1 <-> In w ws2) -> forall d, In d (expand ws1) <-> In d (expand ws2).
Proof.
  intros H d. rewrite !expand_spec. split; intros [w [Hw Hd]]; exists w; (split; [apply H; exact Hw|exact Hd]).
Qed.
Theorem expand_overlap_irrelevant ws w : (exists w', In w' ws /\ fst w' <= fst w /\ snd w <= snd w') ->
  forall d, In d (expand (w :: ws)) <-> In d (expand ws).
Proof.
  intros [w' [Hw' [H1 H2]]] d. rewrite !expand_spec. split.
  - intros [v [[<-|Hv] Hd]]; [exists w'; split; [exact Hw'|lia]|exists v; split; assumption].
  - intros [v [Hv Hd]]. exists v. split; [right; exact Hv|exact Hd].
Qed.

(* malformed entries and reversed ranges are rejected, and reject the whole list *)
Theorem malformed_rejected : window_of Malformed = RaiseValueError.
Proof. reflexivity. Qed.
Theorem reversed_rejected a b : days_from_civil b < days_from_civil a -> window_of (Range a b) = RaiseValueError.
Proof. intro H. unfold window_of. destruct (valid_date a && valid_date b); [|reflexivity]. rewrite (proj2 (Z.ltb_lt _ _) H). reflexivity. Qed.
Theorem invalid_date_rejected d : valid_date d = false -> window_of (Single d) = RaiseValueError.
Proof. intro H. unfold window_of. rewrite H. reflexivity. Qed.
Theorem one_bad_entry_rejects_all es1 e es2 : window_of e = RaiseValueError ->
  days_to_exclude (es1 ++ e :: es2) = RaiseValueError.
Proof.
  intro H. unfold days_to_exclude.
  assert (G : windows_of (es1 ++ e :: es2) = RaiseValueError).
  { induction es1 as [|x es1 IH]; cbn; [rewrite H; reflexivity|]. destruct (window_of x); [rewrite IH|]; reflexivity. }
  rewrite G. reflexivity.
Qed.
Theorem accepted_windows_ordered es ws : windows_of es = Ok ws -> forall w, In w ws -> fst w <= snd w.
Proof.
  revert ws. induction es as [|e es IH]; cbn; intros ws H.
  - injection H as <-. intros w [].
  - destruct (window_of e) as [w0|] eqn:Ew; [|discriminate]. destruct (windows_of es) as [ws0|]; [|discriminate].
    injection H as <-. intros w [<-|Hw]; [|apply (IH ws0 eq_refl); exact Hw].
    unfold window_of in Ew. destruct e as [d|a b|]; [| |discriminate].
    + destruct (valid_date d); [|discriminate]. injection Ew as <-. cbn. lia.
    + destruct (valid_date a && valid_date b); [|discriminate]. destruct (Z.ltb_spec (days_from_civil b) (days_from_civil a)); [discriminate|].
      injection Ew as <-. cbn. lia.
Qed.

Lemma forallb_zrange (P : Z -> bool) a b : forallb P (zrange a b) = true -> forall n, a <= n < b -> P n = true.
Proof. intros H n Hn. rewrite forallb_forall in H. apply H. apply zrange_In. exact Hn. Qed.

(* the calendar: day numbers and valid dates correspond one to one over 1900-01-01 .. 2199-12-31
   (finite sweeps evaluated by vm_compute; the bounds are part of the statements) *)
Definition day_lo : Z := -25567.     (* 1900-01-01 *)
Definition day_hi : Z := 84005.      (* 2199-12-31 *)
Definition date_eqb (a b : date) : bool :=
  let '(y1, m1, d1) := a in let '(y2, m2, d2) := b in (y1 =? y2) && (m1 =? m2) && (d1 =? d2).
Definition day_ok (n : Z) : bool := valid_date (civil_from_days n) && (days_from_civil (civil_from_days n) =? n).
Lemma sweep_holds :
  forallb (fun i => forallb (fun j => day_ok (day_lo + 366 * i + j)) (zrange 0 366)) (zrange 0 300) = true.
Proof. vm_cast_no_check (eq_refl true). Qed.
Theorem civil_roundtrip n : day_lo <= n <= day_hi ->
  valid_date (civil_from_days n) = true /\ days_from_civil (civil_from_days n) = n.
Proof.
  intro H. set (i := (n - day_lo) / 366). set (j := (n - day_lo) mod 366).
  assert (Hn : n = day_lo + 366 * i + j) by (unfold i, j; pose proof (Z.div_mod (n - day_lo) 366); lia).
  assert (Hj : 0 <= j < 366) by (apply Z.mod_pos_bound; lia).
  assert (Hi : 0 <= i < 300).
  { unfold i. unfold day_lo, day_hi in *. split; [apply Z.div_pos; lia|apply Z.div_lt_upper_bound; lia]. }
  pose proof (forallb_zrange _ _ _ sweep_holds i Hi) as S. cbv beta in S.
  pose proof (forallb_zrange _ _ _ S j Hj) as S'. cbv beta in S'.
  pose proof (eq_ind (day_lo + 366 * i + j) (fun m => day_ok m = true) S' n (eq_sym Hn)) as S2. cbv beta in S2.
  clearbody i j. clear S S' Hn Hi Hj. unfold day_ok in S2.
  apply andb_true_iff in S2. destruct S2 as [S1 S2]. apply Z.eqb_eq in S2. split; assumption.
Qed.

Definition date_ok (y m d : Z) : bool :=
  negb (valid_date (y, m, d)) ||
  (date_eqb (civil_from_days (days_from_civil (y, m, d))) (y, m, d)
   && (day_lo <=? days_from_civil (y, m, d)) && (days_from_civil (y, m, d) <=? day_hi)).
Lemma year_sweep_holds :
  forallb (fun y => forallb (fun m => forallb (fun d => date_ok y m d) (zrange 1 32)) (zrange 1 13)) (zrange 1900 2200) = true.
Proof. vm_cast_no_check (eq_refl true). Qed.
Lemma valid_date_bounds y m d : valid_date (y, m, d) = true -> 1 <= m < 13 /\ 1 <= d < 32.
Proof.
  unfold valid_date. intro Hv. apply andb_true_iff in Hv. destruct Hv as [Hv H4]. apply andb_true_iff in Hv. destruct Hv as [Hv H3].
  apply andb_true_iff in Hv. destruct Hv as [H1 H2]. apply Z.leb_le in H1, H2, H3, H4.
  assert (days_in_month y m <= 31).
  { unfold days_in_month. destruct (m =? 2); [destruct (is_leap y); lia|]. destruct (_ || _); lia. }
  lia.
Qed.
Theorem days_roundtrip y m d : 1900 <= y < 2200 -> valid_date (y, m, d) = true ->
  civil_from_days (days_from_civil (y, m, d)) = (y, m, d) /\
  (day_lo <=? days_from_civil (y, m, d)) = true /\ (days_from_civil (y, m, d) <=? day_hi) = true.
Proof.
  intros Hy Hv. destruct (valid_date_bounds y m d Hv) as [Hm Hd].
  pose proof (forallb_zrange _ _ _ year_sweep_holds y Hy) as S. cbv beta in S.
  pose proof (forallb_zrange _ _ _ S m Hm) as S'. cbv beta in S'.
  pose proof (forallb_zrange _ _ _ S' d Hd) as S''. unfold date_ok in S''.
  rewrite Hv in S''. cbn [negb orb] in S''. apply andb_true_iff in S''. destruct S'' as [S0 S3].
  apply andb_true_iff in S0. destruct S0 as [S1 S2]. split; [|split; assumption].
  destruct (civil_from_days (days_from_civil (y, m, d))) as [[y' m'] d']. unfold date_eqb in S1.
  apply andb_true_iff in S1. destruct S1 as [S1 Sd]. apply andb_true_iff in S1. destruct S1 as [Sy Sm].
  apply Z.eqb_eq in Sy, Sm, Sd. subst. reflexivity.
Qed.
