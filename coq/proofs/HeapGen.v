(* Facts about the bounded queue that hold for any comparison function. *)
From Coq Require Import List Arith ZArith Bool Lia Sorting.Permutation.
From MM Require Import model.Heap.
Import ListNotations.

Section Gen.
  Context {K A : Type} (ltk : K -> K -> bool) (key : A -> K).

  Lemma ins_perm_gen x l : Permutation (ins ltk key x l) (x :: l).
  Proof.
    induction l as [|y l IH]; cbn; [reflexivity|].
    destruct (lt_item ltk key y x); [reflexivity|]. rewrite IH. apply perm_swap.
  Qed.
  Lemma sortd_perm_gen l : Permutation (sortd ltk key l) l.
  Proof. induction l as [|x l IH]; cbn; [reflexivity|]. rewrite ins_perm_gen. constructor. exact IH. Qed.
  Lemma nlargest_In l x : In x (nlargest_all ltk key l) <-> In x l.
  Proof.
    unfold nlargest_all. split; intro H.
    - eapply Permutation_in; [apply sortd_perm_gen|exact H].
    - eapply Permutation_in; [apply Permutation_sym, sortd_perm_gen|exact H].
  Qed.
  Lemma nlargest_length l : length (nlargest_all ltk key l) = length l.
  Proof. apply Permutation_length, sortd_perm_gen. Qed.

  Lemma remove_first_incl (p : A -> bool) l : incl (remove_first p l) l.
  Proof.
    induction l as [|z l IH]; cbn; [apply incl_refl|]. destruct (p z).
    - apply incl_tl, incl_refl.
    - intros y [<-|Hy]; [left; reflexivity|right; apply IH; exact Hy].
  Qed.
  Lemma push_incl k q x : incl (push ltk key k q x) (x :: q).
  Proof.
    unfold push, heappush, heappushpop. destruct (length q <? k)%nat; [apply incl_refl|].
    destruct q as [|a q']; [intros y []|]. cbv zeta. destruct (lt_item ltk key _ x).
    - intros y [<-|Hy]; [left; reflexivity|right]. eapply remove_first_incl; exact Hy.
    - apply incl_tl, incl_refl.
  Qed.
  Lemma fold_push_incl k xs : forall q, incl (fold_left (push ltk key k) xs q) (q ++ xs).
  Proof.
    induction xs as [|x xs IH]; intro q; cbn [fold_left]; [rewrite app_nil_r; apply incl_refl|].
    intros y Hy. apply IH in Hy. apply in_app_or in Hy. destruct Hy as [Hy|Hy].
    - apply push_incl in Hy. destruct Hy as [<-|Hy]; apply in_or_app; [right; left; reflexivity|left; exact Hy].
    - apply in_or_app. right. right. exact Hy.
  Qed.
  (* conditional pushes = pushes of the filtered list *)
  Lemma fold_cond_push_gen {B} k (ok : B -> bool) (f : B -> A) l : forall h,
    fold_left (fun h e => if ok e then push ltk key k h (f e) else h) l h
    = fold_left (push ltk key k) (map f (filter ok l)) h.
  Proof. induction l as [|x l IH]; intro h; cbn; [reflexivity|]. destruct (ok x); cbn; apply IH. Qed.
End Gen.
