(* C11: count_max_designs equals the size of the enumerated design space. *)
From Coq Require Import List Arith ZArith Bool Lia PrimFloat Sorting.Permutation FinFun.
From MM Require Import lib.ListExtra lib.ListSet lib.Combi lib.Values lib.Sums model.Elig model.SearchParams
  model.SearchDefs proofs.EligProofs.
Import ListNotations.
Open Scope Z_scope.

(* ---- sums, ranges, binomials ---- *)
Lemma zsum_lsum l f : zsum l f = lsum l f.
Proof.
  unfold zsum. assert (G : forall acc, fold_left (fun a i => a + f i) l acc = acc + lsum l f).
  { induction l as [|x l IH]; intro acc; cbn [fold_left lsum]; [lia|]. rewrite IH. lia. }
  rewrite G. lia.
Qed.

Lemma In_zrange x a b : In x (zrange a b) <-> a <= x < b.
Proof.
  unfold zrange. rewrite in_map_iff. split.
  - intros [i [<- Hi]]. apply in_seq in Hi. lia.
  - intro H. exists (Z.to_nat (x - a)). split; [lia|]. apply in_seq. lia.
Qed.
Lemma NoDup_zrange a b : NoDup (zrange a b).
Proof.
  unfold zrange. apply Injective_map_NoDup; [|apply seq_NoDup].
  intros i j E. lia.
Qed.
Lemma zsum_zrange0 N F : zsum (zrange 0 (1 + Z.of_nat N)) F = nsum (S N) (fun i => F (Z.of_nat i)).
Proof.
  rewrite zsum_lsum. unfold zrange, nsum. rewrite lsum_map.
  replace (Z.to_nat (1 + Z.of_nat N - 0)) with (S N) by lia.
  apply lsum_ext. intros i _. reflexivity.
Qed.

Lemma binomN_binom n : forall k, binomN n k = N.of_nat (binom n k).
Proof.
  induction n as [|n IH]; intros [|k]; cbn [binomN binom]; try reflexivity.
  rewrite !IH. lia.
Qed.
Lemma zbinom_nat n k : zbinom (Z.of_nat n) (Z.of_nat k) = Z.of_nat (binom n k).
Proof.
  unfold zbinom. destruct (Z.ltb_spec (Z.of_nat n) 0); [lia|]. destruct (Z.ltb_spec (Z.of_nat k) 0); [lia|].
  cbn [orb]. rewrite !Nat2Z.id, binomN_binom. lia.
Qed.
Lemma zbinom_neg n k : k < 0 -> zbinom n k = 0.
Proof.
  intro H. unfold zbinom. destruct (n <? 0); [reflexivity|]. cbn [orb].
  destruct (Z.ltb_spec k 0); [reflexivity|lia].
Qed.

Lemma combs_0 {X} (l : list X) : combs 0 l = [[]].
Proof. destruct l; reflexivity. Qed.

Lemma with_fixed_length F Vy n : 1 <= n ->
  Z.of_nat (length (with_fixed F Vy n)) = zbinom (zlen Vy) (n - zlen F).
Proof.
  intro Hn. unfold with_fixed. cbv zeta. unfold zlen.
  destruct (Z.eqb_spec (n - Z.of_nat (length F)) 0) as [E|E].
  - rewrite E. destruct F as [|x F]; [cbn [length] in E; lia|]. cbn [is_nil negb andb length]. change 0 with (Z.of_nat 0). rewrite zbinom_nat, binom_n_0. reflexivity.
  - cbn [andb]. destruct (Z.gtb_spec (n - Z.of_nat (length F)) 0) as [G|G].
    + rewrite map_length, (combs_length Vy).
      rewrite <- (Z2Nat.id (n - Z.of_nat (length F))) at 2 by lia. rewrite zbinom_nat. reflexivity.
    + rewrite zbinom_neg by lia. reflexivity.
Qed.

(* ---- list-set cardinalities ---- *)
Lemma filter_all {X} (f : X -> bool) l : (forall x, In x l -> f x = true) -> filter f l = l.
Proof.
  induction l as [|a l IH]; intro H; cbn [filter]; [reflexivity|].
  rewrite (H a) by (left; reflexivity). rewrite IH; [reflexivity|]. intros x Hx. apply H. right. exact Hx.
Qed.
Lemma filter_none {X} (f : X -> bool) l : (forall x, In x l -> f x = false) -> filter f l = [].
Proof.
  induction l as [|a l IH]; intro H; cbn [filter]; [reflexivity|].
  rewrite (H a) by (left; reflexivity). apply IH. intros x Hx. apply H. right. exact Hx.
Qed.
Lemma union_length a b : (forall x, In x b -> ~ In x a) -> length (union a b) = (length a + length b)%nat.
Proof.
  intro H. unfold union. rewrite app_length, filter_all; [reflexivity|].
  intros x Hx. apply negb_true_iff, mem_false. apply H. exact Hx.
Qed.
Lemma union_nil_r a : union a [] = a.
Proof. unfold union. cbn [filter]. apply app_nil_r. Qed.
Lemma diff_nil a b : (forall x, In x a -> In x b) -> diff a b = [].
Proof.
  intro H. unfold diff. apply filter_none. intros x Hx. apply negb_false_iff, mem_spec. apply H. exact Hx.
Qed.
Lemma diff_length (S T comb : set) : NoDup S -> NoDup comb ->
  (forall x, In x S -> (In x T <-> In x comb)) ->
  length (diff S T) = (length S - cnt (fun x => mem x S) comb)%nat.
Proof.
  intros HS Hc H. pose proof (length_filter_split (fun x => mem x T) S) as L.
  assert (E : length (filter (fun x => mem x T) S) = cnt (fun x => mem x S) comb).
  { unfold cnt. apply NoDup_same_length; [apply NoDup_filter; exact HS|apply NoDup_filter; exact Hc|].
    intro x. rewrite !filter_In, !mem_spec. split; intros [H1 H2].
    - split; [apply H; assumption|assumption].
    - split; [assumption|apply H; assumption]. }
  unfold diff. cbv beta in L. lia.
Qed.

(* ---- class structure of an assignment record ---- *)
Section Sets.
  Variable es : list elig.
  Notation AA := (assignments_of es).
  Notation D := (diff (a_t AA) (a_t_fixed AA)).
  Notation pct := (fun x => mem x (a_ct AA)).
  Notation pctx := (fun x => mem x (a_ctx AA)).

  Ltac rows x :=
    unfold p_c_fixed, p_t_fixed, p_ct, p_cx, p_ctx, p_tx in *;
    destruct (nth x es elig_zero) as [[] [] []]; cbn [ec et ex andb negb] in *;
    intuition (try congruence; try lia).

  Lemma NoDup_t : NoDup (a_t AA). Proof. apply NoDup_sel. Qed.
  Lemma NoDup_c : NoDup (a_c AA). Proof. apply NoDup_sel. Qed.
  Lemma NoDup_c_fixed : NoDup (a_c_fixed AA). Proof. exact (NoDup_class es 0). Qed.
  Lemma NoDup_t_fixed : NoDup (a_t_fixed AA). Proof. exact (NoDup_class es 1). Qed.
  Lemma NoDup_ct : NoDup (a_ct AA). Proof. exact (NoDup_class es 3). Qed.
  Lemma NoDup_cx : NoDup (a_cx AA). Proof. exact (NoDup_class es 4). Qed.
  Lemma NoDup_ctx : NoDup (a_ctx AA). Proof. exact (NoDup_class es 5). Qed.
  Lemma NoDup_tx : NoDup (a_tx AA). Proof. exact (NoDup_class es 6). Qed.
  Lemma NoDup_D : NoDup D. Proof. apply NoDup_diff, NoDup_t. Qed.

  Lemma pct_pctx x : pct x = true -> pctx x = false.
  Proof.
    cbv beta. rewrite mem_spec, mem_false, In_ct, In_ctx. rows x.
  Qed.

  Lemma cnt_D_ct : cnt pct D = length (a_ct AA).
  Proof.
    unfold cnt. apply NoDup_same_length; [apply NoDup_filter, NoDup_D|apply NoDup_ct|].
    intro x. rewrite filter_In, mem_spec, In_diff, In_t, In_t_fixed, In_ct. rows x.
  Qed.
  Lemma cnt_D_ctx : cnt pctx D = length (a_ctx AA).
  Proof.
    unfold cnt. apply NoDup_same_length; [apply NoDup_filter, NoDup_D|apply NoDup_ctx|].
    intro x. rewrite filter_In, mem_spec, In_diff, In_t, In_t_fixed, In_ctx. rows x.
  Qed.
  Lemma cnt_D_tx : cnt (rest pct pctx) D = length (a_tx AA).
  Proof.
    unfold cnt, rest. apply NoDup_same_length; [apply NoDup_filter, NoDup_D|apply NoDup_tx|].
    intro x. rewrite filter_In, andb_true_iff, !negb_true_iff, !mem_false, In_diff, In_t, In_t_fixed, In_ct, In_ctx, In_tx.
    rows x.
  Qed.

  Lemma vc_elems (T : set) x : (In x T -> In x (a_t AA)) ->
    (In x (varying_control AA T) <-> In x (union (a_cx AA) (diff (a_ctx AA) T))).
  Proof.
    unfold varying_control, fixed_control.
    rewrite !In_diff, !In_union, !In_diff, In_c, In_t, In_c_fixed, In_ct, In_cx, In_ctx.
    generalize (In x T). intro P. rows x.
  Qed.

  Section Group.
    Variable comb : set.
    Hypothesis Hsub : forall x, In x comb -> In x D.
    Hypothesis Hnd : NoDup comb.
    Notation T := (union (a_t_fixed AA) comb).

    Lemma T_length : length T = (length (a_t_fixed AA) + length comb)%nat.
    Proof. apply union_length. intros x Hx. apply Hsub, In_diff in Hx. tauto. Qed.
    Lemma T_sub_t x : In x T -> In x (a_t AA).
    Proof.
      rewrite In_union. intros [H|H]; [|apply Hsub, In_diff in H; tauto].
      revert H. rewrite In_t_fixed, In_t. rows x.
    Qed.
    Lemma T_no_raise : T <> [] -> control_groups_raises AA T = false.
    Proof.
      intro Hne. unfold control_groups_raises. rewrite (diff_nil T (a_t AA) T_sub_t).
      destruct T; [congruence|reflexivity].
    Qed.
    Lemma ct_T x : In x (a_ct AA) -> (In x T <-> In x comb).
    Proof.
      rewrite In_union, In_ct, In_t_fixed. rows x.
    Qed.
    Lemma ctx_T x : In x (a_ctx AA) -> (In x T <-> In x comb).
    Proof.
      rewrite In_union, In_ctx, In_t_fixed. rows x.
    Qed.
    Lemma fc_length :
      length (fixed_control AA T) = (length (a_c_fixed AA) + (length (a_ct AA) - cnt pct comb))%nat.
    Proof.
      unfold fixed_control. rewrite union_length.
      - rewrite (diff_length (a_ct AA) T comb NoDup_ct Hnd ct_T). reflexivity.
      - intros x. rewrite In_diff, In_ct, In_c_fixed. rows x.
    Qed.
    Lemma vc_length :
      length (varying_control AA T) = (length (a_cx AA) + (length (a_ctx AA) - cnt pctx comb))%nat.
    Proof.
      rewrite <- (diff_length (a_ctx AA) T comb NoDup_ctx Hnd ctx_T).
      rewrite <- union_length.
      - apply NoDup_same_length.
        + unfold varying_control. apply NoDup_diff, NoDup_diff, NoDup_c.
        + apply NoDup_union; [apply NoDup_cx|apply NoDup_diff, NoDup_ctx].
        + intro x. apply vc_elems, T_sub_t.
      - intros x. rewrite In_diff, In_cx, In_ctx. rows x.
    Qed.
  End Group.
End Sets.

(* ---- regrouping lemmas ---- *)
Lemma inner_sum (S : list Z) K A B : NoDup S ->
  BS A (fun i => BS B (fun j => ind (memZ (K + Z.of_nat i + Z.of_nat j) S))) =
  lsum S (fun nc => zbinom (Z.of_nat (A + B)) (nc - K)).
Proof.
  intro HS.
  rewrite (BS_ext A _ (fun i => lsum S (fun nc => BS B (fun j => ind (nc =? K + Z.of_nat i + Z.of_nat j) * 1)))).
  2:{ intros i _. rewrite <- BS_lsum. apply BS_ext; intros j _.
      rewrite (lsum_delta S _ (fun _ => 1) HS). lia. }
  rewrite BS_lsum. apply lsum_ext; intros nc _.
  destruct (Z.ltb_spec (nc - K) 0) as [Hneg|Hpos].
  - rewrite zbinom_neg by assumption. apply BS_zero; intros i _; apply BS_zero; intros j _.
    destruct (Z.eqb_spec nc (K + Z.of_nat i + Z.of_nat j)); [lia|reflexivity].
  - replace (nc - K) with (Z.of_nat (Z.to_nat (nc - K))) by lia.
    rewrite zbinom_nat, <- vandermonde. apply BS_ext; intros i _; apply BS_ext; intros j _.
    destruct (Z.eqb_spec nc (K + Z.of_nat i + Z.of_nat j)); destruct (Nat.eqb_spec (i + j) (Z.to_nat (nc - K)));
      unfold ind; lia.
Qed.

Lemma outer_sum (R : list Z) (x : nat -> nat -> nat -> Z) (h : Z -> nat -> nat -> nat -> Z) A B C : NoDup R ->
  T3 A B C (fun a b c => ind (memZ (x a b c) R) * h (x a b c) a b c) =
  lsum R (fun n => T3 A B C (fun a b c => ind (n =? x a b c) * h n a b c)).
Proof.
  intro HR. rewrite <- T3_lsum. apply T3_ext; intros a b c _ _ _.
  rewrite (lsum_delta R (x a b c) (fun n => h n a b c) HR). reflexivity.
Qed.

Section CountMain.
  Context {V : Type} (O : vops V).
  Variables (es : list elig) (par : spar V).
  Notation AA := (assignments_of es).
  Notation D := (diff (a_t AA) (a_t_fixed AA)).
  Notation pct := (fun x => mem x (a_ct AA)).
  Notation pctx := (fun x => mem x (a_ctx AA)).
  Notation Ntf := (length (a_t_fixed AA)).
  Notation Ncf := (length (a_c_fixed AA)).
  Notation Ncx := (length (a_cx AA)).
  Notation Ntx := (length (a_tx AA)).
  Notation Nct := (length (a_ct AA)).
  Notation Nctx := (length (a_ctx AA)).
  Notation R := (tsize_range AA par).
  Notation cs := (csizes O AA par).

  Lemma R_bound n : In n R -> 1 <= n /\ Z.of_nat Ntf <= n.
  Proof.
    unfold tsize_range, tsize_bounds, tsize_min, zlen. rewrite In_zrange.
    destruct (p_treatment_geos_range par) as [[lo hi]|]; cbn [fst snd]; lia.
  Qed.
  Lemma NoDup_R : NoDup R.
  Proof. apply NoDup_zrange. Qed.
  Lemma cs_bound n nc : In nc (cs n) -> 1 <= nc.
  Proof.
    unfold csizes, csize_bounds, csize_min, zlen. rewrite filter_In, In_zrange.
    destruct (p_control_geos_range par) as [[lo hi]|]; cbn [fst snd]; lia.
  Qed.
  Lemma NoDup_cs n : NoDup (cs n).
  Proof. apply NoDup_filter, NoDup_zrange. Qed.

  Definition G (n : Z) (a c : nat) : Z :=
    lsum (cs n) (fun nc => zbinom (Z.of_nat (Ncx + (Nctx - c))) (nc - (Z.of_nat Ncf + Z.of_nat (Nct - a)))).
  Definition MID : Z :=
    lsum R (fun n => T3 Nct Ntx Nctx (fun a b c => ind (a + b + c =? Z.to_nat (n - Z.of_nat Ntf))%nat * G n a c)).

  (* ---- enumeration side ---- *)
  Lemma treat_groups_eq n : In n R ->
    treat_groups AA n = map (union (a_t_fixed AA)) (combs (Z.to_nat (n - Z.of_nat Ntf)) D).
  Proof.
    intro Hn. apply R_bound in Hn. destruct Hn as [H1 H2].
    unfold treat_groups, with_fixed. cbv zeta. unfold zlen.
    destruct (Z.leb_spec n 0); [lia|].
    destruct (Z.eqb_spec (n - Z.of_nat Ntf) 0) as [E|E].
    - rewrite E. cbn [Z.to_nat]. rewrite combs_0. cbn [map]. rewrite union_nil_r.
      destruct (a_t_fixed AA); [cbn [length] in E; lia|reflexivity].
    - cbn [andb]. destruct (Z.gtb_spec (n - Z.of_nat Ntf) 0); [reflexivity|lia].
  Qed.

  Lemma control_len n comb : In n R -> In comb (combs (Z.to_nat (n - Z.of_nat Ntf)) D) ->
    Z.of_nat (length (control_groups O AA par (union (a_t_fixed AA) comb))) = G n (cnt pct comb) (cnt pctx comb).
  Proof.
    intros Hn Hc. apply R_bound in Hn. destruct Hn as [H1 H2].
    assert (Hsub : forall x, In x comb -> In x D) by (intros x Hx; eapply combs_In; eassumption).
    assert (Hnd : NoDup comb) by (eapply combs_NoDup_elem; [apply NoDup_D|exact Hc]).
    pose proof (combs_elem_length _ _ _ Hc) as Hlen.
    pose proof (T_length es comb Hsub) as HT.
    assert (HzT : zlen (union (a_t_fixed AA) comb) = n) by (unfold zlen; lia).
    unfold control_groups. rewrite (T_no_raise es comb Hsub).
    2:{ intro E. rewrite E in HT. cbn [length] in HT. lia. }
    rewrite length_flat_map, HzT. unfold G. apply lsum_ext; intros nc Hnc.
    rewrite with_fixed_length by (eapply cs_bound; exact Hnc).
    unfold zlen. rewrite (fc_length es comb Hnd), (vc_length es comb Hsub Hnd).
    f_equal. lia.
  Qed.

  Lemma enum_MID : Z.of_nat (length (enum_pairs O AA par)) = MID.
  Proof.
    unfold enum_pairs, MID. rewrite length_flat_map. apply lsum_ext; intros n Hn.
    rewrite length_flat_map, (treat_groups_eq n Hn), lsum_map.
    rewrite (lsum_ext _ _ (fun comb => G n (cnt pct comb) (cnt pctx comb))).
    2:{ intros comb Hc. rewrite map_length. apply control_len; assumption. }
    rewrite (combs_wsum pct pctx (pct_pctx es) D _ (G n)).
    rewrite cnt_D_ct, cnt_D_tx, cnt_D_ctx. reflexivity.
  Qed.

  (* ---- counting side ---- *)
  Definition xx (a b c : nat) : Z := Z.of_nat Ntf + Z.of_nat b + Z.of_nat c + Z.of_nat a.
  Definition HH (n : Z) (a c : nat) : Z :=
    BS Ncx (fun i => BS (Nctx - c) (fun j =>
      ind (memZ (Z.of_nat Ncf + Z.of_nat i + Z.of_nat j + (Z.of_nat Nct - Z.of_nat a)) (cs n)))).

  Lemma HH_G n a c : (a <= Nct)%nat -> HH n a c = G n a c.
  Proof.
    intro Ha. unfold HH, G. rewrite <- (inner_sum (cs n) _ Ncx (Nctx - c) (NoDup_cs n)).
    apply BS_ext; intros i _. apply BS_ext; intros j _. do 2 f_equal. lia.
  Qed.

  Lemma count_T3 : count O AA par =
    T3 Nct Ntx Nctx (fun a b c => ind (memZ (xx a b c) R) * HH (xx a b c) a c).
  Proof.
    unfold count. cbv zeta. unfold zlen, T3.
    rewrite zsum_zrange0. unfold BS at 1. apply nsum_ext; intros a Ha.
    rewrite zsum_zrange0. unfold BS at 1. rewrite <- nsum_mul_l. apply nsum_ext; intros b Hb.
    rewrite zsum_zrange0. unfold BS at 1. rewrite <- 2 nsum_mul_l. apply nsum_ext; intros c Hc.
    fold (xx a b c).
    destruct (memZ (xx a b c) R); [|unfold ind; ring].
    rewrite zsum_zrange0. unfold HH. unfold BS at 1. rewrite <- 4 nsum_mul_l. apply nsum_ext; intros i Hi.
    replace (1 + Z.of_nat Nctx - Z.of_nat c) with (1 + Z.of_nat (Nctx - c)) by lia.
    rewrite zsum_zrange0. unfold BS at 1. rewrite <- 5 nsum_mul_l. apply nsum_ext; intros j Hj.
    replace (Z.of_nat Nctx - Z.of_nat c) with (Z.of_nat (Nctx - c)) by lia.
    rewrite !zbinom_nat.
    destruct (memZ _ (cs (xx a b c))); unfold ind; ring.
  Qed.

  Lemma count_MID : count O AA par = MID.
  Proof.
    rewrite count_T3.
    rewrite (T3_ext _ _ _ _ (fun a b c => ind (memZ (xx a b c) R) * (fun n a _ c => G n a c) (xx a b c) a b c))
      by (intros a b c Ha _ _; cbv beta; rewrite (HH_G _ a c Ha); reflexivity).
    rewrite (outer_sum R xx (fun n a _ c => G n a c) _ _ _ NoDup_R).
    unfold MID. apply lsum_ext; intros n Hn. apply R_bound in Hn. destruct Hn as [H1 H2].
    apply T3_ext; intros a b c _ _ _. f_equal. unfold xx.
    destruct (Z.eqb_spec n (Z.of_nat Ntf + Z.of_nat b + Z.of_nat c + Z.of_nat a));
      destruct (Nat.eqb_spec (a + b + c) (Z.to_nat (n - Z.of_nat Ntf))); unfold ind; lia.
  Qed.

  Theorem count_eq_enum_aux : count O AA par = Z.of_nat (length (enum_pairs O AA par)).
  Proof. rewrite count_MID, enum_MID. reflexivity. Qed.
End CountMain.

(* ---- the enumeration has no repeated design ---- *)
Lemma NoDup_flat_map {X Y} (f : X -> list Y) l : NoDup l ->
  (forall x, In x l -> NoDup (f x)) ->
  (forall x y z, In x l -> In y l -> In z (f x) -> In z (f y) -> x = y) ->
  NoDup (flat_map f l).
Proof.
  induction l as [|a l IH]; intros Hl Hf Hd; cbn [flat_map]; [constructor|].
  inversion Hl as [|? ? Ha Hl']; subst. apply NoDup_app_intro.
  - apply Hf. left. reflexivity.
  - apply IH; [exact Hl'| |].
    + intros x Hx. apply Hf. right. exact Hx.
    + intros x y z Hx Hy. apply Hd; right; assumption.
  - intros z Hz1 Hz2. apply in_flat_map in Hz2. destruct Hz2 as [y [Hy Hz2]].
    assert (a = y) by (apply (Hd a y z); [left; reflexivity|right; exact Hy|exact Hz1|exact Hz2]).
    subst. contradiction.
Qed.
Lemma union_disjoint_app a b : (forall x, In x b -> ~ In x a) -> union a b = a ++ b.
Proof.
  intro H. unfold union. rewrite filter_all; [reflexivity|].
  intros x Hx. apply negb_true_iff, mem_false. apply H. exact Hx.
Qed.

Section WithFixed.
  Variables F Vy : set.
  Hypothesis HVy : NoDup Vy.
  Hypothesis Hdisj : forall x, In x Vy -> ~ In x F.

  Lemma with_fixed_map k : map (union F) (combs k Vy) = map (app F) (combs k Vy).
  Proof.
    apply map_ext_in. intros c Hc. apply union_disjoint_app. intros x Hx. apply Hdisj.
    eapply combs_In; eassumption.
  Qed.
  Lemma with_fixed_NoDup n : NoDup (with_fixed F Vy n).
  Proof.
    unfold with_fixed. cbv zeta. destruct (_ && _); [constructor; [intros []|constructor]|].
    destruct (_ >? 0); [|constructor]. rewrite with_fixed_map.
    apply Injective_map_NoDup; [|apply combs_NoDup; exact HVy].
    intros c1 c2 E. apply app_inv_head in E. exact E.
  Qed.
  Lemma with_fixed_elem_length n g : In g (with_fixed F Vy n) -> zlen g = n.
  Proof.
    unfold with_fixed. cbv zeta. unfold zlen.
    destruct (Z.eqb_spec (n - Z.of_nat (length F)) 0) as [E|E].
    - destruct (is_nil F); cbn [negb andb].
      + rewrite E. cbn. intros [].
      + intros [<-|[]]. lia.
    - cbn [andb]. destruct (Z.gtb_spec (n - Z.of_nat (length F)) 0) as [G|G]; [|intros []].
      rewrite with_fixed_map, in_map_iff. intros [c [<- Hc]].
      apply (combs_elem_length Vy) in Hc. rewrite app_length. lia.
  Qed.
End WithFixed.

Section EnumNoDup.
  Context {V : Type} (O : vops V).
  Variables (A : assignments) (par : spar V).
  Hypothesis Ht : NoDup (a_t A).
  Hypothesis Hc : NoDup (a_c A).

  Lemma treat_groups_NoDup n : NoDup (treat_groups A n).
  Proof.
    unfold treat_groups. destruct (n <=? 0); [constructor|].
    apply with_fixed_NoDup; [apply NoDup_diff; exact Ht|]. intros x Hx. apply In_diff in Hx. tauto.
  Qed.
  Lemma treat_groups_elem_length n T : In T (treat_groups A n) -> zlen T = n.
  Proof.
    unfold treat_groups. destruct (n <=? 0); [intros []|].
    apply with_fixed_elem_length. intros x Hx. apply In_diff in Hx. tauto.
  Qed.
  Lemma NoDup_csizes n : NoDup (csizes O A par n).
  Proof. apply NoDup_filter, NoDup_zrange. Qed.
  Lemma control_groups_NoDup T : NoDup (control_groups O A par T).
  Proof.
    assert (Hd : forall x, In x (varying_control A T) -> ~ In x (fixed_control A T))
      by (intros x Hx; unfold varying_control in Hx; apply In_diff in Hx; tauto).
    unfold control_groups. destruct (control_groups_raises A T); [constructor|].
    apply NoDup_flat_map.
    - apply NoDup_csizes.
    - intros nc _. apply with_fixed_NoDup; [|exact Hd].
      unfold varying_control. apply NoDup_diff, NoDup_diff. exact Hc.
    - intros n1 n2 g _ _ H1 H2.
      apply with_fixed_elem_length in H1; [|exact Hd]. apply with_fixed_elem_length in H2; [|exact Hd]. congruence.
  Qed.

  Lemma enum_pairs_NoDup_gen : NoDup (enum_pairs O A par).
  Proof.
    unfold enum_pairs. apply NoDup_flat_map.
    - apply NoDup_zrange.
    - intros n _. apply NoDup_flat_map.
      + apply treat_groups_NoDup.
      + intros T _. apply Injective_map_NoDup; [|apply control_groups_NoDup].
        intros c1 c2 E. congruence.
      + intros T1 T2 z _ _ H1 H2. apply in_map_iff in H1, H2.
        destruct H1 as [c1 [<- _]]. destruct H2 as [c2 [E _]]. congruence.
    - intros n1 n2 z _ _ H1 H2. apply in_flat_map in H1, H2.
      destruct H1 as [T1 [HT1 H1]]. destruct H2 as [T2 [HT2 H2]].
      apply in_map_iff in H1, H2. destruct H1 as [c1 [<- _]]. destruct H2 as [c2 [E _]].
      apply treat_groups_elem_length in HT1, HT2. congruence.
  Qed.
End EnumNoDup.

Section Count.
  Context {V : Type} (O : vops V).
  Variables (es : list elig) (par : spar V).
  Let A := assignments_of es.

  Theorem count_eq_enum : count O A par = Z.of_nat (length (enum_pairs O A par)).
  Proof. exact (count_eq_enum_aux O es par). Qed.

  Theorem enum_pairs_NoDup : NoDup (enum_pairs O A par).
  Proof. apply enum_pairs_NoDup_gen; apply NoDup_sel. Qed.
End Count.

Print Assumptions count_eq_enum.
Print Assumptions enum_pairs_NoDup.
Print Assumptions combs_wsum.
Print Assumptions vandermonde.
