"""Shared harness for the design-search properties (C01-C04, C09-C13):
case generation, running the implementation, kernel tables for the model,
encoding of a case as a Coq term."""
import itertools
import math
import random
import warnings

warnings.filterwarnings('ignore')

TYPES = {'c': (1, 0, 0), 't': (0, 1, 0), 'x': (0, 0, 1), 'ct': (1, 1, 0), 'cx': (1, 0, 1), 'tx': (0, 1, 1),
         'ctx': (1, 1, 1)}


# --------------------------------------------------------------------------
# case generation (a case is a JSON-able dict; everything else derives from it)
def gen_case(seed, tier='quick', max_geos=None, degenerate=False):
  rng = random.Random(seed)
  hi = max_geos or (6 if tier == 'quick' else 7)
  if degenerate:
    n = rng.choice([1, 1, 2, 2, 3])
  else:
    n = rng.choice([2, 3, 3, 4, 4, 4, 5, 5, 6, 6][:max(1, (hi - 1) * 2)]) if hi >= 2 else 1
    n = min(n, hi)
  nd = rng.randint(14, 30)
  base = [50.0]
  for _ in range(nd - 1):
    base.append(base[-1] + rng.gauss(0, 1))
  scales = rng.sample([1, 2, 3, 5, 8, 13, 21, 34], n)
  rows = []
  for g in range(n):
    noise = rng.choice([0.3, 1, 3])
    rows.append([round((scales[g] * base[t] + rng.gauss(0, noise) * scales[g]) * 8) / 8 for t in range(nd)])
  # eligibility
  mix = rng.choice(['free', 'free', 'free', 'mixed', 'mixed', 'mixed', 'fixed-heavy', 'fixed-heavy', 'no-t', 'no-c'])
  if degenerate:
    mix = rng.choice(['mixed', 'fixed-heavy', 'no-t', 'no-c', 'free'])
  def pick():
    if mix == 'free':
      return rng.choice(['ctx', 'ctx', 'ctx', 'ct', 'cx', 'tx'])
    if mix == 'mixed':
      return rng.choice(['ctx', 'ctx', 'ct', 'cx', 'tx', 'c', 't', 'x', 'ctx'])
    if mix == 'fixed-heavy':
      return rng.choice(['c', 't', 'c', 't', 'x', 'ct', 'ctx'])
    if mix == 'no-t':
      return rng.choice(['c', 'x', 'cx'])
    return rng.choice(['t', 'x', 'tx'])
  elig = {}
  for g in range(n):
    if rng.random() < 0.06:
      continue                       # geo in the data, absent from the eligibility table
    elig[str(g + 1)] = pick()
  if not elig:
    elig[str(1)] = pick()
  if rng.random() < 0.1:
    elig[str(n + 7)] = rng.choice(['x', 'cx', 'tx', 'ctx'])   # in the table, absent from the data (excludable)
  use_default_elig = rng.random() < 0.1
  p = 0.6 if degenerate else rng.choice([0.0, 0.15, 0.3, 0.45])
  par = {'n_test': rng.choice([3, 4, 5]), 'iroas': rng.choice([1.0, 2.0, 0.5, 3.0]),
         'n_designs': rng.choice([1, 1, 2, 3, 5, 50]), 'n_pretest_max': rng.choice([90, 90, nd - 3, nd + 5, 12]),
         'min_corr': rng.choice([0.8, 0.8, 0.9, 0.95])}
  if rng.random() < p:
    a = rng.randint(1, 3)
    par['treatment_geos_range'] = (a, a + rng.randint(0, 2)) if not degenerate else rng.choice([(a, a + 1), (4, 5), (1, 1)])
  if rng.random() < p:
    a = rng.randint(1, 3)
    par['control_geos_range'] = (a, a + rng.randint(0, 3))
  if rng.random() < p:
    par['geo_ratio_tolerance'] = rng.choice([0.25, 0.5, 1.0, 2.0, 3.0, 0.1])
  if rng.random() < p:
    par['volume_ratio_tolerance'] = rng.choice([0.5, 1.0, 2.0, 4.0, 0.2])
  if rng.random() < 0.3 and n >= 2:
    par['n_geos_max'] = rng.randint(2, max(2, n))
  case = {'seed': seed, 'rows': rows, 'n_dates': nd, 'elig': None if use_default_elig else elig, 'par': par,
          'want_share': rng.random() < p, 'want_budget': rng.random() < p,
          'u': [rng.random() for _ in range(4)], 'shuffle': rng.random() < 0.3, 'int_ids': rng.random() < 0.2,
          'degenerate': degenerate}
  # choices added later draw from their own generator, so that earlier seeds keep their cases
  r2 = random.Random(seed * 7919 + 13)
  v = r2.random()
  # what happened to the TBRMatchedMarkets object (and its data object) before the search under test
  case['history'] = (None if v < 0.55 else 'prior-search' if v < 0.65 else 'other-params-first' if v < 0.78 else
                     'second-matcher' if v < 0.9 else 'longer-window-first')
  if degenerate and r2.random() < 0.1:
    par['iroas'] = r2.choice([0.0, 0])            # accepted (iroas >= 0): every required budget is infinite
  if degenerate and n >= 2 and r2.random() < 0.2:
    # a geo whose response is a net change: it oscillates and sums to exactly zero (share 0.0)
    g = r2.randrange(n)
    a = float(r2.choice([1, 2, 5, 9]))
    row = [a * (1 + (t // 2) % 3) * (1 if t % 2 == 0 else -1) for t in range(nd - nd % 2)] + ([0.0] if nd % 2 else [])
    case['rows'][g] = row
    case['zero_sum_geo'] = g
    par.setdefault('volume_ratio_tolerance', r2.choice([0.5, 1.0, 4.0]))
  r3 = random.Random(seed * 104729 + 31)
  if not degenerate and n >= 3 and r3.random() < 0.15:
    # volumes drift: some geos carried three times their recent volume in the older half of the history, and the
    # analysis window is shorter than the history (geo shares are whole-history quantities, the series are not)
    gs = sorted(r3.sample(range(n), r3.randint(1, n - 1)))
    half = nd // 2
    for g in gs:
      case['rows'][g] = [v * 3 if t < half else v for t, v in enumerate(case['rows'][g])]
    par['n_pretest_max'] = max(par['n_test'] + 3, r3.choice([nd - half, nd - half - 2, 12]))   # properties assume n_test + 3 points
    if r3.random() < 0.7:
      par['volume_ratio_tolerance'] = r3.choice([0.1, 0.2, 0.5, 1.0])
    case['drift'] = gs
  if 'drift' not in case and r3.random() < 0.15:
    # a window bound between the number of dates and twice that number: the whole (shorter) history is the window
    par['n_pretest_max'] = nd + r3.choice([nd // 2, nd // 2 + 1, nd - 1, 8])
    case['window_bound_above_history'] = True
  r4 = random.Random(seed * 130003 + 17)
  if r4.random() < 0.25:
    # the statistical settings of the pre-analysis away from their defaults
    for k, vals in (('sig_level', [0.8, 0.95]), ('power_level', [0.7, 0.9]), ('flevel', [0.95, 0.99]), ('rho_max', [0.9, 0.99])):
      if r4.random() < 0.5:
        par[k] = r4.choice(vals)
    case['non_default_statistics'] = True
  if n >= 2 and 'zero_sum_geo' not in case and r4.random() < 0.12:
    # a geo that enters the panel late: it has no rows at all on the first k dates (the canonical frame holds zeros there)
    g = r4.randrange(n)
    k = r4.choice([nd // 3, nd - par['n_test'], nd - par['n_test'] + 1, nd // 2])
    k = max(1, min(nd - 1, k))
    case['rows'][g] = [0.0] * k + case['rows'][g][k:]
    case['missing_head'] = [g, k]
  if r3.random() < 0.12:
    # integer parameters given as integer-valued floats (accepted by the parameter class)
    which = r3.sample(['n_test', 'n_geos_max', 'n_pretest_max', 'n_designs', 'treatment_geos_range', 'control_geos_range'], r3.randint(1, 3))
    for k in which:
      if k in par and par[k] is not None:
        par[k] = tuple(float(v) for v in par[k]) if isinstance(par[k], (tuple, list)) else float(par[k])
    case['float_valued_integers'] = which
  if r3.random() < 0.1 and 'zero_sum_geo' not in case:
    # responses are counts, stored in an integer column
    case['rows'] = [[float(round(v)) for v in row] for row in case['rows']]
    case['int_response'] = True
  return case


def frame_of(case):
  import pandas as pd
  recs = []
  n = len(case['rows'])
  t0 = pd.Timestamp('2020-01-01')
  mh = case.get('missing_head') or [None, 0]
  for g in range(n):
    gid = (g + case.get('id_base', 1)) if case.get('int_ids') else str(g + case.get('id_base', 1))
    for t, v in enumerate(case['rows'][g]):
      if g == mh[0] and t < mh[1] and v == 0.0:
        continue                       # no row: the geo was not yet reported
      recs.append({'geo': gid, 'date': t0 + pd.Timedelta(days=t), 'response': v})
  df = pd.DataFrame(recs)
  if case.get('int_response') and all(float(v).is_integer() for v in df['response']):
    df['response'] = df['response'].astype('int64')
  if case.get('shuffle'):
    df = df.sample(frac=1.0, random_state=case['seed'] % (2 ** 31)).reset_index(drop=True)
  return df


def elig_of(case):
  import pandas as pd
  from matched_markets.methodology import geoeligibility as G
  if case['elig'] is None:
    return None
  recs = [{'geo': g, 'control': TYPES[v][0], 'treatment': TYPES[v][1], 'exclude': TYPES[v][2]}
          for g, v in case['elig'].items()]
  return G.GeoEligibility(pd.DataFrame(recs))


def finish_params(case):
  """Choose share / budget ranges from the panel's own shares and single-geo impacts
  so that they bite about half the time; stored in the case so that replays are exact."""
  if 'par_final' in case:
    return case['par_final']
  from matched_markets.methodology import tbrmmdata, tbrmmdesignparameters as P, tbrmatchedmarkets as MM
  par = dict(case['par'])
  data = tbrmmdata.TBRMMData(frame_of(case), 'response', elig_of(case))
  shares = sorted(float(v) for v in data.geo_share.values)
  u = case['u']
  if case['want_share']:
    lo = max(1e-3, shares[0] * (0.5 + u[0]))
    hi = min(0.999, max(lo * 1.5, sum(shares[-2:]) * (0.4 + u[1])))
    if lo < hi:
      par['treatment_share_range'] = (lo, hi)
  if case['want_budget'] and par['iroas'] > 0:
    p0 = P.TBRMMDesignParameters(**{k: v for k, v in par.items()})
    mm = MM.TBRMatchedMarkets(tbrmmdata.TBRMMData(frame_of(case), 'response', elig_of(case)), p0)
    imp = sorted(float(v) for v in mm.geo_req_impact.values if v == v)
    mode = case.get('budget_mode')
    if imp and mode == 'lo-bites' and len(imp) >= 2:
      # the minimum lies between the optimistic budgets of two single-geo treatment groups, the maximum is far away:
      # some treatment groups are below the range, later ones of the same size inside it
      j = int(u[2] * (len(imp) - 1))
      lo = (imp[j] + imp[j + 1]) / 2 / par['iroas']
      par['budget_range'] = (lo, lo * (20 + 200 * u[3]))
    elif imp and mode in ('pair-median-lo', 'pair-median-hi'):
      # a bound at the median required budget of all (treatment, control) pairs over the analysis window
      from matched_markets.methodology import tbrmmdiagnostics as D
      budgets = []
      try:
        mm.geo_assignments
        n = len(mm.data.geo_index)
        for tm in range(1, 1 << n):
          for cm in range(1, 1 << n):
            if tm & cm:
              continue
            try:
              d = D.TBRMMDiagnostics(mm.data.aggregate_time_series(set(members(tm, n))), p0)
              d.x = mm.data.aggregate_time_series(set(members(cm, n)))
              b = float(d.required_impact) / par['iroas']
              if b == b and 0 < b < float('inf'):
                budgets.append(b)
            except Exception:
              pass
      except Exception:
        pass
      if budgets:
        med = sorted(budgets)[len(budgets) // 2]
        par['budget_range'] = (med, med * 1000.0) if mode == 'pair-median-lo' else (med * 1e-3, med)
    elif imp and mode == 'hi-bites' and len(imp) >= 2:
      j = int(u[2] * (len(imp) - 1))
      hi = (imp[j] + imp[j + 1]) / 2 / par['iroas'] * (1.0 + u[3])
      par['budget_range'] = (hi * 0.01, hi)
    elif imp:
      mid = imp[len(imp) // 2] / par['iroas']
      lo = mid * (0.05 + 0.5 * u[2])
      hi = mid * (0.3 + 2.5 * u[3])
      if 0 <= lo < hi:
        par['budget_range'] = (lo, hi)
  case['par_final'] = par
  return par


def build(case, with_history=False):
  from matched_markets.methodology import tbrmmdata, tbrmmdesignparameters as P, tbrmatchedmarkets as MM
  par = P.TBRMMDesignParameters(**{k: (tuple(v) if isinstance(v, list) else v) for k, v in finish_params(case).items()})
  data = tbrmmdata.TBRMMData(frame_of(case), 'response', elig_of(case))
  if with_history and case.get('history') == 'longer-window-first':
    # the same data object served an analysis over a longer pretest window before (sensitivity analysis)
    try:
      p0 = P.TBRMMDesignParameters(**dict({k: (tuple(v) if isinstance(v, list) else v) for k, v in finish_params(case).items()},
                                          n_pretest_max=10000))
      mm0 = MM.TBRMatchedMarkets(data, p0)
      mm0.count_max_designs()
      mm0.geo_assignments
    except Exception:
      pass
  return MM.TBRMatchedMarkets(data, par), par


def apply_history(mm, case, name):
  """What the object went through before the search under test (case['history']); none of it may
  change the answer of that search.  Exceptions of the earlier calls are not this search's business."""
  import copy
  from matched_markets.methodology import tbrmmdesignparameters as P, tbrmatchedmarkets as MM
  kind = case.get('history')
  if not kind:
    return None
  def quiet(f):
    try:
      return f()
    except Exception:
      return None
  if kind == 'prior-search':
    quiet(mm.greedy_search if name == 'exhaustive' else mm.exhaustive_search)
    quiet(mm.exhaustive_search if name == 'exhaustive' else mm.greedy_search)
    quiet(mm.search_results)
  elif kind == 'other-params-first':
    # an earlier search on the same object with a tight budget and another n_designs, parameters restored afterwards
    if case['seed'] % 2 == 1 and mm.parameters.budget_range is not None and float(mm.parameters.iroas) > 0:
      # only the assumed iROAS differed during the earlier calls (the budget bound on geos is budget x iroas)
      saved_iroas = mm.parameters.iroas
      mm.parameters.iroas = saved_iroas * (8.0 if case['seed'] % 4 == 1 else 0.125)
      quiet(lambda: mm.geos_within_constraints)
      quiet(mm.count_max_designs)
      quiet(mm.exhaustive_search if name == 'exhaustive' else mm.greedy_search)
      mm.parameters.iroas = saved_iroas
      return None
    saved = {k: copy.deepcopy(getattr(mm.parameters, k)) for k in ('budget_range', 'n_designs', 'treatment_share_range')}
    imp = sorted(float(v) for v in mm.geo_req_impact.values if v == v)
    if imp and float(mm.parameters.iroas) > 0:
      hi = imp[len(imp) // 2] / float(mm.parameters.iroas)
      mm.parameters.budget_range = (hi * 1e-3, hi)
    mm.parameters.n_designs = 2
    mm.parameters.treatment_share_range = None
    quiet(mm.exhaustive_search)
    quiet(mm.greedy_search)
    for k, v in saved.items():
      setattr(mm.parameters, k, v)
  elif kind == 'second-matcher':
    # another analysis of the same data object, admitting other geos, used in between; returns whether the
    # other analysis really left another geo index installed on the shared data object
    quiet(mm.count_max_designs)
    mine = list(mm.data.geo_index) if mm.data.geo_index is not None else []
    shares = sorted(float(v) for v in mm.data.geo_share.values)
    variants = []
    if len(shares) >= 3 and shares[-1] > shares[-2] > 0:
      variants.append({'treatment_share_range': (1e-9, (shares[-1] + shares[-2]) / 2)})   # drops the largest geo if it may be dropped
    if len(mine) >= 3:
      variants.append({'n_geos_max': len(mine) - 1})
    imp = sorted(float(v) for v in mm.geo_req_impact.values if v == v)
    if imp and float(mm.parameters.iroas) > 0:
      hi = imp[len(imp) // 2] / float(mm.parameters.iroas)
      variants.append({'budget_range': (hi * 1e-3, hi)})
    variants.append({'n_geos_max': 2})
    for var in variants:
      par2 = dict(case['par_final'])
      par2.update(var)
      par2['n_pretest_max'] = case['par_final'].get('n_pretest_max', 90)        # the same window: data.df is truncated in place
      try:
        p2 = P.TBRMMDesignParameters(**{k: (tuple(v) if isinstance(v, list) else v) for k, v in par2.items()})
        mm2 = MM.TBRMatchedMarkets(mm.data, p2)
        quiet(mm2.count_max_designs)
        mm2.geo_assignments
      except Exception:
        continue
      if list(mm.data.geo_index) != mine:
        return True
    return False
  return None


def exc_kind(e):
  return 'ValueError' if isinstance(e, ValueError) else 'other:' + type(e).__name__


def members(mask, n):
  return [i for i in range(n) if mask >> i & 1]


def mask_of(idx):
  m = 0
  for i in idx:
    m |= 1 << int(i)
  return m


def tern(tm, cm, n):
  k, p = 0, 1
  for i in range(n):
    k += p * (1 if tm >> i & 1 else 2 if cm >> i & 1 else 0)
    p *= 3
  return k


def documented_score(diag, budget_hi=None):
  """The documented score tuple, built from the diagnostics' attributes WITHOUT the library's score classes:
  (correlation test, A/A test, Brownian-bridge test, Durbin-Watson test as 0/1, correlation rounded to two decimals,
  1 / required impact -- or maximum budget / required impact, evaluated as 1 / (impact / budget))."""
  import numpy as np
  imp = np.float64(diag.required_impact)
  with np.errstate(all='ignore'):
    last = np.float64(1.0) / (imp / np.float64(budget_hi)) if budget_hi is not None else np.float64(1.0) / imp
  return (int(bool(diag.corr_test)), int(bool(diag.aatest.test_ok)), int(bool(diag.bbtest.test_ok)), int(bool(diag.dwtest.test_ok)),
          float(round(np.float64(diag.corr), 2)), float(last))


def documented_tests(x, y, par):
  """The four diagnostic tests of a design recomputed from its two series by the harness itself (documented definitions:
  correlation >= min_corr; A/A test = the TBR interval of the last n_test points predicted from the earlier ones contains 0,
  or a significant result is improbable; Brownian-bridge test on the cumulated standardised residuals; Durbin-Watson
  statistic inside its range).  The thresholds (Brownian-bridge coefficient, Durbin-Watson range, A/A probability) are
  read from the class as the constants they are.  Returns ([corr, aa, bb, dw] with None where the outcome sits on a
  threshold or is undefined by the definition, details)."""
  import numpy as np
  from scipy import stats
  from matched_markets.methodology import tbrmmdiagnostics as D
  x, y = np.asarray(x, dtype=float), np.asarray(y, dtype=float)
  n = len(y)

  def ols(xs, ys):
    if len(xs) < 3 or np.all(xs == xs[0]):
      return float('nan'), float('nan')
    r = stats.linregress(xs, ys)
    return float(r.intercept), float(r.slope)
  near = lambda a, b: abs(a - b) <= 1e-9 * max(1.0, abs(a), abs(b))
  proto = D.TBRMMDiagnostics(y, par)
  a, b = ols(x, y)
  resid = y - a - b * x
  sigma = float(np.std(resid, ddof=2))
  # correlation
  corr = float(np.corrcoef(x, y)[0, 1])
  t_corr = None if (corr != corr and False) else (None if near(corr, par.min_corr) else bool(corr >= par.min_corr))
  # Brownian bridge
  if a != a:
    t_bb = False
  else:
    k = np.arange(1, n)
    bounds = D.TBRMMDiagnostics._bb_bound * np.sqrt(k * (1.0 - k / float(n)))
    cum = np.abs(np.cumsum(resid / sigma)[:-1])
    t_bb = None if any(near(c, bd) for c, bd in zip(cum, bounds)) else (not bool(np.any(cum > bounds)))
  # Durbin-Watson
  d = resid[1:] - resid[:-1]
  with np.errstate(all='ignore'):
    dw = float(np.sum(d ** 2) / np.sum(resid ** 2))
  lo, hi = proto._dw_range
  t_dw = None if (near(dw, lo) or near(dw, hi)) else bool(lo < dw < hi)
  # A/A
  nt = int(par.n_test)
  npre = n - nt
  if npre < 3:
    t_aa = 'undefined'
  else:
    xs, ys = x[:npre], y[:npre]
    a1, b1 = ols(xs, ys)
    r1 = ys - a1 - b1 * xs
    s1 = float(np.std(r1, ddof=2))
    dx, dy = float(x[npre:].mean() - xs.mean()), float(y[npre:].mean() - ys.mean())
    est = nt * (dy - b1 * dx)
    with np.errstate(all='ignore'):
      scale = nt * s1 * np.sqrt((1 + dx ** 2 / np.var(xs, ddof=0)) / npre + 1.0 / nt)
    cihw = float(stats.t.ppf(par.sig_level, df=npre - 2)) * scale
    lower, upper = est - cihw, est + cihw
    if lower * upper < 0:
      t_aa = None if (near(lower, 0.0) or near(upper, 0.0)) else True
    else:
      with np.errstate(all='ignore'):
        true_mean = min(abs(lower), abs(upper))
        tq = cihw / s1
        ps = s1 * np.sqrt(1.0 / npre + 1.0 / nt)
        prob = float(1 - stats.t.cdf(tq - true_mean / ps, df=npre - 2) + stats.t.cdf(-tq - true_mean / ps, df=npre - 2))
      thr = proto._aa_threshold_prob
      t_aa = None if (prob == prob and near(prob, thr)) or near(lower * upper, 0.0) else bool(prob <= thr)
  return [t_corr, t_aa, t_bb, t_dw]


def score_tuple(diag, budget_hi):
  """(gkey, skey): the keys the two searches rank designs by, from a fresh diagnostics object and the documented
  composition of the score (not from the library's TBRMMScore, which is part of what is being checked)."""
  g = documented_score(diag)
  if budget_hi is not None:
    return g, documented_score(diag, budget_hi)
  return g, g


def run_case(case, want=('tables', 'components', 'exhaustive', 'greedy')):
  """Runs the implementation on one case.  Everything is taken from public attributes,
  return values and fresh kernel objects."""
  import numpy as np
  from matched_markets.methodology import tbrmmdiagnostics as D
  out = {'seed': case['seed']}
  try:
    mm, par = build(case)
  except Exception as e:
    out['build'] = exc_kind(e)
    out['build_msg'] = str(e)[:200]
    return out
  out['build'] = 'ok'
  out['par'] = case['par_final']
  data = mm.data
  geos = list(data.df.index)
  out['geos'] = geos
  in_elig = set(data.geo_eligibility.data.index)
  ed = data.geo_eligibility.data
  out['grec'] = [{'in_elig': g in in_elig,
                  'row': [int(ed.loc[g, c]) for c in ('control', 'treatment', 'exclude')] if g in in_elig else [0, 0, 0],
                  'share': float(data.geo_share[g]), 'impact': float(mm.geo_req_impact[g])} for g in geos]
  try:
    ga = mm.geo_assignments
    gi = list(data.geo_index)
    out['geo_index'] = [geos.index(g) for g in gi]
  except Exception as e:
    out['geo_index'] = exc_kind(e)
    out['geo_index_msg'] = str(e)[:200]
    # the searches must fail the same way (or return [])
    for name in ('exhaustive', 'greedy'):
      if name in want:
        out[name] = run_search(case, name, geos)
    return out
  n = len(gi)
  out['n'] = n
  out['within_constraints'] = sorted(geos.index(g) for g in mm.geos_within_constraints)
  out['classes'] = {f: sorted(int(i) for i in getattr(ga, f)) for f in
                    ('all', 'c', 't', 'x', 't_fixed', 'c_fixed', 'x_fixed', 'ct', 'cx', 'ctx', 'tx')}
  if 'tables' in want:
    budget_hi = par.budget_range[1] if par.budget_range is not None else None
    arr = np.array(data._array, dtype=float)     # rows of the admitted geos, window applied
    out['window'] = int(arr.shape[1])
    share_tbl, opt_tbl = [], []
    for m in range(1 << n):
      idx = set(members(m, n))
      share_tbl.append(float(data.aggregate_geo_share(idx)) if m else 0.0)
      if m:
        try:
          d = D.TBRMMDiagnostics(data.aggregate_time_series(idx), par)
          opt_tbl.append(float(d.estimate_required_impact(par.rho_max)))
        except Exception as e:
          opt_tbl.append(exc_kind(e))
      else:
        opt_tbl.append(0.0)
    pairs = [None] * (3 ** n)
    for tm in range(1 << n):
      rest = [i for i in range(n) if not tm >> i & 1]
      for sub in range(1 << len(rest)):
        cm = 0
        for j, i in enumerate(rest):
          if sub >> j & 1:
            cm |= 1 << i
        try:
          d = D.TBRMMDiagnostics(data.aggregate_time_series(set(members(tm, n))), par)
          d.x = data.aggregate_time_series(set(members(cm, n)))
          bud = float(d.required_impact)
          g, s = score_tuple(d, budget_hi)
          pairs[tern(tm, cm, n)] = [bud, [float(v) for v in g], [float(v) for v in s]]
        except Exception as e:
          pairs[tern(tm, cm, n)] = exc_kind(e)
    out['shareS'], out['optB'], out['pairs'] = share_tbl, opt_tbl, pairs
  if 'components' in want:
    comp = {}
    if case.get('history') == 'second-matcher':
      # the object has been asked for its assignments above; now another analysis uses the same data object
      out['other_index_installed'] = apply_history(mm, case, 'components')
    try:
      comp['tsize_range'] = [int(v) for v in mm.treatment_group_size_range()]
    except Exception as e:
      comp['tsize_range'] = exc_kind(e)
    comp['csizes'] = {}
    for nt in range(1, n + 1):
      try:
        comp['csizes'][nt] = [int(v) for v in mm._control_group_size_generator(nt)]
      except Exception as e:
        comp['csizes'][nt] = exc_kind(e)
    comp['treat_groups'] = {}
    for k in range(-1, n + 2):
      try:
        comp['treat_groups'][k] = sorted(sorted(int(i) for i in T) for T in mm.treatment_group_generator(k))
      except Exception as e:
        comp['treat_groups'][k] = exc_kind(e)
    comp['control_groups'] = {}
    rng = random.Random(case['seed'] + 5)
    masks = list(range(1 << n)) if n <= 4 else sorted(rng.sample(range(1 << n), 16))
    for m in masks:
      try:
        comp['control_groups'][m] = sorted(sorted(int(i) for i in C) for C in mm.control_group_generator(set(members(m, n))))
      except Exception as e:
        comp['control_groups'][m] = exc_kind(e)
    try:
      comp['count'] = int(mm.count_max_designs())
    except Exception as e:
      comp['count'] = exc_kind(e)
    comp['within'] = {}
    for _ in range(24):
      tm = rng.randrange(1 << n)
      cm = rng.randrange(1 << n) & ~tm
      try:
        comp['within'][tern(tm, cm, n)] = bool(mm.design_within_constraints(set(members(tm, n)), set(members(cm, n))))
      except Exception as e:
        comp['within'][tern(tm, cm, n)] = exc_kind(e)
    out['components'] = comp
  for name in ('exhaustive', 'greedy'):
    if name in want:
      out[name] = run_search(case, name, geos)
  return out


def design_record(d, geos, gi_ids):
  T = sorted(geos.index(g) for g in d.treatment_geos)
  C = sorted(geos.index(g) for g in d.control_geos)
  rec = {'T': T, 'C': C, 'score': [float(v) for v in d.score.score],
         'T_ids': sorted(str(g) for g in d.treatment_geos), 'C_ids': sorted(str(g) for g in d.control_geos),
         'id_types': sorted({type(g).__name__ for g in list(d.treatment_geos) + list(d.control_geos)})}
  dg = d.diag
  if dg is not None:
    rec['diag'] = {'x': [float(v) for v in dg.x], 'y': [float(v) for v in dg.y], 'corr': float(dg.corr),
                   'required_impact': float(dg.required_impact),
                   'tests': [bool(dg.corr_test), bool(dg.aatest.test_ok), bool(dg.bbtest.test_ok), bool(dg.dwtest.test_ok)],
                   'score_diag_is_diag': d.score.diag is dg,
                   'score_diag': {'x': [float(v) for v in d.score.diag.x], 'y': [float(v) for v in d.score.diag.y]}}
  return rec


def run_search(case, name, geos):
  """One search on a fresh object. Returns {'outcome': 'ok'|'ValueError'|'other:..', 'designs': [...]}."""
  try:
    mm, par = build(case, with_history=True)
    eff = apply_history(mm, case, name)
    res = mm.exhaustive_search() if name == 'exhaustive' else mm.greedy_search()
    gi = list(mm.data.geo_index) if mm.data.geo_index is not None else []
    return {'outcome': 'ok', 'designs': [design_record(d, geos, gi) for d in res],
            'geo_index': [geos.index(g) for g in gi], 'other_index_installed': eff}
  except Exception as e:
    import traceback
    return {'outcome': exc_kind(e), 'msg': (str(e) + ' @ ' + traceback.format_exc().strip().split('\n')[-3].strip())[:300]}


# --------------------------------------------------------------------------
# encoding for Coq
def flit(v):
  from .common import float_lit
  return '(%s)%%float' % float_lit(v) if isinstance(v, float) and (v < 0 or v != v or math.isinf(v)) else '%s%%float' % float_lit(float(v))


def opt(v, f):
  return 'None' if v is None else '(Some %s)' % f(v)


def par_term(par):
  zz = lambda r: '(%d, %d)%%Z' % (r[0], r[1])
  vv = lambda r: '(%s, %s)' % (flit(float(r[0])), flit(float(r[1])))
  return ('{| p_treatment_geos_range := %s; p_control_geos_range := %s; p_geo_ratio_tolerance := %s; '
          'p_volume_ratio_tolerance := %s; p_treatment_share_range := %s; p_budget_range := %s; '
          'p_n_geos_max := %s; p_n_designs := %d%%nat; p_iroas := %s |}' % (
              opt(par.get('treatment_geos_range'), zz), opt(par.get('control_geos_range'), zz),
              opt(par.get('geo_ratio_tolerance'), lambda v: flit(float(v))),
              opt(par.get('volume_ratio_tolerance'), lambda v: flit(float(v))),
              opt(par.get('treatment_share_range'), vv), opt(par.get('budget_range'), vv),
              opt(par.get('n_geos_max'), lambda v: '%d%%Z' % v), par.get('n_designs', 1), flit(float(par['iroas']))))


def grec_term(g):
  b = lambda x: 'true' if x else 'false'
  return '(G %s %s %s %s %s %s)' % (b(g['in_elig']), b(g['row'][0]), b(g['row'][1]), b(g['row'][2]),
                                    flit(g['share']), flit(g['impact']))


class Ranker:
  """Dense ranks of floats (order- and equality-preserving), shifted so that 0.0 has rank 0 -- the greedy search
  compares scores with its all-zero start score, which the model holds as the literal key of zeros; NaN -> None."""

  def __init__(self, values):
    vs = sorted({float(v) for v in values if v == v} | {0.0})
    self.rank, r, prev = {}, -1, None
    for v in vs:
      if prev is None or v != prev:
        r += 1
      self.rank[v] = r
      prev = v
    z = self.rank[0.0]
    self.rank = {v: k - z for v, k in self.rank.items()}

  def __call__(self, v):
    v = float(v)
    return None if v != v else self.rank[v]


def nat_list(l):
  return '[' + '; '.join('%d' % i for i in l) + ']'


def set_list(ll):
  return '[' + '; '.join(nat_list(l) for l in ll) + ']'


# --------------------------------------------------------------------------
COMPONENTS = ['geo_index', 'within_constraints', 'classes', 'tsize_range', 'csizes', 'treat_groups',
              'control_groups', 'count', 'within', 'exhaustive', 'greedy']
FIELDS = ['all', 'c', 't', 'x', 't_fixed', 'c_fixed', 'x_fixed', 'ct', 'cx', 'ctx', 'tx']


def has_ties(out):
  """Two distinct designs (both groups non-empty) with identical score tuples: the
  order among them is decided by heap layout / set order, which the model does not fix."""
  seen_g, seen_s = set(), set()
  n = out['n']
  for tm in range(1, 1 << n):
    for cm in range(1, 1 << n):
      if tm & cm:
        continue
      e = out['pairs'][tern(tm, cm, n)]
      if isinstance(e, str):
        continue
      g, s = repr(e[1]), repr(e[2])
      if ('nan' not in g and g in seen_g) or ('nan' not in s and s in seen_s):
        return True
      seen_g.add(g)
      seen_s.add(s)
  return False


def impact_tie_at_cut(out):
  """n_geos_max binds and two geos have exactly the same required impact: which of them survives is decided by
  pandas' unstable sort, which the model does not fix (C12 checks separately that it does not depend on geo names)."""
  nmax = (out.get('par') or {}).get('n_geos_max')
  imps = [g['impact'] for g in out.get('grec', []) if g['impact'] == g['impact']]
  return nmax is not None and nmax < len(out.get('grec', [])) and len(set(imps)) != len(imps)


def encode_case(out, compare_searches=True):
  """(scase, sexp) Coq term for one implementation run, or None when the run has nothing to compare."""
  if out.get('build') != 'ok' or impact_tie_at_cut(out):
    return None
  par = out['par']
  gs = '[' + '; '.join(grec_term(g) for g in out['grec']) + ']'
  if not isinstance(out['geo_index'], list):
    sc = '{| sc_gs := %s; sc_par := %s; sc_share := []; sc_opt := []; sc_pairs := [] |}' % (gs, par_term(par))
    sx = ('{| x_geo_index := None; x_within_constraints := []; x_classes := []; x_tsize := []; x_csizes := []; '
          'x_treat := []; x_control := []; x_count := 0%Z; x_within := []; x_exh := None; x_greedy := None |}')
    return '(%s, %s)' % (sc, sx)
  n = out['n']
  pairs = out.get('pairs') or []
  if 'shareS' not in out:
    out = dict(out, shareS=[], optB=[])
  kernel_error = any(isinstance(e, str) for e in pairs) or any(isinstance(v, str) for v in out['optB'])
  vals5 = [0.0] + [e[1][4] for e in pairs if not isinstance(e, str)] + [e[2][4] for e in pairs if not isinstance(e, str)]
  vals6 = [0.0] + [e[1][5] for e in pairs if not isinstance(e, str)] + [e[2][5] for e in pairs if not isinstance(e, str)]
  r5, r6 = Ranker(vals5), Ranker(vals6)

  def key(t):
    comps = [opt(int(t[i]) if t[i] == t[i] else None, lambda v: '%d%%Z' % v) for i in range(4)]
    comps.append(opt(r5(t[4]), lambda v: ('%d%%Z' % v) if v >= 0 else '(%d)%%Z' % v))
    comps.append(opt(r6(t[5]), lambda v: ('%d%%Z' % v) if v >= 0 else '(%d)%%Z' % v))
    return '[' + '; '.join(comps) + ']'

  ents = []
  for e in pairs:
    if isinstance(e, str):
      ents.append('dummy')
    else:
      ents.append('(%s, %s, %s)' % (flit(e[0]), key(e[1]), key(e[2])))
  sc = ('{| sc_gs := %s; sc_par := %s; sc_share := [%s]; sc_opt := [%s]; sc_pairs := [%s] |}' % (
      gs, par_term(par), '; '.join(flit(v) for v in out['shareS']),
      '; '.join(flit(v) if not isinstance(v, str) else 'nan' for v in out['optB']), '; '.join(ents)))
  comp = out.get('components') or {'tsize_range': 'skip', 'csizes': {}, 'treat_groups': {}, 'control_groups': {},
                                    'count': 'skip', 'within': {}}
  zl = lambda l: '[' + '; '.join('%d%%Z' % v for v in l) + ']'
  osets = lambda v: 'None' if isinstance(v, str) else '(Some %s)' % set_list(v)
  x_csizes = '[' + '; '.join('(%d%%Z, %s)' % (int(k), zl(v)) for k, v in comp['csizes'].items() if not isinstance(v, str)) + ']'
  x_treat = '[' + '; '.join('(%s, %s)' % (('%d%%Z' % int(k)) if int(k) >= 0 else '(%d)%%Z' % int(k), osets(v))
                            for k, v in comp['treat_groups'].items() if not (isinstance(v, str) and v != 'ValueError')) + ']'
  x_control = '[' + '; '.join('(%s, %s)' % (nat_list(members(int(m), n)), osets(v))
                              for m, v in comp['control_groups'].items() if not (isinstance(v, str) and v != 'ValueError')) + ']'
  x_within = []
  for k, v in comp['within'].items():
    k = int(k)
    T = [i for i in range(n) if (k // 3 ** i) % 3 == 1]
    C = [i for i in range(n) if (k // 3 ** i) % 3 == 2]
    if isinstance(v, bool):
      x_within.append('(%s, %s, %s)' % (nat_list(T), nat_list(C), 'true' if v else 'false'))
  ties = has_ties(out) if pairs else True

  def designs(res):
    if not compare_searches or res is None or res.get('outcome') != 'ok' or ties or kernel_error:
      return 'None'
    gi = res.get('geo_index', out['geo_index'])
    pos = {g: i for i, g in enumerate(gi)}
    try:
      return '(Some [%s])' % '; '.join('(%s, %s)' % (nat_list([pos[g] for g in d['T']]), nat_list([pos[g] for g in d['C']]))
                                        for d in res['designs'])
    except KeyError:
      return '(Some [([], [])])'      # a geo outside the geo index: certainly differs from the model

  sx = ('{| x_geo_index := Some %s; x_within_constraints := %s; x_classes := %s; x_tsize := %s; x_csizes := %s; '
        'x_treat := %s; x_control := %s; x_count := %s; x_within := [%s]; x_exh := %s; x_greedy := %s |}' % (
            nat_list(out['geo_index']), nat_list(out['within_constraints']),
            set_list([out['classes'][f] for f in FIELDS]),
            zl(comp['tsize_range']) if not isinstance(comp['tsize_range'], str) else '[]',
            x_csizes, x_treat, x_control,
            ('%d%%Z' % comp['count']) if not isinstance(comp['count'], str) else '(-1)%Z',
            '; '.join(x_within), designs(out.get('exhaustive')), designs(out.get('greedy'))))
  return '(%s, %s)' % (sc, sx)


PRELUDE = ('From Coq Require Import List Arith ZArith Bool PrimFloat.\n'
           'From MM Require Import lib.ListSet lib.Values lib.PyScore model.Elig model.SearchParams model.Search '
           'harness.RunCommon harness.RunSearch.\nImport ListNotations.\nOpen Scope nat_scope.\n')


def correspond(ck, outs, tag, components=None, shard_bytes=350000):
  """Evaluates the model on the recorded runs. Returns list of (case index, component name)."""
  from . import common
  terms = []
  for i, o in enumerate(outs):
    t = encode_case(o)
    if t is not None:
      terms.append((i, t))
    elif o.get('build') == 'ok' and impact_tie_at_cut(o):
      ck.cov['model_comparison_skipped_tied_impacts_at_n_geos_max'] = ck.cov.get('model_comparison_skipped_tied_impacts_at_n_geos_max', 0) + 1
  jobs, groups, cur, size = [], [], [], 0
  for i, t in terms:
    if cur and size + len(t) > shard_bytes:
      groups.append(cur)
      cur, size = [], 0
    cur.append((i, t))
    size += len(t)
  if cur:
    groups.append(cur)
  for gno, grp in enumerate(groups):
    text = PRELUDE + 'Definition cases : list (scase * sexp) := [\n%s\n].\nEval vm_compute in (failing cases).\n' % ';\n'.join(t for _, t in grp)
    jobs.append(('%s_%d' % (tag, gno), text))
  res = common.coq_eval_many(jobs, timeout=1200)
  bad = []
  for gno, grp in enumerate(groups):
    rc, outp = res['%s_%d' % (tag, gno)]
    codes = common.parse_nat_list(outp) if rc == 0 else None
    if codes is None:
      ck.tie_broken('correspondence', 'search model evaluation failed (%s_%d)' % (tag, gno), outp[-1500:])
      continue
    for code in codes:
      ci, comp = grp[code // 100][0], COMPONENTS[code % 100]
      if components is None or comp in components:
        bad.append((ci, comp))
  return bad, len(terms)
