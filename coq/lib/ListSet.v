(* Finite sets of geo indices as duplicate-free lists of naturals.
   Python's set operators map to [union] (|), [inter] (&), [diff] (-). *)
From Coq Require Import List Arith Bool Lia Sorting.Permutation.
From MM Require Import lib.ListExtra.
Import ListNotations.

Definition set := list nat.

Definition mem (x : nat) (s : set) : bool := existsb (Nat.eqb x) s.
Definition union (a b : set) : set := a ++ filter (fun x => negb (mem x a)) b.
Definition inter (a b : set) : set := filter (fun x => mem x b) a.
Definition diff (a b : set) : set := filter (fun x => negb (mem x b)) a.
Definition subset (a b : set) : bool := forallb (fun x => mem x b) a.
Definition is_nil {A} (l : list A) : bool := match l with [] => true | _ => false end.
Definition set_eqb (a b : set) : bool := subset a b && subset b a.
(* Python: s.symmetric_difference([g]) *)
Definition toggle (g : nat) (s : set) : set := if mem g s then diff s [g] else union s [g].

Lemma mem_spec x s : mem x s = true <-> In x s.
Proof.
  unfold mem. rewrite existsb_exists. split.
  - intros [y [Hy E]]. apply Nat.eqb_eq in E. subst. exact Hy.
  - intro H. exists x. split; [exact H|apply Nat.eqb_refl].
Qed.
Lemma mem_false x s : mem x s = false <-> ~ In x s.
Proof. rewrite <- mem_spec. destruct (mem x s); split; congruence. Qed.

Lemma In_union x a b : In x (union a b) <-> In x a \/ In x b.
Proof.
  unfold union. rewrite in_app_iff, filter_In. split.
  - intros [H|[H _]]; auto.
  - intros [H|H]; [left; exact H|].
    destruct (mem x a) eqn:E; [left; apply mem_spec; exact E|right; split; [exact H|reflexivity]].
Qed.
Lemma In_inter x a b : In x (inter a b) <-> In x a /\ In x b.
Proof. unfold inter. rewrite filter_In, mem_spec. reflexivity. Qed.
Lemma In_diff x a b : In x (diff a b) <-> In x a /\ ~ In x b.
Proof. unfold diff. rewrite filter_In, negb_true_iff, mem_false. reflexivity. Qed.
Lemma subset_spec a b : subset a b = true <-> incl a b.
Proof.
  unfold subset, incl. rewrite forallb_forall. split; intros H x Hx.
  - apply mem_spec. auto.
  - apply mem_spec. auto.
Qed.
Lemma is_nil_spec {A} (l : list A) : is_nil l = true <-> l = [].
Proof. destruct l; cbn; split; congruence. Qed.

Lemma NoDup_filter {A} (p : A -> bool) l : NoDup l -> NoDup (filter p l).
Proof.
  induction l as [|a l IH]; cbn; intro H; [constructor|]. inversion H; subst.
  destruct (p a); [constructor; [rewrite filter_In; tauto|auto]|auto].
Qed.
Lemma NoDup_union a b : NoDup a -> NoDup b -> NoDup (union a b).
Proof.
  intros Ha Hb. unfold union. apply NoDup_app_intro; [exact Ha|apply NoDup_filter; exact Hb|].
  intros x Hx Hf. apply filter_In in Hf. destruct Hf as [_ Hf].
  apply negb_true_iff, mem_false in Hf. contradiction.
Qed.
Lemma NoDup_inter a b : NoDup a -> NoDup (inter a b).
Proof. apply NoDup_filter. Qed.
Lemma NoDup_diff a b : NoDup a -> NoDup (diff a b).
Proof. apply NoDup_filter. Qed.

Lemma In_toggle x g s : In x (toggle g s) <-> (In x s /\ x <> g) \/ (x = g /\ ~ In g s).
Proof.
  unfold toggle. destruct (mem g s) eqn:E.
  - apply mem_spec in E. rewrite In_diff. cbn. split; [intros [H1 H2]; left; split; [exact H1|intro; apply H2; left; congruence]|].
    intros [[H1 H2]|[-> H2]]; [split; [exact H1|intros [H|[]]; congruence]|contradiction].
  - apply mem_false in E. rewrite In_union. cbn. split.
    + intros [H|[H|[]]]; [left; split; [exact H|intro; subst; contradiction]|right; split; [congruence|exact E]].
    + intros [[H _]|[-> _]]; [left; exact H|right; left; reflexivity].
Qed.

(* same elements + no duplicates => same cardinality *)
Lemma NoDup_same_length (a b : set) : NoDup a -> NoDup b -> (forall x, In x a <-> In x b) -> length a = length b.
Proof. intros Ha Hb H. apply Permutation_length, NoDup_Permutation; assumption. Qed.

Lemma length_filter_split {A} (p : A -> bool) l :
  length l = length (filter p l) + length (filter (fun x => negb (p x)) l).
Proof. induction l as [|a l IH]; cbn; [reflexivity|]. destruct (p a); cbn; lia. Qed.
