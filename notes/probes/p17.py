import warnings; warnings.filterwarnings('ignore')
import numpy as np, pandas as pd
from scipy import stats
import statsmodels.formula.api as smf
from statsmodels.stats.outliers_influence import OLSInfluence
N=12; rng=np.random.RandomState(0)
x=np.arange(N,dtype=float)*10+100+rng.normal(0,1,N); y=2*x+5+rng.normal(0,1e-3,N); y[6]+=1.0
df=pd.DataFrame({'x':x,'y':y}, index=pd.date_range('2020-01-01',periods=N))
fit=smf.ols('y ~ x', data=df).fit()
a=abs(OLSInfluence(fit).get_resid_studentized_external()); print(a)
bq=stats.beta.ppf(0.9,N,1); print('thr', stats.t.ppf((1+bq)/2, df=N-3))
print(type(a), max(a))
print(list(df.index[a==max(a)]))
