From Coq Require Import List ZArith Bool Lia Orders OrdersFacts.
From MM Require Import lib.PyScore.
Import ListNotations.
Open Scope Z_scope.

(* Lexicographic order on lists of integers: Python's order on tuples of ints (a proper prefix is smaller). *)
Module ZListKey <: UsualOrderedTypeFull'.
  Definition t := list Z.
  Definition eq := @Logic.eq t.
  Definition eq_equiv : Equivalence eq := eq_equivalence.
  Fixpoint compare (a b : t) : comparison :=
    match a, b with
    | [], [] => Eq
    | [], _ :: _ => Lt
    | _ :: _, [] => Gt
    | x :: a', y :: b' => match Z.compare x y with Eq => compare a' b' | c => c end
    end.
  Definition lt (a b : t) : Prop := compare a b = Lt.
  Definition le (a b : t) : Prop := lt a b \/ a = b.
  Lemma compare_eq a : forall b, compare a b = Eq <-> a = b.
  Proof.
    induction a as [|x a IH]; intros [|y b]; cbn [compare]; try (split; [discriminate|discriminate]); [tauto|].
    destruct (Z.compare_spec x y) as [->|H|H].
    - rewrite IH. split; [now intros ->|now injection 1].
    - split; [discriminate|]. injection 1 as -> _. lia.
    - split; [discriminate|]. injection 1 as -> _. lia.
  Qed.
  Lemma compare_refl a : compare a a = Eq.
  Proof. now apply compare_eq. Qed.
  Lemma compare_antisym a : forall b, compare b a = CompOpp (compare a b).
  Proof.
    induction a as [|x a IH]; intros [|y b]; cbn [compare]; try reflexivity.
    rewrite (Z.compare_antisym x y). destruct (Z.compare x y); cbn [CompOpp]; [apply IH|reflexivity|reflexivity].
  Qed.
  Lemma lt_trans a : forall b c, lt a b -> lt b c -> lt a c.
  Proof.
    unfold lt. induction a as [|x a IH]; intros [|y b] [|z c]; cbn [compare]; try discriminate; try reflexivity.
    destruct (Z.compare_spec x y) as [->|H|H]; try discriminate.
    - destruct (Z.compare_spec y z) as [->|H2|H2]; try discriminate; [apply IH|reflexivity].
    - intros _. destruct (Z.compare_spec y z) as [->|H2|H2]; try discriminate; intros _.
      + now rewrite (proj2 (Z.compare_lt_iff x z) H).
      + now rewrite (proj2 (Z.compare_lt_iff x z) (Z.lt_trans _ _ _ H H2)).
  Qed.
  Lemma lt_strorder : StrictOrder lt.
  Proof.
    split.
    - intros a H. unfold lt in H. rewrite compare_refl in H. discriminate.
    - intros a b c. apply lt_trans.
  Qed.
  Lemma lt_compat : Proper (eq ==> eq ==> iff) lt.
  Proof. intros a a' -> b b' ->. tauto. Qed.
  Lemma compare_spec a b : CompareSpec (a = b) (lt a b) (lt b a) (compare a b).
  Proof.
    destruct (compare a b) eqn:H; constructor.
    - now apply compare_eq.
    - exact H.
    - unfold lt. rewrite compare_antisym, H. reflexivity.
  Qed.
  Definition eq_dec (a b : t) : {a = b} + {a <> b} := list_eq_dec Z.eq_dec a b.
  Lemma le_lteq a b : le a b <-> lt a b \/ a = b.
  Proof. reflexivity. Qed.
End ZListKey.

(* Python's comparison of NaN-free score tuples is this order *)
Lemma py_ltb_nan_free a : forall b, py_ltb (map Some a) (map Some b) = match ZListKey.compare a b with Lt => true | _ => false end.
Proof.
  induction a as [|x a IH]; intros [|y b]; cbn [map py_ltb ZListKey.compare]; try reflexivity.
  unfold comp_eqb, comp_ltb. destruct (Z.compare_spec x y) as [->|H|H].
  - rewrite Z.eqb_refl. apply IH.
  - rewrite (proj2 (Z.eqb_neq x y)) by lia. apply Z.ltb_lt. exact H.
  - rewrite (proj2 (Z.eqb_neq x y)) by lia. apply Z.ltb_ge. lia.
Qed.

(* ---- the score tuple of tbrmmscore.py (gen/Gen_Score.v, regenerated on every run) *)
From MM Require Import gen.Gen_Score.
From Coq Require Import String.

(* the documented composition: the four test verdicts first (a failed test outweighs everything after it), then the
   correlation rounded to two digits, then the inverse of the required impact *)
Definition documented_score (corr_test aa bb dw : bool) (corr inv : comp) : pykey :=
  [Some (Z.b2z corr_test); Some (Z.b2z aa); Some (Z.b2z bb); Some (Z.b2z dw); corr; inv].
Theorem gen_score_is_documented : gen_score_tuple = documented_score.
Proof. reflexivity. Qed.
Theorem gen_score_fields_documented :
  gen_score_fields = ["corr_test"; "aa_test"; "bb_test"; "dw_test"; "corr"; "inv_required_impact"]%string.
Proof. reflexivity. Qed.
Theorem gen_score_lt_is_tuple_lt : gen_score_lt = py_ltb.
Proof. reflexivity. Qed.

(* what the order means: the verdicts are compared first, as a 4-digit binary number *)
Definition verdicts (c a b d : bool) : Z := 8 * Z.b2z c + 4 * Z.b2z a + 2 * Z.b2z b + Z.b2z d.
Theorem verdicts_dominate c a b d c' a' b' d' corr inv corr' inv' :
  verdicts c a b d < verdicts c' a' b' d' ->
  gen_score_lt (gen_score_tuple c a b d corr inv) (gen_score_tuple c' a' b' d' corr' inv') = true /\
  gen_score_lt (gen_score_tuple c' a' b' d' corr' inv') (gen_score_tuple c a b d corr inv) = false.
Proof.
  unfold verdicts. destruct c, a, b, d, c', a', b', d'; cbn [Z.b2z]; intros H; try lia; split; reflexivity.
Qed.
(* equal verdicts: the rounded correlation decides, then the inverse required impact *)
Theorem equal_verdicts_then_correlation c a b d (x x' y y' : Z) :
  gen_score_lt (gen_score_tuple c a b d (Some x) (Some y)) (gen_score_tuple c a b d (Some x') (Some y'))
  = (x <? x') || ((x =? x') && (y <? y')).
Proof.
  unfold gen_score_lt, gen_score_tuple. cbn [py_ltb]. unfold comp_eqb, comp_ltb. rewrite !Z.eqb_refl.
  destruct (Z.eqb_spec x x') as [->|Hne].
  - rewrite Z.ltb_irrefl. cbn [orb andb]. destruct (Z.eqb_spec y y') as [->|Hy]; [now rewrite Z.ltb_irrefl|reflexivity].
  - cbn [andb]. now rewrite orb_false_r.
Qed.
(* a NaN component never makes a tuple smaller or larger than another by itself: both comparisons are false *)
Theorem nan_correlation_incomparable c a b d inv inv' x :
  gen_score_lt (gen_score_tuple c a b d None inv) (gen_score_tuple c a b d x inv') = false /\
  gen_score_lt (gen_score_tuple c a b d x inv') (gen_score_tuple c a b d None inv) = false.
Proof.
  unfold gen_score_lt, gen_score_tuple. cbn [py_ltb]. unfold comp_eqb, comp_ltb. rewrite !Z.eqb_refl.
  destruct x; split; reflexivity.
Qed.

(* ---- the exhaustive search under Python's tuple order, for NaN-free score tuples *)
From MM Require Import lib.ListSet lib.Values model.Heap model.Elig model.SearchParams model.SearchDefs model.Search
  proofs.HeapProofs proofs.ExhaustiveProofs proofs.OrderIso.
Module ZTop := ExhTopK ZListKey.

Section PythonOrder.
  Context {V : Type} (O : vops V).
  Variables (es : list elig) (par : spar V).
  Variables (shareS optB : set -> V) (bud : set -> set -> V) (zkey : set -> set -> list Z).
  Let skey (T C : set) : pykey := map Some (zkey T C).

  Lemma python_order_is_lex :
    exhaustive O py_ltb (assignments_of es) par shareS optB bud skey
    = exhaustive O ZTop.HP.kltb (assignments_of es) par shareS optB bud zkey.
  Proof. apply exhaustive_order_iso. intros T C T' C'. unfold skey, ZTop.HP.kltb. apply py_ltb_nan_free. Qed.

  Theorem python_order_topk :
    map (ekey zkey) (exhaustive O gen_score_lt (assignments_of es) par shareS optB bud skey)
    = Heap.topk ZTop.HP.kltb (p_n_designs par) (map (ekey zkey) (pushed O es par shareS optB bud)).
  Proof. rewrite gen_score_lt_is_tuple_lt, python_order_is_lex. apply ZTop.exhaustive_topk. Qed.
  Theorem python_order_best_first :
    ZTop.HP.desc (map (ekey zkey) (exhaustive O gen_score_lt (assignments_of es) par shareS optB bud skey)).
  Proof. rewrite gen_score_lt_is_tuple_lt, python_order_is_lex. apply ZTop.exhaustive_sorted. Qed.
  Theorem python_order_optimal d : In d (pushed O es par shareS optB bud) ->
    let result := exhaustive O gen_score_lt (assignments_of es) par shareS optB bud skey in
    In (ekey zkey d) (map (ekey zkey) result) \/
    (List.length result = p_n_designs par /\ forall r, In r result -> ZListKey.le (ekey zkey d) (ekey zkey r)).
  Proof. cbv zeta. rewrite gen_score_lt_is_tuple_lt, python_order_is_lex. apply ZTop.exhaustive_optimal. Qed.
End PythonOrder.
