(* C04 (object level): at the end of the exhaustive search every stored design holds
   diagnostics aggregated from exactly its own two groups, although one diagnostics object per
   treatment group is reused and overwritten; no two stored designs share an object. *)
From Coq Require Import List Arith Bool Lia.
From MM Require Import lib.ListExtra lib.ListSet model.DesignStore.
Import ListNotations.

Lemma update_length s r o : length (update s r o) = length s.
Proof. revert r; induction s as [|a s IH]; intros [|r]; cbn; auto. Qed.
Lemma update_other s r o k : k <> r -> nth_error (update s r o) k = nth_error s k.
Proof.
  revert r k; induction s as [|a s IH]; intros [|r] [|k] H; cbn; try reflexivity; try congruence.
  apply IH. congruence.
Qed.
Lemma update_same s r o : r < length s -> nth_error (update s r o) r = Some o.
Proof. revert r; induction s as [|a s IH]; intros [|r] H; cbn in *; try lia; [reflexivity|apply IH; lia]. Qed.
Lemma nth_error_app_old {A} (s : list A) t k : k < length s -> nth_error (s ++ t) k = nth_error s k.
Proof. intro H. apply nth_error_app1. exact H. Qed.

Definition well (s : store) (ds : list sdesign) : Prop :=
  forall d, In d ds ->
    sd_diag d < length s /\ sd_score_diag d < length s /\
    holds s (sd_diag d) (sd_T d) (sd_C d) /\ holds s (sd_score_diag d) (sd_T d) (sd_C d).
(* references held by stored designs *)
Definition refs (ds : list sdesign) : list nat := flat_map (fun d => [sd_score_diag d; sd_diag d]) ds.

Lemma eval_controls_well keep T controls : forall s ds, well s ds -> NoDup (refs ds) ->
  (forall r, In r (refs ds) -> r < length s) ->
  let st' := eval_controls_store keep T controls (s, ds) in
  well (fst st') (snd st') /\ NoDup (refs (snd st')) /\ (forall r, In r (refs (snd st')) -> r < length (fst st')).
Proof.
  intros s ds Hw Hn Hr. unfold eval_controls_store. cbn [alloc].
  set (r := length s).
  (* generalised invariant of the inner loop: the working object r is never referenced by a stored design *)
  assert (G : forall cs s1 ds1, r < length s1 -> well s1 ds1 -> NoDup (refs ds1) ->
              (forall q, In q (refs ds1) -> q < length s1 /\ q <> r) ->
              let st' := fold_left (fun (acc : store * list sdesign) C =>
               let '(s, ds) := acc in
               let s := update s r {| o_y := T; o_x := Some C |} in
               if keep C then
                 let '(s, r1) := deepcopy s r in
                 let '(s, r2) := deepcopy s r in
                 (s, ds ++ [{| sd_T := T; sd_C := C; sd_score_diag := r1; sd_diag := r2 |}])
               else (s, ds)) cs (s1, ds1) in
              well (fst st') (snd st') /\ NoDup (refs (snd st')) /\ (forall q, In q (refs (snd st')) -> q < length (fst st'))).
  { induction cs as [|C cs IH]; intros s1 ds1 Hlt Hw1 Hn1 Hq1; cbn [fold_left].
    - cbn [fst snd]. split; [exact Hw1|split; [exact Hn1|]]. intros q Hq. apply Hq1. exact Hq.
    - set (s2 := update s1 r {| o_y := T; o_x := Some C |}).
      assert (Hl2 : length s2 = length s1) by apply update_length.
      assert (Hw2 : well s2 ds1).
      { intros d Hd. destruct (Hw1 d Hd) as [H1 [H2 [H3 H4]]].
        assert (Hd1 : sd_diag d <> r) by (apply Hq1; unfold refs; apply in_flat_map; exists d; split; [exact Hd|right; left; reflexivity]).
        assert (Hd2 : sd_score_diag d <> r) by (apply Hq1; unfold refs; apply in_flat_map; exists d; split; [exact Hd|left; reflexivity]).
        unfold holds. rewrite Hl2. unfold s2. rewrite !update_other by assumption. repeat split; assumption. }
      destruct (keep C).
      + unfold deepcopy, alloc. cbn [fst snd].
        set (o := nth r s2 {| o_y := []; o_x := None |}).
        assert (Ho : o = {| o_y := T; o_x := Some C |}).
        { unfold o. apply nth_error_nth. unfold s2. apply update_same. exact Hlt. }
        assert (Ho2 : nth r (s2 ++ [o]) {| o_y := []; o_x := None |} = o).
        { rewrite app_nth1 by (rewrite Hl2; exact Hlt). reflexivity. }
        rewrite Ho2. apply IH.
        * rewrite !app_length. cbn. lia.
        * intros d Hd. apply in_app_or in Hd. destruct Hd as [Hd|[<-|[]]].
          -- destruct (Hw2 d Hd) as [H1 [H2 [H3 H4]]]. rewrite !app_length. cbn [length]. unfold holds in *.
             rewrite <- app_assoc. rewrite !nth_error_app_old by lia. repeat split; try lia; assumption.
          -- cbn [sd_T sd_C sd_diag sd_score_diag]. rewrite !app_length. cbn [length]. unfold holds.
             split; [lia|split; [lia|split]].
             ++ rewrite nth_error_app2 by (rewrite app_length; cbn; lia). rewrite app_length. cbn [length].
                replace (length s2 + 1 - (length s2 + 1)) with 0 by lia. cbn. rewrite Ho. reflexivity.
             ++ rewrite <- app_assoc. rewrite nth_error_app2 by lia. rewrite Nat.sub_diag. cbn. rewrite Ho. reflexivity.
        * unfold refs. rewrite flat_map_app. cbn [flat_map app sd_score_diag sd_diag]. fold (refs ds1).
          apply NoDup_app_intro; [exact Hn1| |].
          -- rewrite app_length. cbn. constructor; [intros [E|[]]; lia|constructor; [intros []|constructor]].
          -- intros q Hq1' Hq2. destruct (Hq1 q Hq1') as [Hlt' _]. rewrite app_length in Hq2. cbn in Hq2.
             destruct Hq2 as [E|[E|[]]]; lia.
        * intros q Hq. unfold refs in Hq. rewrite flat_map_app in Hq. apply in_app_or in Hq. rewrite !app_length. cbn [length].
          destruct Hq as [Hq|Hq].
          -- destruct (Hq1 q Hq). split; [lia|assumption].
          -- cbn in Hq. rewrite app_length in Hq. cbn in Hq. destruct Hq as [E|[E|[]]]; lia.
      + apply IH; [rewrite Hl2; exact Hlt|exact Hw2|exact Hn1|]. intros q Hq. rewrite Hl2. apply Hq1. exact Hq. }
  cbv zeta. apply G.
  - rewrite app_length. cbn. unfold r. lia.
  - intros d Hd. destruct (Hw d Hd) as [H1 [H2 [H3 H4]]]. rewrite app_length. cbn [length]. unfold holds in *.
    rewrite !nth_error_app_old by lia. repeat split; try lia; assumption.
  - exact Hn.
  - intros q Hq. specialize (Hr q Hq). rewrite app_length. cbn. unfold r. lia.
Qed.

Theorem exhaustive_store_well keep work :
  let st := exhaustive_store keep work in
  well (fst st) (snd st) /\ NoDup (refs (snd st)).
Proof.
  unfold exhaustive_store.
  assert (G : forall work s ds, well s ds -> NoDup (refs ds) -> (forall r, In r (refs ds) -> r < length s) ->
    let st := fold_left (fun st tc => eval_controls_store (keep (fst tc)) (fst tc) (snd tc) st) work (s, ds) in
    well (fst st) (snd st) /\ NoDup (refs (snd st))).
  { clear work. induction work as [|[T cs] work IH]; intros s ds Hw Hn Hr; cbn [fold_left]; [split; assumption|].
    destruct (eval_controls_well (keep T) T cs s ds Hw Hn Hr) as [H1 [H2 H3]]. cbn [fst snd].
    destruct (eval_controls_store (keep T) T cs (s, ds)) as [s' ds']. apply IH; assumption. }
  apply G; [intros d []|constructor|intros r []].
Qed.
