(* C15 -- The canonical data object faithfully represents the input panel. *)
From Coq Require Import List ZArith QArith Bool Sorting.Permutation.
From MM Require Import model.Elig model.Canon proofs.CanonProofs.
Import ListNotations.

Theorem C15_one_row_per_geo : forall rows g, In g (geos_of rows) <-> exists r, In r rows /\ l_geo r = g.
Proof. exact geos_of_spec. Qed.
Theorem C15_rows_distinct : forall rows, NoDup (geos_of rows).
Proof. exact geos_of_NoDup. Qed.
Theorem C15_one_column_per_date : forall rows d, In d (dates_of rows) <-> exists r, In r rows /\ l_date r = d.
Proof. exact dates_of_spec. Qed.
Theorem C15_columns_distinct_and_chronological : forall rows, NoDup (dates_of rows) /\ ascending (dates_of rows).
Proof. intro rows. split; [apply dates_of_NoDup|apply dates_chronological]. Qed.
Theorem C15_missing_cells_are_zero :
  forall rows g d, (forall r, In r rows -> l_geo r = g -> l_date r = d -> False) -> cell rows g d = 0.
Proof. exact missing_cell_zero. Qed.
Theorem C15_rows_are_the_geos_by_decreasing_mean :
  forall rows, Permutation (geo_order rows) (geos_of rows) /\ by_mean_desc rows (geo_order rows).
Proof. intro rows. split; [apply geo_order_perm|apply geo_order_by_mean]. Qed.
Theorem C15_shares_sum_to_one :
  forall rows, ~ qsum (map (geo_mean rows) (geos_of rows)) == 0 -> qsum (map (share rows) (geos_of rows)) == 1.
Proof. exact shares_sum_to_one. Qed.
Theorem C15_absent_excludable_geos_are_dropped :
  forall rows tbl, (forall e, In e tbl -> memz (fst e) (geos_of rows) = false -> ex (snd e) = true) ->
    reconcile rows tbl = Accept (filter (fun e => memz (fst e) (geos_of rows)) tbl) \/
    (reconcile rows tbl = Accept tbl /\ forallb (fun e => memz (fst e) (geos_of rows)) tbl = true).
Proof. exact reconcile_spec. Qed.
Theorem C15_absent_required_geo_is_rejected :
  forall rows tbl e, In e tbl -> memz (fst e) (geos_of rows) = false -> ex (snd e) = false ->
    reconcile rows tbl = RaiseValueError.
Proof. exact reconcile_rejects. Qed.
Theorem C15_assignable_geos :
  forall tbl g, In g (assignable tbl) <-> exists e, In (g, e) tbl /\ is_x_fixed e = false.
Proof. exact assignable_spec. Qed.

(* aggregates over any index set, in the order fixed by the chosen geo index: on every date the aggregated series is
   the sum of the cells of the geos the index puts at the chosen positions; the aggregated share is the sum of their shares
   (a share = the geo's mean over the sum of all means); the index is accepted iff it is a non-empty list of assignable geos *)
Theorem C15_aggregate_series_is_the_sum_of_the_indexed_rows :
  forall rows gi idx k, (k < length (dates_of rows))%nat ->
    (nth k (aggregate_series rows gi idx) 0 == qsum (map (fun i => cell rows (nth i gi 0%Z) (nth k (dates_of rows) 0%Z)) idx))%Q.
Proof. exact aggregate_series_spec. Qed.
Theorem C15_aggregate_series_has_one_entry_per_date :
  forall rows gi idx, length (aggregate_series rows gi idx) = length (dates_of rows).
Proof. exact aggregate_series_length. Qed.
Theorem C15_aggregate_share_is_the_sum_of_the_indexed_shares :
  forall rows gi idx,
    aggregate_share rows gi idx = qsum (map (fun i => (geo_mean rows (nth i gi 0%Z) / qsum (map (geo_mean rows) (geos_of rows)))%Q) idx).
Proof. exact aggregate_share_spec. Qed.
Theorem C15_geo_index_accepted_iff_nonempty_and_assignable :
  forall tbl gi, set_geo_index tbl gi = Accept gi <-> (gi <> [] /\ forall g, In g gi -> In g (assignable tbl)).
Proof. exact set_geo_index_spec. Qed.
Print Assumptions C15_aggregate_series_is_the_sum_of_the_indexed_rows.
Print Assumptions C15_geo_index_accepted_iff_nonempty_and_assignable.
Print Assumptions C15_one_row_per_geo.
Print Assumptions C15_columns_distinct_and_chronological.
Print Assumptions C15_rows_are_the_geos_by_decreasing_mean.
Print Assumptions C15_shares_sum_to_one.
Print Assumptions C15_absent_required_geo_is_rejected.
