"""C17 -- design parameters are accepted exactly when in their documented domain.

Proof: props/C17.v (the regenerated field table and check list against a hand-written
documented domain).  Tie: translator target `params` (fields, hints, defaults, the calls of
__post_init__ with their operators and bounds); the three helper methods are hand-modelled and
tied by executed correspondence on a boundary grid with exact values; oracle: the documented
domain evaluated in Python, independently of the model.
"""
import itertools
import math
import random

from . import common
from .common import Check, coq_list

TRUSTED = [
    'Coq 8.16.1 kernel and vm_compute; axioms: none',
    'translator translate/py2v.py (target params): dataclass fields / type hints / defaults / class constants / '
    'the calls made by __post_init__',
    'modelled, not verified: the bodies of _test_value_vs_threshold, _test_value_within_bounds, _test_range, '
    '_is_optional (hand-written in model/Params.v, tied by executed correspondence on the boundary grid); dataclass '
    'machinery (a missing required argument is a TypeError before validation and outside the property)',
    'Python int/float comparison is exact (modelled over Q); booleans are integers',
]

FLOAT_FIELDS = {'iroas': (0.0, True, None), 'volume_ratio_tolerance': (0.0, False, None),
                'geo_ratio_tolerance': (0.0, False, None), 'rho_max': (0.9, True, 1.0), 'sig_level': (0.0, False, 1.0),
                'power_level': (0.0, False, 1.0), 'min_corr': (0.8, True, 1.0), 'flevel': (0.9, True, 1.0)}
INT_FIELDS = {'n_test': 1, 'n_geos_max': 2, 'n_pretest_max': 3, 'n_designs': 1}
OPTIONAL = {'volume_ratio_tolerance', 'geo_ratio_tolerance', 'treatment_share_range', 'budget_range',
            'treatment_geos_range', 'control_geos_range', 'n_geos_max'}
RANGE_FIELDS = {'treatment_share_range': ('float', 0.0, False, 1.0), 'budget_range': ('float', 0.0, True, math.inf),
                'treatment_geos_range': ('int', 1, True, math.inf), 'control_geos_range': ('int', 1, True, math.inf)}
ALL = ['n_test', 'iroas', 'volume_ratio_tolerance', 'geo_ratio_tolerance', 'treatment_share_range', 'budget_range',
       'treatment_geos_range', 'control_geos_range', 'n_geos_max', 'n_pretest_max', 'n_designs', 'sig_level',
       'power_level', 'min_corr', 'rho_max', 'flevel']


def is_num(v):
  return isinstance(v, (int, float))      # bool is an int


def integral(v):
  return is_num(v) and not (isinstance(v, float) and (math.isinf(v) or math.isnan(v))) and int(v) == v


def in_domain(field, v):
  """The documented domain (class docstring), written independently of the code and of the Coq model."""
  if v is None:
    return field in OPTIONAL
  if field in INT_FIELDS:
    return is_num(v) and integral(v) and v >= INT_FIELDS[field]
  if field in FLOAT_FIELDS:
    lo, closed, hi = FLOAT_FIELDS[field]
    if not is_num(v) or v != v:
      return False
    return (v >= lo if closed else v > lo) and (hi is None or v < hi)
  kind, lo, closed, hi = RANGE_FIELDS[field]
  if not (isinstance(v, tuple) and len(v) == 2 and all(is_num(x) for x in v)):
    return False
  a, b = v
  if a != a or b != b:
    return False
  if not ((a >= lo if closed else a > lo) and b < hi):
    return False
  if kind == 'int':
    return a <= b and integral(a) and integral(b)
  return a < b


def neighbours(x):
  if isinstance(x, float) and math.isfinite(x):
    return [math.nextafter(x, -math.inf), x, math.nextafter(x, math.inf)]
  return [x]


def grid(field):
  vals = [None, True, False, 'a', '1', [1, 2], (1,), (1, 2, 3), {'a': 1}, 1j, float('nan'), float('inf'), float('-inf'),
          -1, 0, 1, 2, 3, 4, 90, 10 ** 30, -0.0, 0.5, 1.5, 2.5, 14.0, 3.0, 1e300, 5e-324]
  for b in (0.0, 0.8, 0.9, 0.995, 1.0, 2.0, 3.0):
    vals += neighbours(b)
  if field in RANGE_FIELDS:
    ends = [0, 1, 2, 5, 0.0, 1.0, 0.25, 0.75, 2.5, float('inf'), float('nan'), -1, True, math.nextafter(0.0, 1), math.nextafter(1.0, 0), 1e9]
    vals += [(a, b) for a in ends for b in ends]
    vals += [('a', 1), (1, 'b'), (None, 1), [0.2, 0.5], ((1, 2), 3)]
  return vals


BASE = {'n_test': 14, 'iroas': 1.0}


def construct(kwargs):
  from matched_markets.methodology.tbrmmdesignparameters import TBRMMDesignParameters as P
  try:
    P(**kwargs)
    return 0, ''
  except ValueError as e:
    return 1, str(e)[:100]
  except Exception as e:
    return 2, '%s: %s' % (type(e).__name__, str(e)[:100])


def enc(v):
  if v is None:
    return 'VNone'
  if isinstance(v, bool):
    return 'B %s' % ('true' if v else 'false')
  if isinstance(v, int):
    return 'I (%d)' % v
  if isinstance(v, float):
    if v != v:
      return 'Fnan'
    if v == math.inf:
      return 'Finf'
    if v == -math.inf:
      return 'Fninf'
    a, b = v.as_integer_ratio()
    return 'F (%d) %d' % (a, b)
  if isinstance(v, tuple):
    return 'VTuple %s' % coq_list(['(%s)' % enc(x) for x in v])
  if isinstance(v, list):
    return 'VList %s' % coq_list(['(%s)' % enc(x) for x in v])
  return 'VOther'


PRELUDE = ('From Coq Require Import List String ZArith QArith Bool.\nFrom MM Require Import model.Params harness.RunCommon harness.RunC17.\n'
           'Import ListNotations.\nOpen Scope string_scope.\n')


def run(tier):
  ck = Check('C17', tier)
  ck.prove('props/C17.v', gen_targets=['params'], extra=['harness/RunC17.vo'])
  rng = random.Random(ck.seed * 37 + 17)
  cases = []
  for f in ALL:
    for v in grid(f):
      kw = dict(BASE)
      kw[f] = v
      cases.append(kw)
  # pairs of fields off their defaults (every field x every field in thorough, a sample in quick)
  n_pairs = common.sz(tier, 1500, 60000)
  for _ in range(n_pairs):
    kw = dict(BASE)
    for f in rng.sample(ALL, rng.choice([2, 2, 3, 16])):
      kw[f] = rng.choice(grid(f))
    cases.append(kw)
  dist = {'accept': 0, 'ValueError': 0, 'other': 0}
  terms = []
  for kw in cases:
    code, msg = construct(kw)
    dist[['accept', 'ValueError', 'other'][code]] += 1
    want = all(in_domain(f, kw.get(f, 'default')) for f in ALL if f in kw)
    ck.count(repr(sorted(kw.items(), key=lambda t: t[0])), nontrivial=len(kw) >= 2)
    if code == 2:
      ck.fail('non-ValueError', 'constructing with %r raised %s' % (kw, msg), {'kwargs': repr(kw), 'kw': safe(kw)})
    elif (code == 0) != want:
      ck.fail('domain-mismatch', '%r is %s the documented domain but construction %s' % (
          kw, 'inside' if want else 'outside', 'succeeded' if code == 0 else 'raised ValueError: ' + msg),
              {'kwargs': repr(kw), 'kw': safe(kw)})
    terms.append('(%s, %d%%nat)' % (coq_list(['("%s", %s)' % (f, enc(v)) for f, v in kw.items()]), code))
  # defaults and equality
  from matched_markets.methodology.tbrmmdesignparameters import TBRMMDesignParameters as P
  import dataclasses
  p = P(n_test=14, iroas=1.0)
  doc_defaults = {'volume_ratio_tolerance': None, 'geo_ratio_tolerance': None, 'treatment_share_range': None, 'budget_range': None,
                  'treatment_geos_range': None, 'control_geos_range': None, 'n_geos_max': None, 'n_pretest_max': 90,
                  'n_designs': 1, 'sig_level': 0.9, 'power_level': 0.8, 'min_corr': 0.8, 'rho_max': 0.995, 'flevel': 0.9}
  got = dataclasses.asdict(p)
  for k, v in doc_defaults.items():
    if got.get(k, 'missing') != v:
      ck.fail('defaults', 'default of %s is %r, documented %r' % (k, got.get(k, 'missing'), v), {'field': k})
  for _ in range(200):
    kw1 = dict(BASE)
    f = rng.choice(['n_designs', 'min_corr', 'budget_range', 'n_geos_max', 'sig_level'])
    v = {'n_designs': 3, 'min_corr': 0.9, 'budget_range': (1.0, 2.0), 'n_geos_max': 5, 'sig_level': 0.95}[f]
    a, b, c = P(**kw1), P(**dict(kw1, **{f: v})), P(**dict(kw1, **{f: v}))
    if a == b or not (b == c) or not (a == P(**kw1)):
      ck.fail('equality', 'equality does not compare field values (field %s)' % f, {'field': f})
  ck.sample({'kwargs': repr(cases[40])})
  ck.sample({'kwargs': repr(cases[-1])})
  jobs, shard = [], 220
  for k in range(0, len(terms), shard):
    jobs.append(('c17_%d' % (k // shard), PRELUDE + 'Definition cases : list case := %s.\nEval vm_compute in (mismatches agrees cases).\n'
                 % coq_list(terms[k:k + shard]).replace('; ([', ';\n (['))) 
  res = common.coq_eval_many(jobs)
  bad = []
  for name, (rc, o) in res.items():
    mm = common.parse_nat_list(o) if rc == 0 else None
    if mm is None:
      ck.tie_broken('correspondence', 'model evaluation failed (%s)' % name, o[-1500:])
    else:
      bad += [int(name.split('_')[1]) * shard + i for i in mm]
  if bad:
    i = sorted(bad)[0]
    ck.tie_broken('correspondence', 'TBRMMDesignParameters vs model/Params.v on %d of %d argument sets' % (len(bad), len(cases)),
                  {'kwargs': repr(cases[i]), 'kw': safe(cases[i]), 'impl_outcome': construct(cases[i])})
  ck.cov['rule'] = ('for each of the 16 fields a grid (None, bools, strings, lists, wrong-arity tuples, complex, NaN, +-inf, '
                    'integers, integer-valued and fractional floats, huge values, each documented bound with its two binary64 '
                    'neighbours; for range fields all pairs of 16 end values incl. reversed / equal / non-numeric) with the '
                    'other fields at valid values, plus random argument sets moving 2, 3 or all 16 fields; values are passed '
                    'to the model exactly (ints, exact rationals of the floats). non-trivial: at least one field off default')
  ck.cov['distribution'] = dist
  ck.cov['correspondence'] = {'argument_sets_model_vs_impl': len(terms), 'disagreements': len(bad)}
  ck.assumptions = ['integer-valued floats (14.0) and booleans count as integers, as the code and the docstring read together']
  return ck.finish('proof', TRUSTED)


def safe(kw):
  out = {}
  for k, v in kw.items():
    if isinstance(v, float) and (v != v or math.isinf(v)):
      out[k] = {'float': repr(v)}
    elif isinstance(v, complex) or isinstance(v, dict):
      out[k] = {'repr': repr(v)}
    elif isinstance(v, tuple):
      out[k] = {'tuple': [x if not (isinstance(x, float) and (x != x or math.isinf(x))) else {'float': repr(x)} for x in v]}
    else:
      out[k] = v
  return out


def unsafe(kw):
  def val(v):
    if isinstance(v, dict) and 'float' in v:
      return float(v['float'])
    if isinstance(v, dict) and 'tuple' in v:
      return tuple(val(x) for x in v['tuple'])
    if isinstance(v, dict) and 'repr' in v:
      return eval(v['repr'], {})
    return v
  return {k: val(v) for k, v in kw.items()}


def replay(data):
  inp = data.get('input') or next((b['detail'] for b in data.get('tie_broken', []) if isinstance(b.get('detail'), dict)), None)
  if not isinstance(inp, dict) or 'kw' not in inp:
    print('replay: nothing executable recorded:', [b['name'] for b in data.get('tie_broken', [])])
    return 1
  kw = unsafe(inp['kw'])
  code, msg = construct(kw)
  want = all(in_domain(f, kw[f]) for f in kw)
  print('arguments:', kw)
  print('documented domain:', 'inside' if want else 'outside', '| construction:', ['accepted', 'ValueError ' + msg, 'raised ' + msg][code])
  bad = code == 2 or (code == 0) != want
  print('property failures:', 'yes' if bad else 'none')
  return 1 if bad else 0
