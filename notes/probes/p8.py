import warnings; warnings.filterwarnings('ignore')
import numpy as np, pandas as pd, sys
from matched_markets.methodology import tbrdiagnostics
from p7frame import frame
def run(df, **kw):
    d = tbrdiagnostics.TBRDiagnostics(); d.fit(df, **kw); return d
for seed in range(6):
    rng = np.random.RandomState(seed)
    df = frame(rng, gc=4, gt=3, n_pre=30)
    # plant noisy geo & outlier date
    if seed%2==0:
        df.loc[df.geo==2,'response'] = rng.normal(50,20,(df.geo==2).sum())
    if seed%3==0:
        dt = df.date.unique()[5]; df.loc[(df.date==dt)&(df.group==2),'response'] += 400
    orig = df.copy(deep=True)
    d = run(df, target='response')
    r = d.get_test_results()
    print(seed, 'noisy', r['noisy_geos'], 'outliers', [str(x)[:10] for x in r['outlier_dates']], 'corr_test', r['corr_test'], 'unmodified', df.equals(orig))
    exp = orig[~orig.geo.isin(r['noisy_geos'] or []) & ~orig.date.isin(r['outlier_dates'])]
    got = d.get_data()
    print('   screened equal:', exp.equals(got))
    ad = d.get_analysis_data()
    ex = exp[exp.group==1].groupby('date').response.sum(); ey = exp[exp.group==2].groupby('date').response.sum()
    print('   analysis equal:', np.allclose(ad.x.values, ex.values), np.allclose(ad.y.values, ey.values))
    sh = orig.sample(frac=1.0, random_state=seed)
    d2 = run(sh, target='response'); r2 = d2.get_test_results()
    print('   shuffle-invariant:', sorted(r2['noisy_geos'] or [])==sorted(r['noisy_geos'] or []), sorted(r2['outlier_dates'])==sorted(r['outlier_dates']), r2['corr_test']==r['corr_test'])
