(* k-combinations of a list in itertools.combinations order, binomials, and the
   profile-count lemma used by C11. *)
From Coq Require Import List Arith Lia Bool FinFun.
From MM Require Import lib.ListExtra.
Import ListNotations.

Fixpoint combs {A} (k : nat) (l : list A) : list (list A) :=
  match k, l with
  | O, _ => [[]]
  | S _, [] => []
  | S k', a :: l' => map (cons a) (combs k' l') ++ combs k l'
  end.
Fixpoint binom (n k : nat) : nat :=
  match n, k with
  | _, O => 1 | O, S _ => 0 | S n', S k' => binom n' k' + binom n' k end.
Definition cnt {A} (p : A -> bool) (l : list A) := length (filter p l).

Lemma binom_n_0 n : binom n 0 = 1. Proof. destruct n; reflexivity. Qed.
Lemma binom_gt n : forall k, n < k -> binom n k = 0.
Proof. induction n as [|n IH]; intros [|k] H; try lia; cbn; [reflexivity|]. rewrite !IH by lia. reflexivity. Qed.

Lemma combs_length {A} (l : list A) : forall k, length (combs k l) = binom (length l) k.
Proof.
  induction l as [|a l IH]; intros [|k]; cbn; try reflexivity.
  rewrite app_length, map_length, !IH. reflexivity.
Qed.
Lemma combs_elem_length {A} (l : list A) : forall k c, In c (combs k l) -> length c = k.
Proof.
  induction l as [|b l IH]; intros [|k] c; cbn.
  - intros [<-|[]]; reflexivity.
  - intros [].
  - intros [<-|[]]; reflexivity.
  - rewrite in_app_iff, in_map_iff. intros [[c' [<- Hc']]|Hc]; cbn; auto.
Qed.

(* sublist (order-preserving sub-sequence) *)
Inductive sublist {A} : list A -> list A -> Prop :=
| sub_nil : forall l, sublist [] l
| sub_take : forall a c l, sublist c l -> sublist (a :: c) (a :: l)
| sub_skip : forall a c l, sublist c l -> sublist c (a :: l).

Lemma combs_sublist {A} (l : list A) : forall k c, In c (combs k l) -> sublist c l.
Proof.
  induction l as [|a l IH]; intros [|k] c; cbn.
  - intros [<-|[]]; constructor.
  - intros [].
  - intros [<-|[]]; constructor.
  - rewrite in_app_iff, in_map_iff. intros [[c' [<- Hc']]|Hc].
    + apply sub_take. eapply IH; exact Hc'.
    + apply sub_skip. eapply IH; exact Hc.
Qed.
Lemma sublist_combs {A} (c l : list A) : sublist c l -> In c (combs (length c) l).
Proof.
  induction 1 as [l|a c l H IH|a c l H IH].
  - destruct l; left; reflexivity.
  - cbn. apply in_or_app. left. apply in_map. exact IH.
  - destruct c as [|b c]; [left; reflexivity|]. cbn. apply in_or_app. right. exact IH.
Qed.
Lemma sublist_In {A} (c l : list A) : sublist c l -> forall x, In x c -> In x l.
Proof. induction 1; intros x Hx; [destruct Hx| destruct Hx as [<-|Hx]; [left; reflexivity|right; auto] | right; auto]. Qed.
Lemma sublist_NoDup {A} (c l : list A) : sublist c l -> NoDup l -> NoDup c.
Proof.
  induction 1 as [l|a c l H IH|a c l H IH]; intro Hl; [constructor| |].
  - inversion Hl; subst. constructor; [|auto]. intro Hin. eapply sublist_In in Hin; [|exact H]. contradiction.
  - inversion Hl; subst. auto.
Qed.
Lemma combs_In {A} (l : list A) k c x : In c (combs k l) -> In x c -> In x l.
Proof. intros Hc Hx. eapply sublist_In; [eapply combs_sublist; exact Hc|exact Hx]. Qed.
Lemma combs_NoDup_elem {A} (l : list A) k c : NoDup l -> In c (combs k l) -> NoDup c.
Proof. intros Hl Hc. eapply sublist_NoDup; [eapply combs_sublist; exact Hc|exact Hl]. Qed.

(* distinct combinations are distinct lists when the base list has no duplicates *)
Lemma combs_NoDup {A} (l : list A) : NoDup l -> forall k, NoDup (combs k l).
Proof.
  induction l as [|a l IH]; intros Hl [|k]; cbn.
  - constructor; [intros []|constructor].
  - constructor.
  - constructor; [intros []|constructor].
  - inversion Hl as [|? ? Ha Hl']; subst.
    apply NoDup_app_intro.
    + apply FinFun.Injective_map_NoDup; [intros x y E; congruence|apply IH; assumption].
    + apply IH; assumption.
    + intros c H1 H2. apply in_map_iff in H1. destruct H1 as [c' [<- _]].
      apply Ha. eapply combs_In; [exact H2|left; reflexivity].
Qed.

Section Split.
  Context {A : Type} (p : A -> bool).
  Definition prof (i : nat) (c : list A) : bool := cnt p c =? i.

  Lemma filter_map_cons a (f g : list A -> bool) l :
    (forall c, f (a :: c) = g c) -> length (filter f (map (cons a) l)) = length (filter g l).
  Proof. intro H. induction l as [|c l IH]; cbn; [reflexivity|]. rewrite H. destruct (g c); cbn; rewrite IH; reflexivity. Qed.
  Lemma filter_false {B} (l0 : list B) : length (filter (fun _ => false) l0) = 0.
  Proof. induction l0; auto. Qed.
  Lemma prof_cons_t a c i : p a = true -> prof (S i) (a :: c) = prof i c.
  Proof. intro Pa. unfold prof, cnt. cbn [filter]. rewrite Pa. reflexivity. Qed.
  Lemma prof_cons_t0 a c : p a = true -> prof 0 (a :: c) = false.
  Proof. intro Pa. unfold prof, cnt. cbn [filter]. rewrite Pa. reflexivity. Qed.
  Lemma prof_cons_f a c i : p a = false -> prof i (a :: c) = prof i c.
  Proof. intro Pa. unfold prof, cnt. cbn [filter]. rewrite Pa. reflexivity. Qed.
  Lemma cnt_cons_t (q : A -> bool) a l : q a = true -> cnt q (a :: l) = S (cnt q l).
  Proof. intro H; unfold cnt; cbn [filter]; rewrite H; reflexivity. Qed.
  Lemma cnt_cons_f (q : A -> bool) a l : q a = false -> cnt q (a :: l) = cnt q l.
  Proof. intro H; unfold cnt; cbn [filter]; rewrite H; reflexivity. Qed.
  Lemma cnt_le (q : A -> bool) l : cnt q l <= length l.
  Proof. unfold cnt. induction l as [|a l IH]; cbn; [lia|]. destruct (q a); cbn; lia. Qed.

  (* number of k-subsets with exactly i elements satisfying p *)
  Lemma combs_profile l : forall k i, i <= k ->
    length (filter (prof i) (combs k l)) =
    binom (cnt p l) i * binom (cnt (fun a => negb (p a)) l) (k - i).
  Proof.
    induction l as [|a l IH]; intros k i Hik.
    - destruct k as [|k]; cbn.
      + assert (i = 0) by lia; subst; reflexivity.
      + destruct i; reflexivity.
    - destruct k as [|k].
      + assert (i = 0) by lia; subst. cbn. rewrite !binom_n_0. reflexivity.
      + cbn [combs]. rewrite filter_app, app_length.
        destruct (p a) eqn:Pa.
        * rewrite (cnt_cons_t p a l Pa), (cnt_cons_f (fun a => negb (p a)) a l) by (rewrite Pa; reflexivity).
          destruct i as [|i].
          -- rewrite (filter_map_cons a _ (fun _ => false)) by (intro c; apply prof_cons_t0; exact Pa).
             rewrite filter_false, (IH (S k) 0) by lia. rewrite !binom_n_0. reflexivity.
          -- rewrite (filter_map_cons a _ (prof i)) by (intro c; apply prof_cons_t; exact Pa).
             rewrite (IH k i), (IH (S k) (S i)) by lia.
             cbn [binom]. replace (S k - S i) with (k - i) by lia. ring.
        * rewrite (cnt_cons_f p a l Pa), (cnt_cons_t (fun a => negb (p a)) a l) by (rewrite Pa; reflexivity).
          rewrite (filter_map_cons a _ (prof i)) by (intro c; apply prof_cons_f; exact Pa).
          destruct (Nat.eq_dec i (S k)) as [->|Hne].
          -- rewrite Nat.sub_diag, binom_n_0, (IH (S k) (S k)) by lia.
             rewrite Nat.sub_diag, binom_n_0.
             assert (Z0 : length (filter (prof (S k)) (combs k l)) = 0).
             { pose proof (combs_elem_length l k) as G.
               induction (combs k l) as [|c cs IHc]; [reflexivity|].
               cbn [filter]. unfold prof at 1.
               pose proof (cnt_le p c) as Hle. rewrite (G c) in Hle by (left; reflexivity).
               destruct (Nat.eqb_spec (cnt p c) (S k)); [lia|]. apply IHc. intros; apply G; right; assumption. }
             rewrite Z0. lia.
          -- rewrite (IH k i), (IH (S k) i) by lia.
             replace (S k - i) with (S (k - i)) by lia. cbn [binom]. ring.
  Qed.
End Split.

(* more facts about sub-sequences *)
Lemma sublist_refl {A} (l : list A) : sublist l l.
Proof. induction l; constructor; assumption. Qed.
Lemma sublist_app {A} (a b c d : list A) : sublist a b -> sublist c d -> sublist (a ++ c) (b ++ d).
Proof.
  intros H1 H2. induction H1 as [l|x a' l H IH|x a' l H IH]; cbn.
  - induction l as [|y l IHl]; cbn; [exact H2|apply sub_skip; exact IHl].
  - apply sub_take. exact IH.
  - apply sub_skip. exact IH.
Qed.
Lemma sublist_map {A B} (f : A -> B) (a b : list A) : sublist a b -> sublist (map f a) (map f b).
Proof. induction 1; cbn; constructor; assumption. Qed.
Lemma sublist_length {A} (a b : list A) : sublist a b -> length a <= length b.
Proof. induction 1; cbn; lia. Qed.
Lemma sublist_filter_l {A} (p : A -> bool) (l : list A) : sublist (filter p l) l.
Proof. induction l as [|a l IH]; cbn; [constructor|]. destruct (p a); constructor; exact IH. Qed.
