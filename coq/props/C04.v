(* C04 -- Diagnostics and score attached to a design belong to its reported geos.
   Object-level model of the exhaustive search's diagnostics handling: ONE diagnostics object per
   treatment group is reused and overwritten for every control group, stored designs hold deep
   copies.  The numeric half of the property (series = sums over the reported geos in the most
   recent window; values = recomputation from those series) is decided by the executed oracle. *)
From Coq Require Import List Arith Bool.
From MM Require Import lib.ListSet model.DesignStore proofs.DesignStoreProofs.
Import ListNotations.
From MM Require Import gen.Gen_HeapDict gen.Gen_Exhaustive gen.Gen_Greedy gen.Gen_Results proofs.ExhaustiveBridge proofs.GreedyBridge proofs.ResultsBridge.

(* whatever the filters keep and whatever the enumeration order: at the end of the search every
   stored design's two diagnostics objects (the one in its score and its own) hold the series
   aggregated from exactly its own treatment and control group, and no object is shared *)
Theorem C04_stored_diagnostics_belong_to_design :
  forall (keep : set -> set -> bool) (work : list (set * list set)),
    let st := exhaustive_store keep work in
    (forall d, In d (snd st) ->
       holds (fst st) (sd_diag d) (sd_T d) (sd_C d) /\ holds (fst st) (sd_score_diag d) (sd_T d) (sd_C d)) /\
    NoDup (refs (snd st)).
Proof.
  intros keep work. destruct (exhaustive_store_well keep work) as [H1 H2]. split; [|exact H2].
  intros d Hd. destruct (H1 d Hd) as [_ [_ [H3 H4]]]. split; assumption.
Qed.
Print Assumptions C04_stored_diagnostics_belong_to_design.

(* without the deep copy the statement is false: the reused object is overwritten *)
Example C04_aliasing_would_break :
  let s := update (fst (alloc [] {| o_y := [0]; o_x := None |})) 0 {| o_y := [0]; o_x := Some [1] |} in
  let stored := 0 in                                   (* a design for control {1} keeping a reference, not a copy *)
  let s' := update s 0 {| o_y := [0]; o_x := Some [2] |} in
  ~ holds s' stored [0] [1].
Proof. cbv. intro H. discriminate. Qed.

From Coq Require Import ZArith.
From MM Require Import lib.Values model.Heap model.Elig model.SearchParams model.SearchDefs model.Search gen.Gen_HeapDict gen.Gen_Exhaustive proofs.ExhaustiveBridge.
(* stated on the Gallina regenerated on this run from exhaustive_search itself (gen/Gen_Exhaustive.v) *)
(* every design stored by the translated code carries the series of exactly its own groups (its diagnostics
   object is a deep copy taken after the control series was installed) and the score of those groups *)
Theorem C04_translated_exhaustive_search_designs_own_their_diagnostics :
  forall (V K : Type) (O : vops V) (ltk : K -> K -> bool) (es : list elig) (par : spar V)
         (shareS optB : set -> V) (bud : set -> set -> V) (score0 : set -> set -> K) (replace_inv : K -> V -> K) d,
    In d (dd_get (gen_exhaustive_search O ltk (assignments_of es) par shareS optB bud score0 replace_inv) 0%Z) ->
    snd d = snd (fst d) /\
    fst (fst d) = stored_key O par bud score0 replace_inv (fst (snd (fst d))) (snd (snd (fst d))).
Proof. intros. eapply gen_exhaustive_designs_own_their_diag; eassumption. Qed.
Print Assumptions C04_translated_exhaustive_search_designs_own_their_diagnostics.

(* stated on the Gallina regenerated on this run from _greedy_search itself (gen/Gen_Greedy.v) *)
Theorem C04_translated_greedy_search_designs_own_their_diagnostics :
  forall (V K : Type) (O : vops V) (ltk : K -> K -> bool) (es : list elig) (par : spar V)
         (shareS : set -> V) (bud : set -> set -> V) (gkey : set -> set -> K) (zero_key : K) (fuel : nat) r d,
    gen_greedy_search O ltk (assignments_of es) par shareS bud gkey zero_key fuel = Some r -> In d (dd_get r 0%Z) ->
    snd d = snd (fst d) /\ fst (fst d) = gkey (fst (snd (fst d))) (snd (snd (fst d))).
Proof. intros. eapply gen_greedy_designs_own_their_diag; eassumption. Qed.
Print Assumptions C04_translated_greedy_search_designs_own_their_diagnostics.

(* after the index -> ID translation of search_results (regenerated): the diagnostics object of a returned design
   holds the series of exactly the index sets whose geo IDs the design reports, and its score is theirs *)
Theorem C04_translated_exhaustive_results_diagnostics_match_reported_ids :
  forall (V K G : Type) (O : vops V) (ltk : K -> K -> bool) (es : list elig) (par : spar V)
         (shareS optB : set -> V) (bud : set -> set -> V) (score0 : set -> set -> K) (replace_inv : K -> V -> K)
         (geo_id : nat -> G) o,
    In o (ResultsBridge.ids_of geo_id (gen_exhaustive_search O ltk (assignments_of es) par shareS optB bud score0 replace_inv)) ->
    fst (snd (fst o)) = map geo_id (fst (snd o)) /\ snd (snd (fst o)) = map geo_id (snd (snd o)) /\
    fst (fst o) = stored_key O par bud score0 replace_inv (fst (snd o)) (snd (snd o)).
Proof.
  intros until o. intro Ho. destruct (ResultsBridge.ids_of_groups geo_id _ o Ho) as [d [Hd [H1 [H2 [H3 H4]]]]].
  destruct (gen_exhaustive_designs_own_their_diag O ltk _ par shareS optB bud score0 replace_inv d Hd) as [E1 E2].
  rewrite H4, E1. unfold dgroups in *. repeat split; try assumption. rewrite H3. exact E2.
Qed.
Print Assumptions C04_translated_exhaustive_results_diagnostics_match_reported_ids.

(* the score tuple (tbrmmscore.py, regenerated on every run into gen/Gen_Score.v) is made, in the documented order, of the
   four test verdicts, round(corr, 2) and 1 / required_impact of the diagnostics object the score holds -- which the
   theorems above show to be the design's own; its fields carry the documented names *)
From Coq Require Import String.
From MM Require Import lib.PyScore gen.Gen_Score proofs.ScoreOrder.
Theorem C04_score_tuple_is_the_documented_function_of_its_diagnostics : gen_score_tuple = documented_score.
Proof. exact gen_score_is_documented. Qed.
Theorem C04_score_fields_are_the_documented_ones :
  gen_score_fields = ["corr_test"; "aa_test"; "bb_test"; "dw_test"; "corr"; "inv_required_impact"]%string.
Proof. exact gen_score_fields_documented. Qed.
Print Assumptions C04_score_tuple_is_the_documented_function_of_its_diagnostics.
