(* C11 -- count_max_designs equals the size of the enumerated design space. *)
From Coq Require Import List Arith ZArith Bool PrimFloat.
From MM Require Import lib.ListSet lib.Combi lib.Values model.Heap model.Elig model.SearchParams model.SearchDefs model.Search
  gen.Gen_Search proofs.EligProofs proofs.GroupSpecs proofs.SearchBridge proofs.CountProofs proofs.ExhaustiveProofs.
Import ListNotations.
From MM Require Import gen.Gen_HeapDict gen.Gen_Exhaustive proofs.ExhaustiveBridge.

(* the fast count is exactly the number of pairs produced by the generators ... *)
Theorem C11_count_is_enumeration_size :
  forall (V : Type) (O : vops V) (es : list elig) (par : spar V),
    count O (assignments_of es) par = Z.of_nat (length (enum_pairs O (assignments_of es) par)).
Proof. exact @count_eq_enum. Qed.
(* ... which are pairwise distinct ... *)
Theorem C11_enumeration_distinct :
  forall (V : Type) (O : vops V) (es : list elig) (par : spar V),
    NoDup (enum_pairs O (assignments_of es) par).
Proof. exact @enum_pairs_NoDup. Qed.
(* ... and are exactly the valid assignments: treatment group containing the fixed-treatment geos,
   inside the treatment-eligible geos, of admissible size; control group containing the fixed-control
   geos and every control-or-treatment geo not treated, inside the control-eligible geos outside T,
   of a size admitted by the range and the geo-ratio tolerance *)
Theorem C11_enumeration_sound :
  forall (V : Type) (O : vops V) (es : list elig) (par : spar V) T C,
    In (T, C) (enum_pairs O (assignments_of es) par) ->
    In (zlen T) (tsize_range (assignments_of es) par) /\ is_treat_group es (zlen T) T /\ is_control_group O es par T C.
Proof. exact @enum_pairs_sound. Qed.
Theorem C11_enumeration_complete :
  forall (V : Type) (O : vops V) (es : list elig) (par : spar V) S R,
    In (zlen S) (tsize_range (assignments_of es) par) -> is_treat_group es (zlen S) S -> is_control_group O es par S R ->
    exists T C, In (T, C) (enum_pairs O (assignments_of es) par) /\ same_set T S /\ same_set C R.
Proof. exact @enum_pairs_complete. Qed.
Theorem C11_valid_assignments_are_legal :
  forall (V : Type) (O : vops V) (es : list elig) (par : spar V) T C,
    In (T, C) (enum_pairs O (assignments_of es) par) -> legal es T C.
Proof. intros V O es par T C. exact (enum_pairs_legal es O par T C). Qed.
(* the count bounds the number of designs the exhaustive search scores and pushes *)
Theorem C11_count_bounds_exhaustive :
  forall (V : Type) (O : vops V) (es : list elig) (par : spar V)
         (shareS optB : set -> V) (bud : set -> set -> V),
    (Z.of_nat (length (pushed O es par shareS optB bud)) <= count O (assignments_of es) par)%Z.
Proof.
  intros. rewrite count_eq_enum. apply Nat2Z.inj_le, sublist_length, pushed_sublist.
Qed.

(* tie: the translated loop nest, size generators and group generators are the model *)
Theorem C11_generated_count :
  forall (V : Type) (O : vops V) A (par : spar V), gen_count_max_designs O A par = count O A par.
Proof. exact @bridge_count. Qed.
Theorem C11_generated_tsize : forall (V : Type) A (par : spar V), gen_treatment_group_size_range A par = tsize_range A par.
Proof. exact @bridge_tsize_range. Qed.
Theorem C11_generated_csizes :
  forall (V : Type) (O : vops V) A (par : spar V) nt, gen_control_group_size_generator O A par nt = csizes O A par nt.
Proof. exact @bridge_csizes. Qed.

Print Assumptions C11_count_is_enumeration_size.
Print Assumptions C11_enumeration_distinct.
Print Assumptions C11_enumeration_sound.
Print Assumptions C11_enumeration_complete.
Print Assumptions C11_count_bounds_exhaustive.
Print Assumptions C11_generated_count.

(* non-vacuity: 5 geos of mixed types, free size ranges, ratio tolerance 1 *)
Example C11_example :
  let es := [ {|ec:=true;et:=true;ex:=true|}; {|ec:=true;et:=false;ex:=false|}; {|ec:=false;et:=true;ex:=true|};
              {|ec:=true;et:=true;ex:=false|}; {|ec:=true;et:=false;ex:=true|} ] in
  let par := {| p_treatment_geos_range := None; p_control_geos_range := None; p_geo_ratio_tolerance := Some 1%float;
                p_volume_ratio_tolerance := None; p_treatment_share_range := None; p_budget_range := None;
                p_n_geos_max := None; p_n_designs := 1; p_iroas := 1%float |} in
  (count FloatOps (assignments_of es) par, length (enum_pairs FloatOps (assignments_of es) par)) = (14%Z, 14%nat).
Proof. vm_compute. reflexivity. Qed.

(* stated on the Gallina regenerated on this run from exhaustive_search itself (gen/Gen_Exhaustive.v) *)
Theorem C11_count_bounds_translated_exhaustive_search :
  forall (V K : Type) (O : vops V) (ltk : K -> K -> bool) (es : list elig) (par : spar V)
         (shareS optB : set -> V) (bud : set -> set -> V) (score0 : set -> set -> K) (replace_inv : K -> V -> K),
    (Z.of_nat (length (dd_get (gen_exhaustive_search O ltk (assignments_of es) par shareS optB bud score0 replace_inv) 0%Z)) <= count O (assignments_of es) par)%Z.
Proof.
  intros. rewrite <- (map_length (@des_groups K)), gen_exhaustive_groups.
  etransitivity; [|apply C11_count_bounds_exhaustive with (shareS := shareS) (optB := optB) (bud := bud)].
  apply Nat2Z.inj_le. apply exhaustive_length_le_pushed.
Qed.
Print Assumptions C11_count_bounds_translated_exhaustive_search.
