(* The exhaustive search (model/Search.v): what it pushes (sound and complete up to
   the documented pruning), and that it returns the top k of what it pushes. *)
From Coq Require Import List Arith ZArith Bool Lia PrimFloat Orders Sorting.Permutation.
From MM Require Import lib.ListExtra lib.ListSet lib.Combi lib.Values model.Heap model.Elig model.SearchParams
  model.SearchDefs model.Search proofs.EligProofs proofs.GroupSpecs proofs.HeapGen proofs.HeapProofs.
Import ListNotations.
Open Scope Z_scope.

Lemma fold_cond_push {A B} (push : list B -> B -> list B) (bad : A -> bool) (f : A -> B) l : forall h,
  fold_left (fun h x => if bad x then h else push h (f x)) l h
  = fold_left push (map f (filter (fun x => negb (bad x)) l)) h.
Proof.
  induction l as [|x l IH]; intro h; cbn; [reflexivity|].
  destruct (bad x); cbn; apply IH.
Qed.

Section Exh.
  Context {V K : Type} (O : vops V) (ltk : K -> K -> bool).
  Variables (es : list elig) (par : spar V).
  Variables (shareS optB : set -> V) (bud : set -> set -> V) (skey : set -> set -> K).
  Let A := assignments_of es.
  Notation pushd := (push ltk (ekey skey) (p_n_designs par)).
  Notation vol_out := (vol_out O par shareS).
  Notation budget_out := (budget_out O par).
  Notation share_out := (share_out O par shareS).
  Notation decide := (decide O par shareS optB).
  Notation control_groups := (control_groups O A par).

  Definition keep (T C : set) : bool := negb (vol_out T C) && negb (budget_out (bud T C)).
  Definition evaluated_pairs (T : set) : list design := map (pair T) (filter (keep T) (control_groups T)).

  Lemma eval_controls_fold T h :
    eval_controls O ltk A par shareS bud skey T h = fold_left pushd (evaluated_pairs T) h.
  Proof.
    unfold eval_controls, evaluated_pairs.
    rewrite (fold_ext _ (fun h C => if negb (keep T C) then h else pushd h (T, C))).
    - rewrite (fold_cond_push pushd (fun C => negb (keep T C)) (pair T)).
      f_equal. f_equal. apply filter_ext. intro C. apply negb_involutive.
    - intros h' C. unfold keep. destruct (vol_out T C); [reflexivity|]. destruct (budget_out (bud T C)); reflexivity.
  Qed.

  (* the same walk, recording what is pushed instead of pushing it *)
  Definition step_trace (save : bool) (st : list set * list design) (T : set) : list set * list design :=
    match decide save (fst st) T with
    | Skip => st
    | SkipAndStore => (fst st ++ [T], snd st)
    | Eval => (fst st, snd st ++ evaluated_pairs T)
    end.
  Definition walk (step : bool -> list set * list design -> set -> list set * list design)
             (last_size : Z) (sizes : list Z) (st : list set * list design) :=
    fold_left (fun st n => fold_left (step (negb (n =? last_size))) (treat_groups A n) st) sizes st.
  Definition last_size : Z := last (tsize_range A par) 0.
  Definition exh_trace := walk step_trace last_size (tsize_range A par) ([], []).
  Definition pushed : list design := snd exh_trace.

  Definition rel (st st' : list set * list design) : Prop :=
    fst st = fst st' /\ snd st = fold_left pushd (snd st') [].

  Lemma step_rel save st st' T : rel st st' ->
    rel (step_T O ltk A par shareS optB bud skey save st T) (step_trace save st' T).
  Proof.
    intros [H1 H2]. unfold step_T, step_trace. rewrite H1.
    destruct (decide save (fst st') T); split; cbn [fst snd]; try assumption; try congruence.
    rewrite eval_controls_fold, fold_left_app, H2. reflexivity.
  Qed.
  Lemma walk_rel ls sizes : forall st st', rel st st' ->
    rel (walk (step_T O ltk A par shareS optB bud skey) ls sizes st) (walk step_trace ls sizes st').
  Proof.
    unfold walk. induction sizes as [|n sizes IH]; intros st st' H; cbn [fold_left]; [exact H|].
    apply IH. generalize (treat_groups A n). intro l. revert st st' H.
    induction l as [|T l IHl]; intros st st' H; cbn [fold_left]; [exact H|].
    apply IHl. apply step_rel. exact H.
  Qed.

  Theorem exh_heap_is_fold : snd (exh_state O ltk A par shareS optB bud skey) = fold_left pushd pushed [].
  Proof.
    unfold exh_state, pushed, exh_trace. cbv zeta.
    pose proof (walk_rel last_size (tsize_range A par) ([], []) ([], [])) as H.
    destruct H as [_ H]; [split; reflexivity|]. exact H.
  Qed.
  Corollary exhaustive_is_topk_of_pushed :
    exhaustive O ltk A par shareS optB bud skey = nlargest_all ltk (ekey skey) (fold_left pushd pushed []).
  Proof. unfold exhaustive. rewrite exh_heap_is_fold. reflexivity. Qed.

  (* ---------- soundness: everything pushed is an enumerated pair that passed every filter ---------- *)
  Definition passed (d : design) : Prop :=
    In d (enum_pairs O A par) /\ vol_out (fst d) (snd d) = false /\
    budget_out (bud (fst d) (snd d)) = false /\ share_out (fst d) = false.

  Lemma decide_eval_share save pats T : decide save pats T = Eval -> share_out T = false.
  Proof.
    unfold Search.decide, Search.share_out. destruct (p_treatment_share_range par) as [r|]; [|reflexivity].
    destruct (vltb O (snd r) (shareS T) || vltb O (shareS T) (fst r)); [discriminate|reflexivity].
  Qed.

  Lemma step_trace_sound save st T n :
    In n (tsize_range A par) -> In T (treat_groups A n) ->
    Forall passed (snd st) -> Forall passed (snd (step_trace save st T)).
  Proof.
    intros Hn HT H. unfold step_trace. destruct (decide save (fst st) T) eqn:E; cbn [snd]; try exact H.
    apply Forall_app. split; [exact H|]. apply Forall_forall. intros d Hd.
    unfold evaluated_pairs in Hd. apply in_map_iff in Hd. destruct Hd as [C [<- HC]].
    apply filter_In in HC. destruct HC as [HC Hk]. unfold keep in Hk. apply andb_true_iff in Hk.
    destruct Hk as [Hk1 Hk2]. apply negb_true_iff in Hk1, Hk2.
    split; [|split; [exact Hk1|split; [exact Hk2|eapply decide_eval_share; exact E]]].
    unfold enum_pairs. apply in_flat_map. exists n. split; [exact Hn|].
    apply in_flat_map. exists T. split; [exact HT|]. apply in_map. exact HC.
  Qed.
  Lemma walk_sound ls sizes : incl sizes (tsize_range A par) -> forall st,
    Forall passed (snd st) -> Forall passed (snd (walk step_trace ls sizes st)).
  Proof.
    unfold walk. induction sizes as [|n sizes IH]; intros Hi st H; cbn [fold_left]; [exact H|].
    apply IH; [intros x Hx; apply Hi; right; exact Hx|].
    assert (Hn : In n (tsize_range A par)) by (apply Hi; left; reflexivity).
    assert (G : forall l, incl l (treat_groups A n) -> forall st, Forall passed (snd st) ->
                Forall passed (snd (fold_left (step_trace (negb (n =? ls))) l st))).
    { induction l as [|T l IHl]; intros Hl st0 H0; cbn [fold_left]; [exact H0|].
      apply IHl; [intros x Hx; apply Hl; right; exact Hx|].
      eapply step_trace_sound; [exact Hn|apply Hl; left; reflexivity|exact H0]. }
    apply G; [apply incl_refl|exact H].
  Qed.
  Theorem pushed_sound d : In d pushed -> passed d.
  Proof.
    intro H. unfold pushed, exh_trace in H.
    pose proof (walk_sound last_size (tsize_range A par) (incl_refl _) ([], []) (Forall_nil _)) as G.
    rewrite Forall_forall in G. apply G. exact H.
  Qed.

  (* ---------- completeness up to the documented pruning ---------- *)
  Notation iroas := (p_iroas par).
  (* optimistic budget of a treatment group above the maximum / below the minimum *)
  Definition opt_over (T : set) : bool :=
    match p_budget_range par with Some r => vltb O (snd r) (vdiv O (optB T) iroas) | None => false end.
  Definition opt_under (T : set) : bool :=
    match p_budget_range par with Some r => vltb O (vdiv O (optB T) iroas) (fst r) | None => false end.
  Definition stored_ok (P : set) : Prop :=
    exists n, In n (tsize_range A par) /\ In P (treat_groups A n) /\ opt_over P = true.

  Lemma step_trace_pats save st T n :
    In n (tsize_range A par) -> In T (treat_groups A n) ->
    Forall stored_ok (fst st) -> Forall stored_ok (fst (step_trace save st T)).
  Proof.
    intros Hn HT H. unfold step_trace. destruct (decide save (fst st) T) eqn:E; cbn [fst]; try exact H.
    apply Forall_app. split; [exact H|]. constructor; [|constructor].
    exists n. split; [exact Hn|split; [exact HT|]].
    unfold Search.decide, Search.budget_decision in E. unfold opt_over.
    destruct (p_budget_range par) as [r|].
    - destruct (vltb O (snd r) (vdiv O (optB T) iroas)); [reflexivity|].
      destruct (p_treatment_share_range par);
        repeat match type of E with context [if ?b then _ else _] => destruct b end; congruence.
    - destruct (p_treatment_share_range par);
        repeat match type of E with context [if ?b then _ else _] => destruct b end; congruence.
  Qed.
  Lemma step_trace_mono save st T d : In d (snd st) -> In d (snd (step_trace save st T)).
  Proof.
    intro H. unfold step_trace. destruct (decide save (fst st) T); cbn [snd]; try exact H.
    apply in_or_app. left. exact H.
  Qed.
  Lemma inner_mono save l : forall st d, In d (snd st) -> In d (snd (fold_left (step_trace save) l st)).
  Proof. induction l as [|T l IH]; intros st d H; cbn [fold_left]; [exact H|]. apply IH, step_trace_mono, H. Qed.
  Lemma inner_pats save l n : In n (tsize_range A par) -> incl l (treat_groups A n) -> forall st,
    Forall stored_ok (fst st) -> Forall stored_ok (fst (fold_left (step_trace save) l st)).
  Proof.
    intros Hn. induction l as [|T l IH]; intros Hl st H; cbn [fold_left]; [exact H|].
    apply IH; [intros x Hx; apply Hl; right; exact Hx|].
    eapply step_trace_pats; [exact Hn|apply Hl; left; reflexivity|exact H].
  Qed.
  Lemma walk_mono ls sizes : forall st d, In d (snd st) -> In d (snd (walk step_trace ls sizes st)).
  Proof.
    unfold walk. induction sizes as [|n sizes IH]; intros st d H; cbn [fold_left]; [exact H|].
    apply IH, inner_mono, H.
  Qed.
  Lemma walk_pats ls sizes : incl sizes (tsize_range A par) -> forall st,
    Forall stored_ok (fst st) -> Forall stored_ok (fst (walk step_trace ls sizes st)).
  Proof.
    unfold walk. induction sizes as [|n sizes IH]; intros Hi st H; cbn [fold_left]; [exact H|].
    apply IH; [intros x Hx; apply Hi; right; exact Hx|].
    apply (inner_pats _ _ n); [apply Hi; left; reflexivity|apply incl_refl|exact H].
  Qed.

  (* a treatment group is evaluated when nothing allows pruning it *)
  Definition not_prunable (T : set) : Prop :=
    share_out T = false /\ opt_over T = false /\ opt_under T = false /\
    (p_treatment_share_range par = None ->
     forall P, stored_ok P -> subset P T = false).

  Lemma decide_eval save pats T : Forall stored_ok pats -> not_prunable T -> decide save pats T = Eval.
  Proof.
    intros Hp [H1 [H2 [H3 H4]]]. unfold Search.decide, Search.budget_decision.
    unfold opt_over, opt_under in *.
    assert (Hb : match p_budget_range par with
                 | Some r => if vltb O (snd r) (vdiv O (optB T) iroas) then (if save then SkipAndStore else Eval)
                             else if vltb O (vdiv O (optB T) iroas) (fst r) then Skip else Eval
                 | None => Eval end = Eval).
    { destruct (p_budget_range par) as [r|]; [|reflexivity]. rewrite H2, H3. reflexivity. }
    destruct (p_treatment_share_range par) as [r|] eqn:Es.
    - unfold Search.share_out in H1. rewrite Es in H1. unfold Search.share_out. rewrite Es, H1. exact Hb.
    - assert (Hs : subsumed pats T = false).
      { unfold subsumed. apply not_true_is_false. intro Hex. apply existsb_exists in Hex.
        destruct Hex as [P [HP Hsub]]. rewrite Forall_forall in Hp.
        rewrite (H4 eq_refl P (Hp P HP)) in Hsub. discriminate. }
      rewrite Hs. exact Hb.
  Qed.

  Theorem pushed_complete T C :
    In (T, C) (enum_pairs O A par) -> vol_out T C = false -> budget_out (bud T C) = false ->
    not_prunable T -> In (T, C) pushed.
  Proof.
    intros Hin Hv Hb Hnp. unfold enum_pairs in Hin. apply in_flat_map in Hin. destruct Hin as [n [Hn Hin]].
    apply in_flat_map in Hin. destruct Hin as [T' [HT Hin]]. apply in_map_iff in Hin.
    destruct Hin as [C' [E HC]]. injection E as -> ->.
    destruct (in_split _ _ Hn) as [s1 [s2 Hs]]. destruct (in_split _ _ HT) as [l1 [l2 Hl]].
    unfold pushed, exh_trace. rewrite Hs. unfold walk. rewrite fold_left_app. cbn [fold_left].
    fold (walk step_trace last_size s1 ([], [])). fold (walk step_trace last_size s2).
    apply walk_mono. rewrite Hl, fold_left_app. cbn [fold_left]. apply inner_mono.
    set (st := fold_left _ l1 _).
    assert (Hpats : Forall stored_ok (fst st)).
    { unfold st. apply (inner_pats _ _ n); [exact Hn|rewrite Hl; apply incl_appl, incl_refl|].
      apply walk_pats; [rewrite Hs; apply incl_appl, incl_refl|constructor]. }
    unfold step_trace. rewrite (decide_eval _ _ _ Hpats Hnp). cbn [snd]. apply in_or_app. right.
    unfold evaluated_pairs. apply in_map. apply filter_In. split; [exact HC|].
    unfold keep. rewrite Hv, Hb. reflexivity.
  Qed.

  (* what is pushed is an order-preserving sub-sequence of the enumerated design space *)
  Definition chunk (n : Z) : list design := flat_map (fun T => map (pair T) (control_groups T)) (treat_groups A n).
  Lemma step_trace_sublist save st T :
    exists extra, snd (step_trace save st T) = snd st ++ extra /\ sublist extra (map (pair T) (control_groups T)).
  Proof.
    unfold step_trace. destruct (decide save (fst st) T); cbn [snd].
    - exists []. split; [rewrite app_nil_r; reflexivity|constructor].
    - exists []. split; [rewrite app_nil_r; reflexivity|constructor].
    - exists (evaluated_pairs T). split; [reflexivity|]. unfold evaluated_pairs. apply sublist_map, sublist_filter_l.
  Qed.
  Lemma inner_sublist save l : forall st,
    exists extra, snd (fold_left (step_trace save) l st) = snd st ++ extra /\
                  sublist extra (flat_map (fun T => map (pair T) (control_groups T)) l).
  Proof.
    induction l as [|T l IH]; intro st; cbn [fold_left flat_map].
    - exists []. split; [rewrite app_nil_r; reflexivity|constructor].
    - destruct (step_trace_sublist save st T) as [e1 [E1 S1]]. destruct (IH (step_trace save st T)) as [e2 [E2 S2]].
      exists (e1 ++ e2). split; [rewrite E2, E1, app_assoc; reflexivity|apply sublist_app; assumption].
  Qed.
  Lemma walk_sublist ls sizes : forall st,
    exists extra, snd (walk step_trace ls sizes st) = snd st ++ extra /\ sublist extra (flat_map chunk sizes).
  Proof.
    unfold walk. induction sizes as [|n sizes IH]; intro st; cbn [fold_left flat_map].
    - exists []. split; [rewrite app_nil_r; reflexivity|constructor].
    - destruct (inner_sublist (negb (n =? ls)) (treat_groups A n) st) as [e1 [E1 S1]].
      destruct (IH (fold_left (step_trace (negb (n =? ls))) (treat_groups A n) st)) as [e2 [E2 S2]].
      exists (e1 ++ e2). split; [rewrite E2, E1, app_assoc; reflexivity|apply sublist_app; assumption].
  Qed.
  Theorem pushed_sublist : sublist pushed (enum_pairs O A par).
  Proof.
    unfold pushed, exh_trace. destruct (walk_sublist last_size (tsize_range A par) ([], [])) as [e [E S]].
    rewrite E. exact S.
  Qed.

  (* legality and constraints of everything pushed (C01, C02 for the exhaustive search) *)
  Theorem pushed_legal T C : In (T, C) pushed -> legal es T C.
  Proof. intro H. apply pushed_sound in H. destruct H as [H _]. eapply enum_pairs_legal; exact H. Qed.

  Theorem results_are_pushed d : In d (exhaustive O ltk A par shareS optB bud skey) -> In d pushed.
  Proof.
    rewrite exhaustive_is_topk_of_pushed. intro H. apply nlargest_In in H.
    apply fold_push_incl in H. cbn [app] in H. exact H.
  Qed.
End Exh.

(* ------------------------------------------------------------------------ *)
(* with scores in a total order: the result is the top k of what was pushed  *)
Module ExhTopK (K : UsualOrderedTypeFull').
  Module HP := HeapProofs K.
  Section S.
    Context {V : Type} (O : vops V).
    Variables (es : list elig) (par : spar V).
    Variables (shareS optB : set -> V) (bud : set -> set -> V) (skey : set -> set -> K.t).
    Let A := assignments_of es.
    Notation result := (exhaustive O HP.kltb A par shareS optB bud skey).
    Notation pushed := (pushed O es par shareS optB bud).
    Notation key := (ekey skey).

    Theorem exhaustive_topk : map key result = Heap.topk HP.kltb (p_n_designs par) (map key pushed).
    Proof. subst A. rewrite (exhaustive_is_topk_of_pushed O HP.kltb). apply HP.heap_topk. Qed.

    Theorem exhaustive_sorted : HP.desc (map key result).
    Proof. subst A. rewrite (exhaustive_is_topk_of_pushed O HP.kltb). apply HP.heap_sorted. Qed.

    Theorem exhaustive_length : length result = Nat.min (p_n_designs par) (length pushed).
    Proof. rewrite <- (map_length key), exhaustive_topk, HP.topk_length, map_length. reflexivity. Qed.

    (* no pushed design outside the result scores strictly above the worst returned one *)
    Theorem exhaustive_optimal d : In d pushed ->
      In (key d) (map key result) \/
      (length result = p_n_designs par /\ forall r, In r result -> K.le (key d) (key r)).
    Proof.
      intro Hd. destruct (HP.topk_optimal (p_n_designs par) (map key pushed) (key d) (in_map key _ _ Hd)) as [H|[H1 H2]].
      - left. rewrite exhaustive_topk. exact H.
      - right. rewrite <- exhaustive_topk in H1, H2. rewrite map_length in H1. split; [exact H1|].
        intros r Hr. apply H2. apply in_map. exact Hr.
    Qed.
  End S.
End ExhTopK.
