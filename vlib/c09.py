"""C09 -- searches are total: infeasible inputs give an empty list, not a crash."""
from . import searchfam
from .c01 import RULE


def oracle(ck, case, out):
  if out.get('build') != 'ok':
    if str(out.get('build', '')).startswith('other'):
      ck.fail('non-ValueError-escapes', 'constructing the objects raised %s: %s' % (out['build'], out.get('build_msg')),
              {'case': searchfam.slim(case)})
    return
  par = case.get('par_final', case['par'])
  window = min(case['n_dates'], par.get('n_pretest_max', 90))
  in_domain = window >= par['n_test'] + 3
  for which in ('exhaustive', 'greedy'):
    r = out.get(which)
    if not r:
      continue
    if r['outcome'].startswith('other') and in_domain:
      ck.fail('non-ValueError-escapes', '%s search raised %s: %s' % (which, r['outcome'][6:], r.get('msg', '')),
              {'case': searchfam.slim(case), 'which': which})
    if not in_domain:
      ck.cov['outside_domain_window_too_short'] = ck.cov.get('outside_domain_window_too_short', 0) + 1


def long_tests(ck, tier):
  """n_test >= 98 on panels long enough (the dummy-series start score of the greedy search)."""
  from . import search
  out = []
  for k, nt in enumerate([98, 100, 120] if tier == 'quick' else [97, 98, 99, 100, 101, 120, 150, 200]):
    c = search.gen_case(ck.seed * 11 + k, tier, max_geos=3)
    import random
    rng = random.Random(c['seed'])
    nd = nt + 10 + k
    base = [50.0]
    for _ in range(nd - 1):
      base.append(base[-1] + rng.gauss(0, 1))
    c['rows'] = [[round((s * b + rng.gauss(0, 1) * s) * 8) / 8 for b in base] for s in (1, 3, 5)[:len(c['rows'])]]
    c['n_dates'] = nd
    c['par'] = {'n_test': nt, 'iroas': 1.0, 'n_designs': 2, 'n_pretest_max': 400}
    c['want_share'] = c['want_budget'] = False
    c['elig'] = None
    out.append(c)
  return out


def run(tier):
  return searchfam.run_family('C09', tier, 'props/C09.v', ['geo_index', 'exhaustive', 'greedy'], oracle, 300, 5000,
                              RULE + '; every second case from the degenerate stream; plus panels with n_test >= 98',
                              degenerate_every=2, extra_cases=long_tests,
                              nontrivial=lambda c, o: o.get('build') == 'ok',
                              assumptions=['exceptions raised inside numpy/scipy/pandas kernels are outside the model; '
                                           'the generated inputs exercise them (constant series, one geo, empty groups)',
                                           'domain: analysis window of at least n_test + 3 points'], gen_targets=searchfam.GEN_TARGETS_ALL)


def replay(data):
  return searchfam.replay_family(data, oracle)
