(* Association lists keyed by integers: Python dicts in insertion order (values of any type). *)
From Coq Require Import List ZArith Bool.
Import ListNotations.

Fixpoint ad_set {B : Type} (d : list (Z * B)) (k : Z) (v : B) : list (Z * B) :=
  match d with
  | [] => [(k, v)]
  | (k', v') :: d' => if Z.eqb k' k then (k', v) :: d' else (k', v') :: ad_set d' k v
  end.
(* d.pop(k, None) *)
Definition ad_remove {B : Type} (d : list (Z * B)) (k : Z) : list (Z * B) :=
  filter (fun e => negb (Z.eqb (fst e) k)) d.

(* `while cond: body` with explicit fuel: None when the fuel runs out *)
Fixpoint fuel_loop {S : Type} (cond : S -> bool) (body : S -> S) (fuel : nat) (st : S) : option S :=
  if cond st then match fuel with 0%nat => None | S f => fuel_loop cond body f (body st) end else Some st.
