(* Python comparison of score tuples (tbrmmscore.py: Scoring namedtuple).
   A component is an integer (flags; floats are given as dense ranks, which
   preserve == and <) or NaN (None).  Python compares tuples by the first
   position where the components are not equal (NaN is not equal to anything),
   then by < at that position (false when NaN is involved). *)
From Coq Require Import List ZArith Bool.
Import ListNotations.

Definition comp := option Z.             (* None = NaN *)
Definition comp_eqb (a b : comp) : bool :=
  match a, b with Some x, Some y => Z.eqb x y | _, _ => false end.
Definition comp_ltb (a b : comp) : bool :=
  match a, b with Some x, Some y => Z.ltb x y | _, _ => false end.
Definition pykey := list comp.

Fixpoint py_ltb (a b : pykey) : bool :=
  match a, b with
  | x :: a', y :: b' => if comp_eqb x y then py_ltb a' b' else comp_ltb x y
  | [], _ :: _ => true
  | _, _ => false
  end.
Definition py_gtb (a b : pykey) : bool := py_ltb b a.
Definition nan_free (k : pykey) : bool := forallb (fun c => match c with Some _ => true | None => false end) k.
