From Coq Require Import List ZArith Lia Bool Sorting.Permutation.
Import ListNotations.
Open Scope Z_scope.

Fixpoint ins (x : Z) (l : list Z) : list Z :=
  match l with
  | [] => [x]
  | y :: l' => if y <? x then x :: l else y :: ins x l'
  end.
Definition sortd (l : list Z) : list Z := fold_right ins [] l.
Fixpoint minl (a : Z) (l : list Z) : Z :=
  match l with [] => a | b :: l' => minl (Z.min a b) l' end.
Fixpoint remove1 (x : Z) (l : list Z) : list Z :=
  match l with [] => [] | y :: l' => if y =? x then l' else y :: remove1 x l' end.
Definition push (k : nat) (q : list Z) (x : Z) : list Z :=
  if (length q <? k)%nat then x :: q
  else match q with
       | [] => []
       | a :: q' => let m := minl a q' in if m <? x then x :: remove1 m q else q
       end.
Definition topk (k : nat) (l : list Z) := firstn k (sortd l).

Fixpoint desc (l : list Z) : Prop :=
  match l with [] => True | x :: l' => (forall y, In y l' -> y <= x) /\ desc l' end.

Lemma ins_perm x l : Permutation (ins x l) (x :: l).
Proof. induction l as [|y l IH]; cbn; [reflexivity|].
  destruct (y <? x); [reflexivity|]. rewrite IH. apply perm_swap. Qed.
Lemma ins_desc x l : desc l -> desc (ins x l).
Proof.
  induction l as [|y l IH]; cbn; intros H.
  - split; [intros ? []|exact I].
  - destruct H as [Hy Hd]. destruct (Z.ltb_spec y x) as [Hlt|Hge]; cbn.
    + split; [|split; assumption]. intros z [<-|Hz]; [lia|]. specialize (Hy _ Hz); lia.
    + split; [|apply IH; assumption]. intros z Hz.
      apply (Permutation_in _ (ins_perm x l)) in Hz. destruct Hz as [<-|Hz]; [lia|auto].
Qed.
Lemma sortd_desc l : desc (sortd l).
Proof. induction l; cbn; [exact I| apply ins_desc; assumption]. Qed.
Lemma sortd_perm l : Permutation (sortd l) l.
Proof. induction l; cbn; [reflexivity|]. rewrite ins_perm. constructor; assumption. Qed.
Lemma desc_perm_eq l1 : forall l2, desc l1 -> desc l2 -> Permutation l1 l2 -> l1 = l2.
Proof.
  induction l1 as [|x l1 IH]; intros l2 H1 H2 P.
  - apply Permutation_nil in P; subst; reflexivity.
  - destruct l2 as [|y l2]; [apply Permutation_sym, Permutation_nil in P; discriminate|].
    destruct H1 as [Hx H1], H2 as [Hy H2].
    assert (x = y).
    { assert (Ix : In x (y :: l2)) by (eapply Permutation_in; [exact P|left; reflexivity]).
      assert (Iy : In y (x :: l1)) by (eapply Permutation_in; [apply Permutation_sym; exact P|left; reflexivity]).
      destruct Ix as [->|Ix]; [reflexivity|]. destruct Iy as [->|Iy]; [reflexivity|].
      specialize (Hx _ Iy). specialize (Hy _ Ix). lia. }
    subst y. f_equal. apply IH; try assumption. eapply Permutation_cons_inv; exact P.
Qed.
Lemma sortd_perm_eq l1 l2 : Permutation l1 l2 -> sortd l1 = sortd l2.
Proof. intro P. apply desc_perm_eq; try apply sortd_desc. rewrite !sortd_perm; assumption. Qed.
Lemma sortd_id l : desc l -> sortd l = l.
Proof. intro H. apply desc_perm_eq; [apply sortd_desc|assumption|apply sortd_perm]. Qed.

(* key lemma: top-k of (x :: l) from top-k of l *)
Lemma firstn_ins k x s : desc s ->
  firstn k (ins x s) = firstn k (ins x (firstn k s)).
Proof.
  revert s; induction k as [|k IH]; intros s Hs; [reflexivity|].
  destruct s as [|y s]; [reflexivity|]. cbn [firstn ins].
  destruct (y <? x) eqn:E; cbn [firstn].
  - f_equal. destruct k; reflexivity || (cbn; f_equal).
    clear. revert s; induction k; intros [|? ?]; cbn; try reflexivity. f_equal. auto.
  - f_equal. apply IH. apply Hs.
Qed.
