"""A small fail-closed Python -> Gallina compiler for the pure fragments of
matched_markets that the Coq development reasons about.

Only a whitelisted subset of Python is accepted; anything else raises
`Unsupported` and the caller produces no output at all ("tie broken
(translator)").  The compiler is typed: every expression is compiled to
(coq_text, type) where type is one of

  'N'  natural number (len(...), sizes)         'Z'  integer
  'B'  bool                                      'V'  float (abstract value type of the model)
  'S'  set of geo indices (list nat)             'L<t>' list of t
  'O<t>' optional t (None-able)                  'P<t1>,<t2>' pair
  any other string: an opaque model type (passed through unchanged)

Statements are compiled in continuation-passing style into nested lets;
`for` loops become `fold_left` over the compiled iterable with the tuple of
loop-carried variables as accumulator; `yield e` appends to the accumulator
`out__`; `continue` returns the accumulator tuple.
"""
import ast


class Unsupported(Exception):
  pass


def fail(node, why):
  line = getattr(node, 'lineno', '?')
  raise Unsupported('line %s: %s: %s' % (line, why, ast.dump(node)[:200]))


class Env:
  """Typing/translation environment of one target function."""

  def __init__(self, names=None, attrs=None, calls=None, methods=None):
    self.names = dict(names or {})      # python name -> (coq, type)
    self.attrs = dict(attrs or {})      # dotted python attribute -> (coq, type)
    self.calls = dict(calls or {})      # dotted callee -> handler(tr, node, args)
    self.methods = dict(methods or {})  # (type-prefix, method) -> handler(tr, recv, args)

  def copy(self):
    return Env(self.names, self.attrs, self.calls, self.methods)


def dotted(node):
  if isinstance(node, ast.Name):
    return node.id
  if isinstance(node, ast.Attribute):
    d = dotted(node.value)
    return None if d is None else d + '.' + node.attr
  return None


def toZ(c, t):
  if t == 'Z':
    return c
  if t == 'N':
    return '(Z.of_nat %s)' % c
  if t == 'B':
    return '(Z.b2z %s)' % c
  raise Unsupported('cannot coerce %s : %s to Z' % (c, t))


def toV(c, t):
  if t == 'V':
    return c
  if t in ('Z', 'N', 'B'):
    return '(vofZ %s)' % toZ(c, t)
  raise Unsupported('cannot coerce %s : %s to V' % (c, t))


class Tr:
  def __init__(self, env):
    self.env = env

  # ---------------------------------------------------------------- exprs
  def expr(self, n, env=None):
    env = env or self.env
    if isinstance(n, ast.Constant):
      v = n.value
      if v is None:
        return ('None', 'O?')
      if isinstance(v, bool):
        return ('true' if v else 'false', 'B')
      if isinstance(v, int):
        return (('%d%%Z' % v) if v >= 0 else ('(%d)%%Z' % v), 'Z')
      if isinstance(v, float):
        return ('(vlit %s)' % float_lit(v), 'V')
      fail(n, 'constant')
    if isinstance(n, ast.Name):
      if n.id in env.names:
        return env.names[n.id]
      fail(n, 'unknown name')
    if isinstance(n, ast.Attribute):
      d = dotted(n)
      if d in env.attrs:
        return env.attrs[d]
      fail(n, 'unknown attribute')
    if isinstance(n, ast.Subscript):
      d = dotted(n.value)
      if isinstance(n.slice, ast.Constant) and isinstance(n.slice.value, int):
        key = '%s[%d]' % (d, n.slice.value)
        if key in env.attrs:
          return env.attrs[key]
        c, t = self.expr(n.value, env)
        if t.startswith('P'):
          a, b = t[1:].split(',', 1)
          return ('(%s %s)' % ('fst' if n.slice.value == 0 else 'snd', c),
                  a if n.slice.value == 0 else b)
        fail(n, 'subscript')
      c, t = self.expr(n.value, env)
      k, kt = self.expr(n.slice, env)
      if ('subscript', t) in env.methods:
        return env.methods[('subscript', t)](self, c, (k, kt))
      fail(n, 'subscript')
    if isinstance(n, ast.BoolOp):
      parts = [self.expr(v, env) for v in n.values]
      for c, t in parts:
        if t != 'B':
          fail(n, 'non-bool operand of and/or')
      op = ' && ' if isinstance(n.op, ast.And) else ' || '
      return ('(' + op.join(c for c, _ in parts) + ')', 'B')
    if isinstance(n, ast.UnaryOp):
      c, t = self.expr(n.operand, env)
      if isinstance(n.op, ast.Not):
        return ('(negb %s)' % self.truth(c, t, n), 'B')
      if isinstance(n.op, ast.USub) and t == 'Z':
        return ('(- %s)%%Z' % c, 'Z')
      fail(n, 'unary op')
    if isinstance(n, ast.Compare):
      if len(n.ops) != 1:
        fail(n, 'chained comparison')
      return self.compare(n.ops[0], n.left, n.comparators[0], env, n)
    if isinstance(n, ast.BinOp):
      return self.binop(n, env)
    if isinstance(n, ast.Call):
      return self.call(n, env)
    if isinstance(n, ast.Tuple) and len(n.elts) == 2:
      (a, ta), (b, tb) = self.expr(n.elts[0], env), self.expr(n.elts[1], env)
      return ('(%s, %s)' % (a, b), 'P%s,%s' % (ta, tb))
    if isinstance(n, ast.Dict) and not n.keys:
      return ('[]', 'D')
    if isinstance(n, ast.IfExp):
      c, tc = self.expr(n.test, env)
      a, ta = self.expr(n.body, env)
      b, tb = self.expr(n.orelse, env)
      if ta != tb:
        fail(n, 'ifexp branches of different type')
      return ('(if %s then %s else %s)' % (self.truth(c, tc, n), a, b), ta)
    fail(n, 'expression')

  def truth(self, c, t, n):
    """Python truthiness."""
    if t == 'B':
      return c
    if t == 'S' or t.startswith('L'):
      return '(negb (is_nil %s))' % c
    if t in ('N',):
      return '(negb (Nat.eqb %s 0))' % c
    if t == 'Z':
      return '(negb (Z.eqb %s 0))' % c
    fail(n, 'truthiness of type ' + t)

  def compare(self, op, l, r, env, n):
    # `x is None` / `x is not None`
    if isinstance(op, (ast.Is, ast.IsNot)) and isinstance(r, ast.Constant) and r.value is None:
      c, t = self.expr(l, env)
      if not t.startswith('O'):
        fail(n, 'is None on non-optional')
      return ('(%s %s)' % ('is_none' if isinstance(op, ast.Is) else 'is_some', c), 'B')
    (a, ta), (b, tb) = self.expr(l, env), self.expr(r, env)
    if isinstance(op, ast.In):
      if ta in ('N',) and tb == 'S':
        return ('(mem %s %s)' % (a, b), 'B')
      if ta in ('Z', 'N') and tb == 'LZ':
        return ('(memZ %s %s)' % (toZ(a, ta), b), 'B')
      fail(n, 'in')
    names = {ast.Lt: 'ltb', ast.LtE: 'leb', ast.Gt: 'gtb', ast.GtE: 'geb', ast.Eq: 'eqb', ast.NotEq: 'neqb'}
    if type(op) not in names:
      fail(n, 'comparison operator')
    nm = names[type(op)]
    if ta == 'N' and tb == 'N':
      pre = 'Nat.'
      if nm in ('gtb', 'geb'):
        a, b, nm = b, a, {'gtb': 'ltb', 'geb': 'leb'}[nm]
      if nm == 'neqb':
        return ('(negb (Nat.eqb %s %s))' % (a, b), 'B')
      return ('(%s%s %s %s)' % (pre, nm, a, b), 'B')
    if ta in ('N', 'Z', 'B') and tb in ('N', 'Z', 'B'):
      a, b = toZ(a, ta), toZ(b, tb)
      if nm == 'neqb':
        return ('(negb (Z.eqb %s %s))' % (a, b), 'B')
      return ('(Z.%s %s %s)' % (nm, a, b), 'B')
    if 'V' in (ta, tb):
      a, b = toV(a, ta), toV(b, tb)
      if nm in ('gtb', 'geb'):
        a, b, nm = b, a, {'gtb': 'ltb', 'geb': 'leb'}[nm]
      if nm == 'neqb':
        return ('(negb (veqb %s %s))' % (a, b), 'B')
      return ('(v%s %s %s)' % (nm, a, b), 'B')
    fail(n, 'comparison of %s and %s' % (ta, tb))

  def binop(self, n, env):
    (a, ta), (b, tb) = self.expr(n.left, env), self.expr(n.right, env)
    op = type(n.op)
    if ta == 'S' and tb == 'S':
      f = {ast.BitOr: 'union', ast.BitAnd: 'inter', ast.Sub: 'diff'}.get(op)
      if f is None:
        fail(n, 'set operator')
      return ('(%s %s %s)' % (f, a, b), 'S')
    if ta == 'B' and tb == 'B' and op in (ast.BitOr, ast.BitAnd):
      return ('(%s %s %s)' % ('orb' if op is ast.BitOr else 'andb', a, b), 'B')
    if op is ast.Div:
      # Python true division always yields a float
      return ('(vdiv %s %s)' % (toV(a, ta), toV(b, tb)), 'V')
    if 'V' in (ta, tb):
      f = {ast.Add: 'vadd', ast.Sub: 'vsub', ast.Mult: 'vmul'}.get(op)
      if f is None:
        fail(n, 'float operator')
      return ('(%s %s %s)' % (f, toV(a, ta), toV(b, tb)), 'V')
    if ta in ('N', 'Z', 'B') and tb in ('N', 'Z', 'B'):
      if ta == 'N' and tb == 'N' and op is ast.Add:
        return ('(%s + %s)' % (a, b), 'N')
      f = {ast.Add: '+', ast.Sub: '-', ast.Mult: '*'}.get(op)
      if f is None:
        fail(n, 'integer operator')
      return ('(%s %s %s)%%Z' % (toZ(a, ta), f, toZ(b, tb)), 'Z')
    fail(n, 'binary operator on %s, %s' % (ta, tb))

  def call(self, n, env):
    d = dotted(n.func)
    if d in env.calls:
      return env.calls[d](self, n, env)
    if isinstance(n.func, ast.Attribute):
      recv, rt = self.expr(n.func.value, env)
      key = (rt, n.func.attr)
      if key in env.methods:
        return env.methods[key](self, recv, [self.expr(a, env) for a in n.args])
    if d == 'len' and len(n.args) == 1:
      c, t = self.expr(n.args[0], env)
      if t == 'S' or t.startswith('L') or t == 'Q':
        return ('(length %s)' % c, 'N')
      fail(n, 'len of ' + t)
    if d in ('max', 'min') and len(n.args) == 2:
      (a, ta), (b, tb) = [self.expr(x, env) for x in n.args]
      if ta == 'N' and tb == 'N':
        return ('(Nat.%s %s %s)' % (d, a, b), 'N')
      return ('(Z.%s %s %s)' % (d, toZ(a, ta), toZ(b, tb)), 'Z')
    if d == 'range':
      args = [self.expr(x, env) for x in n.args]
      if len(args) == 1:
        return ('(zrange 0 %s)' % toZ(*args[0]), 'LZ')
      if len(args) == 2:
        return ('(zrange %s %s)' % (toZ(*args[0]), toZ(*args[1])), 'LZ')
      fail(n, 'range arity')
    if d == 'set' and len(n.args) == 1:
      c, t = self.expr(n.args[0], env)
      if t == 'LZ':
        return (c, 'LZ')      # sets of sizes are only tested with `in`
      if t == 'S':
        return (c, 'S')
      fail(n, 'set() of ' + t)
    if d == 'list' and len(n.args) == 1:
      c, t = self.expr(n.args[0], env)
      if t.startswith('L'):
        return (c, t)
      fail(n, 'list() of ' + t)
    fail(n, 'call')

  # ---------------------------------------------------------------- stmts
  def assigned(self, stmts):
    out = []
    for s in stmts:
      for x in ast.walk(s):
        tgt = None
        if isinstance(x, ast.Assign) and len(x.targets) == 1 and isinstance(x.targets[0], ast.Name):
          tgt = x.targets[0].id
        elif (isinstance(x, ast.Assign) and len(x.targets) == 1 and isinstance(x.targets[0], ast.Subscript)
              and isinstance(x.targets[0].value, ast.Name)):
          tgt = x.targets[0].value.id
        elif isinstance(x, ast.AugAssign) and isinstance(x.target, ast.Name):
          tgt = x.target.id
        elif isinstance(x, (ast.Yield, ast.YieldFrom)):
          tgt = 'out__'
        elif isinstance(x, ast.Expr) and isinstance(x.value, ast.Call):
          d = dotted(x.value.func)
          if d in self.mutators:
            tgt = x.value.args[self.mutators[d][1]].id
        if tgt and tgt not in out:
          out.append(tgt)
    return out

  mutators = {}   # dotted callee -> (coq function, index of the mutated argument)

  def tup(self, names, env):
    if not names:
      return 'tt'
    return '(' + ', '.join(env.names[x][0] for x in names) + ')'

  def pat(self, names, env):
    if not names:
      return '_'
    if len(names) == 1:
      return env.names[names[0]][0]
    return "'(" + ', '.join(env.names[x][0] for x in names) + ')'

  def block(self, stmts, env, tail, in_loop=False):
    """Compile stmts; `tail(env)` gives the Gallina for falling off the end."""
    if not stmts:
      return tail(env)
    s, rest = stmts[0], stmts[1:]
    if isinstance(s, ast.Expr) and isinstance(s.value, ast.Constant) and isinstance(s.value.value, str):
      return self.block(rest, env, tail, in_loop)           # docstring
    if isinstance(s, ast.Assign) and len(s.targets) == 1:
      t0 = s.targets[0]
      if isinstance(t0, ast.Name):
        c, t = self.expr(s.value, env)
        return self.let(t0.id, c, t, rest, env, tail, in_loop)
      if isinstance(t0, ast.Tuple) and all(isinstance(e, ast.Name) for e in t0.elts) and len(t0.elts) == 2:
        c, t = self.expr(s.value, env)
        if not t.startswith('P'):
          fail(s, 'tuple unpacking of non-pair')
        ta, tb = t[1:].split(',', 1)
        env2 = env.copy()
        na, nb = t0.elts[0].id, t0.elts[1].id
        env2.names[na] = (na, ta)
        env2.names[nb] = (nb, tb)
        return "let '(%s, %s) := %s in\n%s" % (na, nb, c, self.block(rest, env2, tail, in_loop))
      d = dotted(t0)
      if d is not None and ('set', d) in env.methods:
        c, t = self.expr(s.value, env)
        code, env2 = env.methods[('set', d)](self, env, c, t)
        return code + self.block(rest, env2, tail, in_loop)
      if isinstance(t0, ast.Subscript) and isinstance(t0.value, ast.Name) and \
          env.names.get(t0.value.id, (None, None))[1] == 'D':
        k, kt = self.expr(t0.slice, env)
        c, t = self.expr(s.value, env)
        nm = t0.value.id
        return self.let(nm, '(dd_set %s %s %s)' % (env.names[nm][0], toZ(k, kt), c), 'D',
                        rest, env, tail, in_loop)
      if isinstance(t0, ast.Subscript):
        d = dotted(t0.value)
        if d is not None and ('setitem', d) in env.methods:
          k = self.expr(t0.slice, env)
          c, t = self.expr(s.value, env)
          code, env2 = env.methods[('setitem', d)](self, env, k, (c, t))
          return code + self.block(rest, env2, tail, in_loop)
      fail(s, 'assignment target')
    if isinstance(s, ast.AugAssign) and isinstance(s.target, ast.Name):
      fake = ast.BinOp(left=ast.Name(id=s.target.id, ctx=ast.Load()), op=s.op, right=s.value)
      ast.copy_location(fake, s)
      c, t = self.expr(fake, env)
      return self.let(s.target.id, c, t, rest, env, tail, in_loop)
    if isinstance(s, ast.Expr) and isinstance(s.value, ast.Yield):
      c, t = self.expr(s.value.value, env)
      o, ot = env.names['out__']
      if ot != 'L' + t:
        fail(s, 'yield of %s into %s' % (t, ot))
      return self.let('out__', '(%s ++ [%s])' % (o, c), ot, rest, env, tail, in_loop)
    if isinstance(s, ast.Expr) and isinstance(s.value, ast.YieldFrom):
      c, t = self.expr(s.value.value, env)
      o, ot = env.names['out__']
      if ot != t:
        fail(s, 'yield from of %s into %s' % (t, ot))
      return self.let('out__', '(%s ++ %s)' % (o, c), ot, rest, env, tail, in_loop)
    if isinstance(s, ast.Expr) and isinstance(s.value, ast.Call):
      d = dotted(s.value.func)
      if d in self.mutators:
        f, i = self.mutators[d]
        args = [self.expr(a, env) for a in s.value.args]
        tgt = s.value.args[i]
        if not isinstance(tgt, ast.Name):
          fail(s, 'mutated argument must be a local name')
        return self.let(tgt.id, '(%s %s)' % (f, ' '.join(a for a, _ in args)), args[i][1],
                        rest, env, tail, in_loop)
      fail(s, 'expression statement')
    if isinstance(s, ast.If):
      c, t = self.expr(s.test, env)
      c = self.truth(c, t, s)
      a = self.block(list(s.body) + rest, env, tail, in_loop)
      b = self.block(list(s.orelse) + rest, env, tail, in_loop)
      return '(if %s\n then %s\n else %s)' % (c, a, b)
    if isinstance(s, ast.For) and not s.orelse:
      it, itt = self.expr(s.iter, env)
      if not itt.startswith('L'):
        fail(s, 'iteration over ' + itt)
      et = itt[1:]
      accs = [x for x in self.assigned(s.body) if x in env.names]
      env_b = env.copy()
      unpack = ''
      if isinstance(s.target, ast.Name):
        env_b.names[s.target.id] = (s.target.id, et)
        var = s.target.id
      elif (isinstance(s.target, ast.Tuple) and len(s.target.elts) == 2 and et.startswith('P')
            and all(isinstance(e, ast.Name) for e in s.target.elts)):
        ta, tb = et[1:].split(',', 1)
        na, nb = s.target.elts[0].id, s.target.elts[1].id
        env_b.names[na] = (na, ta)
        env_b.names[nb] = (nb, tb)
        var = 'it__'
        unpack = "let '(%s, %s) := it__ in\n" % (na, nb)
      else:
        fail(s, 'loop target')
      body = unpack + self.block(list(s.body), env_b, lambda e: self.tup(accs, e), in_loop=True)
      acc0 = self.tup(accs, env)
      code = "let %s := fold_left (fun %s %s =>\n%s) %s %s in\n" % (
          self.pat(accs, env) if len(accs) != 1 else env.names[accs[0]][0],
          ("acc__" if len(accs) > 1 else (env.names[accs[0]][0] if accs else '_')), var,
          ("let %s := acc__ in\n%s" % (self.pat(accs, env), body)) if len(accs) > 1 else body,
          it, acc0)
      return code + self.block(rest, env, tail, in_loop)
    if isinstance(s, ast.Continue):
      if not in_loop:
        fail(s, 'continue outside loop')
      return tail(env)
    if isinstance(s, ast.Return):
      if in_loop:
        fail(s, 'return inside loop')
      c, t = self.expr(s.value, env)
      self.ret_type = t
      return c
    if isinstance(s, ast.Pass):
      return self.block(rest, env, tail, in_loop)
    fail(s, 'statement')

  def let(self, name, c, t, rest, env, tail, in_loop):
    env2 = env.copy()
    if name in env.names and env.names[name][1] != t and not (env.names[name][1].startswith('O') and t == 'O?'):
      raise Unsupported('variable %s changes type %s -> %s' % (name, env.names[name][1], t))
    env2.names[name] = (name, t)
    return 'let %s := %s in\n%s' % (name, c, self.block(rest, env2, tail, in_loop))


def float_lit(v):
  """Exact hexadecimal literal for a binary64 value (Coq's %float syntax)."""
  if v != v:
    return 'nan'
  if v in (float('inf'), float('-inf')):
    return 'infinity' if v > 0 else 'neg_infinity'
  h = float(v).hex()               # e.g. 0x1.8000000000000p+3
  neg = h.startswith('-')
  h = h.lstrip('-')
  mant, exp = h.split('p')
  lit = '%sp%s' % (mant, exp.lstrip('+'))
  return ('(-%s)%%float' % lit) if neg else ('%s%%float' % lit)


def find_def(tree, cls, name):
  for n in tree.body:
    if isinstance(n, ast.ClassDef) and n.name == cls:
      for m in n.body:
        if isinstance(m, ast.FunctionDef) and m.name == name:
          return m
  raise Unsupported('%s.%s not found' % (cls, name))


def find_class(tree, cls):
  for n in tree.body:
    if isinstance(n, ast.ClassDef) and n.name == cls:
      return n
  raise Unsupported('class %s not found' % cls)
