import warnings; warnings.filterwarnings('ignore')
import numpy as np, pandas as pd
from matched_markets.methodology import tbr, tbr_iroas
from p7frame import frame
mx=0; bad=0
for seed in range(25):
    rng=np.random.RandomState(seed)
    df=frame(rng, n_pre=int(rng.randint(5,30)), n_test=int(rng.randint(1,10)), n_cool=int(rng.randint(1,4)), gc=int(rng.randint(1,4)), gt=int(rng.randint(1,4)))
    for cool in (True,False):
        m=tbr.TBR(use_cooldown=cool); m.fit(df,'response'); s=m.summary(level=0.8,tails=2,report='all',threshold=3.0,rescale=0.5)
        # layout variants: shuffle, add unassigned geo and unassigned period rows
        extra=df[df.geo==1].copy(); extra['geo']=99; extra['group']=-1; extra['response']=extra['response']*3
        pre_extra=df[df.period==0].copy(); pre_extra['date']=pre_extra['date']-pd.Timedelta(days=400); pre_extra['period']=-1
        df2=pd.concat([df,extra,pre_extra]).sample(frac=1.0,random_state=seed)
        m2=tbr.TBR(use_cooldown=cool); m2.fit(df2,'response'); s2=m2.summary(level=0.8,tails=2,report='all',threshold=3.0,rescale=0.5)
        d=np.nanmax(np.abs((s.values-s2.values)/np.maximum(1e-9,np.abs(s.values))))
        mx=max(mx,d)
        # merge geos: one geo per group
        df3=df.groupby(['date','group','period'],as_index=False)[['response','cost']].sum(); df3['geo']=df3['group']
        m3=tbr.TBR(use_cooldown=cool); m3.fit(df3,'response'); s3=m3.summary(level=0.8,tails=2,report='all',threshold=3.0,rescale=0.5)
        mx=max(mx,np.nanmax(np.abs((s.values-s3.values)/np.maximum(1e-9,np.abs(s.values)))))
        if not ((s.lower<=s.estimate)&(s.estimate<=s.upper)).all(): bad+=1
        if not np.allclose(s.precision, s.estimate-s.lower): bad+=1
print('C06 layout max rel diff', mx, 'order/precision bad', bad)
# C07 scaling & scenario
mx=0
for seed in range(10):
    df=frame(np.random.RandomState(seed))
    a,b=4.0,0.5
    m=tbr_iroas.TBRiROAS(); m.fit(df); r=m.summary(level=0.9,tails=2,posterior_threshold=0.0,random_state=3)
    df2=df.copy(); df2['cost']*=a; df2['response']*=b
    m2=tbr_iroas.TBRiROAS(); m2.fit(df2); r2=m2.summary(level=0.9,tails=2,posterior_threshold=0.0,random_state=3)
    for c in ['estimate','lower','upper','precision']:
        mx=max(mx, abs(r2[c].iloc[0]-r[c].iloc[0]*b/a)/abs(r[c].iloc[0]))
    for c in ['probability','relative_lift','relative_lift_lower']:
        mx=max(mx, abs(r2[c].iloc[0]-r[c].iloc[0]))
    assert r.scenario.iloc[0]=='fixed'
    # coherence
    mx=max(mx, abs(r.estimate.iloc[0]-r.incremental_response.iloc[0]/r.incremental_cost.iloc[0])/abs(r.estimate.iloc[0]))
    mx=max(mx, abs(r.incremental_response_lower.iloc[0]-r.lower.iloc[0]*r.incremental_cost.iloc[0])/abs(r.incremental_response_lower.iloc[0]))
print('C07 scaling/coherence max diff', mx)
for pat in ['tiny','control_test','pre']:
    df=frame(np.random.RandomState(1))
    if pat=='tiny': df.loc[(df.period==0),'cost']=1e-13
    if pat=='control_test': df.loc[(df.period==1)&(df.group==1),'cost']=0.5
    if pat=='pre': df.loc[(df.period==0)&(df.group==2),'cost']=0.5
    m=tbr_iroas.TBRiROAS(); m.fit(df); print(pat, m.summary(random_state=1).scenario.iloc[0])
