(* Model of the design searches of tbrmatchedmarkets.py: admitted geos and geo
   index (:76-135), exhaustive search (:310-413), greedy search (:500-690),
   result retrieval (:415-435).  Definitions only.

   Numeric kernels are oracles over index sets of the admitted geos:
     shareS T   = data.aggregate_geo_share(T)
     optB T     = TBRMMDiagnostics(agg T).estimate_required_impact(rho_max)
     bud T C    = required_impact of the design (T, C)
     skey T C   = score tuple stored by the exhaustive search for (T, C)
     gkey T C   = score tuple TBRMMScore(...) used by the greedy search
   and the comparison of score tuples [ltk] (Python's <). *)
From Coq Require Import List Arith ZArith Bool PrimFloat.
From MM Require Import lib.ListSet lib.Combi lib.Values model.Heap model.Elig model.SearchParams model.SearchDefs.
Import ListNotations.
Open Scope Z_scope.

(* ------------------------------------------------------------------------ *)
(* admitted geos                                                             *)
Record grec (V : Type) := {
  g_in_elig : bool;     (* the geo has a row in the (reconciled) eligibility table *)
  g_e : elig;           (* that row *)
  g_share : V;          (* data.geo_share *)
  g_impact : V          (* geo_req_impact *)
}.
Arguments g_in_elig {V} _. Arguments g_e {V} _. Arguments g_share {V} _. Arguments g_impact {V} _.

Section AdmittedGeos.
  Context {V : Type} (O : vops V).
  Variables (par : spar V) (gs : list (grec V)).      (* geos in data.df order *)
  Definition geo (i : nat) : grec V :=
    nth i gs {| g_in_elig := false; g_e := elig_zero; g_share := vofZ O 0; g_impact := vofZ O 0 |}.

  Definition too_large (i : nat) : bool :=
    match p_treatment_share_range par with Some r => vltb O (snd r) (g_share (geo i)) | None => false end.
  Definition over_budget (i : nat) : bool :=
    match p_budget_range par with
    | Some r => vltb O (vmul O (snd r) (p_iroas par)) (g_impact (geo i))
    | None => false end.
  Definition assignable (i : nat) : bool :=
    g_in_elig (geo i) && negb (negb (ec (g_e (geo i))) && negb (et (g_e (geo i))) && ex (g_e (geo i))).
  Definition must_include (i : nat) : bool := g_in_elig (geo i) && negb (ex (g_e (geo i))).
  Definition admitted0 : set :=
    filter (fun i => (assignable i && negb (too_large i || over_budget i)) || must_include i) (seq 0 (length gs)).

  (* geo_req_impact.sort_values(ascending=False): stable insertion, largest first *)
  Fixpoint ins_by_impact (i : nat) (l : list nat) : list nat :=
    match l with
    | [] => [i]
    | j :: l' => if vltb O (g_impact (geo j)) (g_impact (geo i)) then i :: l else j :: ins_by_impact i l'
    end.
  Definition by_impact_desc (l : list nat) : list nat := fold_right ins_by_impact [] l.

  (* the pandas selections of geos_too_large / geos_over_budget / data.assignable / geos_must_include as sets of
     positions, and geo_req_impact.sort_values(ascending=False).index *)
  Definition positions : set := seq 0 (length gs).
  Definition too_large_set : set := filter too_large positions.
  Definition over_budget_set : set := filter over_budget positions.
  Definition assignable_set : set := filter assignable positions.
  Definition must_include_set : set := filter must_include positions.
  Definition by_impact_all : set := by_impact_desc positions.

  (* geos_within_constraints (:105-126), statement by statement: n_geos_max keeps every must-include geo and fills the
     remaining places with the other admitted geos in decreasing order of impact *)
  Definition within_constraints : set :=
    let geos_exceed_size := union too_large_set over_budget_set in
    let geos := union (diff assignable_set geos_exceed_size) must_include_set in
    match p_n_geos_max par with
    | None => geos
    | Some m =>
        if (Z.of_nat (length geos) >? m)
        then let geos_in_order := filter (fun g => mem g geos && negb (mem g must_include_set)) by_impact_all in
             let n_others := Z.max 0 (m - Z.of_nat (length must_include_set)) in
             union must_include_set (firstn (Z.to_nat n_others) geos_in_order)
        else geos
    end.
  (* geo_index: admitted geos in data.df order; positions into gs *)
  Definition geo_index : list nat := filter (fun i => mem i within_constraints) (seq 0 (length gs)).
  (* installing an empty geo index raises ValueError (get_eligible_assignments) *)
  Definition geo_index_raises : bool := is_nil geo_index.
  Definition admitted_rows : list elig := map (fun i => g_e (geo i)) geo_index.
End AdmittedGeos.

(* ------------------------------------------------------------------------ *)
Definition design := (set * set)%type.

Section Search.
  Context {V K : Type} (O : vops V) (ltk : K -> K -> bool).
  Variables (A : assignments) (par : spar V).
  Variables (shareS optB : set -> V) (bud : set -> set -> V) (skey gkey : set -> set -> K).

  Notation iroas := (p_iroas par).
  Definition budget_out (v : V) : bool :=
    match p_budget_range par with
    | None => false
    | Some r => not_satisfied O (vdiv O v iroas) (fst r) (snd r)
    end.

  (* ---------------- exhaustive search ---------------- *)
  Definition share_out (T : set) : bool :=
    match p_treatment_share_range par with
    | Some r => vltb O (snd r) (shareS T) || vltb O (shareS T) (fst r)
    | None => false end.
  Definition subsumed (pats : list set) (T : set) : bool := existsb (fun p => subset p T) pats.
  Definition vol_out (T C : set) : bool :=
    match p_volume_ratio_tolerance par with
    | None => false
    | Some tol =>
        let hi := vadd O (vlit O 1 0) tol in
        let lo := vdiv O (vlit O 1 0) hi in
        let q := vdiv O (shareS C) (shareS T) in
        vltb O hi q || vltb O q lo
    end.
  Definition ekey (d : design) : K := skey (fst d) (snd d).
  Definition eval_controls (T : set) (h : list design) : list design :=
    fold_left (fun h C => if vol_out T C then h
                          else if budget_out (bud T C) then h
                          else push ltk ekey (p_n_designs par) h (T, C))
              (control_groups O A par T) h.

  Inductive tdecision := Skip | SkipAndStore | Eval.
  Definition budget_decision (save : bool) (T : set) : tdecision :=
    match p_budget_range par with
    | None => Eval
    | Some r =>
        let ob := vdiv O (optB T) iroas in
        if vltb O (snd r) ob then (if save then SkipAndStore else Eval)
        else if vltb O ob (fst r) then Skip else Eval
    end.
  Definition decide (save : bool) (pats : list set) (T : set) : tdecision :=
    match p_treatment_share_range par with
    | Some _ => if share_out T then Skip else budget_decision save T
    | None => if subsumed pats T then Skip else budget_decision save T
    end.
  Definition step_T (save : bool) (st : list set * list design) (T : set) : list set * list design :=
    match decide save (fst st) T with
    | Skip => st
    | SkipAndStore => (fst st ++ [T], snd st)
    | Eval => (fst st, eval_controls T (snd st))
    end.
  Definition exh_state : list set * list design :=
    let sizes := tsize_range A par in
    let last_size := last sizes 0 in
    fold_left (fun st n => fold_left (step_T (negb (n =? last_size))) (treat_groups A n) st)
              sizes ([], []).
  Definition exhaustive : list design := nlargest_all ltk ekey (snd exh_state).

  (* ---------------- greedy search ---------------- *)
  (* the size ranges the greedy search fills in when they are None (:522-538) *)
  Definition g_trange : Z * Z :=
    match p_treatment_geos_range par with
    | Some r => r
    | None => (1, if (zlen (a_all A) - zlen (a_t A) =? 0) then zlen (a_t A) - 1 else zlen (a_t A))
    end.
  Definition g_crange : Z * Z :=
    match p_control_geos_range par with
    | Some r => r
    | None => (1, if (zlen (a_all A) - zlen (a_c A) =? 0) then zlen (a_c A) - 1 else zlen (a_c A))
    end.
  Definition gpar : spar V :=
    {| p_treatment_geos_range := Some g_trange; p_control_geos_range := Some g_crange;
       p_geo_ratio_tolerance := p_geo_ratio_tolerance par;
       p_volume_ratio_tolerance := p_volume_ratio_tolerance par;
       p_treatment_share_range := p_treatment_share_range par;
       p_budget_range := p_budget_range par; p_n_geos_max := p_n_geos_max par;
       p_n_designs := p_n_designs par; p_iroas := p_iroas par |}.
  Definition gwithin (T C : set) : bool := within O A gpar shareS T C.
  Definition max_tsize : Z := snd g_trange.

  (* sets are iterated in ascending order of index (CPython small-int sets) *)
  Fixpoint ins_nat (x : nat) (l : list nat) : list nat :=
    match l with [] => [x] | y :: l' => if Nat.leb x y then x :: l else y :: ins_nat x l' end.
  Definition ascending (l : set) : set := fold_right ins_nat [] l.

  (* the guard shared by both neighbourhood scans (:584-600 and :623-640):
     candidate (T, C) at treatment-group counter k is admissible *)
  Definition candidate_ok (k : Z) (T C : set) : bool :=
    (if (fst g_trange <=? k) && (zlen C <=? snd g_crange)
     then negb (is_nil C) && gwithin T C else true)
    && negb (budget_out (bud T C)).

  Variable zero_key : K.      (* the all-zero start score *)

  Record gstate := {
    gs_k : Z; gs_needs_matching : bool; gs_ctl : set;
    gs_star_trt : list (Z * set); gs_star_ctl : list (Z * set)
  }.
  Fixpoint lookup (d : list (Z * set)) (k : Z) : set :=
    match d with [] => [] | (k', s) :: d' => if k' =? k then s else lookup d' k end.
  Fixpoint store (d : list (Z * set)) (k : Z) (s : set) : list (Z * set) :=
    match d with
    | [] => [(k, s)]
    | (k', s') :: d' => if k' =? k then (k', s) :: d' else (k', s') :: store d' k s
    end.

  (* one pass over the control neighbourhood: best candidate strictly above the running score *)
  Definition match_scan (k : Z) (T ctl : set) : set * K :=
    let r_control := diff (a_c A) (union ctl T) in
    let r_unassigned := diff (inter ctl (a_x A)) T in
    fold_left (fun (acc : set * K) g =>
                 let nb := toggle g ctl in
                 if candidate_ok k T nb
                 then (if ltk (snd acc) (gkey T nb) then (nb, gkey T nb) else acc)
                 else acc)
              (ascending (union r_control r_unassigned)) (ctl, gkey T ctl).
  (* result: best augmented treatment group, its control group, its score, and
     whether any candidate was accepted at all *)
  Definition augment_scan (k : Z) (T ctl_star : set) : set * set * K * bool :=
    fold_left (fun (acc : set * set * K * bool) g =>
                 let aug := union T [g] in
                 let upd := diff ctl_star [g] in
                 if candidate_ok k aug upd
                 then (if ltk (snd (fst acc)) (gkey aug upd) then (aug, upd, gkey aug upd, true) else acc)
                 else acc)
              (ascending (diff (a_t A) T)) (T, [], zero_key, false).

  Definition gstep (s : gstate) : gstate :=
    let k := gs_k s in
    let T := lookup (gs_star_trt s) k in
    if gs_needs_matching s then
      let '(best, best_key) := match_scan k T (gs_ctl s) in
      if ltk (gkey T (gs_ctl s)) best_key
      then {| gs_k := k; gs_needs_matching := true; gs_ctl := best;
              gs_star_trt := gs_star_trt s; gs_star_ctl := gs_star_ctl s |}
      else {| gs_k := k; gs_needs_matching := false; gs_ctl := gs_ctl s;
              gs_star_trt := gs_star_trt s; gs_star_ctl := store (gs_star_ctl s) k best |}
    else
      let '(aug, upd, _, accepted) := augment_scan k T (lookup (gs_star_ctl s) k) in
      {| gs_k := k + 1; gs_needs_matching := true;
         gs_ctl := if accepted then upd else gs_ctl s;
         gs_star_trt := store (gs_star_trt s) (k + 1) aug; gs_star_ctl := gs_star_ctl s |}.
  Definition gcontinue (s : gstate) : bool := (gs_k s <? max_tsize) || gs_needs_matching s.
  Fixpoint gloop (fuel : nat) (s : gstate) : option gstate :=
    if gcontinue s then
      match fuel with 0%nat => None | S f => gloop f (gstep s) end
    else Some s.
  Definition ginit : gstate :=
    let kappa0 := zlen (a_t_fixed A) in
    {| gs_k := kappa0; gs_needs_matching := negb (kappa0 =? 0); gs_ctl := a_c A;
       gs_star_trt := [(kappa0, a_t_fixed A)];
       gs_star_ctl := if kappa0 =? 0 then [(0, a_c A)] else [] |}.

  (* post-processing (:651-690) *)
  Definition drop_key (d : list (Z * set)) (k : Z) : list (Z * set) := filter (fun e => negb (fst e =? k)) d.
  Definition gfinal (s : gstate) : list design :=
    let kappa0 := zlen (a_t_fixed A) in
    let T0 := lookup (gs_star_trt s) kappa0 in
    let C0 := lookup (gs_star_ctl s) kappa0 in
    let drop0 := (0 <? kappa0) && (is_nil C0 || negb (gwithin T0 C0)) && budget_out (bud T0 C0) in
    let trt := if drop0 then drop_key (gs_star_trt s) kappa0 else gs_star_trt s in
    let trt := drop_key trt 0 in
    let h := fold_left (fun h e =>
                          let T := snd e in
                          let C := lookup (gs_star_ctl s) (fst e) in
                          if gwithin T C && negb (budget_out (bud T C))
                          then push ltk (fun d => gkey (fst d) (snd d)) (p_n_designs par) h (T, C)
                          else h) trt [] in
    nlargest_all ltk (fun d => gkey (fst d) (snd d)) h.
  Definition greedy (fuel : nat) : option (list design) :=
    match gloop fuel ginit with None => None | Some s => Some (gfinal s) end.
End Search.
