(* The numeric value type of the search model.  Theorems are proved for an
   arbitrary [vops V] (whatever numpy returns); the executable instance is
   binary64 = Python float (PrimFloat), evaluated by vm_compute. *)
From Coq Require Import ZArith List Bool.
From Coq Require Import PrimFloat Uint63 FloatOps.
Import ListNotations.

Record vops (V : Type) := {
  vltb : V -> V -> bool;      (* Python  a < b  *)
  vleb : V -> V -> bool;      (* a <= b *)
  veqb : V -> V -> bool;      (* a == b *)
  vadd : V -> V -> V;
  vsub : V -> V -> V;
  vmul : V -> V -> V;
  vdiv : V -> V -> V;
  vofZ : Z -> V;              (* int -> float conversion *)
  vlit : Z -> Z -> V          (* float literal m * 2^e in the source (exact for every binary64) *)
}.
Arguments vltb {V} _ _ _. Arguments vleb {V} _ _ _. Arguments veqb {V} _ _ _.
Arguments vadd {V} _ _ _. Arguments vsub {V} _ _ _. Arguments vmul {V} _ _ _.
Arguments vdiv {V} _ _ _. Arguments vofZ {V} _ _. Arguments vlit {V} _ _ _.

(* exact for |z| < 2^53, which covers every count the searches convert *)
Definition float_of_Z (z : Z) : float :=
  match z with
  | Z0 => 0%float
  | Zpos _ => of_uint63 (Uint63.of_Z z)
  | Zneg _ => (- of_uint63 (Uint63.of_Z (- z)))%float
  end.

Definition FloatOps : vops float := {|
  vltb := PrimFloat.ltb; vleb := PrimFloat.leb; veqb := PrimFloat.eqb;
  vadd := PrimFloat.add; vsub := PrimFloat.sub; vmul := PrimFloat.mul; vdiv := PrimFloat.div;
  vofZ := float_of_Z; vlit := fun m e => Z.ldexp (float_of_Z m) e |}.

Definition is_none {A} (o : option A) : bool := match o with None => true | _ => false end.
Definition is_some {A} (o : option A) : bool := match o with None => false | _ => true end.

(* range(a, b) *)
Definition zrange (a b : Z) : list Z := map (fun i => (a + Z.of_nat i)%Z) (seq 0 (Z.to_nat (b - a))).
Definition memZ (x : Z) (l : list Z) : bool := existsb (Z.eqb x) l.

(* scipy.special.comb(n, k, exact=True) on non-negative arguments *)
Fixpoint binomN (n k : nat) : N :=
  match n, k with
  | _, O => 1%N | O, S _ => 0%N | S n', S k' => (binomN n' k' + binomN n' k)%N end.
Definition zbinom (n k : Z) : Z :=
  if (n <? 0)%Z || (k <? 0)%Z then 0%Z else Z.of_N (binomN (Z.to_nat n) (Z.to_nat k)).
