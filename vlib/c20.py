"""C20 -- expansion of excluded days is exact.

Proof: props/C20.v.  Tie: entry lists generated from structured specifications (so the ground
truth is not the code's) are given to find_days_to_exclude + expand_time_windows and to the model
evaluated inside Coq; oracle: the covered calendar days computed with datetime.date.
"""
import datetime
import random

from . import common
from .common import Check, coq_list

TRUSTED = [
    'Coq 8.16.1 kernel and vm_compute (two finite calendar sweeps over 1900-2199 are evaluated by vm_compute; the bound '
    'is stated in the theorems); axioms: none',
    'translator translate/py2v.py target dates: utils.find_days_to_exclude (over the pieces of the text of each entry), utils.expand_time_windows and TimeWindow.__post_init__ are regenerated into '
    'gen/Gen_Dates.v on every run (days as integer day numbers; pd.date_range(a, b, freq="D") read as the integer range a..b, '
    'list(set(l)) as duplicate removal, isinstance(x, pd.Timestamp) as true) and proved equal to the model (proofs/DatesBridge.v)',
    'modelled, not verified: which texts pandas.Timestamp accepts (documented YYYY/MM/DD form), str.split and '
    'pandas.date_range; hand-written model/Dates.v tied by executed correspondence',
    'harness: strings are built from structured (year, month, day) specifications; expected days by datetime.date',
]


def rand_date(rng):
  y = rng.choice([1900, 1999, 2000, 2019, 2020, 2021, 2024, 2100, 2199, rng.randint(1900, 2199)])
  m = rng.choice([1, 2, 2, 3, 12, rng.randint(1, 12)])
  dim = [31, 29 if (y % 4 == 0 and y % 100 != 0) or y % 400 == 0 else 28, 31, 30, 31, 30, 31, 31, 30, 31, 30, 31][m - 1]
  d = rng.choice([1, dim, rng.randint(1, dim)])
  return (y, m, d)


def fmt(d):
  return '%04d/%02d/%02d' % d


def gen_entries(rng, malformed):
  n = rng.randint(0, 12)
  ents = []
  anchor = rand_date(rng)
  for _ in range(n):
    base = anchor if rng.random() < 0.6 else rand_date(rng)
    a = datetime.date(*base) + datetime.timedelta(days=rng.randint(-40, 40))
    if not (1900 <= a.year <= 2199):
      a = datetime.date(*base)
    if rng.random() < 0.45:
      ents.append(('single', (a.year, a.month, a.day)))
    else:
      b = a + datetime.timedelta(days=rng.choice([0, 1, 2, 5, 30, 59, 366]))
      if b.year > 2199:
        b = a
      ents.append(('range', (a.year, a.month, a.day), (b.year, b.month, b.day)))
  if rng.random() < 0.3 and ents:
    ents += rng.sample(ents, min(len(ents), 3))          # duplicates
  rng.shuffle(ents)
  if malformed:
    kind = rng.choice(['garbage', 'month13', 'feb30', 'three_parts', 'empty', 'reversed', 'reversed', 'day0', 'noleap'])
    # third component: the pieces of the text between '-' signs as pd.Timestamp reads them (a day / None = rejected);
    # 'nat' = a piece is empty text (pd.Timestamp gives NaT; rejected only by date_range; outside the translation)
    bad = {'garbage': ('raw', 'not a date', [None]), 'month13': ('raw', '2020/13/01', [None]), 'feb30': ('raw', '2020/02/30', [None]),
           'three_parts': ('raw', '2020/01/01 - 2020/01/05 - 2020/01/09', [(2020, 1, 1), (2020, 1, 5), (2020, 1, 9)]),
           'empty': ('raw', '', 'nat'),
           'day0': ('raw', '2020/01/00', [None]), 'noleap': ('raw', '2019/02/29 - 2019/03/02', [None, (2019, 3, 2)]),
           'reversed': None}[kind]
    if bad is None:
      # a reversed range: by one day (also across a month, leap-day or year boundary), a few days, or more
      a = rng.choice([datetime.date(2020, 3, 1), datetime.date(2021, 1, 1), datetime.date(2020, 2, 29), datetime.date(2019, 3, 1),
                      datetime.date(2020, 6, 15), datetime.date(2100, 3, 1)])
      b = a - datetime.timedelta(days=rng.choice([1, 1, 1, 2, 7, 29, 366]))
      bad = ('range', (a.year, a.month, a.day), (b.year, b.month, b.day))
    ents.insert(rng.randint(0, len(ents)), bad)
  return ents


def to_strings(ents):
  out = []
  for e in ents:
    if e[0] == 'single':
      out.append(fmt(e[1]))
    elif e[0] == 'range':
      out.append('%s - %s' % (fmt(e[1]), fmt(e[2])))
    else:
      out.append(e[1])
  return out


def run_impl(ents):
  from matched_markets.methodology import utils
  try:
    windows = utils.find_days_to_exclude(to_strings(ents))
    days = utils.expand_time_windows(windows)
  except ValueError:
    return 'ValueError'
  except Exception as e:
    return 'other:%s: %s' % (type(e).__name__, str(e)[:80])
  out = sorted((d.year, d.month, d.day) for d in days), len(days)
  # the caller keeps its windows: expanding them again, all together or one at a time, is held to the same statement
  try:
    again = utils.expand_time_windows(windows)
    if sorted(again) != sorted(days) or len(again) != len(days):
      return 'other:second expansion of the same windows differs from the first'
    for e, w in zip(ents, windows):
      one = utils.expand_time_windows([w])
      want = expected([e])
      if sorted((d.year, d.month, d.day) for d in one) != want or len(one) != len(want):
        return 'other:after an expansion of the whole list, the window of %r alone expands to %d days instead of %d' % (
            to_strings([e])[0], len(one), len(want))
  except Exception as e:
    return 'other:re-expansion raised %s: %s' % (type(e).__name__, str(e)[:80])
  return out


def expected(ents):
  days = set()
  for e in ents:
    if e[0] == 'raw':
      return 'ValueError'
    a = datetime.date(*e[1])
    b = datetime.date(*(e[2] if e[0] == 'range' else e[1]))
    if b < a:
      return 'ValueError'
    d = a
    while d <= b:
      days.add((d.year, d.month, d.day))
      d += datetime.timedelta(days=1)
  return sorted(days)


def encode(ents, res):
  t = []
  for e in ents:
    if e[0] == 'single':
      t.append('Single (%d, %d, %d)' % e[1])
    elif e[0] == 'range':
      t.append('Range (%d, %d, %d) (%d, %d, %d)' % (e[1] + e[2]))
    else:
      t.append('Malformed')
  if res == 'ValueError':
    r = 'None'
  else:
    r = 'Some %s' % coq_list(['(%d, %d, %d)' % d for d in res[0]])
  return '(%s, %s, %s)' % (coq_list(t), pieces(ents), r)


def pieces(ents):
  """What the harness knows about the text it wrote: per entry, the pieces between '-' signs."""
  out = []
  for e in ents:
    if e[0] == 'single':
      ps = [e[1]]
    elif e[0] == 'range':
      ps = [e[1], e[2]]
    elif len(e) > 2 and e[2] != 'nat':
      ps = e[2]
    else:
      return 'None'
    out.append(coq_list(['None' if q is None else 'Some (%d, %d, %d)' % tuple(q) for q in ps]))
  return '(Some %s)' % coq_list(out)


PRELUDE = ('From Coq Require Import List ZArith Bool.\nFrom MM Require Import model.Dates harness.RunCommon harness.RunC20.\n'
           'Import ListNotations.\nOpen Scope Z_scope.\n')


def run(tier):
  ck = Check('C20', tier)
  ck.prove('props/C20.v', gen_targets=['dates'], extra=['harness/RunC20.vo'])
  rng = random.Random(ck.seed * 41 + 20)
  n = common.sz(tier, 1000, 50000)
  cases = [gen_entries(rng, malformed=(i % 4 == 3)) for i in range(n)]
  cases += [[], [('single', (2020, 2, 29))], [('range', (2019, 12, 30), (2020, 1, 2)), ('range', (2020, 1, 1), (2020, 1, 1))],
            [('range', (2100, 2, 28), (2100, 3, 1))], [('range', (2000, 2, 28), (2000, 3, 1))]]
  terms, dist = [], {'accepted': 0, 'ValueError': 0, 'days_total': 0, 'with_overlap_or_duplicates': 0}
  for ents in cases:
    res = run_impl(ents)
    want = expected(ents)
    ck.count(repr(ents), nontrivial=len(ents) >= 2)
    if isinstance(res, str) and res.startswith('other'):
      ck.fail('non-ValueError', 'entries %r: %s' % (to_strings(ents), res[6:]), {'entries': ents})
      continue
    if res == 'ValueError':
      dist['ValueError'] += 1
      if want != 'ValueError':
        ck.fail('wrongly-rejected', 'well-formed entries %r raised ValueError' % to_strings(ents), {'entries': ents})
    else:
      days, count = res
      dist['accepted'] += 1
      dist['days_total'] += count
      if want == 'ValueError':
        ck.fail('wrongly-accepted', 'entries %r with a malformed or reversed item were accepted' % to_strings(ents), {'entries': ents})
      else:
        if count != len(set(days)):
          ck.fail('duplicate-days', 'expanded list of %r contains a day twice' % to_strings(ents), {'entries': ents})
        if sorted(set(days)) != want:
          ck.fail('wrong-days', 'expanded days of %r differ from the covered calendar days (%d vs %d days)'
                  % (to_strings(ents), len(set(days)), len(want)), {'entries': ents})
        total = sum(((datetime.date(*(e[2] if e[0] == 'range' else e[1])) - datetime.date(*e[1])).days + 1) for e in ents)
        dist['with_overlap_or_duplicates'] += total > len(want)
    terms.append(encode(ents, res))
  ck.sample({'entries': to_strings(cases[0])})
  ck.sample({'entries': to_strings(cases[3])})
  jobs, shard = [], 120
  for k in range(0, len(terms), shard):
    jobs.append(('c20_%d' % (k // shard), PRELUDE + 'Definition cases : list case := %s.\nEval vm_compute in (mismatches agrees cases).\n'
                 % coq_list(terms[k:k + shard]).replace('; ([', ';\n (['))) 
  res = common.coq_eval_many(jobs)
  bad = []
  for name, (rc, o) in res.items():
    mm = common.parse_nat_list(o) if rc == 0 else None
    if mm is None:
      ck.tie_broken('correspondence', 'model evaluation failed (%s)' % name, o[-1500:])
    else:
      bad += [int(name.split('_')[1]) * shard + i for i in mm]
  if bad:
    ck.tie_broken('correspondence', 'find_days_to_exclude/expand_time_windows vs model/Dates.v on %d lists' % len(bad),
                  {'entries': cases[sorted(bad)[0]]})
  ck.cov['rule'] = ('lists of 0-12 entries (single days and closed ranges of 0-366 days, clustered around an anchor date so '
                    'that they overlap, with duplicated entries, shuffled), dates over 1900-2199 biased to month / year / '
                    'leap-day boundaries (1900, 2000, 2100, Feb 28/29); every fourth list carries one malformed entry '
                    '(garbage, month 13, Feb 30, day 0, Feb 29 of a common year, three parts, empty string, range reversed by one day or more, also across month / leap-day / year boundaries). '
                    'non-trivial: at least two entries; distinct: the entry list')
  ck.cov['distribution'] = dist
  ck.cov['correspondence'] = {'lists_model_vs_impl': len(terms), 'disagreements': len(bad)}
  ck.assumptions = ['leniently parsed variants (2020/1/1, 20200101) are neither required to fail nor generated']
  return ck.finish('proof', TRUSTED)


def replay(data):
  inp = data.get('input') or next((b['detail'] for b in data.get('tie_broken', []) if isinstance(b.get('detail'), dict)), None)
  if not isinstance(inp, dict) or 'entries' not in inp:
    print('replay: nothing executable recorded:', [b['name'] for b in data.get('tie_broken', [])])
    return 1
  ents = [tuple(tuple(x) if isinstance(x, list) else x for x in e) for e in inp['entries']]
  res, want = run_impl(ents), expected(ents)
  got = res if isinstance(res, str) else sorted(set(res[0]))
  print('entries:', to_strings(ents))
  print('implementation:', got if isinstance(got, str) else '%d days' % len(got), '| expected:', want if isinstance(want, str) else '%d days' % len(want))
  bad = (got != want) or (not isinstance(res, str) and res[1] != len(set(res[0])))
  print('property failures:', 'yes' if bad else 'none')
  return 1 if bad else 0
