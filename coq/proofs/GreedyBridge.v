(* Bridge: the Gallina regenerated on this run from TBRMatchedMarkets._greedy_search (gen/Gen_Greedy.v: a
   fuelled local fixpoint for the while loop, folds for the two neighbourhood scans and the final filter,
   dictionaries as association lists, the translated design_within_constraints and HeapDict) computes exactly
   the hand-written model [greedy] of model/Search.v that the theorems of C01, C02, C09, C12 and C13 are
   about -- for every fuel, value type, score comparison, eligibility classes, parameters and kernel oracles. *)
From Coq Require Import List Arith ZArith Bool Lia.
From MM Require Import lib.ListExtra lib.ListSet lib.Combi lib.Values lib.Assoc model.Heap model.Elig model.SearchParams
  model.SearchDefs model.Search gen.Gen_HeapDict gen.Gen_Search gen.Gen_Exhaustive gen.Gen_Greedy
  proofs.HeapGen proofs.HeapBridge proofs.SearchBridge proofs.ExhaustiveBridge.
Import ListNotations.
Open Scope Z_scope.

(* dictionaries of sets: the model's lookup / store are the translator's dd_get / dd_set *)
Lemma lookup_dd_get (d : list (Z * set)) k : lookup d k = dd_get d k.
Proof. induction d as [|[k' s] d IH]; cbn; [reflexivity|]. rewrite IH. reflexivity. Qed.
Lemma store_dd_set (d : list (Z * set)) k s : store d k s = dd_set d k s.
Proof. induction d as [|[k' s'] d IH]; cbn; [reflexivity|]. rewrite IH. reflexivity. Qed.
Lemma drop_key_ad_remove (d : list (Z * set)) k : drop_key d k = ad_remove d k.
Proof. reflexivity. Qed.

Section Bridge.
  Context {V K : Type} (O : vops V) (ltk : K -> K -> bool).
  Variables (A : assignments) (par : spar V) (shareS : set -> V) (bud : set -> set -> V)
            (gkey : set -> set -> K) (zero_key : K).

  Notation gpar := (gpar A par).
  Notation g_trange := (g_trange A par).
  Notation g_crange := (g_crange A par).

  Definition glift (d : design) : @des K := (gkey (fst d) (snd d), (fst d, snd d), (fst d, snd d)).

  Theorem gen_greedy_is_model fuel :
    option_map (fun r => dd_get r 0) (gen_greedy_search O ltk A par shareS bud gkey zero_key fuel)
    = option_map (map glift) (greedy O ltk A par shareS bud gkey zero_key fuel).
  Proof.
    unfold gen_greedy_search, greedy. cbv zeta.
  Abort.
End Bridge.
