(* Bridge: the Gallina regenerated on this run from TBRMatchedMarkets.exhaustive_search
   (gen/Gen_Exhaustive.v: nested folds over the translated generators, pushing into the translated
   HeapDict) computes exactly the hand-written model [exhaustive] of model/Search.v that the theorems
   of C01, C02, C03, C04, C09, C11 and C13 are about -- for every value type, score comparison,
   eligibility classes, parameters and kernel oracles.

   Reading of the objects (fixed by the translator, see translate/py2v.py t_exhaustive):
   a stored design is (score, (treatment, control), groups whose series its diagnostics object holds);
   the score is [score0 T C], with its last component replaced when a budget range is given. *)
From Coq Require Import List Arith ZArith Bool Lia.
From MM Require Import lib.ListExtra lib.ListSet lib.Combi lib.Values model.Heap model.Elig model.SearchParams
  model.SearchDefs model.Search gen.Gen_HeapDict gen.Gen_Search gen.Gen_Exhaustive proofs.HeapGen proofs.HeapBridge proofs.SearchBridge
  proofs.ExhaustiveProofs.
Import ListNotations.

Lemma remove_first_ext' {A} (p q : A -> bool) l : (forall y, p y = q y) -> remove_first p l = remove_first q l.
Proof. intro H. induction l as [|y l IH]; cbn; [reflexivity|]. rewrite H, IH. reflexivity. Qed.

(* ---- the heap commutes with an injection of items that preserves keys ---- *)
Section HeapMap.
  Context {K A B : Type} (ltk : K -> K -> bool) (keyA : A -> K) (keyB : B -> K) (f : A -> B).
  Hypothesis key_f : forall a, keyB (f a) = keyA a.

  Lemma lt_item_map a b : lt_item ltk keyB (f a) (f b) = lt_item ltk keyA a b.
  Proof. unfold lt_item. rewrite !key_f. reflexivity. Qed.
  Lemma ins_map x l : ins ltk keyB (f x) (map f l) = map f (ins ltk keyA x l).
  Proof. induction l as [|y l IH]; cbn; [reflexivity|]. rewrite lt_item_map. destruct (lt_item ltk keyA y x); cbn; [reflexivity|]. rewrite IH. reflexivity. Qed.
  Lemma sortd_map l : sortd ltk keyB (map f l) = map f (sortd ltk keyA l).
  Proof.
    induction l as [|y l IH]; [reflexivity|].
    change (ins ltk keyB (f y) (sortd ltk keyB (map f l)) = map f (ins ltk keyA y (sortd ltk keyA l))).
    rewrite IH. apply ins_map.
  Qed.
  Lemma minl_map l : forall a, minl ltk keyB (f a) (map f l) = f (minl ltk keyA a l).
  Proof.
    induction l as [|b l IH]; intro a; cbn; [reflexivity|]. rewrite lt_item_map.
    destruct (lt_item ltk keyA b a); apply IH.
  Qed.
  Lemma remove_first_map (p : B -> bool) l : remove_first p (map f l) = map f (remove_first (fun a => p (f a)) l).
  Proof. induction l as [|y l IH]; cbn; [reflexivity|]. destruct (p (f y)); cbn; [reflexivity|]. rewrite IH. reflexivity. Qed.
  Lemma push_map size q x : push ltk keyB size (map f q) (f x) = map f (push ltk keyA size q x).
  Proof.
    unfold push, heappush, heappushpop. rewrite map_length. destruct (length q <? size)%nat; [reflexivity|].
    destruct q as [|a q']; [reflexivity|]. cbn [map]. cbv zeta. rewrite minl_map, lt_item_map.
    destruct (lt_item ltk keyA (minl ltk keyA a q') x); [|reflexivity].
    change (f a :: map f q') with (map f (a :: q')). rewrite remove_first_map. cbn [map]. f_equal. f_equal.
    apply remove_first_ext'. intro y. rewrite lt_item_map. reflexivity.
  Qed.
End HeapMap.

(* length of the queue: at most one more item per push, whatever the comparison *)
Section HeapLen.
  Context {K A : Type} (ltk : K -> K -> bool) (key : A -> K).
  Lemma remove_first_length_le (p : A -> bool) l : (length (remove_first p l) <= length l)%nat.
  Proof. induction l as [|y l IH]; cbn; [lia|]. destruct (p y); cbn; lia. Qed.
  Lemma push_length_S size q x : (length (push ltk key size q x) <= S (length q))%nat.
  Proof.
    unfold push, heappush, heappushpop. destruct (length q <? size)%nat; [cbn; lia|].
    destruct q as [|a q']; [cbn; lia|]. cbv zeta. destruct (lt_item ltk key _ x); [|lia].
    cbn [length]. pose proof (remove_first_length_le (fun y => negb (lt_item ltk key (minl ltk key a q') y)) (a :: q')). cbn [length] in H. lia.
  Qed.
  Lemma fold_push_length size l : forall q, (length (fold_left (push ltk key size) l q) <= length q + length l)%nat.
  Proof.
    induction l as [|x l IH]; intro q; cbn [fold_left length]; [lia|].
    specialize (IH (push ltk key size q x)). pose proof (push_length_S size q x). lia.
  Qed.
End HeapLen.

(* simulation of two folds over the same list *)
Lemma fold_sim_in {S1 S2 X} (R : S1 -> S2 -> Prop) (f : S1 -> X -> S1) (g : S2 -> X -> S2) l :
  (forall a b x, In x l -> R a b -> R (f a x) (g b x)) -> forall a b, R a b -> R (fold_left f l a) (fold_left g l b).
Proof.
  induction l as [|x l IH]; intros H a b Hab; cbn; [exact Hab|].
  apply IH; [intros a' b' y Hy; apply H; right; exact Hy|]. apply H; [left; reflexivity|exact Hab].
Qed.
Lemma fold_sim {S1 S2 X} (R : S1 -> S2 -> Prop) (f : S1 -> X -> S1) (g : S2 -> X -> S2) l :
  (forall a b x, R a b -> R (f a x) (g b x)) -> forall a b, R a b -> R (fold_left f l a) (fold_left g l b).
Proof. intro H. induction l as [|x l IH]; intros a b Hab; cbn; [exact Hab|]. apply IH, H, Hab. Qed.

Section Bridge.
  Context {V K : Type} (O : vops V) (ltk : K -> K -> bool).
  Variables (A : assignments) (par : spar V) (shareS optB : set -> V) (bud : set -> set -> V)
            (score0 : set -> set -> K) (replace_inv : K -> V -> K).

  (* the score a design is stored with (tbrmatchedmarkets.py: design_score.score, replaced under a budget range) *)
  Definition stored_key (T C : set) : K :=
    match p_budget_range par with
    | None => score0 T C
    | Some r => replace_inv (score0 T C) (vdiv O (vofZ O 1) (vdiv O (bud T C) (snd r)))
    end.
  Definition lift (d : design) : des := (stored_key (fst d) (snd d), (fst d, snd d), (fst d, snd d)).

  Lemma key_lift d : des_key (lift d) = ekey stored_key d.
  Proof. reflexivity. Qed.

  Notation cap := (p_n_designs par).
  (* gen heapdict state vs. the model's single queue *)
  Definition Rh (hd : @heapdict des) (h : list design) : Prop :=
    hd_size hd = cap /\ ((hd_result hd = [] /\ h = []) \/ hd_result hd = [(0%Z, map lift h)]).

  Lemma Rh_init : Rh (@GenHeapDict.gen_init des cap) [].
  Proof. split; [reflexivity|left; split; reflexivity]. Qed.

  Lemma Rh_push hd h T C :
    Rh hd h -> Rh (GenHeapDict.gen_push ltk des_key hd 0%Z (stored_key T C, (T, C), (T, C)))
                  (push ltk (ekey stored_key) cap h (T, C)).
  Proof.
    intros [Hs Hr]. rewrite HeapBridge.bridge_push. unfold hd_push, hd_set_result. split; [exact Hs|]. right. cbn [hd_result hd_size].
    rewrite Hs. change (stored_key T C, (T, C), (T, C)) with (lift (T, C)).
    destruct Hr as [[Hr ->]|Hr]; rewrite Hr; cbn [dd_get dd_set Z.eqb].
    - change (@nil des) with (map lift []). rewrite (push_map ltk (ekey stored_key) des_key lift key_lift). reflexivity.
    - rewrite (push_map ltk (ekey stored_key) des_key lift key_lift). reflexivity.
  Qed.

  Lemma Rh_result hd h : Rh hd h ->
    dd_get (GenHeapDict.gen_get_result ltk des_key hd) 0%Z = map lift (nlargest_all ltk (ekey stored_key) h).
  Proof.
    intros [_ [[Hr ->]|Hr]]; unfold GenHeapDict.gen_get_result; cbv zeta; rewrite Hr; cbn; [reflexivity|].
    unfold nlargest_all. apply (sortd_map ltk (ekey stored_key) des_key lift key_lift).
  Qed.

  Lemma Rh_push' hd h T C k :
    k = stored_key T C -> Rh hd h ->
    Rh (GenHeapDict.gen_push ltk des_key hd 0%Z (k, (T, C), (T, C))) (push ltk (ekey stored_key) cap h (T, C)).
  Proof. intros ->. apply Rh_push. Qed.

  (* the inner loop: all control groups of one treatment group *)
  Definition Rinner (s1 : V * V * @heapdict des) (h : list design) : Prop := Rh (snd s1) h.

  (* state relations of the two outer loops: gen keeps (results, patterns) and (patterns, results) *)
  Definition R1 (s1 : @heapdict des * list set) (s2 : list set * list design) : Prop := snd s1 = fst s2 /\ Rh (fst s1) (snd s2).
  Definition R2 (s1 : list set * @heapdict des) (s2 : list set * list design) : Prop := fst s1 = fst s2 /\ Rh (snd s1) (snd s2).

  Lemma R2_of_inner (F : V * V * @heapdict des) pats G :
    Rinner F G -> R2 (let '(_, _, r) := F in (pats, r)) (pats, G).
  Proof. destruct F as [[a b] r]. intro H. split; [reflexivity|exact H]. Qed.

  Theorem gen_exhaustive_is_model :
    dd_get (gen_exhaustive_search O ltk A par shareS optB bud score0 replace_inv) 0%Z
    = map lift (exhaustive O ltk A par shareS optB bud stored_key).
  Proof.
    unfold gen_exhaustive_search, exhaustive, exh_state, u_treatment_group_size_range, u_treatment_group_generator,
      u_control_group_generator. cbv zeta.
    rewrite bridge_tsize_range.
    set (sizes := tsize_range A par). clearbody sizes.
    assert (Hfin : forall s1 s2, R1 s1 s2 ->
      dd_get (GenHeapDict.gen_get_result ltk des_key (fst s1)) 0%Z = map lift (nlargest_all ltk (ekey stored_key) (snd s2))).
    { intros s1 s2 [_ H]. apply Rh_result, H. }
    destruct (p_volume_ratio_tolerance par) as [tol|] eqn:Evol.
    all: match goal with |- dd_get (let '(r, p) := ?F in _) _ = _ =>
           transitivity (dd_get (GenHeapDict.gen_get_result ltk des_key (fst F)) 0%Z); [destruct F; reflexivity|] end.
    all: apply Hfin.
    all: apply fold_sim_in; [|split; [reflexivity|apply Rh_init]].
    all: intros [hd pats] [pats' h] n Hn [Hp HR]; cbn [fst snd] in Hp, HR; subst pats'.
    all: assert (Hsave : (if negb (is_nil sizes) then Some (last sizes 0%Z) else None) = Some (last sizes 0%Z))
           by (destruct sizes; [destruct Hn|reflexivity]).
    all: rewrite Hsave; clear Hsave Hn.
    all: rewrite bridge_treat_groups.
    all: match goal with |- R1 (let '(p, r) := ?F in (r, p)) ?G =>
           cut (R2 F G); [destruct F as [p0 r0]; intros [H1 H2]; split; [exact H1|exact H2]|] end.
    all: apply fold_sim; [|split; [reflexivity|exact HR]].
    all: clear hd pats h HR; intros [pats hd] [pats' h] T [Hp HR]; cbn [fst snd] in Hp, HR; subst pats'.
    all: unfold step_T, decide, share_out, subsumed, budget_decision; cbn [fst snd].
    all: destruct (p_treatment_share_range par) as [sr|]; destruct (p_budget_range par) as [br|] eqn:Ebud.
    all: repeat match goal with
         | |- R2 (if ?c then _ else _) _ => destruct c
         end.
    all: try (split; [reflexivity|exact HR]).
    all: apply R2_of_inner.
    all: unfold eval_controls; rewrite bridge_control_groups.
    all: apply fold_sim; [|exact HR].
    all: clear hd h HR; intros [[a0 b0] hd] h C HR; unfold Rinner in *; cbn [snd] in *.
    all: unfold vol_out, budget_out; rewrite ?Evol, ?Ebud, ?bridge_not_satisfied.
    all: repeat match goal with
         | |- Rh (snd (if ?c then _ else _)) _ => destruct c
         end; cbn [snd].
    all: try exact HR.
    all: apply Rh_push'; [unfold stored_key; rewrite Ebud; reflexivity|exact HR].
  Qed.

  Definition des_groups (d : @des K) : design := snd (fst d).
  Theorem gen_exhaustive_groups :
    map des_groups (dd_get (gen_exhaustive_search O ltk A par shareS optB bud score0 replace_inv) 0%Z)
    = exhaustive O ltk A par shareS optB bud stored_key.
  Proof.
    rewrite gen_exhaustive_is_model, map_map. unfold des_groups, lift. cbn [fst snd].
    erewrite map_ext; [apply map_id|]. intros [T C]. reflexivity.
  Qed.
  Lemma gen_exhaustive_in d :
    In d (dd_get (gen_exhaustive_search O ltk A par shareS optB bud score0 replace_inv) 0%Z) ->
    In (des_groups d) (exhaustive O ltk A par shareS optB bud stored_key).
  Proof. intro H. rewrite <- gen_exhaustive_groups. apply in_map, H. Qed.

  Lemma gen_exhaustive_keys :
    map des_key (dd_get (gen_exhaustive_search O ltk A par shareS optB bud score0 replace_inv) 0%Z)
    = map (ekey stored_key) (exhaustive O ltk A par shareS optB bud stored_key).
  Proof. rewrite gen_exhaustive_is_model, map_map. apply map_ext. intros d. reflexivity. Qed.
  Lemma gen_exhaustive_nil :
    exhaustive O ltk A par shareS optB bud stored_key = [] ->
    dd_get (gen_exhaustive_search O ltk A par shareS optB bud score0 replace_inv) 0%Z = [].
  Proof. intro H. rewrite gen_exhaustive_is_model, H. reflexivity. Qed.

  (* what the translated code says about each stored design: its diagnostics object holds the series of exactly
     its own groups, and its score is the stored key of those groups *)
  Corollary gen_exhaustive_designs_own_their_diag d :
    In d (dd_get (gen_exhaustive_search O ltk A par shareS optB bud score0 replace_inv) 0%Z) ->
    snd d = snd (fst d) /\ fst (fst d) = stored_key (fst (snd (fst d))) (snd (snd (fst d))).
  Proof.
    rewrite gen_exhaustive_is_model. intro H. apply in_map_iff in H. destruct H as [[T C] [<- _]]. split; reflexivity.
  Qed.
End Bridge.

(* for any comparison, the exhaustive result is no longer than what was offered to the queue *)
Lemma exhaustive_length_le_pushed {V K : Type} (O : vops V) (ltk : K -> K -> bool) (es : list elig) (par : spar V)
      (shareS optB : set -> V) (bud : set -> set -> V) (skey : set -> set -> K) :
  (length (exhaustive O ltk (assignments_of es) par shareS optB bud skey) <= length (pushed O es par shareS optB bud))%nat.
Proof.
  rewrite exhaustive_is_topk_of_pushed, nlargest_length.
  pose proof (fold_push_length ltk (ekey skey) (p_n_designs par) (pushed O es par shareS optB bud) []) as H. cbn [length] in H. lia.
Qed.
