(* C09: the decision layer of both searches cannot fail -- the generators are only called
   inside their domain, the translated code cannot divide by zero, and an infeasible input
   yields the empty list. *)
From Coq Require Import List Arith ZArith Bool Lia PrimFloat.
From MM Require Import lib.ListExtra lib.ListSet lib.Combi lib.Values model.Heap model.Elig model.SearchParams
  model.SearchDefs model.Search proofs.EligProofs proofs.GroupSpecs proofs.HeapGen proofs.ExhaustiveProofs proofs.GreedyProofs.
Import ListNotations.
Open Scope Z_scope.

Section Totality.
  Context {V K : Type} (O : vops V) (ltk : K -> K -> bool).
  Variables (es : list elig) (par : spar V).
  Let A := assignments_of es.

  (* the exhaustive search calls the generators only where they do not raise *)
  Theorem treat_generator_in_domain n : In n (tsize_range A par) -> treat_groups_raises n = false.
  Proof. intro H. apply (tsize_range_ge1 es) in H. unfold treat_groups_raises. apply Z.leb_gt. lia. Qed.
  Theorem control_generator_in_domain n T :
    In n (tsize_range A par) -> In T (treat_groups A n) -> control_groups_raises A T = false.
  Proof.
    intros Hn HT. destruct (treat_groups_sound es n T HT) as [Hn1 [_ [Hi [_ Hl]]]].
    unfold control_groups_raises. apply orb_false_iff. split.
    - destruct T; [unfold zlen in Hl; cbn in Hl; lia|reflexivity].
    - apply negb_false_iff, is_nil_spec. destruct (diff T (a_t A)) as [|y l] eqn:Ed; [reflexivity|].
      assert (Hy : In y (diff T (a_t A))) by (rewrite Ed; left; reflexivity).
      apply In_diff in Hy. destruct Hy as [Hy1 Hy2]. exfalso. apply Hy2, Hi, Hy1.
  Qed.

  Variables (shareS optB : set -> V) (bud : set -> set -> V) (skey gkey : set -> set -> K) (zero_key : K).

  (* nothing feasible => the exhaustive search returns the empty list *)
  Theorem exhaustive_empty_when_infeasible :
    (forall d, passed O es par shareS bud d -> False) ->
    exhaustive O ltk A par shareS optB bud skey = [].
  Proof.
    intro Hno. destruct (exhaustive O ltk A par shareS optB bud skey) as [|d l] eqn:E; [reflexivity|]. exfalso.
    apply (Hno d). apply pushed_sound with (optB := optB). eapply results_are_pushed. subst A. rewrite E. left. reflexivity.
  Qed.
  (* an empty range of admissible treatment sizes is not an error *)
  Theorem exhaustive_no_sizes : tsize_range A par = [] -> exhaustive O ltk A par shareS optB bud skey = [].
  Proof.
    intro H. apply exhaustive_empty_when_infeasible. intros d [Hd _]. unfold enum_pairs in Hd. fold A in Hd.
    rewrite H in Hd. destruct Hd.
  Qed.

  Theorem greedy_empty_when_infeasible fuel ds :
    (forall T C, legal es T C -> gwithin O A par shareS T C = true -> budget_out O par (bud T C) = false -> False) ->
    greedy O ltk A par shareS bud gkey zero_key fuel = Some ds -> ds = [].
  Proof.
    intros Hno Hg. destruct ds as [|[T C] l]; [reflexivity|]. exfalso.
    destruct (greedy_sound O ltk es par shareS bud gkey zero_key fuel _ T C Hg (or_introl eq_refl)) as [H1 [H2 H3]].
    eapply Hno; eassumption.
  Qed.
End Totality.
