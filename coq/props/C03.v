(* C03 -- Exhaustive search returns the best-scoring feasible designs, best first. *)
From Coq Require Import List Arith ZArith Bool Orders.
From MM Require Import lib.ListSet lib.Combi lib.Values model.Heap model.Elig model.SearchParams model.SearchDefs model.Search
  proofs.GroupSpecs proofs.HeapProofs proofs.ExhaustiveProofs proofs.CountProofs.
Import ListNotations.
From MM Require Import gen.Gen_HeapDict gen.Gen_Exhaustive proofs.ExhaustiveBridge.

(* the designs offered to the bounded queue are exactly the enumerated (legal, size-admissible)
   pairs that pass the volume, share and budget filters, except those the pruning may skip *)
Theorem C03_pushed_are_feasible :
  forall (V : Type) (O : vops V) (es : list elig) (par : spar V)
         (shareS optB : set -> V) (bud : set -> set -> V) d,
    In d (pushed O es par shareS optB bud) -> passed O es par shareS bud d.
Proof. exact @pushed_sound. Qed.
(* a feasible design is offered unless its treatment group has an optimistic budget outside the
   range, or contains an enumerated treatment group whose optimistic budget is above the maximum *)
Theorem C03_feasible_are_pushed_unless_prunable :
  forall (V : Type) (O : vops V) (es : list elig) (par : spar V)
         (shareS optB : set -> V) (bud : set -> set -> V) T C,
    In (T, C) (enum_pairs O (assignments_of es) par) ->
    vol_out O par shareS T C = false -> budget_out O par (bud T C) = false ->
    not_prunable O es par shareS optB T -> In (T, C) (pushed O es par shareS optB bud).
Proof. exact @pushed_complete. Qed.
(* nothing is offered twice *)
Theorem C03_pushed_distinct :
  forall (V : Type) (O : vops V) (es : list elig) (par : spar V)
         (shareS optB : set -> V) (bud : set -> set -> V),
    NoDup (pushed O es par shareS optB bud).
Proof. intros. eapply sublist_NoDup; [apply pushed_sublist|apply enum_pairs_NoDup]. Qed.

(* with scores in a total order (NaN-free score tuples): *)
Module C03 (K : UsualOrderedTypeFull').
  Module E := ExhTopK K.
  Import E.

  (* the result is the k best keys offered, best first, min(k, #offered) of them ... *)
  Theorem C03_result_is_topk :
    forall (V : Type) (O : vops V) (es : list elig) (par : spar V)
           (shareS optB : set -> V) (bud : set -> set -> V) (skey : set -> set -> K.t),
      map (ekey skey) (exhaustive O HP.kltb (assignments_of es) par shareS optB bud skey)
      = Heap.topk HP.kltb (p_n_designs par) (map (ekey skey) (pushed O es par shareS optB bud)).
  Proof. exact @exhaustive_topk. Qed.
  Theorem C03_result_best_first :
    forall (V : Type) (O : vops V) (es : list elig) (par : spar V)
           (shareS optB : set -> V) (bud : set -> set -> V) (skey : set -> set -> K.t),
      HP.desc (map (ekey skey) (exhaustive O HP.kltb (assignments_of es) par shareS optB bud skey)).
  Proof. exact @exhaustive_sorted. Qed.
  Theorem C03_result_size :
    forall (V : Type) (O : vops V) (es : list elig) (par : spar V)
           (shareS optB : set -> V) (bud : set -> set -> V) (skey : set -> set -> K.t),
      length (exhaustive O HP.kltb (assignments_of es) par shareS optB bud skey)
      = Nat.min (p_n_designs par) (length (pushed O es par shareS optB bud)).
  Proof. exact @exhaustive_length. Qed.
  (* ... and no offered design outside the result scores strictly above the worst returned one *)
  Theorem C03_result_optimal :
    forall (V : Type) (O : vops V) (es : list elig) (par : spar V)
           (shareS optB : set -> V) (bud : set -> set -> V) (skey : set -> set -> K.t) d,
      In d (pushed O es par shareS optB bud) ->
      In (ekey skey d) (map (ekey skey) (exhaustive O HP.kltb (assignments_of es) par shareS optB bud skey)) \/
      (length (exhaustive O HP.kltb (assignments_of es) par shareS optB bud skey) = p_n_designs par /\
       forall r, In r (exhaustive O HP.kltb (assignments_of es) par shareS optB bud skey) ->
                 K.le (ekey skey d) (ekey skey r)).
  Proof. exact @exhaustive_optimal. Qed.

  (* stated on the Gallina regenerated on this run from exhaustive_search itself (gen/Gen_Exhaustive.v): the scores
     of the designs the translated code returns are the k best scores offered to the queue, best first *)
  Theorem C03_translated_exhaustive_search_is_topk :
    forall (V : Type) (O : vops V) (es : list elig) (par : spar V)
           (shareS optB : set -> V) (bud : set -> set -> V) (score0 : set -> set -> K.t) (replace_inv : K.t -> V -> K.t),
      map des_key (dd_get (gen_exhaustive_search O HP.kltb (assignments_of es) par shareS optB bud score0 replace_inv) 0%Z)
      = Heap.topk HP.kltb (p_n_designs par)
          (map (ekey (stored_key O par bud score0 replace_inv)) (pushed O es par shareS optB bud)).
  Proof. intros. rewrite gen_exhaustive_keys. apply exhaustive_topk. Qed.
  Theorem C03_translated_exhaustive_search_groups_are_the_model :
    forall (V : Type) (O : vops V) (es : list elig) (par : spar V)
           (shareS optB : set -> V) (bud : set -> set -> V) (score0 : set -> set -> K.t) (replace_inv : K.t -> V -> K.t),
      map (@des_groups K.t) (dd_get (gen_exhaustive_search O HP.kltb (assignments_of es) par shareS optB bud score0 replace_inv) 0%Z)
      = exhaustive O HP.kltb (assignments_of es) par shareS optB bud (stored_key O par bud score0 replace_inv).
  Proof. intros. apply gen_exhaustive_groups. Qed.
End C03.

Print Assumptions C03_pushed_are_feasible.
Print Assumptions C03_feasible_are_pushed_unless_prunable.
Print Assumptions C03_pushed_distinct.
Module C03Z := C03 Z.
Print Assumptions C03Z.C03_result_is_topk.
Print Assumptions C03Z.C03_result_best_first.
Print Assumptions C03Z.C03_result_size.
Print Assumptions C03Z.C03_result_optimal.
Print Assumptions C03Z.C03_translated_exhaustive_search_is_topk.
Print Assumptions C03Z.C03_translated_exhaustive_search_groups_are_the_model.

(* ---- with the order the code uses.  TBRMMScore.__lt__ and the Scoring tuple are regenerated from tbrmmscore.py on every
   run (gen/Gen_Score.v): designs are compared by Python's < on their score tuples, whose components are, in this order,
   the four test verdicts, the correlation rounded to two digits and the inverse required impact.  For NaN-free tuples
   (floats given as order-preserving integers) that comparison is the lexicographic order, and the statements above
   hold of the exhaustive search run with it. *)
From MM Require Import lib.PyScore gen.Gen_Score proofs.ScoreOrder.
Theorem C03_code_order_is_python_tuple_order : gen_score_lt = py_ltb.
Proof. exact gen_score_lt_is_tuple_lt. Qed.
Theorem C03_code_score_is_documented_tuple : gen_score_tuple = documented_score.
Proof. exact gen_score_is_documented. Qed.
Theorem C03_failed_test_outweighs_correlation_and_impact :
  forall c a b d c' a' b' d' corr inv corr' inv',
    (verdicts c a b d < verdicts c' a' b' d')%Z ->
    gen_score_lt (gen_score_tuple c a b d corr inv) (gen_score_tuple c' a' b' d' corr' inv') = true /\
    gen_score_lt (gen_score_tuple c' a' b' d' corr' inv') (gen_score_tuple c a b d corr inv) = false.
Proof. exact verdicts_dominate. Qed.
Theorem C03_equal_verdicts_then_correlation_then_impact :
  forall c a b d (x x' y y' : Z),
    gen_score_lt (gen_score_tuple c a b d (Some x) (Some y)) (gen_score_tuple c a b d (Some x') (Some y'))
    = ((x <? x') || ((x =? x') && (y <? y')))%Z.
Proof. exact equal_verdicts_then_correlation. Qed.
Theorem C03_result_is_topk_under_the_code_order :
  forall (V : Type) (O : vops V) (es : list elig) (par : spar V)
         (shareS optB : set -> V) (bud : set -> set -> V) (zkey : set -> set -> list Z),
    map (ekey zkey) (exhaustive O gen_score_lt (assignments_of es) par shareS optB bud (fun T C => map Some (zkey T C)))
    = Heap.topk ZTop.HP.kltb (p_n_designs par) (map (ekey zkey) (pushed O es par shareS optB bud)).
Proof. exact @python_order_topk. Qed.
Theorem C03_result_best_first_under_the_code_order :
  forall (V : Type) (O : vops V) (es : list elig) (par : spar V)
         (shareS optB : set -> V) (bud : set -> set -> V) (zkey : set -> set -> list Z),
    ZTop.HP.desc (map (ekey zkey) (exhaustive O gen_score_lt (assignments_of es) par shareS optB bud (fun T C => map Some (zkey T C)))).
Proof. exact @python_order_best_first. Qed.
Theorem C03_result_optimal_under_the_code_order :
  forall (V : Type) (O : vops V) (es : list elig) (par : spar V)
         (shareS optB : set -> V) (bud : set -> set -> V) (zkey : set -> set -> list Z) d,
    In d (pushed O es par shareS optB bud) ->
    let result := exhaustive O gen_score_lt (assignments_of es) par shareS optB bud (fun T C => map Some (zkey T C)) in
    In (ekey zkey d) (map (ekey zkey) result) \/
    (List.length result = p_n_designs par /\ forall r, In r result -> ZListKey.le (ekey zkey d) (ekey zkey r)).
Proof. exact @python_order_optimal. Qed.
Print Assumptions C03_result_is_topk_under_the_code_order.
Print Assumptions C03_result_optimal_under_the_code_order.
Print Assumptions C03_failed_test_outweighs_correlation_and_impact.
