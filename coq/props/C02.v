(* C02 -- Returned designs satisfy every user-specified numeric constraint. *)
From Coq Require Import List Arith ZArith Bool.
From MM Require Import lib.ListSet lib.Values model.Heap model.Elig model.SearchParams model.SearchDefs model.Search
  gen.Gen_Search proofs.GroupSpecs proofs.SearchBridge proofs.ExhaustiveProofs proofs.GreedyProofs proofs.ConstraintProofs.
Import ListNotations.
From MM Require Import gen.Gen_HeapDict gen.Gen_Exhaustive gen.Gen_Greedy proofs.ExhaustiveBridge proofs.GreedyBridge.

(* exhaustive search: sizes inside the user ranges, geo-count ratio admitted by the tolerance,
   volume ratio, treatment share and required budget inside their ranges (each exactly as the code
   evaluates it, over any value type) *)
Theorem C02_exhaustive_constraints :
  forall (V K : Type) (O : vops V) (ltk : K -> K -> bool) (es : list elig) (par : spar V)
         (shareS optB : set -> V) (bud : set -> set -> V) (skey : set -> set -> K) (T C : set),
    In (T, C) (exhaustive O ltk (assignments_of es) par shareS optB bud skey) ->
    in_zrange (p_treatment_geos_range par) (zlen T) /\
    in_zrange (p_control_geos_range par) (zlen C) /\
    ratio_ok O par (zlen T) (zlen C) = true /\
    vol_out O par shareS T C = false /\
    share_out O par shareS T = false /\
    budget_out O par (bud T C) = false.
Proof. exact @exhaustive_constraints. Qed.

(* greedy search: every returned design passed design_within_constraints and the budget test *)
Theorem C02_greedy_constraints :
  forall (V K : Type) (O : vops V) (ltk : K -> K -> bool) (es : list elig) (par : spar V)
         (shareS : set -> V) (bud : set -> set -> V) (gkey : set -> set -> K) (zero_key : K)
         (fuel : nat) (ds : list design) (T C : set),
    greedy O ltk (assignments_of es) par shareS bud gkey zero_key fuel = Some ds -> In (T, C) ds ->
    tsize_ok O (gpar (assignments_of es) par) T = true /\ csize_ok O (gpar (assignments_of es) par) C = true /\
    volume_ok O par shareS T C = true /\ georatio_ok O par T C = true /\
    share_ok_rel O (assignments_of es) par shareS T = true /\ budget_out O par (bud T C) = false.
Proof. exact @greedy_constraints. Qed.
Theorem C02_greedy_user_size_ranges :
  forall (V K : Type) (O : vops V) (ltk : K -> K -> bool) (es : list elig) (par : spar V)
         (shareS : set -> V) (bud : set -> set -> V) (gkey : set -> set -> K) (zero_key : K),
    (forall x y, vltb O (vofZ O x) (vofZ O y) = (x <? y)%Z) ->
    forall (fuel : nat) (ds : list design) (T C : set),
    greedy O ltk (assignments_of es) par shareS bud gkey zero_key fuel = Some ds -> In (T, C) ds ->
    in_zrange (p_treatment_geos_range par) (zlen T) /\ in_zrange (p_control_geos_range par) (zlen C).
Proof. exact @greedy_user_size_ranges. Qed.

(* integer-valued bounds are inclusive at both ends *)
Theorem C02_treatment_sizes_inclusive :
  forall (V : Type) (es : list elig) (par : spar V) n,
    (fst (tsize_bounds (assignments_of es) par) <= n <= snd (tsize_bounds (assignments_of es) par))%Z ->
    In n (tsize_range (assignments_of es) par).
Proof. exact @sizes_inclusive_t. Qed.
Theorem C02_control_sizes_inclusive :
  forall (V : Type) (O : vops V) (es : list elig) (par : spar V) nt nc,
    (fst (csize_bounds (assignments_of es) par) <= nc <= snd (csize_bounds (assignments_of es) par))%Z ->
    ratio_ok O par nt nc = true -> In nc (csizes O (assignments_of es) par nt).
Proof. exact @sizes_inclusive_c. Qed.
(* an unspecified constraint imposes nothing *)
Theorem C02_unspecified_constraints_are_free :
  forall (V : Type) (O : vops V) (es : list elig) (par : spar V)
         (shareS optB : set -> V) (bud : set -> set -> V),
    p_volume_ratio_tolerance par = None -> p_treatment_share_range par = None -> p_budget_range par = None ->
    forall d, In d (enum_pairs O (assignments_of es) par) -> In d (pushed O es par shareS optB bud).
Proof. exact @unspecified_constraints_are_free. Qed.

(* tie: the constraint predicate, the size generators and design_within_constraints as
   regenerated from the source are the model; the translated code cannot divide by zero *)
Theorem C02_generated_constraint_predicate :
  forall (V : Type) (O : vops V) v lo hi, gen_constraint_not_satisfied O v lo hi = not_satisfied O v lo hi.
Proof. exact @bridge_not_satisfied. Qed.
Theorem C02_generated_within :
  forall (V : Type) (O : vops V) A (par : spar V) shareS T C,
    gen_design_within_constraints O A par shareS T C = within O A par shareS T C.
Proof. exact @bridge_within. Qed.
Theorem C02_generated_tsize : forall (V : Type) A (par : spar V), gen_treatment_group_size_range A par = tsize_range A par.
Proof. exact @bridge_tsize_range. Qed.
Theorem C02_generated_csizes :
  forall (V : Type) (O : vops V) A (par : spar V) nt, gen_control_group_size_generator O A par nt = csizes O A par nt.
Proof. exact @bridge_csizes. Qed.

Print Assumptions C02_exhaustive_constraints.
Print Assumptions C02_greedy_constraints.
Print Assumptions C02_greedy_user_size_ranges.
Print Assumptions C02_treatment_sizes_inclusive.
Print Assumptions C02_control_sizes_inclusive.
Print Assumptions C02_unspecified_constraints_are_free.
Print Assumptions C02_generated_within.

(* stated on the Gallina regenerated on this run from exhaustive_search itself (gen/Gen_Exhaustive.v) *)
Theorem C02_translated_exhaustive_search_constraints :
  forall (V K : Type) (O : vops V) (ltk : K -> K -> bool) (es : list elig) (par : spar V)
         (shareS optB : set -> V) (bud : set -> set -> V) (score0 : set -> set -> K) (replace_inv : K -> V -> K) d,
    In d (dd_get (gen_exhaustive_search O ltk (assignments_of es) par shareS optB bud score0 replace_inv) 0%Z) ->
    let T := fst (des_groups d) in let C := snd (des_groups d) in
    in_zrange (p_treatment_geos_range par) (zlen T) /\
    in_zrange (p_control_geos_range par) (zlen C) /\
    ratio_ok O par (zlen T) (zlen C) = true /\
    vol_out O par shareS T C = false /\
    share_out O par shareS T = false /\
    budget_out O par (bud T C) = false.
Proof.
  intros. eapply exhaustive_constraints. subst T C. rewrite <- surjective_pairing. eapply gen_exhaustive_in; eassumption.
Qed.
Print Assumptions C02_translated_exhaustive_search_constraints.

(* stated on the Gallina regenerated on this run from _greedy_search itself (gen/Gen_Greedy.v) *)
Theorem C02_translated_greedy_search_constraints :
  forall (V K : Type) (O : vops V) (ltk : K -> K -> bool) (es : list elig) (par : spar V)
         (shareS : set -> V) (bud : set -> set -> V) (gkey : set -> set -> K) (zero_key : K) (fuel : nat) r d,
    gen_greedy_search O ltk (assignments_of es) par shareS bud gkey zero_key fuel = Some r -> In d (dd_get r 0%Z) ->
    let T := fst (des_groups d) in let C := snd (des_groups d) in
    tsize_ok O (gpar (assignments_of es) par) T = true /\ csize_ok O (gpar (assignments_of es) par) C = true /\
    volume_ok O par shareS T C = true /\ georatio_ok O par T C = true /\
    share_ok_rel O (assignments_of es) par shareS T = true /\ budget_out O par (bud T C) = false.
Proof.
  intros until d. intros Hr Hd T C. destruct (gen_greedy_in O ltk _ par shareS bud gkey zero_key fuel r d Hr Hd) as [ds [Hg Hin]].
  eapply greedy_constraints; [exact Hg|]. subst T C. rewrite <- surjective_pairing. exact Hin.
Qed.
Print Assumptions C02_translated_greedy_search_constraints.
