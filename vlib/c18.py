"""C18 -- pointwise and cumulative effect series are well-formed for any experiment."""
import random

from . import common, tbrfam
from .common import Check
from .tbrfam import close
from .c06 import TRUSTED
from .c07 import fit_iroas

KNOWN_SCALE = 'cumulative-scale-decreases'
KNOWN_LVL = 'one-tailed-level-below-half'


def analyse(seed):
  import numpy as np
  rng = random.Random(seed)
  out = {'fails': [], 'known': [], 'seed': seed}
  kind = rng.choice(['plain', 'plain', 'plain', 'spike'])
  spec = tbrfam.gen_frame(seed, cooldown=True, scenario=rng.choice(['fixed', 'variable']))
  r3 = random.Random(seed * 29 + 3)
  if spec['scenario'] == 'variable' and kind == 'plain' and r3.random() < 0.35 and spec['n_pre'] >= 5:
    kind = 'constant-control-cost'          # control geos on a constant daily budget: the cost regression is rank-deficient
    for g in spec['geos']:
      if g['group'] == 1:
        g['cost'] = [float(4 * (1 + g['id'] % 3))] * len(g['cost'])
  if spec['scenario'] == 'variable' and kind == 'plain' and r3.random() < 0.3 and spec['n_pre'] >= 5:
    kind = 'dark-control'                   # the control group never spends; the treatment group has a base spend in the pre-period too
    for g in spec['geos']:
      if g['group'] == 1:
        g['cost'] = [0.0] * len(g['cost'])
  if spec['scenario'] == 'variable' and kind == 'plain' and r3.random() < 0.25:
    # a credit note on a control geo on the last test day: the non-incremental cost (pre-period cost + control test cost)
    # becomes negative -- not zero -- while every group keeps a varying spend
    kind = 'control-credit'
    npre_, ntest_ = spec['n_pre'], spec['n_test']
    tot = sum(g['cost'][t] for g in spec['geos'] for t in range(npre_)) + \
        sum(g['cost'][t] for g in spec['geos'] if g['group'] == 1 for t in range(npre_, npre_ + ntest_))
    g0 = next(g for g in spec['geos'] if g['group'] == 1)
    g0['cost'][npre_ + ntest_ - 1] -= float(round(tot + 500.0))
  if kind == 'spike':           # control spike on the first test date: the cumulative scale decreases afterwards
    for g in spec['geos']:
      if g['group'] == 1:
        g['response'][spec['n_pre']] += 400.0 * (1 + g['id'])
        g['cost'][spec['n_pre']] += (400.0 if spec['scenario'] == 'variable' else 0.0)
  if spec['scenario'] == 'fixed' and r3.random() < 0.4:
    kind = kind + '+trailing-spend'         # the treatment group keeps spending during the cooldown period
    for g in spec['geos']:
      if g['group'] == 2:
        for t in range(spec['n_pre'] + spec['n_test'], len(g['cost'])):
          g['cost'][t] = float(3 * (1 + g['id'] % 4))
  out['kind'] = kind
  level = rng.choice([0.9, 0.8, 0.95, 0.6, 0.3])
  tails = rng.choice([1, 2])
  npre, ntest = spec['n_pre'], spec['n_test']
  non_incr = sum(g['cost'][t] for g in spec['geos'] for t in range(npre)) + \
      sum(g['cost'][t] for g in spec['geos'] if g['group'] == 1 for t in range(npre, npre + ntest))
  is_fixed = abs(non_incr) < 1e-10            # the documented criterion, computed from the frame itself
  r2 = random.Random(seed * 19 + 5)
  history = None
  if r2.random() < 0.4:                       # the object analysed an experiment of the other cost scenario before
    history = tbrfam.gen_frame(seed + 91, cooldown=True, scenario='variable' if is_fixed else 'fixed')
    if r2.random() < 0.6:
      # ... an experiment with the same numbers of pre-period, test and cooldown days
      for k in ('n_pre', 'n_test', 'n_cool'):
        history[k] = spec[k]
      nd = spec['n_pre'] + spec['n_test'] + spec['n_cool']
      for g in history['geos']:
        g['response'] = (g['response'] * (nd // len(g['response']) + 1))[:nd]
        g['cost'] = (g['cost'] * (nd // len(g['cost']) + 1))[:nd]
      out['same_shape_history'] = True
  out['reused'] = history is not None
  m = fit_iroas(spec, history=history)
  ref = fit_iroas(spec) if history is not None else m     # the posterior is taken from an object without a past
  for metric, tb, col in (('tbr_response', ref.tbr_response, 'response'), ('tbr_cost', ref.tbr_cost, 'cost')):
    dist = tb.causal_cumulative_distribution()
    scales = [float(v) for v in dist.kwds['scale']]
    locs = [float(v) for v in dist.kwds['loc']]
    fixed_cost = metric == 'tbr_cost' and is_fixed
    try:
      ts = m.estimate_pointwise_and_cumulative_effect(metric=metric, level=level, tails=tails)
    except ValueError as e:
      dec = any(b < a for a, b in zip(scales, scales[1:]))
      alpha = (1 - level) / tails
      msg = '%s, level=%g, tails=%d: the report raised ValueError (%s)' % (metric, level, tails, str(e)[:60])
      exact_fit = max(scales + [0.0]) <= 1e-9 * max([1.0] + [abs(v) for v in locs])
      if exact_fit:
        # the pre-period regression fits exactly (e.g. three collinear points): all bounds coincide with the estimate and
        # which side rounding puts them on decides whether the series container accepts them -- outside the domain judged here
        out['exact_fit_skipped'] = out.get('exact_fit_skipped', 0) + 1
      elif not fixed_cost and alpha > 0.5:
        out['known'].append((KNOWN_LVL, msg))
      elif not fixed_cost and dec:
        out['known'].append((KNOWN_SCALE, msg + '; cumulative scale decreases'))
      else:
        out['fails'].append(msg)
      continue
    except Exception as e:
      out['fails'].append('%s: the report raised %s: %s' % (metric, type(e).__name__, str(e)[:80]))
      continue
    cf, pw, cu = ts.counterfactual, ts.pointwise_difference, ts.cumulative_effect
    for name, d in (('counterfactual', cf), ('pointwise difference', pw), ('cumulative effect', cu)):
      lo, es, up = (np.array(d[c], dtype=float) for c in ('lower', 'estimate', 'upper'))
      if not (np.all(lo <= es) and np.all(es <= up)):          # an undefined (NaN) bound is a violation too
        out['fails'].append('%s %s: lower <= estimate <= upper violated%s' % (metric, name, ' (undefined values)' if np.isnan(lo).any() or np.isnan(es).any() or np.isnan(up).any() else ''))
    pre, test, cool = tbrfam.totals(spec, col)
    y_all = np.array([p[1] for p in pre + test + cool])
    if len(cf) != len(y_all) or not np.allclose(np.array(cf['estimate'], dtype=float) + np.array(pw['estimate'], dtype=float), y_all, rtol=1e-9, atol=1e-6):
      out['fails'].append('%s: counterfactual + pointwise difference is not the observed treatment series' % metric)
    if not fixed_cost:
      xs, ys = np.array([p[0] for p in pre]), np.array([p[1] for p in pre])
      if len(set(xs)) > 1:
        b, a = np.polyfit(xs, ys, 1)
        res = ys - a - b * xs
        if not np.allclose(np.array(pw['estimate'], dtype=float)[:len(pre)], res, rtol=1e-6, atol=1e-6 * max(1.0, float(np.abs(ys).max()))):
          out['fails'].append('%s: pre-period pointwise differences are not the regression residuals' % metric)
      from scipy import stats
      alpha = (1 - level) / tails
      dfree = float(dist.args[0])
      # (figures that cancel to ~0 are compared on the scale of the series they are sums of)
      mag = 1e-8 * max(1.0, float(np.abs(y_all).max()) * len(y_all))
      near = lambda a_, b_: close(a_, b_, 1e-8, 1e-6) or abs(a_ - b_) <= mag
      if not near(float(np.array(cu['estimate'], dtype=float)[-1]), locs[-1]):
        out['fails'].append('%s: last cumulative estimate %r is not the posterior location %r' % (metric, float(np.array(cu['estimate'])[-1]), locs[-1]))
      want_lo = locs[-1] + scales[-1] * float(stats.t.ppf(alpha, dfree))
      want_up = locs[-1] + scales[-1] * float(stats.t.ppf(1 - alpha, dfree))
      if not near(float(np.array(cu['lower'], dtype=float)[-1]), want_lo) or \
         not near(float(np.array(cu['upper'], dtype=float)[-1]), want_up):
        out['fails'].append('%s: last cumulative bounds are not the posterior quantiles' % metric)
    else:
      tot = sum(p[1] for p in test + cool)
      if not close(float(np.array(cu['estimate'], dtype=float)[-1]), tot, 1e-9, 1e-9):
        out['fails'].append('fixed cost: last cumulative cost %r is not the treatment cost of the experiment %r' % (float(np.array(cu['estimate'])[-1]), tot))
  return out


def _one(seed):
  try:
    return analyse(seed)
  except Exception:
    import traceback
    return {'fails': ['harness error: ' + traceback.format_exc()[-600:]], 'known': [], 'seed': seed}


def run(tier):
  ck = Check('C18', tier)
  ck.prove('props/C18.v', gen_targets=['scenario'])
  n = common.sz(tier, 150, 2000)
  res = common.pmap(_one, [ck.seed * 100003 + 18 * 1009 + i for i in range(n)], chunksize=4)
  kinds, known = {}, {}
  for out in res:
    kinds[out.get('kind', '?')] = kinds.get(out.get('kind', '?'), 0) + 1
    ck.count((out['seed'],), nontrivial=True)
    for f in out['fails'][:1]:
      if f.startswith('harness error'):
        ck.tie_broken('harness', 'harness error', f)
      else:
        ck.fail('effect-series-malformed', f, {'seed': out['seed']})
    seen = set()
    for klass, f in out['known']:
      if klass not in seen:
        seen.add(klass)
        ck.fail(klass, f, {'seed': out['seed']})
        known[klass] = known.get(klass, 0) + 1
  ck.sample({'seed': res[0]['seed'], 'kind': res[0].get('kind')})
  ck.cov['rule'] = ('experiment frames with cooldown (only pre / test / cooldown periods), fixed or variable cost, one in four with a control '
                    'spike on the first test date; variable-cost frames with the control geos on a constant daily budget (rank-deficient cost regression); fixed-cost frames whose treatment group keeps spending during the cooldown; on a fresh object or (40%) one that analysed an experiment of the other cost scenario before; the cost scenario is decided from the frame, not by the implementation; both metrics; level in {.9,.8,.95,.6,.3} x tails; checks: report succeeds, bounds '
                    'ordered on every date, counterfactual + difference = observed, pre-period differences = residuals, last cumulative '
                    'row = posterior location and quantiles')
  kinds['reused_object'] = sum(1 for o in res if o.get('reused'))
  ck.cov['distribution'] = kinds
  ck.cov['known_finding_observations'] = known
  return ck.finish('proof', TRUSTED)


def replay(data):
  inp = data.get('input')
  if not isinstance(inp, dict) or 'seed' not in inp:
    print('replay: nothing executable recorded:', [b['name'] for b in data.get('tie_broken', [])])
    return 1
  out = _one(inp['seed'])
  print('frame kind:', out.get('kind'))
  print('property failures:', out['fails'] or 'none', '| known-finding observations:', out['known'] or 'none')
  return 1 if out['fails'] else 0
