From Coq Require Import List String Bool Arith.
From MM Require Import model.DiagCache gen.Gen_DiagCache harness.RunCommon.
Import ListNotations.

(* a history and, for each of its reads, whether the implementation's answer equalled
   the answer of a fresh object *)
Definition case := (list dop * list bool)%type.
Definition model_flags (ops : list dop) : list bool :=
  map (fun p => snap_eqb (fst p) (snd p)) (drun gen_memo gen_deps gen_x_resets gen_y_clears_x 12 (dinit 0) ops).
Definition agrees (c : case) : bool := list_eqb Bool.eqb (model_flags (fst c)) (snd c).
