import warnings; warnings.filterwarnings('ignore')
import numpy as np, pandas as pd
from matched_markets.methodology import tbrmmdiagnostics as D, tbrmmdesignparameters as P
par = P.TBRMMDesignParameters(n_test=3, iroas=1.0)
for seed in range(200):
    rng = np.random.RandomState(seed)
    y = rng.normal(100,10,30); x1 = y + rng.normal(0,1,30); x2 = rng.normal(0,1,30)
    d = D.TBRMMDiagnostics(y, par); d.x = x1
    a = d.tests_ok
    if a:
        d.x = x2
        f = D.TBRMMDiagnostics(y, par); f.x = x2
        print('seed',seed,'first',a,'after change',d.tests_ok,'fresh',f.tests_ok); break
# y setter: does it reset tests_ok?
d.y = y*2; print('after y set, x', d.x, 'tests_ok', d._tests_ok)
