(* C01 -- Returned designs are legal assignments under the geo eligibility matrix.
   Only property statements; every proof is `exact <lemma>`. *)
From Coq Require Import List Arith ZArith Bool.
From MM Require Import lib.ListSet lib.Values model.Heap model.Elig model.SearchParams model.SearchDefs model.Search
  gen.Gen_GeoAssignments gen.Gen_Search
  proofs.EligProofs proofs.GroupSpecs proofs.SearchBridge proofs.ExhaustiveProofs proofs.GreedyProofs proofs.AdmittedProofs.
Import ListNotations.
From MM Require Import gen.Gen_HeapDict gen.Gen_Exhaustive gen.Gen_Greedy gen.Gen_Results gen.Gen_Admission proofs.ExhaustiveBridge proofs.GreedyBridge proofs.ResultsBridge proofs.AdmissionBridge.

(* For every value type (whatever numpy computes), every comparison of scores, every list of
   eligibility rows of the admitted geos, every parameter record and every kernel behaviour: *)
Theorem C01_exhaustive_legal :
  forall (V K : Type) (O : vops V) (ltk : K -> K -> bool) (es : list elig) (par : spar V)
         (shareS optB : set -> V) (bud : set -> set -> V) (skey : set -> set -> K) (T C : set),
    In (T, C) (exhaustive O ltk (assignments_of es) par shareS optB bud skey) -> legal es T C.
Proof. intros. eapply pushed_legal, results_are_pushed; eassumption. Qed.

Theorem C01_greedy_legal :
  forall (V K : Type) (O : vops V) (ltk : K -> K -> bool) (es : list elig) (par : spar V)
         (shareS : set -> V) (bud : set -> set -> V) (gkey : set -> set -> K) (zero_key : K)
         (fuel : nat) (ds : list design) (T C : set),
    greedy O ltk (assignments_of es) par shareS bud gkey zero_key fuel = Some ds ->
    In (T, C) ds -> legal es T C.
Proof. intros. eapply greedy_sound; eassumption. Qed.

(* admission: the geo index holds only geos that have an eligibility row and are not
   must-exclude, and every geo whose row forbids exclusion (also under n_geos_max) *)
Theorem C01_admitted_only_eligible :
  forall (V : Type) (O : vops V) (par : spar V) (gs : list (grec V)) (i : nat),
    In i (geo_index O par gs) ->
    g_in_elig (geo O gs i) = true /\ p_x_fixed (g_e (geo O gs i)) = false.
Proof. exact @admitted_only_eligible. Qed.
Theorem C01_admitted_all_must_include :
  forall (V : Type) (O : vops V) (par : spar V) (gs : list (grec V)) (i : nat),
    (i < length gs)%nat -> must_include O gs i = true -> In i (geo_index O par gs).
Proof. exact @admitted_all_must_include. Qed.

(* transfer to the geos of the data: non-empty, disjoint groups of geos present in the data,
   treatment geos treatment-eligible, control geos control-eligible, every geo that cannot be
   excluded placed, no must-exclude geo used *)
Theorem C01_design_geos_legal :
  forall (V : Type) (O : vops V) (par : spar V) (gs : list (grec V)),
    (forall i, g_in_elig (geo O gs i) = true -> elig_valid (g_e (geo O gs i)) = true) ->
    forall T C, legal (admitted_rows O par gs) T C ->
    let Tg := to_geos O par gs T in let Cg := to_geos O par gs C in
    Tg <> [] /\ Cg <> [] /\ NoDup Tg /\ NoDup Cg /\ (forall g, In g Tg -> In g Cg -> False) /\
    (forall g, In g Tg -> (g < length gs)%nat /\ g_in_elig (geo O gs g) = true /\ et (g_e (geo O gs g)) = true) /\
    (forall g, In g Cg -> (g < length gs)%nat /\ g_in_elig (geo O gs g) = true /\ ec (g_e (geo O gs g)) = true) /\
    (forall g, (g < length gs)%nat -> g_in_elig (geo O gs g) = true -> ex (g_e (geo O gs g)) = false -> In g Tg \/ In g Cg) /\
    (forall g, In g Tg \/ In g Cg -> p_x_fixed (g_e (geo O gs g)) = false).
Proof. exact @design_geos_legal. Qed.

(* tie: the group generators and the class algebra regenerated from the source are the model *)
Theorem C01_generated_treat_groups :
  forall A n, gen_treatment_group_generator A n = treat_groups A n.
Proof. exact bridge_treat_groups. Qed.
Theorem C01_generated_control_groups :
  forall (V : Type) (O : vops V) A (par : spar V) T,
    gen_control_group_generator O A par T = control_groups O A par T.
Proof. exact @bridge_control_groups. Qed.
Theorem C01_generated_classes :
  forall c t x, gen_geo_assignments c t x = mk_assignments c t x.
Proof. exact bridge_geo_assignments. Qed.

Print Assumptions C01_exhaustive_legal.
Print Assumptions C01_greedy_legal.
Print Assumptions C01_admitted_only_eligible.
Print Assumptions C01_admitted_all_must_include.
Print Assumptions C01_design_geos_legal.
Print Assumptions C01_generated_treat_groups.
Print Assumptions C01_generated_control_groups.

(* the same, stated on the Gallina regenerated on this run from exhaustive_search itself (gen/Gen_Exhaustive.v):
   every design stored by the translated code is a legal assignment *)
Theorem C01_translated_exhaustive_search_legal :
  forall (V K : Type) (O : vops V) (ltk : K -> K -> bool) (es : list elig) (par : spar V)
         (shareS optB : set -> V) (bud : set -> set -> V) (score0 : set -> set -> K) (replace_inv : K -> V -> K) d,
    In d (dd_get (gen_exhaustive_search O ltk (assignments_of es) par shareS optB bud score0 replace_inv) 0%Z) -> legal es (fst (des_groups d)) (snd (des_groups d)).
Proof.
  intros. eapply pushed_legal, results_are_pushed. rewrite <- surjective_pairing. eapply gen_exhaustive_in; eassumption.
Qed.
Print Assumptions C01_translated_exhaustive_search_legal.

(* stated on the Gallina regenerated on this run from _greedy_search itself (gen/Gen_Greedy.v) *)
Theorem C01_translated_greedy_search_legal :
  forall (V K : Type) (O : vops V) (ltk : K -> K -> bool) (es : list elig) (par : spar V)
         (shareS : set -> V) (bud : set -> set -> V) (gkey : set -> set -> K) (zero_key : K) (fuel : nat) r d,
    gen_greedy_search O ltk (assignments_of es) par shareS bud gkey zero_key fuel = Some r -> In d (dd_get r 0%Z) -> legal es (fst (des_groups d)) (snd (des_groups d)).
Proof.
  intros until d. intros Hr Hd. destruct (gen_greedy_in O ltk _ par shareS bud gkey zero_key fuel r d Hr Hd) as [ds [Hg Hin]].
  eapply greedy_sound; [exact Hg|]. rewrite <- surjective_pairing. exact Hin.
Qed.
Print Assumptions C01_translated_greedy_search_legal.

(* what the caller receives: search_results (regenerated, gen/Gen_Results.v) maps the index sets of the stored
   designs to geo IDs; every returned design reports the IDs of a legal pair of index sets
   (C01_design_geos_legal then transfers legality to the geos of the data) *)
Theorem C01_translated_search_results_is_image_of_heap :
  forall (K G : Type) (ltk : K -> K -> bool) (geo_id : nat -> G) hd,
    gen_search_results ltk geo_id hd = ids_of geo_id (GenHeapDict.gen_get_result ltk des_key hd).
Proof. exact @gen_search_results_is_image. Qed.
Theorem C01_translated_exhaustive_results_report_legal_groups :
  forall (V K G : Type) (O : vops V) (ltk : K -> K -> bool) (es : list elig) (par : spar V)
         (shareS optB : set -> V) (bud : set -> set -> V) (score0 : set -> set -> K) (replace_inv : K -> V -> K)
         (geo_id : nat -> G) o,
    In o (ids_of geo_id (gen_exhaustive_search O ltk (assignments_of es) par shareS optB bud score0 replace_inv)) ->
    exists T C, legal es T C /\ fst (snd (fst o)) = map geo_id T /\ snd (snd (fst o)) = map geo_id C.
Proof.
  intros until o. intro Ho. destruct (ids_of_groups geo_id _ o Ho) as [d [Hd [H1 [H2 _]]]].
  exists (fst (des_groups d)), (snd (des_groups d)). split; [|split; assumption].
  eapply C01_translated_exhaustive_search_legal; eassumption.
Qed.
Theorem C01_translated_greedy_results_report_legal_groups :
  forall (V K G : Type) (O : vops V) (ltk : K -> K -> bool) (es : list elig) (par : spar V)
         (shareS : set -> V) (bud : set -> set -> V) (gkey : set -> set -> K) (zero_key : K) (fuel : nat)
         (geo_id : nat -> G) r o,
    gen_greedy_search O ltk (assignments_of es) par shareS bud gkey zero_key fuel = Some r -> In o (ids_of geo_id r) ->
    exists T C, legal es T C /\ fst (snd (fst o)) = map geo_id T /\ snd (snd (fst o)) = map geo_id C.
Proof.
  intros until o. intros Hr Ho. destruct (ids_of_groups geo_id _ o Ho) as [d [Hd [H1 [H2 _]]]].
  exists (fst (des_groups d)), (snd (des_groups d)). split; [|split; assumption].
  eapply C01_translated_greedy_search_legal; eassumption.
Qed.
Print Assumptions C01_translated_search_results_is_image_of_heap.
Print Assumptions C01_translated_exhaustive_results_report_legal_groups.
Print Assumptions C01_translated_greedy_results_report_legal_groups.

(* admission, stated on the Gallina regenerated on this run from geos_within_constraints and the geo_assignments
   property (gen/Gen_Admission.v; the pandas selections are oracles, instantiated with the selections the model computes
   from the per-geo records): the translated code admits only eligible, non-excluded geos and every geo that cannot be
   excluded, also under n_geos_max *)
Theorem C01_translated_admission_is_the_model :
  forall (V : Type) (O : vops V) (par : spar V) (gs : list (grec V)),
    gen_geos_within_constraints (too_large_set O par gs) (over_budget_set O par gs) (assignable_set O gs)
      (must_include_set O gs) (by_impact_all O gs) (p_n_geos_max par) = within_constraints O par gs /\
    gen_geo_index (positions gs) (within_constraints O par gs) = geo_index O par gs.
Proof. intros. split; [apply gen_within_constraints_is_model|apply gen_geo_index_is_model]. Qed.
Theorem C01_translated_admission_keeps_every_must_include_geo :
  forall (V : Type) (O : vops V) (par : spar V) (gs : list (grec V)) (i : nat),
    (i < length gs)%nat -> must_include O gs i = true ->
    In i (gen_geo_index (positions gs)
            (gen_geos_within_constraints (too_large_set O par gs) (over_budget_set O par gs) (assignable_set O gs)
               (must_include_set O gs) (by_impact_all O gs) (p_n_geos_max par))).
Proof. intros. rewrite gen_within_constraints_is_model, gen_geo_index_is_model. apply admitted_all_must_include; assumption. Qed.
Print Assumptions C01_translated_admission_is_the_model.
Print Assumptions C01_translated_admission_keeps_every_must_include_geo.

From Coq Require Import PrimFloat.
(* non-vacuity: on a concrete instance (4 geos of mixed types, float arithmetic, scores = number of control geos)
   the translated searches, run inside Coq, return designs -- with geo IDs, as the caller receives them *)
Local Open Scope nat_scope.
Example C01_translated_searches_example :
  let es := [ {|ec:=true;et:=true;ex:=true|}; {|ec:=true;et:=false;ex:=false|}; {|ec:=false;et:=true;ex:=true|};
              {|ec:=true;et:=true;ex:=false|} ] in
  let par := {| p_treatment_geos_range := None; p_control_geos_range := None; p_geo_ratio_tolerance := None;
                p_volume_ratio_tolerance := None; p_treatment_share_range := None; p_budget_range := None;
                p_n_geos_max := None; p_n_designs := 2; p_iroas := 1%float |} in
  let shareS := fun s : set => float_of_Z (Z.of_nat (length s)) in
  let bud := fun T C : set => 1%float in
  let key := fun T C : set => Z.of_nat (length C) in
  let ids := fun r => map (fun o : Z * (list nat * list nat) * (set * set) => snd (fst o)) (ids_of (fun i => (10 + i)%nat) r) in
  ids (gen_exhaustive_search FloatOps Z.ltb (assignments_of es) par shareS shareS bud key (fun k _ => k))
    = [([12], [11; 13; 10]); ([10], [11; 13])]
  /\ option_map ids (gen_greedy_search FloatOps Z.ltb (assignments_of es) par shareS bud key 0%Z 50)
    = Some [([12], [10; 11; 13]); ([12; 10], [11; 13])].
Proof. vm_compute. split; reflexivity. Qed.
