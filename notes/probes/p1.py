import warnings; warnings.filterwarnings('ignore')
import numpy as np, pandas as pd, dataclasses, traceback
from matched_markets.methodology import tbrmmdiagnostics as D, tbrmmdesignparameters as P, tbrmmdata, geoeligibility as G, tbrmatchedmarkets as MM
par = P.TBRMMDesignParameters(n_test=3, iroas=1.0)
rng = np.random.RandomState(1)
y = rng.normal(100,10,20); x1 = y + rng.normal(0,1,20); x2 = rng.normal(0,1,20)
d = D.TBRMMDiagnostics(y, par); d.x = x1
print('tests_ok x1', d.tests_ok, d.corr_test)
d.x = x2
print('tests_ok after x2 (stale?)', d.tests_ok, 'fresh:', end=' ')
f = D.TBRMMDiagnostics(y, par); f.x = x2; print(f.tests_ok, f.corr_test)
# C17 inf
for kw in [dict(n_test=float('inf'), iroas=1.0), dict(n_test=1, iroas=1.0, n_geos_max=float('inf')), dict(n_test=1, iroas=float('inf')), dict(n_test=True, iroas=1.0), dict(n_test=1, iroas=1.0, treatment_geos_range=(1,float('inf'))), dict(n_test=1, iroas=1.0, n_designs=float('nan')), dict(n_test=1,iroas=1.0,budget_range=(0.0,float('inf'))), dict(n_test=1,iroas=1.0,treatment_geos_range=(1,float('nan')))]:
    try:
        P.TBRMMDesignParameters(**kw); print('accepted', kw)
    except Exception as e:
        print(type(e).__name__, kw, str(e)[:60])
