(* C05 -- Required impact is calibrated to the post-analysis test at the stated power.
   Exact rational arithmetic; scales and the required impact appear as squares.  tqs, tqp are the
   t-quantiles at sig_level and power_level (n-2 d.f.), phi the planning F-quantile: oracles. *)
From Coq Require Import List ZArith QArith.
From MM Require Import model.TBRMath proofs.TBRMathProofs.
Import ListNotations.
Open Scope Q_scope.

(* the design-side residual variance std(y, ddof=2)^2 (1 - corr^2) is the OLS residual variance *)
Theorem C05_sigma_is_residual_variance :
  forall d, ~ nQ d == 0 -> ~ Sxx d == 0 -> ~ Syy d == 0 -> ~ nQ d - 2 == 0 -> sigma2_of_corr d (corr2 d) == s2 d.
Proof. exact sigma_identity. Qed.
(* required impact = (tqs + tqp) x posterior scale of the cumulative effect of a T-day test whose
   control mean is displaced by the planning F-quantile *)
Theorem C05_required_impact_calibrated :
  forall d T phi tqs tqp ubar,
    ~ nQ d == 0 -> ~ Sxx d == 0 -> ~ Syy d == 0 -> ~ T == 0 -> ~ nQ d - 1 == 0 -> ~ nQ d - 2 == 0 ->
    (ubar - xbar d) * (ubar - xbar d) == phi * (nQ d + 1) * Sxx d / (nQ d * T * (nQ d - 1)) ->
    impact2 d T phi tqs tqp (corr2 d) == (tqs + tqp) * (tqs + tqp) * var_at d T ubar.
Proof. exact required_impact_calibrated. Qed.
(* when the test period shows exactly a given total lift, the post-analysis estimates that lift ... *)
Theorem C05_lift_is_recovered :
  forall d test lift_per_day,
    (forall p, In p test -> snd p == icept d + slope d * fst p + lift_per_day) ->
    qsum (effects d test) == nQ test * lift_per_day.
Proof. exact lift_recovered. Qed.
(* ... and its one-sided lower bound at confidence sig_level is the power_level quantile times the scale *)
Theorem C05_lower_bound_at_power : forall tqs tqp scale, (tqs + tqp) * scale - tqs * scale == tqp * scale.
Proof. exact lower_bound_at_power. Qed.
(* linear in the response unit, blind to level shifts, decreasing in corr^2 when the multiplier is positive *)
Theorem C05_scale_equivariant :
  forall c d T phi tqs tqp rho2, ~ nQ d == 0 -> ~ nQ d - 2 == 0 ->
    impact2 (map (scale_pt c) d) T phi tqs tqp rho2 == c * c * impact2 d T phi tqs tqp rho2.
Proof. exact impact2_scale_equivariant. Qed.
Theorem C05_shift_invariant :
  forall kx ky d T phi tqs tqp rho2, ~ nQ d == 0 ->
    impact2 (map (shift_pt kx ky) d) T phi tqs tqp rho2 == impact2 d T phi tqs tqp rho2.
Proof. exact impact2_shift_invariant. Qed.
Theorem C05_decreasing_in_correlation :
  forall d T phi tqs tqp r1 r2,
    0 < term2 (nQ d) T phi tqs tqp * (Syy d / (nQ d - 2)) -> r1 < r2 ->
    impact2 d T phi tqs tqp r2 < impact2 d T phi tqs tqp r1.
Proof. exact impact2_decreasing_in_corr2. Qed.

(* ---- on the code.  _impact_estimate and estimate_required_impact are regenerated from tbrmmdiagnostics.py on every run
   (gen/Gen_Formulas.v) over abstract float operations and a square-root oracle; over the rationals, with any square-root
   oracle that is exact on the two arguments it is applied to, the square of what the code computes is the model's
   impact2 (so the theorems above are about the code's formula), and the code rejects exactly |corr| >= 1 *)
From MM Require Import lib.Values gen.Gen_Formulas proofs.FormulasBridge.
Theorem C05_translated_required_impact_is_model :
  forall (vsqrt : Q -> Q) (d : list pt) T phi tqs tqp std_y corr,
    let n := Z.of_nat (length d) in
    sqrt_ok vsqrt (impact_arg T n phi) -> sqrt_ok vsqrt (inject_Z 1 - corr * corr) ->
    std_y * std_y == Syy d / (nQ d - 2) ->
    gen_estimate_required_impact QOps vsqrt T n phi tqs tqp std_y corr * gen_estimate_required_impact QOps vsqrt T n phi tqs tqp std_y corr
    == impact2 d (inject_Z T) phi tqs tqp (corr * corr).
Proof. exact gen_estimate_required_impact_squared. Qed.
Theorem C05_translated_required_impact_calibrated :
  forall (vsqrt : Q -> Q) (d : list pt) T phi tqs tqp std_y corr ubar,
    let n := Z.of_nat (length d) in
    sqrt_ok vsqrt (impact_arg T n phi) -> sqrt_ok vsqrt (inject_Z 1 - corr * corr) ->
    std_y * std_y == Syy d / (nQ d - 2) -> corr * corr == corr2 d ->
    ~ nQ d == 0 -> ~ Sxx d == 0 -> ~ Syy d == 0 -> ~ inject_Z T == 0 -> ~ nQ d - 1 == 0 -> ~ nQ d - 2 == 0 ->
    (ubar - xbar d) * (ubar - xbar d) == phi * (nQ d + 1) * Sxx d / (nQ d * inject_Z T * (nQ d - 1)) ->
    gen_estimate_required_impact QOps vsqrt T n phi tqs tqp std_y corr * gen_estimate_required_impact QOps vsqrt T n phi tqs tqp std_y corr
    == (tqs + tqp) * (tqs + tqp) * var_at d (inject_Z T) ubar.
Proof.
  cbv zeta. intros vsqrt d T phi tqs tqp std_y corr ubar H1 H2 H3 Hc Hn Hx Hy HT Hn1 Hn2 Hu.
  rewrite (gen_estimate_required_impact_squared vsqrt d T phi tqs tqp std_y corr H1 H2 H3).
  unfold impact2, sigma2_of_corr. rewrite Hc.
  exact (required_impact_calibrated d (inject_Z T) phi tqs tqp ubar Hn Hx Hy HT Hn1 Hn2 Hu).
Qed.
Theorem C05_translated_guard_rejects_exactly_unit_correlations :
  forall corr, gen_required_impact_raises QOps corr = true <-> (corr <= -1 \/ 1 <= corr).
Proof. exact gen_required_impact_raises_spec. Qed.

Print Assumptions C05_sigma_is_residual_variance.
Print Assumptions C05_translated_required_impact_is_model.
Print Assumptions C05_translated_required_impact_calibrated.
Print Assumptions C05_required_impact_calibrated.
Print Assumptions C05_lift_is_recovered.
Print Assumptions C05_scale_equivariant.
Print Assumptions C05_shift_invariant.
Print Assumptions C05_decreasing_in_correlation.

(* the premises about the square-root oracle are satisfiable: n = 3, n_test = 3, phi = 3/2, corr = 3/5 *)
Example C05_sqrt_oracle_exists :
  let vsqrt := fun x : Q => if Qeq_bool x 1 then 1 else 4 # 5 in
  sqrt_ok vsqrt (impact_arg 3 3 (3 # 2)) /\ sqrt_ok vsqrt (inject_Z 1 - (3 # 5) * (3 # 5)) /\
  gen_estimate_required_impact QOps vsqrt 3 3 (3 # 2) 1 2 5 (3 # 5) == 36.
Proof. cbv zeta. unfold sqrt_ok. repeat split; vm_compute; reflexivity. Qed.
