(* Hand-written reference model of the pure pieces of tbrmatchedmarkets.py:
   size ranges, group generators, design count, constraint predicate.
   Definitions only.  proofs/SearchBridge.v proves that the Gallina
   regenerated from the source on every run (gen/Gen_Search.v) equals these. *)
From Coq Require Import List Arith ZArith Bool PrimFloat.
From MM Require Import lib.ListSet lib.Combi lib.Values model.Elig model.SearchParams.
Import ListNotations.
Open Scope Z_scope.

Definition zsum (l : list Z) (f : Z -> Z) : Z := fold_left (fun acc i => acc + f i) l 0.
Definition zlen {A} (l : list A) : Z := Z.of_nat (length l).

Section Defs.
  Context {V : Type} (O : vops V).
  (* A = self.geo_assignments (index sets over the admitted geos), par = self.parameters,
     shareS = self.data.aggregate_geo_share *)
  Variables (A : assignments) (par : spar V) (shareS : set -> V).

  (* _constraint_not_satisfied (:437-443): value outside the closed interval [lo, hi] *)
  Definition not_satisfied (v lo hi : V) : bool := vltb O v lo || vltb O hi v.

  (* treatment_group_size_range (:137-153) *)
  Definition tsize_min : Z := Z.max 1 (zlen (a_t_fixed A)).
  Definition tsize_max : Z :=
    if is_nil (union (a_cx A) (a_c_fixed A)) then zlen (a_t A) - 1 else zlen (a_t A).
  Definition tsize_bounds : Z * Z :=
    match p_treatment_geos_range par with
    | None => (tsize_min, tsize_max)
    | Some r => (Z.max (fst r) tsize_min, Z.min (snd r) tsize_max)
    end.
  Definition tsize_range : list Z := zrange (fst tsize_bounds) (snd tsize_bounds + 1).

  (* _control_group_size_generator (:155-184) *)
  Definition csize_min : Z := Z.max 1 (zlen (a_c_fixed A)).
  Definition csize_max : Z := zlen (a_c A).
  Definition csize_bounds : Z * Z :=
    match p_control_geos_range par with
    | None => (csize_min, csize_max)
    | Some r => (Z.max (fst r) csize_min, Z.min (snd r) csize_max)
    end.
  Definition ratio_ok (nt nc : Z) : bool :=
    match p_geo_ratio_tolerance par with
    | None => true
    | Some tol =>
        let hi := vadd O (vlit O 1 0) tol in
        let lo := vdiv O (vlit O 1 0) hi in
        let q := vdiv O (vofZ O nc) (vofZ O nt) in
        vleb O lo q && vleb O q hi
    end.
  Definition csizes (nt : Z) : list Z :=
    filter (ratio_ok nt) (zrange (fst csize_bounds) (snd csize_bounds + 1)).

  (* common core of the two group generators: the groups of size n that contain
     all of [fixed] and are completed from [vary] *)
  Definition with_fixed (fixed vary : set) (n : Z) : list set :=
    let rem := n - zlen fixed in
    if (rem =? 0) && negb (is_nil fixed) then [fixed]
    else if rem >? 0 then map (union fixed) (combs (Z.to_nat rem) vary)
    else [].

  (* treatment_group_generator (:186-219); n <= 0 raises ValueError *)
  Definition treat_groups_raises (n : Z) : bool := n <=? 0.
  Definition treat_groups (n : Z) : list set :=
    if n <=? 0 then [] else with_fixed (a_t_fixed A) (diff (a_t A) (a_t_fixed A)) n.

  (* control_group_generator (:221-266); empty / ineligible treatment group raises ValueError *)
  Definition control_groups_raises (T : set) : bool := is_nil T || negb (is_nil (diff T (a_t A))).
  Definition fixed_control (T : set) : set := union (a_c_fixed A) (diff (a_ct A) T).
  Definition varying_control (T : set) : set := diff (diff (a_c A) T) (fixed_control T).
  Definition control_groups (T : set) : list set :=
    if control_groups_raises T then []
    else flat_map (with_fixed (fixed_control T) (varying_control T)) (csizes (zlen T)).

  (* the design space enumerated by the exhaustive search *)
  Definition enum_pairs : list (set * set) :=
    flat_map (fun n => flat_map (fun T => map (pair T) (control_groups T)) (treat_groups n)) tsize_range.

  (* count_max_designs (:268-308) *)
  Definition count : Z :=
    let n_t_fixed := zlen (a_t_fixed A) in let n_c_fixed := zlen (a_c_fixed A) in
    let n_cx := zlen (a_cx A) in let n_tx := zlen (a_tx A) in
    let n_ct := zlen (a_ct A) in let n_ctx := zlen (a_ctx A) in
    zsum (zrange 0 (1 + n_ct)) (fun i_ct =>
    zsum (zrange 0 (1 + n_tx)) (fun i_tx =>
    zsum (zrange 0 (1 + n_ctx)) (fun i_ctx =>
      let n_trt := n_t_fixed + i_tx + i_ctx + i_ct in
      if memZ n_trt tsize_range then
        zsum (zrange 0 (1 + n_cx)) (fun i_cx =>
        zsum (zrange 0 (1 + n_ctx - i_ctx)) (fun i_cctx =>
          let n_ctl := n_c_fixed + i_cx + i_cctx + (n_ct - i_ct) in
          if memZ n_ctl (csizes n_trt)
          then zbinom n_ct i_ct * zbinom n_tx i_tx * zbinom n_ctx i_ctx * zbinom n_cx i_cx
               * zbinom (n_ctx - i_ctx) i_cctx
          else 0))
      else 0))).

  (* design_within_constraints (:445-498) *)
  Definition tol_bounds (tol : V) : V * V :=
    (vdiv O (vofZ O 1) (vadd O (vofZ O 1) tol), vadd O (vofZ O 1) tol).
  Definition volume_ok (T C : set) : bool :=
    match p_volume_ratio_tolerance par with
    | None => true
    | Some tol => negb (not_satisfied (vdiv O (shareS C) (shareS T)) (fst (tol_bounds tol)) (snd (tol_bounds tol)))
    end.
  Definition georatio_ok (T C : set) : bool :=
    match p_geo_ratio_tolerance par with
    | None => true
    | Some tol => negb (not_satisfied (vdiv O (vofZ O (zlen C)) (vofZ O (zlen T)))
                                      (fst (tol_bounds tol)) (snd (tol_bounds tol)))
    end.
  Definition share_ok_rel (T : set) : bool :=        (* share relative to the admitted geos *)
    match p_treatment_share_range par with
    | None => true
    | Some r => negb (not_satisfied (vdiv O (shareS T) (shareS (a_all A))) (fst r) (snd r))
    end.
  Definition tsize_ok (T : set) : bool :=
    match p_treatment_geos_range par with
    | None => true
    | Some r => negb (not_satisfied (vofZ O (zlen T)) (vofZ O (fst r)) (vofZ O (snd r)))
    end.
  Definition csize_ok (C : set) : bool :=
    match p_control_geos_range par with
    | None => true
    | Some r => negb (not_satisfied (vofZ O (zlen C)) (vofZ O (fst r)) (vofZ O (snd r)))
    end.
  Definition within (T C : set) : bool :=
    negb (is_nil T) && negb (is_nil C) &&
    volume_ok T C && georatio_ok T C && share_ok_rel T && tsize_ok T && csize_ok C.
End Defs.
