(* Model of utils.find_days_to_exclude / utils.expand_time_windows (utils.py:158-207) and
   common_classes.TimeWindow (:24-38).  Definitions only.
   A calendar day is (year, month, day); day numbers count days from 1970-01-01 (proleptic
   Gregorian calendar, as pandas.Timestamp). *)
From Coq Require Import List ZArith Bool.
Import ListNotations.
Open Scope Z_scope.

Definition date := (Z * Z * Z)%type.
Definition is_leap (y : Z) : bool := ((y mod 4 =? 0) && negb (y mod 100 =? 0)) || (y mod 400 =? 0).
Definition days_in_month (y m : Z) : Z :=
  if (m =? 2) then (if is_leap y then 29 else 28)
  else if (m =? 4) || (m =? 6) || (m =? 9) || (m =? 11) then 30 else 31.
Definition valid_date (dt : date) : bool :=
  let '(y, m, d) := dt in (1 <=? m) && (m <=? 12) && (1 <=? d) && (d <=? days_in_month y m).

Definition days_from_civil (dt : date) : Z :=
  let '(y, m, d) := dt in
  let y' := if m <=? 2 then y - 1 else y in
  let era := y' / 400 in
  let yoe := y' - era * 400 in
  let mp := if 2 <? m then m - 3 else m + 9 in
  let doy := (153 * mp + 2) / 5 + d - 1 in
  let doe := yoe * 365 + yoe / 4 - yoe / 100 + doy in
  era * 146097 + doe - 719468.
Definition civil_from_days (n : Z) : date :=
  let z := n + 719468 in
  let era := z / 146097 in
  let doe := z - era * 146097 in
  let yoe := (doe - doe / 1460 + doe / 36524 - doe / 146096) / 365 in
  let y := yoe + era * 400 in
  let doy := doe - (365 * yoe + yoe / 4 - yoe / 100) in
  let mp := (5 * doy + 2) / 153 in
  let d := doy - (153 * mp + 2) / 5 + 1 in
  let m := if mp <? 10 then mp + 3 else mp - 9 in
  (if m <=? 2 then y + 1 else y, m, d).

(* an entry of the exclusion list as the documented format reads it *)
Inductive entry :=
| Single (d : date)                 (* 'YYYY/MM/DD' *)
| Range (a b : date)                (* 'YYYY/MM/DD - YYYY/MM/DD' *)
| Malformed.                        (* anything else *)

Inductive result (A : Type) := Ok (a : A) | RaiseValueError.
Arguments Ok {A} _. Arguments RaiseValueError {A}.

(* find_days_to_exclude: entries -> time windows (first day number, last day number) *)
Definition window_of (e : entry) : result (Z * Z) :=
  match e with
  | Single d => if valid_date d then Ok (days_from_civil d, days_from_civil d) else RaiseValueError
  | Range a b =>
      if valid_date a && valid_date b
      then (if days_from_civil b <? days_from_civil a then RaiseValueError     (* TimeWindow: first_day > last_day *)
            else Ok (days_from_civil a, days_from_civil b))
      else RaiseValueError
  | Malformed => RaiseValueError
  end.
Fixpoint windows_of (es : list entry) : result (list (Z * Z)) :=
  match es with
  | [] => Ok []
  | e :: es' => match window_of e with
                | RaiseValueError => RaiseValueError
                | Ok w => match windows_of es' with RaiseValueError => RaiseValueError | Ok ws => Ok (w :: ws) end
                end
  end.

(* expand_time_windows: every day of every window, duplicates removed *)
Fixpoint zrange_from (fuel : nat) (a : Z) : list Z :=
  match fuel with O => [] | S f => a :: zrange_from f (a + 1) end.
Definition zrange (a b : Z) : list Z := zrange_from (Z.to_nat (b - a)) a.
Fixpoint dedup (l : list Z) : list Z :=
  match l with [] => [] | x :: l' => if existsb (Z.eqb x) l' then dedup l' else x :: dedup l' end.
Definition expand (ws : list (Z * Z)) : list Z := dedup (flat_map (fun w => zrange (fst w) (snd w + 1)) ws).

Definition days_to_exclude (es : list entry) : result (list Z) :=
  match windows_of es with RaiseValueError => RaiseValueError | Ok ws => Ok (expand ws) end.
