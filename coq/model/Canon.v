(* Model of TBRMMData (tbrmmdata.py:95-208): pivot of the long frame to geo x date, ordering of
   the geos by decreasing mean, shares, reconciliation with the eligibility table, geo index and
   aggregates.  Definitions only; exact rational arithmetic. *)
From Coq Require Import List ZArith QArith Bool.
From MM Require Import model.Elig.
Import ListNotations.

Record lrow := { l_geo : Z; l_date : Z; l_val : Q }.      (* geo = id of str(geo) *)
Definition memz (x : Z) (l : list Z) : bool := existsb (Z.eqb x) l.
Fixpoint dedupz (l : list Z) : list Z :=
  match l with [] => [] | x :: l' => if memz x l' then dedupz l' else x :: dedupz l' end.
Fixpoint ins_z (x : Z) (l : list Z) : list Z :=
  match l with [] => [x] | y :: l' => if (x <=? y)%Z then x :: l else y :: ins_z x l' end.
Definition sort_z (l : list Z) : list Z := fold_right ins_z [] l.
Definition qsum (l : list Q) : Q := fold_right Qplus 0 l.

Definition geos_of (rows : list lrow) : list Z := sort_z (dedupz (map l_geo rows)).
Definition dates_of (rows : list lrow) : list Z := sort_z (dedupz (map l_date rows)).    (* columns, chronological *)
(* pivot_table(values, index=geo, columns=date, fill_value=0): mean of the matching rows, 0 if none *)
Definition cell (rows : list lrow) (g d : Z) : Q :=
  let vs := map l_val (filter (fun r => (l_geo r =? g)%Z && (l_date r =? d)%Z) rows) in
  match vs with [] => 0 | _ => qsum vs / inject_Z (Z.of_nat (length vs)) end.
Definition series (rows : list lrow) (g : Z) : list Q := map (cell rows g) (dates_of rows).
Definition mean (l : list Q) : Q := match l with [] => 0 | _ => qsum l / inject_Z (Z.of_nat (length l)) end.
Definition geo_mean (rows : list lrow) (g : Z) : Q := mean (series rows g).
(* rows of the canonical frame: decreasing mean (stable insertion; order among equal means is not specified by pandas) *)
Fixpoint ins_by_mean (rows : list lrow) (g : Z) (l : list Z) : list Z :=
  match l with
  | [] => [g]
  | h :: l' => if Qle_bool (geo_mean rows g) (geo_mean rows h) then h :: ins_by_mean rows g l' else g :: l
  end.
Definition geo_order (rows : list lrow) : list Z := fold_right (ins_by_mean rows) [] (geos_of rows).
Definition share (rows : list lrow) (g : Z) : Q := geo_mean rows g / qsum (map (geo_mean rows) (geos_of rows)).

(* reconciliation with the eligibility table (:131-149) *)
Inductive outcome (A : Type) := Accept (a : A) | RaiseValueError.
Arguments Accept {A} _. Arguments RaiseValueError {A}.
Definition reconcile (rows : list lrow) (tbl : list (Z * elig)) : outcome (list (Z * elig)) :=
  let in_data := geos_of rows in
  if forallb (fun e => memz (fst e) in_data) tbl then Accept tbl
  else if existsb (fun e => negb (memz (fst e) in_data) && negb (ex (snd e))) tbl then RaiseValueError
  else Accept (filter (fun e => memz (fst e) in_data) tbl).
Definition is_x_fixed (e : elig) : bool := negb (ec e) && negb (et e) && ex e.
Definition assignable (tbl : list (Z * elig)) : list Z := map fst (filter (fun e => negb (is_x_fixed (snd e))) tbl).

(* geo index and aggregates (:155-208) *)
Definition set_geo_index (tbl : list (Z * elig)) (gi : list Z) : outcome (list Z) :=
  if forallb (fun g => memz g (assignable tbl)) gi then (match gi with [] => RaiseValueError | _ => Accept gi end)
  else RaiseValueError.
Fixpoint vadd (a b : list Q) : list Q :=
  match a, b with x :: a', y :: b' => (x + y) :: vadd a' b' | _, _ => [] end.
Definition aggregate_series (rows : list lrow) (gi : list Z) (idx : list nat) : list Q :=
  fold_right (fun i acc => vadd (series rows (nth i gi 0%Z)) acc) (map (fun _ => 0) (dates_of rows)) idx.
Definition aggregate_share (rows : list lrow) (gi : list Z) (idx : list nat) : Q :=
  qsum (map (fun i => share rows (nth i gi 0%Z)) idx).
