import sys, itertools, numpy as np, pandas as pd
from lib import *
viol=0; n=0; nonempty=0; pruned_cases=0
for seed in range(int(sys.argv[1]), int(sys.argv[2])):
    rng = np.random.RandomState(seed)
    ngeos = rng.randint(2,6); df = panel(rng, ngeos, 14)
    spec = {str(g+1): (rng.choice(TYPES) if rng.rand()<0.4 else 'ctx') for g in range(ngeos)}
    kw={}
    if rng.rand()<0.3: kw['treatment_geos_range']=tuple(int(v) for v in sorted(rng.randint(1,4,2)))
    if rng.rand()<0.3: kw['control_geos_range']=tuple(int(v) for v in sorted(rng.randint(1,4,2)))
    if rng.rand()<0.3: kw['geo_ratio_tolerance']=float(rng.choice([0.5,1.0,2.0]))
    if rng.rand()<0.3: kw['volume_ratio_tolerance']=float(rng.choice([0.5,1.0,3.0]))
    if rng.rand()<0.6: kw['budget_range']=tuple(float(v) for v in sorted(rng.uniform(0,40,2)))
    if rng.rand()<0.4: kw['treatment_share_range']=tuple(float(v) for v in sorted(rng.uniform(0.05,0.95,2)))
    if rng.rand()<0.2: kw['n_geos_max']=int(rng.randint(2,5))
    k = int(rng.choice([1,2,5])); kw['n_designs']=k
    try:
        mm,par = build(df, spec, kw); ex = mm.exhaustive_search()
    except Exception as e:
        continue
    n+=1
    idx = mm.data.geo_index; mat = mm.data.df.loc[idx].to_numpy(); share = np.array(mm.data.geo_share[idx])
    sp=[spec[g] for g in idx]
    br = kw.get('budget_range'); sr = kw.get('treatment_share_range')
    def opt_budget(T):
        d = D.TBRMMDiagnostics(mat[sorted(T)].sum(axis=0), par); return d.estimate_required_impact(par.rho_max)/par.iroas
    tsizes = list(mm.treatment_group_size_range())
    tfixed = {i for i,v in enumerate(sp) if v=='t'}
    feas={}; omitted_ok=set()
    for assign in itertools.product('ctx', repeat=len(idx)):
        if not all(a in sp[i] for i,a in enumerate(assign)): continue
        T=frozenset(i for i,a in enumerate(assign) if a=='t'); C=frozenset(i for i,a in enumerate(assign) if a=='c')
        if not T or not C: continue
        if 'treatment_geos_range' in kw and not kw['treatment_geos_range'][0]<=len(T)<=kw['treatment_geos_range'][1]: continue
        if 'control_geos_range' in kw and not kw['control_geos_range'][0]<=len(C)<=kw['control_geos_range'][1]: continue
        if 'geo_ratio_tolerance' in kw:
            tol=kw['geo_ratio_tolerance']; r=len(C)/len(T)
            if not (1.0/(1.0+tol) <= r <= 1.0+tol): continue
        if 'volume_ratio_tolerance' in kw:
            tol=kw['volume_ratio_tolerance']; r=share[sorted(C)].sum()/share[sorted(T)].sum()
            if not (1.0/(1.0+tol) <= r <= 1.0+tol): continue
        if sr is not None:
            s=share[sorted(T)].sum()
            if not (sr[0]<=s<=sr[1]): continue
        sc,d = score_of(mat,T,C,par, br[1] if br else None)
        if br is not None:
            b=d.required_impact/par.iroas
            if not (br[0]<=b<=br[1]): continue
        feas[(T,C)]=sc
        if br is not None:
            ob = opt_budget(T)
            may = not (br[0]<=ob<=br[1])
            if not may:
                for r in range(max(1,len(tfixed)), len(T)):
                    if r not in tsizes: continue
                    for sub in itertools.combinations(sorted(T), r):
                        sub=frozenset(sub)
                        if tfixed<=sub and opt_budget(sub)>br[1]: may=True; break
                    if may: break
            if may: omitted_ok.add((T,C))
    got = {(frozenset(idx.index(g) for g in d.treatment_geos), frozenset(idx.index(g) for g in d.control_geos)): d.score.score for d in ex}
    if feas: nonempty+=1
    if omitted_ok: pruned_cases+=1
    prob=[]
    for key in got:
        if key not in feas: prob.append(('returned infeasible', sorted(key[0]), sorted(key[1])))
        elif got[key]!=feas[key]: prob.append(('score mismatch', got[key], feas[key]))
    must = {k_:v for k_,v in feas.items() if k_ not in omitted_ok}
    if len(got) < min(k, len(must)): prob.append(('too few', len(got), len(must)))
    if got:
        worst=min(got.values())
        for key,sc in must.items():
            if key not in got and sc>worst: prob.append(('missed better', sorted(key[0]), sorted(key[1]), sc, worst))
    if prob:
        viol+=1; print(seed, spec, kw, prob[:3])
print('cases',n,'with feasible',nonempty,'with prunable',pruned_cases,'viol',viol)
