From Coq Require Import List ZArith Bool.
From MM Require Import model.Dates gen.Gen_Dates proofs.DatesBridge harness.RunCommon.
Import ListNotations.
Open Scope Z_scope.

Fixpoint ins_z (x : Z) (l : list Z) : list Z :=
  match l with [] => [x] | y :: l' => if x <=? y then x :: l else y :: ins_z x l' end.
Definition sort_z (l : list Z) := fold_right ins_z [] l.
Definition date_eqb (a b : date) : bool :=
  let '(y1, m1, d1) := a in let '(y2, m2, d2) := b in (y1 =? y2) && (m1 =? m2) && (d1 =? d2).
(* entries, the pieces of each entry's text as the harness wrote them (Some calendar day / None = text pd.Timestamp rejects;
   the whole list None when a piece is empty text, which this translation does not cover), and what the implementation
   answered: None = ValueError, Some = sorted calendar days *)
Definition case := (list entry * option (list (list (option date))) * option (list date))%type.
Definition model_out (es : list entry) : option (list date) :=
  match days_to_exclude es with
  | RaiseValueError => None
  | Ok ds => Some (map civil_from_days (sort_z ds))
  end.
(* the same through the translated find_days_to_exclude / expand_time_windows / TimeWindow constructor *)
Definition piece (p : option date) : option Z := match p with Some d => parse d | None => None end.
Definition gen_out (pss : list (list (option date))) : option (list date) :=
  match gen_days_to_exclude (map (map piece) pss) with
  | RaiseValueError => None
  | Ok ds => Some (map civil_from_days (sort_z ds))
  end.
Definition agrees (c : case) : bool :=
  let '(es, pss, r) := c in
  option_eqb (list_eqb date_eqb) (model_out es) r &&
  match pss with Some pss => option_eqb (list_eqb date_eqb) (gen_out pss) r | None => true end.
