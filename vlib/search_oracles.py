"""Direct evaluation of the search properties on the implementation's outputs,
from the raw case (panel, eligibility specification, parameters) and fresh
kernel objects only.  Used for the failing-input search and for replays."""
import math

from . import search
from .search import TYPES, members, tern

REL = 1e-9



INT_FIELDS = ('n_test', 'n_geos_max', 'n_pretest_max', 'n_designs')
INT_RANGES = ('treatment_geos_range', 'control_geos_range')


def ipar(case):
  """The final parameters with integer fields as integers (cases may give them as integer-valued floats)."""
  par = dict(case['par_final'])
  for k in INT_FIELDS:
    if par.get(k) is not None:
      par[k] = int(par[k])
  for k in INT_RANGES:
    if par.get(k) is not None:
      par[k] = tuple(int(v) for v in par[k])
  return par

def raw_elig(case):
  n = len(case['rows'])
  if case['elig'] is None:
    return {str(g + 1): (1, 1, 1) for g in range(n)}
  return {g: TYPES[v] for g, v in case['elig'].items()}


def raw_shares(case):
  means = [sum(r) / len(r) for r in case['rows']]
  tot = sum(means)
  return {str(g + 1): means[g] / tot for g in range(len(means))}


def near(v, bound):
  return abs(v - bound) <= REL * max(1.0, abs(v), abs(bound))


def c01_legal(case, out, res):
  """Returns list of (class, message)."""
  fails = []
  el = raw_elig(case)
  in_data = {str(g + 1) for g in range(len(case['rows']))}
  par = ipar(case)
  must = {g for g, r in el.items() if r[2] == 0 and g in in_data}
  for k, d in enumerate(res['designs']):
    T, C = set(d['T_ids']), set(d['C_ids'])
    if d['id_types'] != ['str']:
      fails.append(('illegal-design', 'design %d: geo IDs are not strings: %s' % (k, d['id_types'])))
    if not T or not C:
      fails.append(('illegal-design', 'design %d has an empty group' % k))
    if T & C:
      fails.append(('illegal-design', 'design %d: groups overlap on %s' % (k, sorted(T & C))))
    for g in sorted(T | C):
      if g not in in_data:
        fails.append(('illegal-design', 'design %d uses geo %s that is not in the data' % (k, g)))
      elif g not in el:
        fails.append(('illegal-design', 'design %d uses geo %s that has no eligibility row' % (k, g)))
    for g in sorted(T):
      if g in el and el[g][1] != 1:
        fails.append(('illegal-design', 'design %d: geo %s in treatment is not treatment-eligible' % (k, g)))
    for g in sorted(C):
      if g in el and el[g][0] != 1:
        fails.append(('illegal-design', 'design %d: geo %s in control is not control-eligible' % (k, g)))
    missing = sorted(must - T - C)
    if missing:
      # F1: the n_geos_max truncation removed a geo whose row forbids exclusion
      admitted = set(out['geos'][i] for i in out.get('within_constraints', [])) if isinstance(out.get('within_constraints'), list) else set()
      trunc = par.get('n_geos_max') is not None and all(g not in admitted for g in missing)
      fails.append(('n_geos_max-truncation-drops-must-include' if trunc else 'illegal-design',
                    'design %d: geos %s cannot be excluded but are in neither group' % (k, missing)))
  return fails


def fresh_diag(case, out, T_ids, C_ids):
  """Kernel values recomputed from the raw panel: sums over the reported IDs, most recent window."""
  import numpy as np
  from matched_markets.methodology import tbrmmdiagnostics as D, tbrmmdesignparameters as P
  par = P.TBRMMDesignParameters(**{k: (tuple(v) if isinstance(v, list) else v) for k, v in case['par_final'].items()})
  w = par.n_pretest_max
  rows = {str(g + 1): np.array(r, dtype=float)[-w:] for g, r in enumerate(case['rows'])}
  y = sum(rows[g] for g in T_ids)
  x = sum(rows[g] for g in C_ids)
  d = D.TBRMMDiagnostics(y, par)
  d.x = x
  return d, par, x, y


def fdiv(a, b):
  """IEEE division (what numpy float64 does): x/0 = +-inf, 0/0 = nan, never an exception."""
  a, b = float(a), float(b)
  if b == 0.0:
    return float('nan') if (a == 0.0 or a != a) else (float('inf') if a > 0 else float('-inf'))
  return a / b


def c02_within(case, out, res, which):
  fails, skipped = [], 0
  par = ipar(case)
  sh = raw_shares(case)
  admitted = [out['geos'][i] for i in res.get('geo_index', [])]
  tot_adm = sum(sh[g] for g in admitted) if admitted else float('nan')
  for k, d in enumerate(res['designs']):
    T, C = d['T_ids'], d['C_ids']
    nt, nc = len(T), len(C)
    r = par.get('treatment_geos_range')
    if r and not (r[0] <= nt <= r[1]):
      fails.append('design %d: %d treatment geos outside %s' % (k, nt, r))
    r = par.get('control_geos_range')
    if r and not (r[0] <= nc <= r[1]):
      fails.append('design %d: %d control geos outside %s' % (k, nc, r))
    tol = par.get('geo_ratio_tolerance')
    if tol is not None and nt:
      q = nc / nt
      if not (1 / (1 + tol) <= q <= 1 + tol):
        fails.append('design %d: geo ratio %d/%d outside [1/(1+%s), 1+%s]' % (k, nc, nt, tol, tol))
    tol = par.get('volume_ratio_tolerance')
    if tol is not None:
      q = fdiv(sum(sh[g] for g in C), sum(sh[g] for g in T))
      lo, hi = 1 / (1 + tol), 1 + tol
      if near(q, lo) or near(q, hi):
        skipped += 1
      elif not (lo <= q <= hi):
        fails.append('design %d: volume ratio %.6g outside [%.6g, %.6g]' % (k, q, lo, hi))
    r = par.get('treatment_share_range')
    if r:
      s_all = sum(sh[g] for g in T)
      s_adm = fdiv(s_all, tot_adm)
      if any(near(s, b) for s in (s_all, s_adm) for b in r):
        skipped += 1
      elif not (r[0] <= s_all <= r[1] or r[0] <= s_adm <= r[1]):
        fails.append('design %d: treatment share %.6g (of all geos) / %.6g (of admitted geos) outside %s'
                     % (k, s_all, s_adm, r))
    r = par.get('budget_range')
    if r:
      dg, _, _, _ = fresh_diag(case, out, T, C)
      b = fdiv(dg.required_impact, par['iroas'])
      if near(b, r[0]) or near(b, r[1]):
        skipped += 1
      elif not (r[0] <= b <= r[1]):
        fails.append('design %d: required budget %.6g outside %s' % (k, b, r))
  return fails, skipped


def py_key(t):
  return tuple(t)


def c14_sorted(res, n_designs):
  fails = []
  ds = res['designs']
  if len(ds) > n_designs:
    fails.append('%d designs returned, n_designs = %d' % (len(ds), n_designs))
  for a, b in zip(ds, ds[1:]):
    if tuple(a['score']) < tuple(b['score']):
      fails.append('scores not in non-increasing order: %s before %s' % (a['score'], b['score']))
  return fails


def feasible_space(case, out, reading):
  """All (tm, cm) over the admitted geos that are legal and within every constraint,
  computed from the raw eligibility/parameters and the fresh kernel tables.
  reading: 'exhaustive' (share against all geos in the data)."""
  par = ipar(case)
  n = out['n']
  gi = [out['geos'][i] for i in out['geo_index']]
  el = raw_elig(case)
  sh = raw_shares(case)
  rows = [el[g] for g in gi]
  feas = []
  skipped = 0
  tr, cr = par.get('treatment_geos_range'), par.get('control_geos_range')
  gt, vt = par.get('geo_ratio_tolerance'), par.get('volume_ratio_tolerance')
  sr, br = par.get('treatment_share_range'), par.get('budget_range')
  for tm in range(1, 1 << n):
    T = members(tm, n)
    if any(rows[i][1] != 1 for i in T):
      continue
    for cm in range(1, 1 << n):
      if tm & cm:
        continue
      C = members(cm, n)
      if any(rows[i][0] != 1 for i in C):
        continue
      if any(rows[i][2] == 0 and not (tm >> i & 1 or cm >> i & 1) for i in range(n)):
        continue
      nt, nc = len(T), len(C)
      if tr and not (tr[0] <= nt <= tr[1]):
        continue
      if cr and not (cr[0] <= nc <= cr[1]):
        continue
      if gt is not None and not (1 / (1 + gt) <= nc / nt <= 1 + gt):
        continue
      sT = sum(sh[gi[i]] for i in T)
      if vt is not None:
        q = fdiv(sum(sh[gi[i]] for i in C), sT)
        if near(q, 1 / (1 + vt)) or near(q, 1 + vt):
          skipped += 1
        if not (1 / (1 + vt) <= q <= 1 + vt):
          continue
      if sr:
        if near(sT, sr[0]) or near(sT, sr[1]):
          skipped += 1
        if not (sr[0] <= sT <= sr[1]):
          continue
      e = out['pairs'][tern(tm, cm, n)]
      if isinstance(e, str):
        skipped += 1
        continue
      if br:
        b = fdiv(e[0], par['iroas'])
        if near(b, br[0]) or near(b, br[1]):
          skipped += 1
        if not (br[0] <= b <= br[1]):
          continue
      feas.append((tm, cm))
  return feas, skipped


def admissible_tsizes(case, out):
  """Treatment sizes the search may use: from the raw eligibility rows of the admitted geos."""
  par = ipar(case)
  gi = [out['geos'][i] for i in out['geo_index']]
  el = raw_elig(case)
  rows = [el[g] for g in gi]
  n_t = sum(1 for r in rows if r[1] == 1)
  n_tf = sum(1 for r in rows if r == (0, 1, 0))
  outside_t = sum(1 for r in rows if r[0] == 1 and r[1] == 0)
  lo, hi = max(1, n_tf), n_t - (0 if outside_t else 1)
  tr = par.get('treatment_geos_range')
  if tr:
    lo, hi = max(lo, tr[0]), min(hi, tr[1])
  return list(range(lo, hi + 1)), rows


def c03_optimal(case, out, res):
  """Brute force: no feasible, non-prunable design outside the result beats the worst returned one."""
  fails = []
  par = ipar(case)
  n = out['n']
  feas, skipped = feasible_space(case, out, 'exhaustive')
  if skipped:
    return [], 'near-threshold'
  if search.has_ties(out):
    return [], 'ties'
  k = par.get('n_designs', 1)
  key = lambda tm, cm: tuple(out['pairs'][tern(tm, cm, n)][2])
  gi = res.get('geo_index', out['geo_index'])
  pos = {g: i for i, g in enumerate(gi)}
  R = []
  for d in res['designs']:
    try:
      R.append((search.mask_of(pos[g] for g in d['T']), search.mask_of(pos[g] for g in d['C'])))
    except KeyError:
      fails.append('a returned design uses a geo outside the geo index')
      return fails, None
  if len(set(R)) != len(R):
    fails.append('the result contains the same design twice')
  fs = set(feas)
  for r in R:
    if r not in fs:
      fails.append('returned design T=%s C=%s is not feasible' % (members(r[0], n), members(r[1], n)))
  for r, d in zip(R, res['designs']):
    if r in fs and any(a == a and a != b for a, b in zip(key(*r), d['score'])):
      fails.append('score of T=%s C=%s is %s, recomputed %s' % (members(r[0], n), members(r[1], n), d['score'], key(*r)))
  if any(any(v != v for v in key(*f)) for f in feas):
    return fails, 'nan-scores'
  # designs the search may omit
  br = par.get('budget_range')
  sizes, rows = admissible_tsizes(case, out)
  tfixed = search.mask_of(i for i, r in enumerate(rows) if r == (0, 1, 0))

  def opt_budget(tm):
    v = out['optB'][tm]
    return None if isinstance(v, str) else fdiv(v, par['iroas'])

  def prunable(tm):
    if not br:
      return False
    b = opt_budget(tm)
    if b is None or b > br[1] or b < br[0]:
      return True
    for sub in range(1, tm):
      if sub & ~tm or sub == tm:
        continue
      if bin(sub).count('1') not in sizes or (sub & tfixed) != tfixed:
        continue
      if any(rows[i][1] != 1 for i in members(sub, n)):
        continue
      bs = opt_budget(sub)
      if bs is not None and bs > br[1]:
        return True
    return False

  outside = [f for f in feas if f not in set(R) and not prunable(f[0])]
  if R:
    worst = min(key(*r) for r in R if r in fs) if any(r in fs for r in R) else None
  else:
    worst = None
  for f in outside:
    if len(R) < k:
      fails.append('feasible design T=%s C=%s (score %s) is missing although only %d of %d designs were returned'
                   % (members(f[0], n), members(f[1], n), key(*f), len(R), k))
      break
    if worst is not None and key(*f) > worst:
      fails.append('feasible design T=%s C=%s scores %s, above the worst returned %s'
                   % (members(f[0], n), members(f[1], n), key(*f), worst))
      break
  return fails, None


def c13_greedy_within_exhaustive(case, out, res_g, res_e):
  par = ipar(case)
  if par.get('budget_range') or par.get('treatment_share_range'):
    return [], 'constraints-outside-scope'
  n = out['n']
  feas, skipped = feasible_space(case, out, 'exhaustive')
  if skipped:
    return [], 'near-threshold'
  fails = []
  fs = set(feas)
  gi = res_g.get('geo_index', out['geo_index'])
  pos = {g: i for i, g in enumerate(gi)}
  best = max((tuple(d['score']) for d in res_e['designs']), default=None)
  for d in res_g['designs']:
    r = (search.mask_of(pos[g] for g in d['T']), search.mask_of(pos[g] for g in d['C']))
    if r not in fs:
      fails.append('greedy design T=%s C=%s is not in the feasible set of the exhaustive search' % (d['T_ids'], d['C_ids']))
    if best is None:
      fails.append('exhaustive search found nothing but greedy returned T=%s C=%s' % (d['T_ids'], d['C_ids']))
    elif tuple(d['score']) > best:
      fails.append('greedy design scores %s, above the exhaustive optimum %s' % (d['score'], list(best)))
  return fails, None


def c04_diag(case, out, res, which):
  import numpy as np
  from matched_markets.methodology import tbrmmscore
  fails = []
  par = ipar(case)
  br = par.get('budget_range')
  for k, d in enumerate(res['designs']):
    dg, p, x, y = fresh_diag(case, out, d['T_ids'], d['C_ids'])
    rd = d.get('diag')
    if rd is None:
      fails.append('design %d has no diagnostics' % k)
      continue
    if len(rd['y']) != len(y) or not np.array_equal(np.array(rd['y']), y):
      fails.append('design %d: treatment series is not the sum of the reported treatment geos over the last %d dates' % (k, len(y)))
    if len(rd['x']) != len(x) or not np.array_equal(np.array(rd['x']), x):
      fails.append('design %d: control series is not the sum of the reported control geos over the last %d dates' % (k, len(x)))
    same = lambda a, b: (a != a and b != b) or a == b
    if not same(rd['corr'], float(dg.corr)):
      fails.append('design %d: corr %r, recomputed %r' % (k, rd['corr'], float(dg.corr)))
    if not same(rd['required_impact'], float(dg.required_impact)):
      fails.append('design %d: required impact %r, recomputed %r' % (k, rd['required_impact'], float(dg.required_impact)))
    tests = [bool(dg.corr_test), bool(dg.aatest.test_ok), bool(dg.bbtest.test_ok), bool(dg.dwtest.test_ok)]
    if rd['tests'] != tests:
      fails.append('design %d: test outcomes %s, recomputed %s' % (k, rd['tests'], tests))
    else:
      # ... and against the documented definitions of the four tests, evaluated by the harness itself
      from .search import documented_tests
      mine = documented_tests(x, y, p)
      names = ['correlation', 'A/A', 'Brownian bridge', 'Durbin-Watson']
      for nm, got, want in zip(names, rd['tests'], mine):
        if want is None or want == 'undefined':
          continue
        if bool(got) != want:
          fails.append('design %d: %s test reported %s; by its documented definition on the design\'s own series it is %s' % (k, nm, got, want))
    from .search import documented_score
    want = [float(v) for v in documented_score(dg, br[1] if (which == 'exhaustive' and br) else None)]
    if not all(same(a, b) for a, b in zip(d['score'], want)):
      fails.append('design %d: score %s, recomputed %s' % (k, d['score'], want))
    sd = rd.get('score_diag')
    if sd and (sd['x'] != rd['x'] or sd['y'] != rd['y']):
      fails.append('design %d: the score object holds different series than the design' % k)
  return fails
