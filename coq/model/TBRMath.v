(* The TBR arithmetic over exact rationals: analysis side (tbr.py:99-262), design side
   (tbrmmdiagnostics.py:213-287, 347-390).  Definitions only; executable.
   Every binary64 input is a dyadic rational, so Q covers every input the code can see; square
   roots never enter: scales are carried as their squares (variances). *)
From Coq Require Import List ZArith QArith.
Import ListNotations.

(* sums are kept in lowest terms (Qred) so that the model can be evaluated on real data *)
Definition qsum (l : list Q) : Q := fold_right (fun x acc => Qred (x + acc)) 0 l.
Definition pt := (Q * Q)%type.                       (* (control x, treatment y) on one date *)
Definition nQ {A} (l : list A) : Q := inject_Z (Z.of_nat (length l)).
Definition Sx (d : list pt) := qsum (map fst d).
Definition Sy (d : list pt) := qsum (map snd d).
Definition Sxx_raw (d : list pt) := qsum (map (fun p => fst p * fst p) d).
Definition Syy_raw (d : list pt) := qsum (map (fun p => snd p * snd p) d).
Definition Sxy_raw (d : list pt) := qsum (map (fun p => fst p * snd p) d).
Definition Sxx d := Sxx_raw d - Sx d * Sx d / nQ d.
Definition Syy d := Syy_raw d - Sy d * Sy d / nQ d.
Definition Sxy d := Sxy_raw d - Sx d * Sy d / nQ d.
Definition xbar d := Sx d / nQ d.
Definition ybar d := Sy d / nQ d.

(* pre-period OLS  y = a + b x  (tbr.py:108-117; statsmodels) *)
Definition slope d := Sxy d / Sxx d.
Definition icept d := ybar d - slope d * xbar d.
Definition resid (a b : Q) (p : pt) : Q := snd p - a - b * fst p.
Definition rss (a b : Q) (d : list pt) := qsum (map (fun p => resid a b p * resid a b p) d).
Definition s2 d := rss (icept d) (slope d) d / (nQ d - 2).           (* pre_period_model.scale *)
Definition df (d : list pt) := nQ d - 2.                                          (* df_resid *)
(* cov_params = s2 (X'X)^-1 *)
Definition det d := nQ d * Sxx_raw d - Sx d * Sx d.
Definition v00 d := s2 d * Sxx_raw d / det d.
Definition v01 d := - s2 d * Sx d / det d.
Definition v11 d := s2 d * nQ d / det d.

(* causal effect per date and its running sum (tbr.py:170-186, 245) *)
Definition effects (d test : list pt) : list Q := map (resid (icept d) (slope d)) test.
Fixpoint cumsum_from (acc : Q) (l : list Q) : list Q :=
  match l with [] => [] | x :: l' => Qred (acc + x) :: cumsum_from (Qred (acc + x)) l' end.
Definition cumsum := cumsum_from 0.
(* variance of the cumulative effect after the first t test dates (tbr.py:225-250) *)
Definition var_at (d : list pt) (t ubar : Q) : Q :=
  t * t * (v00 d + 2 * ubar * v01 d + ubar * ubar * v11 d) + t * s2 d.
Definition posterior_vars (d test : list pt) : list Q :=
  map (fun k => let pre := firstn (S k) test in var_at d (nQ pre) (Sx pre / nQ pre)) (seq 0 (length test)).
Definition posterior_locs (d test : list pt) : list Q := cumsum (effects d test).

(* design side: TBRMMDiagnostics *)
Definition corr2 d := Sxy d * Sxy d / (Sxx d * Syy d).                   (* corr^2 *)
Definition sigma2_of_corr (d : list pt) (rho2 : Q) := Syy d / (nQ d - 2) * (1 - rho2).   (* (std(y, ddof=2) sqrt(1-rho^2))^2 *)
Definition term2 (n T phi tqs tqp : Q) : Q :=                             (* _impact_estimate ^ 2 *)
  (tqs + tqp) * (tqs + tqp) * T * T * (phi * (n + 1) / (n * T * (n - 1)) + 1 / n + 1 / T).
Definition impact2 (d : list pt) (T phi tqs tqp rho2 : Q) : Q := term2 (nQ d) T phi tqs tqp * sigma2_of_corr d rho2.
(* tbrfit(xt, yt) (:347-390): point estimate and squared scale *)
Definition fit_estimate (d : list pt) (T xt yt : Q) : Q := T * ((yt - ybar d) - slope d * (xt - xbar d)).
Definition fit_scale2 (d : list pt) (T xt : Q) : Q :=
  T * T * s2 d * ((1 + (xt - xbar d) * (xt - xbar d) / (Sxx d / nQ d)) / nQ d + 1 / T).
