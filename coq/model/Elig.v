(* Model of matched_markets/methodology/geoeligibility.py.
   Definitions only. *)
From Coq Require Import List Arith Bool.
From MM Require Import lib.ListSet.
Import ListNotations.

(* one row of the eligibility matrix: may the geo go to control / treatment / be excluded *)
Record elig := { ec : bool; et : bool; ex : bool }.
Definition elig_zero : elig := {| ec := false; et := false; ex := false |}.
Definition elig_valid (e : elig) : bool := ec e || et e || ex e.

(* GeoAssignments (geoeligibility.py:24-71), fields in dataclass order *)
Record assignments := {
  a_all : set; a_c : set; a_t : set; a_x : set;
  a_t_fixed : set; a_c_fixed : set; a_x_fixed : set;
  a_ct : set; a_cx : set; a_ctx : set; a_tx : set }.

(* GeoAssignments.__init__ *)
Definition mk_assignments (c t x : set) : assignments :=
  let a := union (union c t) x in
  let not_c := diff a c in
  let not_t := diff a t in
  let not_x := diff a x in
  {| a_all := a; a_c := c; a_t := t; a_x := x;
     a_t_fixed := inter (inter not_c t) not_x;
     a_c_fixed := inter (inter c not_t) not_x;
     a_x_fixed := inter (inter not_c not_t) x;
     a_ct := inter (inter c t) not_x;
     a_cx := inter (inter c not_t) x;
     a_ctx := inter (inter c t) x;
     a_tx := inter (inter not_c t) x |}.

(* get_eligible_assignments(geos, indices=True): the rows of the ordered subset
   [geos] are [es]; answers are positions 0 .. length es - 1 *)
Definition sel (f : elig -> bool) (es : list elig) : set :=
  filter (fun i => f (nth i es elig_zero)) (seq 0 (length es)).
Definition assignments_of (es : list elig) : assignments :=
  mk_assignments (sel ec es) (sel et es) (sel ex es).

(* get_eligible_assignments(geos, indices=False): answers are geo IDs *)
Definition ids_of {ID} (ids : list ID) (d : ID) (s : set) : list ID := map (fun i => nth i ids d) s.

(* ---- validation (GeoEligibility.__init__, geoeligibility.py:116-153) ---- *)
(* a cell of a value column as Python sees it: equal to 0, equal to 1, or anything else
   (2, -1, NaN, a string, None ...) *)
Inductive cell := C0 | C1 | COther.
Record raw_table := {
  has_geo : bool; dup_columns : bool;
  has_control : bool; has_treatment : bool; has_exclude : bool;
  rows : list (nat * cell * cell * cell)        (* geo ID after str(), as an id number *)
}.
Definition cell_ok (c : cell) : bool := match c with COther => false | _ => true end.
Definition cell_is1 (c : cell) : bool := match c with C1 => true | _ => false end.
Fixpoint nodupb (l : list nat) : bool :=
  match l with [] => true | x :: l' => negb (mem x l') && nodupb l' end.
Definition row_id (r : nat * cell * cell * cell) : nat := let '(g, _, _, _) := r in g.
Definition row_cells_ok (r : nat * cell * cell * cell) : bool :=
  let '(_, c, t, x) := r in cell_ok c && cell_ok t && cell_ok x.
Definition row_elig (r : nat * cell * cell * cell) : elig :=
  let '(_, c, t, x) := r in {| ec := cell_is1 c; et := cell_is1 t; ex := cell_is1 x |}.

Inductive outcome (A : Type) := Accept (a : A) | RaiseValueError.
Arguments Accept {A} _.
Arguments RaiseValueError {A}.

Definition validate (t : raw_table) : outcome (list (nat * elig)) :=
  if negb (has_geo t) then RaiseValueError
  else if dup_columns t then RaiseValueError
  else if negb (has_control t && has_treatment t && has_exclude t) then RaiseValueError
  else if negb (nodupb (map row_id (rows t))) then RaiseValueError
  else if negb (forallb row_cells_ok (rows t)) then RaiseValueError
  else if negb (forallb (fun r => elig_valid (row_elig r)) (rows t)) then RaiseValueError
  else Accept (map (fun r => (row_id r, row_elig r)) (rows t)).
