"""C04 -- diagnostics and score attached to a design belong to its reported geos."""
from . import searchfam, search_oracles as so
from . import common
from .c01 import RULE

RULE_C04 = (RULE + '; plus cases with n_designs = 50 (many retained designs) and windows shorter than the data; plus one data '
            'object shared by two successive analyses, the second with a shorter window. For every returned design at every '
            'position: diag.x / diag.y are compared bit for bit with the sums of the raw input rows of the reported geo IDs over '
            'the most recent n_pretest_max dates; corr, required impact, the four test outcomes and the score tuple are compared '
            'with a fresh TBRMMDiagnostics / TBRMMScore built from those two series; the score object must hold the same series')


def oracle(ck, case, out):
  for which in ('exhaustive', 'greedy'):
    r = out.get(which)
    if not r or r['outcome'] != 'ok' or not r['designs']:
      continue
    fails = so.c04_diag(case, out, r, which)
    ck.cov['designs_checked'] = ck.cov.get('designs_checked', 0) + len(r['designs'])
    if fails:
      ck.fail('diagnostics-mismatch', '%s search: %s' % (which, fails[0]), {'case': searchfam.slim(case), 'which': which})


def many_designs(ck, tier):
  """Cases that retain several designs (so that a shared or later-overwritten object would show)."""
  from . import search
  out = []
  for k in range(common.sz(tier, 60, 1200)):
    c = search.gen_case(ck.seed * 23 + 5000 + k, tier)
    c['par']['n_designs'] = 50
    c['par']['n_pretest_max'] = [90, c['n_dates'] - 4, 12, 15][k % 4]
    out.append(c)
  return out


def shared_data_worker(case):
  """One TBRMMData object used by two successive analyses, the second with a shorter window."""
  from matched_markets.methodology import tbrmmdata, tbrmmdesignparameters as P, tbrmatchedmarkets as MM
  from . import search
  try:
    par = dict(search.finish_params(case))
    nd = case['n_dates']
    n1, n2 = nd, max(par['n_test'] + 6, nd - 7)
    data = tbrmmdata.TBRMMData(search.frame_of(case), 'response', search.elig_of(case))
    fails = []
    for npm in (n1, n2):
      p = dict(par, n_pretest_max=npm)
      mm = MM.TBRMatchedMarkets(data, P.TBRMMDesignParameters(**{k: (tuple(v) if isinstance(v, list) else v) for k, v in p.items()}))
      geos = [str(g) for g in case_geo_order(case)]
      c2 = dict(case, par_final=p)
      for which in ('exhaustive', 'greedy'):
        try:
          res = mm.exhaustive_search() if which == 'exhaustive' else mm.greedy_search()
        except ValueError:
          continue
        gi = list(mm.data.geo_index)
        r = {'outcome': 'ok', 'designs': [search.design_record(d, geos, gi) for d in res]}
        for f in so.c04_diag(c2, {'geos': geos}, r, which):
          fails.append('shared data object, analysis with n_pretest_max=%d after one with %d, %s search: %s' % (npm, n1, which, f))
          break
    return fails
  except ValueError:
    return []
  except Exception:
    import traceback
    return ['harness error: ' + traceback.format_exc()[-400:]]


def case_geo_order(case):
  means = [(sum(r) / len(r), g + 1) for g, r in enumerate(case['rows'])]
  return [g for _, g in sorted(means, key=lambda t: -t[0])]


def shared_stage(ck, tier):
  from . import search, common
  n = common.sz(tier, 30, 600)
  cases = []
  for k in range(n):
    c = search.gen_case(ck.seed * 29 + 9000 + k, tier, max_geos=5)
    c['par']['n_designs'] = 5
    c['par']['n_pretest_max'] = 90
    cases.append(c)
  res = common.pmap(shared_data_worker, cases, chunksize=2)
  for c, fails in zip(cases, res):
    for f in fails[:1]:
      if f.startswith('harness error'):
        ck.tie_broken('harness', 'harness error', f)
      else:
        ck.fail('diagnostics-mismatch', f, {'case': searchfam.slim(c), 'shared_data': True})
  ck.cov['shared_data_object_cases'] = len(cases)


def run(tier):
  return searchfam.run_family(
      'C04', tier, 'props/C04.v', ['exhaustive', 'greedy'], oracle, 90, 1800, RULE_C04,
      extra_cases=many_designs, post=shared_stage,
      nontrivial=lambda c, o: bool(o.get('exhaustive', {}).get('designs')) or bool(o.get('greedy', {}).get('designs')),
      trusted_extra=['props/C04.v proves the object-level discipline (reuse + deep copies) on a hand-written store model; '
                     'its tie to the code is the executed oracle'],
      assumptions=['numeric kernels are deterministic: a fresh object on the same series reproduces the values exactly'], gen_targets=searchfam.GEN_TARGETS_ALL)


def replay(data):
  inp = data.get('input') or {}
  if inp.get('shared_data'):
    fails = shared_data_worker(inp['case'])
    print('property failures:', fails or 'none')
    return 1 if fails else 0
  return searchfam.replay_family(data, oracle)
