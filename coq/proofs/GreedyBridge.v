(* Bridge: the Gallina regenerated on this run from TBRMatchedMarkets._greedy_search (gen/Gen_Greedy.v: a
   fuelled local fixpoint for the while loop, folds for the two neighbourhood scans and the final filter,
   dictionaries as association lists, the translated design_within_constraints and HeapDict) computes exactly
   the hand-written model [greedy] of model/Search.v that the theorems of C01, C02, C09, C12 and C13 are
   about -- for every fuel, value type, score comparison, eligibility classes, parameters and kernel oracles. *)
From Coq Require Import List Arith ZArith Bool Lia.
From MM Require Import lib.ListExtra lib.ListSet lib.Combi lib.Values lib.Assoc model.Heap model.Elig model.SearchParams
  model.SearchDefs model.Search gen.Gen_HeapDict gen.Gen_Search gen.Gen_Exhaustive gen.Gen_Greedy
  proofs.HeapGen proofs.HeapBridge proofs.SearchBridge proofs.ExhaustiveBridge proofs.OrderIsoGreedy.
Import ListNotations.
Open Scope Z_scope.

(* dictionaries of sets: the model's lookup / store are the translator's dd_get / dd_set *)
Lemma lookup_dd_get (d : list (Z * set)) k : lookup d k = dd_get d k.
Proof. induction d as [|[k' s] d IH]; cbn; [reflexivity|]. rewrite IH. reflexivity. Qed.
Lemma store_dd_set (d : list (Z * set)) k s : store d k s = dd_set d k s.
Proof. induction d as [|[k' s'] d IH]; cbn; [reflexivity|]. rewrite IH. reflexivity. Qed.
Lemma drop_key_ad_remove (d : list (Z * set)) k : drop_key d k = ad_remove d k.
Proof. reflexivity. Qed.

(* fuelled loops *)
Lemma fuel_loop_sim {S1 S2} (R : S1 -> S2 -> Prop) (c1 : S1 -> bool) (b1 : S1 -> S1) (c2 : S2 -> bool) (b2 : S2 -> S2) :
  (forall a b, R a b -> c1 a = c2 b) -> (forall a b, R a b -> c2 b = true -> R (b1 a) (b2 b)) ->
  forall fuel a b, R a b ->
    match fuel_loop c1 b1 fuel a, fuel_loop c2 b2 fuel b with
    | Some x, Some y => R x y | None, None => True | _, _ => False end.
Proof.
  intros Hc Hb. induction fuel as [|f IH]; intros a b Hab; cbn [fuel_loop]; rewrite (Hc a b Hab).
  - destruct (c2 b); [exact I|exact Hab].
  - destruct (c2 b) eqn:E; [|exact Hab]. apply IH, Hb; assumption.
Qed.

(* facts about dictionaries with distinct keys *)
Lemma dd_get_in (d : list (Z * set)) e : NoDup (map fst d) -> In e d -> dd_get d (fst e) = snd e.
Proof.
  induction d as [|[k s] d IH]; cbn [map fst dd_get In]; intros Hn Hin; [destruct Hin|].
  inversion Hn as [|? ? Hnin Hn']; subst. destruct Hin as [He|He].
  - subst e. cbn [fst snd]. rewrite Z.eqb_refl. reflexivity.
  - destruct (Z.eqb_spec k (fst e)) as [E|E]; [|apply IH; assumption].
    exfalso. apply Hnin. rewrite E. apply in_map, He.
Qed.
Lemma ad_remove_keys {B} (d : list (Z * B)) j k : In k (map fst (ad_remove d j)) <-> In k (map fst d) /\ k <> j.
Proof.
  unfold ad_remove. induction d as [|[k' v] d IH]; cbn [filter map fst In]; [tauto|].
  destruct (Z.eqb_spec k' j) as [E|E]; cbn [negb map fst In]; rewrite IH; [subst k'|]; intuition congruence.
Qed.
Lemma ad_remove_nodup {B} (d : list (Z * B)) j : NoDup (map fst d) -> NoDup (map fst (ad_remove d j)).
Proof.
  unfold ad_remove. induction d as [|[k' v] d IH]; cbn [filter map fst]; intro H; [constructor|].
  inversion H as [|? ? Hnin Hn]; subst. destruct (Z.eqb_spec k' j); cbn [negb map fst]; [apply IH, Hn|].
  constructor; [|apply IH, Hn]. intro Hin. apply Hnin. apply (proj1 (ad_remove_keys d j k')) in Hin. tauto.
Qed.
Lemma dd_get_ad_remove (d : list (Z * set)) j k : k <> j -> dd_get (ad_remove d j) k = dd_get d k.
Proof.
  intro Hne. unfold ad_remove. induction d as [|[k' v] d IH]; cbn [filter dd_get fst]; [reflexivity|].
  destruct (Z.eqb_spec k' j) as [E|E]; cbn [negb dd_get].
  - subst k'. destruct (Z.eqb_spec j k); [congruence|exact IH].
  - rewrite IH. reflexivity.
Qed.
Lemma dd_set_keys_nodup (d : list (Z * set)) k v : NoDup (map fst d) -> NoDup (map fst (dd_set d k v)).
Proof. apply (@HeapBridge.dd_set_nodup nat). Qed.

Lemma spar_eta {V} (p : spar V) :
  p = {| p_treatment_geos_range := p_treatment_geos_range p; p_control_geos_range := p_control_geos_range p;
         p_geo_ratio_tolerance := p_geo_ratio_tolerance p; p_volume_ratio_tolerance := p_volume_ratio_tolerance p;
         p_treatment_share_range := p_treatment_share_range p; p_budget_range := p_budget_range p;
         p_n_geos_max := p_n_geos_max p; p_n_designs := p_n_designs p; p_iroas := p_iroas p |}.
Proof. destruct p; reflexivity. Qed.

Section Bridge.
  Context {V K : Type} (O : vops V) (ltk : K -> K -> bool).
  Variables (A : assignments) (par : spar V) (shareS : set -> V) (bud : set -> set -> V)
            (gkey : set -> set -> K) (zero_key : K).


  Definition glift (d : design) : @des K := (gkey (fst d) (snd d), (fst d, snd d), (fst d, snd d)).

  Notation cap := (p_n_designs par).
  Definition gkeyd (d : design) : K := gkey (fst d) (snd d).
  Lemma key_glift d : des_key (glift d) = gkeyd d.
  Proof. reflexivity. Qed.
  (* gen heapdict state vs. the model's single queue *)
  Definition RhG (hd : @heapdict (@des K)) (h : list design) : Prop :=
    hd_size hd = cap /\ ((hd_result hd = [] /\ h = []) \/ hd_result hd = [(0%Z, map glift h)]).
  Lemma RhG_init : RhG (@GenHeapDict.gen_init (@des K) cap) [].
  Proof. split; [reflexivity|left; split; reflexivity]. Qed.
  Lemma RhG_push hd h T C :
    RhG hd h -> RhG (GenHeapDict.gen_push ltk des_key hd 0%Z (gkey T C, (T, C), (T, C))) (push ltk gkeyd cap h (T, C)).
  Proof.
    intros [Hs Hr]. rewrite HeapBridge.bridge_push. unfold hd_push, hd_set_result. split; [exact Hs|]. right. cbn [hd_result hd_size].
    rewrite Hs. change (gkey T C, (T, C), (T, C)) with (glift (T, C)).
    destruct Hr as [[Hr ->]|Hr]; rewrite Hr; cbn [dd_get dd_set Z.eqb].
    - change (@nil (@des K)) with (map glift []). rewrite (push_map ltk gkeyd des_key glift key_glift). reflexivity.
    - rewrite (push_map ltk gkeyd des_key glift key_glift). reflexivity.
  Qed.
  Lemma RhG_result hd h : RhG hd h ->
    dd_get (GenHeapDict.gen_get_result ltk des_key hd) 0%Z = map glift (nlargest_all ltk gkeyd h).
  Proof.
    intros [_ [[Hr ->]|Hr]]; unfold GenHeapDict.gen_get_result; cbv zeta; rewrite Hr; cbn; [reflexivity|].
    unfold nlargest_all. apply (sortd_map ltk gkeyd des_key glift key_glift).
  Qed.

  Lemma gloop_is_fuel_loop fuel : forall s,
    gloop O ltk A par shareS bud gkey zero_key fuel s
    = fuel_loop (gcontinue A par) (gstep O ltk A par shareS bud gkey zero_key) fuel s.
  Proof. induction fuel as [|f IH]; intro s; cbn [gloop fuel_loop]; [reflexivity|]. rewrite IH. reflexivity. Qed.

  (* state of the translated loop vs. the model's record *)
  Definition Rst (st : set * list (Z * list nat) * list (Z * K) * bool * list (Z * list nat) * nat) (s : gstate) : Prop :=
    let '(ctl, sctl, sc, nm, strt, k) := st in
    gs_k s = Z.of_nat k /\ gs_needs_matching s = nm /\ gs_ctl s = ctl /\ gs_star_trt s = strt /\ gs_star_ctl s = sctl /\
    NoDup (map fst strt).

  (* the model's scan steps *)
  Definition mstep (k : Z) (T ctl : set) (acc : set * K) (g : nat) : set * K :=
    let nb := toggle g ctl in
    if candidate_ok O A par shareS bud k T nb then (if ltk (snd acc) (gkey T nb) then (nb, gkey T nb) else acc) else acc.
  Lemma match_scan_ext (f : set * K -> nat -> set * K) k T ctl :
    (forall acc g, f acc g = mstep k T ctl acc g) ->
    fold_left f (ascending (union (diff (a_c A) (union ctl T)) (diff (inter ctl (a_x A)) T))) (ctl, gkey T ctl)
    = match_scan O ltk A par shareS bud gkey k T ctl.
  Proof. intro H. unfold match_scan. cbv zeta. apply fold_ext. exact H. Qed.

  Lemma augment_scan_rel (f : set * set * K -> nat -> set * set * K) k T cstar ctl0 :
    (forall c t sc g, f (c, t, sc) g =
       if candidate_ok O A par shareS bud k (union T [g]) (diff cstar [g])
       then (if ltk sc (gkey (union T [g]) (diff cstar [g])) then (diff cstar [g], union T [g], gkey (union T [g]) (diff cstar [g])) else (c, t, sc))
       else (c, t, sc)) ->
    snd (fst (fold_left f (ascending (diff (a_t A) T)) (ctl0, T, zero_key)))
      = fst (fst (fst (augment_scan O ltk A par shareS bud gkey zero_key k T cstar))) /\
    fst (fst (fold_left f (ascending (diff (a_t A) T)) (ctl0, T, zero_key)))
      = (if snd (augment_scan O ltk A par shareS bud gkey zero_key k T cstar)
         then snd (fst (fst (augment_scan O ltk A par shareS bud gkey zero_key k T cstar))) else ctl0).
  Proof.
    intro H. unfold augment_scan.
    match goal with |- context [fold_left ?g (ascending (diff (a_t A) T)) (T, [], zero_key, false)] =>
      pose proof (fold_rel (fun (a : set * set * K) (b : set * set * K * bool) =>
             snd (fst a) = fst (fst (fst b)) /\ fst (fst a) = (if snd b then snd (fst (fst b)) else ctl0) /\ snd a = snd (fst b))
          f g (ascending (diff (a_t A) T))) as HR end.
    destruct (HR) with (a := (ctl0, T, zero_key)) (b := (T, @nil nat, zero_key, false)) as (H1 & H2 & _).
    - intros [[c t] sc] [[[au up] kk] acc] g (H1 & H2 & H3). cbn [fst snd] in *. subst. rewrite H.
      destruct (candidate_ok O A par shareS bud k (union T [g]) (diff cstar [g])); [|repeat split; reflexivity].
      destruct (ltk kk (gkey (union T [g]) (diff cstar [g]))); cbn [fst snd]; repeat split; reflexivity.
    - cbn [fst snd]. repeat split; reflexivity.
    - split; assumption.
  Qed.

  (* the final filter *)
  Definition mfinal_step (ctl0 : list (Z * set)) (h : list design) (e : Z * set) : list design :=
    let T := snd e in
    let C := lookup ctl0 (fst e) in
    if gwithin O A par shareS T C && negb (budget_out O par (bud T C)) then push ltk gkeyd cap h (T, C) else h.
  Lemma final_fold {S : Type} (pr : S -> @heapdict (@des K)) (f : S -> Z -> S) (trt' ctl' ctl0 : list (Z * set)) :
    (forall a k, pr (f a k) =
       if gwithin O A par shareS (dd_get trt' k) (dd_get ctl' k) && negb (budget_out O par (bud (dd_get trt' k) (dd_get ctl' k)))
       then GenHeapDict.gen_push ltk des_key (pr a) 0
              (gkey (dd_get trt' k) (dd_get ctl' k), (dd_get trt' k, dd_get ctl' k), (dd_get trt' k, dd_get ctl' k))
       else pr a) ->
    forall l, (forall e, In e l -> dd_get trt' (fst e) = snd e /\ dd_get ctl' (fst e) = dd_get ctl0 (fst e)) ->
    forall a h, RhG (pr a) h -> RhG (pr (fold_left f (map fst l) a)) (fold_left (mfinal_step ctl0) l h).
  Proof.
    intros Hf l. induction l as [|e l IH]; intros Hl a h HR; cbn [map fold_left]; [exact HR|].
    apply IH; [intros e' He'; apply Hl; right; exact He'|].
    rewrite Hf. unfold mfinal_step. cbv zeta. destruct (Hl e (or_introl eq_refl)) as [E1 E2].
    change (lookup ctl0 (fst e)) with (dd_get ctl0 (fst e)). rewrite E1, E2.
    match goal with |- RhG (if ?c then _ else _) (if ?c' then _ else _) => change c' with c; destruct c end;
      [apply RhG_push|]; exact HR.
  Qed.

  Ltac proj := cbn [p_treatment_geos_range p_control_geos_range p_geo_ratio_tolerance p_volume_ratio_tolerance
                    p_treatment_share_range p_budget_range p_n_geos_max p_n_designs p_iroas].

  (* entries of a dictionary from which keys were popped *)
  Lemma popped_entries (strt sctl : list (Z * set)) (js : list Z) :
    NoDup (map fst strt) ->
    let pop := fun (d : list (Z * set)) => fold_left (fun d j => ad_remove d j) js d in
    forall e, In e (pop strt) -> dd_get (pop strt) (fst e) = snd e /\ dd_get (pop sctl) (fst e) = dd_get sctl (fst e).
  Proof.
    cbv zeta. revert strt sctl. induction js as [|j js IH]; intros strt sctl Hnd e He; cbn [fold_left] in *.
    - split; [apply dd_get_in; assumption|reflexivity].
    - destruct (IH (ad_remove strt j) (ad_remove sctl j) (ad_remove_nodup strt j Hnd) e He) as [H1 H2]. split; [exact H1|].
      rewrite H2. apply dd_get_ad_remove.
      assert (Hin : In (fst e) (map fst (ad_remove strt j))).
      { clear -He. revert He. generalize (ad_remove strt j). induction js as [|j' js IH']; intros d He; cbn [fold_left] in He.
        - apply in_map, He.
        - apply IH' in He. apply (proj1 (ad_remove_keys d j' (fst e))) in He. tauto. }
      apply (proj1 (ad_remove_keys strt j (fst e))) in Hin. tauto.
  Qed.

  Ltac atoms :=
    repeat match goal with
           | |- context [within ?a ?b ?c ?d ?e ?f] => destruct (within a b c d e f)
           | |- context [not_satisfied ?a ?b ?c ?d] => destruct (not_satisfied a b c d)
           | |- context [is_nil ?x] => destruct (is_nil x)
           | |- context [ltk ?x ?y] => destruct (ltk x y)
           | |- context [andb (Z.leb ?x ?y) (Z.leb ?z ?w)] => destruct (andb (Z.leb x y) (Z.leb z w))
           end; cbn [negb andb orb]; try reflexivity.

  (* one iteration of the translated loop is one step of the model *)
  Ltac body_tac Ht Hc Hp Hm :=
    let ctl := fresh "ctl" in let sctl := fresh "sctl" in let sc := fresh "sc" in let nm := fresh "nm" in
    let strt := fresh "strt" in let k := fresh "k" in let s := fresh "s" in
    let Hk := fresh "Hk" in let Hn := fresh "Hn" in let Hc' := fresh "Hc'" in let Ht' := fresh "Ht'" in
    let Hs' := fresh "Hs'" in let Hnd := fresh "Hnd" in let Hcont := fresh "Hcont" in
    intros [[[[[ctl sctl] sc] nm] strt] k] s (Hk & Hn & Hc' & Ht' & Hs' & Hnd) Hcont;
    unfold gcontinue in Hcont; rewrite Hk, Hn, Hm in Hcont;
    unfold gstep; cbv zeta; rewrite Hn, Hk, Hc', Ht', Hs'; cbn [fst snd];
    change (lookup strt (Z.of_nat k)) with (dd_get strt (Z.of_nat k)); change (lookup sctl (Z.of_nat k)) with (dd_get sctl (Z.of_nat k));
    destruct nm;
    [ rewrite (match_scan_ext _ (Z.of_nat k) (dd_get strt (Z.of_nat k)) ctl);
      [ destruct (match_scan O ltk A par shareS bud gkey (Z.of_nat k) (dd_get strt (Z.of_nat k)) ctl) as [best bk];
        destruct (ltk (gkey (dd_get strt (Z.of_nat k)) ctl) bk); unfold Rst; cbn [gs_k gs_needs_matching gs_ctl gs_star_trt gs_star_ctl];
        rewrite ?store_dd_set; repeat split; try reflexivity; exact Hnd
      | intros [tmp cs] g; unfold mstep, candidate_ok, gwithin, budget_out, u_design_within_constraints, zlen;
        rewrite Ht, Hc, Hp, bridge_within, Z.geb_leb; cbn [fst snd];
        destruct (p_budget_range par) as [br|]; rewrite ?bridge_not_satisfied; atoms ]
    | cbn [orb] in Hcont; rewrite Bool.orb_false_r in Hcont; rewrite Hcont;
      let HA := fresh "HA" in let HA1 := fresh "HA1" in let HA2 := fresh "HA2" in
      match goal with |- context [fold_left ?F (ascending (diff (a_t A) (dd_get strt (Z.of_nat k)))) (ctl, dd_get strt (Z.of_nat k), zero_key)] =>
        pose proof (augment_scan_rel F (Z.of_nat k) (dd_get strt (Z.of_nat k)) (dd_get sctl (Z.of_nat k)) ctl) as HA end;
      destruct HA as [HA1 HA2];
      [ intros c t scr g; unfold candidate_ok, gwithin, budget_out, u_design_within_constraints, zlen;
        rewrite Ht, Hc, Hp, bridge_within, Z.geb_leb; cbn [fst snd];
        destruct (p_budget_range par) as [br|]; rewrite ?bridge_not_satisfied; atoms
      | match goal with |- context [@fold_left ?TA ?TB ?F ?L ?I] =>
          match type of HA1 with context [@fold_left ?TA2 ?TB2 ?F2 ?L2 ?I2] =>
            change (@fold_left TA2 TB2 F2 L2 I2) with (@fold_left TA TB F L I) in HA1, HA2 end;
          revert HA1 HA2; destruct (@fold_left TA TB F L I) as [[c1 t1] k1] end;
        destruct (augment_scan O ltk A par shareS bud gkey zero_key (Z.of_nat k) (dd_get strt (Z.of_nat k)) (dd_get sctl (Z.of_nat k)))
          as [[[au up] ak] acc];
        intros HA1 HA2; cbn [fst snd] in HA1, HA2; rewrite HA1, HA2;
        unfold Rst; cbn [gs_k gs_needs_matching gs_ctl gs_star_trt gs_star_ctl];
        rewrite store_dd_set, Nat2Z.inj_add; repeat split; try reflexivity; apply dd_set_keys_nodup, Hnd ] ].

  (* the final filter of the translated code is the model's gfinal *)
  Ltac final_tac Hp st1 Hsim :=
    let ctl := fresh "ctl" in let sctl := fresh "sctl" in let sc := fresh "sc" in let nm := fresh "nm" in
    let strt := fresh "strt" in let k := fresh "k" in
    let Hk := fresh "Hk" in let Hn := fresh "Hn" in let Hc' := fresh "Hc'" in let Ht' := fresh "Ht'" in
    let Hs' := fresh "Hs'" in let Hnd := fresh "Hnd" in let Ew := fresh "Ew" in let Eb := fresh "Eb" in let Ebud := fresh "Ebud" in
    destruct st1 as [[[[[ctl sctl] sc] nm] strt] k]; destruct Hsim as (Hk & Hn & Hc' & Ht' & Hs' & Hnd);
    cbn [option_map]; f_equal; unfold gfinal; cbv zeta; rewrite Ht', Hs'; unfold zlen;
    change (lookup strt (Z.of_nat (length (a_t_fixed A)))) with (dd_get strt (Z.of_nat (length (a_t_fixed A))));
    change (lookup sctl (Z.of_nat (length (a_t_fixed A)))) with (dd_get sctl (Z.of_nat (length (a_t_fixed A))));
    cbn [fst snd]; rewrite Z.gtb_ltb, !Bool.negb_involutive; unfold u_design_within_constraints; rewrite !bridge_within;
    destruct (gwithin O A par shareS (dd_get strt (Z.of_nat (length (a_t_fixed A)))) (dd_get sctl (Z.of_nat (length (a_t_fixed A))))) eqn:Ew;
    unfold gwithin in Ew; rewrite Hp in Ew; rewrite Ew; clear Ew;
    (destruct (budget_out O par (bud (dd_get strt (Z.of_nat (length (a_t_fixed A)))) (dd_get sctl (Z.of_nat (length (a_t_fixed A)))))) eqn:Eb;
     unfold budget_out in Eb);
    (destruct (p_budget_range par) as [br|] eqn:Ebud; try discriminate Eb; rewrite ?bridge_not_satisfied, ?Eb; clear Eb);
    (destruct (0 <? Z.of_nat (length (a_t_fixed A))); destruct (is_nil (dd_get sctl (Z.of_nat (length (a_t_fixed A))))); cbn [negb andb orb]);
    (let HL := fresh "HL" in
     match goal with
     | |- dd_get (let '(_, r) := @fold_left ?TA ?TB ?F (map fst ?L) ?I in _) 0 = _ =>
         assert (HL : RhG (snd (@fold_left TA TB F (map fst L) I)) (fold_left (mfinal_step sctl) L []));
         [ | destruct (@fold_left TA TB F (map fst L) I) as [v r]; cbn [snd] in HL; apply RhG_result in HL; exact HL ]
     | |- dd_get (GenHeapDict.gen_get_result _ _ (@fold_left ?TA ?TB ?F (map fst ?L) ?I)) 0 = _ =>
         assert (HL : RhG ((fun x => x) (@fold_left TA TB F (map fst L) I)) (fold_left (mfinal_step sctl) L []));
         [ | cbv beta in HL; apply RhG_result in HL; exact HL ]
     end);
    (match goal with
     | |- RhG (?pr (fold_left ?F (map fst (ad_remove (ad_remove ?st ?kp) 0)) _)) (fold_left (mfinal_step ?sc) _ _) =>
         apply (final_fold pr F (ad_remove (ad_remove st kp) 0) (ad_remove (ad_remove sc kp) 0) sc);
         [ | exact (popped_entries st sc [kp; 0] Hnd) | apply RhG_init ]
     | |- RhG (?pr (fold_left ?F (map fst (ad_remove ?st 0)) _)) (fold_left (mfinal_step ?sc) _ _) =>
         apply (final_fold pr F (ad_remove st 0) (ad_remove sc 0) sc);
         [ | exact (popped_entries st sc [0] Hnd) | apply RhG_init ]
     | |- RhG (fold_left ?F (map fst (ad_remove (ad_remove ?st ?kp) 0)) _) (fold_left (mfinal_step ?sc) _ _) =>
         apply (final_fold (fun x => x) F (ad_remove (ad_remove st kp) 0) (ad_remove (ad_remove sc kp) 0) sc);
         [ | exact (popped_entries st sc [kp; 0] Hnd) | apply RhG_init ]
     | |- RhG (fold_left ?F (map fst (ad_remove ?st 0)) _) (fold_left (mfinal_step ?sc) _ _) =>
         apply (final_fold (fun x => x) F (ad_remove st 0) (ad_remove sc 0) sc);
         [ | exact (popped_entries st sc [0] Hnd) | apply RhG_init ]
     end);
    (let a := fresh "a" in let kk := fresh "kk" in
     intros a kk; try destruct a as [v hd]; cbn [snd]; unfold gwithin, budget_out;
     rewrite Hp, ?Ebud, ?bridge_within, ?bridge_not_satisfied; cbn [fst snd];
     repeat match goal with
            | |- context [within ?a ?b ?c ?d ?e ?f] => destruct (within a b c d e f)
            | |- context [not_satisfied ?a ?b ?c ?d] => destruct (not_satisfied a b c d)
            end; reflexivity).

  Theorem gen_greedy_is_model fuel :
    option_map (fun r => dd_get r 0) (gen_greedy_search O ltk A par shareS bud gkey zero_key fuel)
    = option_map (map glift) (greedy O ltk A par shareS bud gkey zero_key fuel).
  Proof.
    unfold gen_greedy_search, greedy. cbv zeta.
    destruct (p_treatment_geos_range par) as [tr|] eqn:Et; cbv beta iota; proj;
      destruct (p_control_geos_range par) as [cr|] eqn:Ec; cbv beta iota; proj.
    all: rewrite ?Et, ?Ec.
    all: assert (Ht := eq_refl (g_trange A par)); unfold Search.g_trange at 2 in Ht; rewrite Et in Ht; unfold zlen in Ht.
    all: assert (Hc := eq_refl (g_crange A par)); unfold Search.g_crange at 2 in Hc; rewrite Ec in Hc; unfold zlen in Hc.
    all: assert (Hm : max_tsize A par = snd (g_trange A par)) by reflexivity; rewrite Ht in Hm; cbn [snd] in Hm.
    all: assert (Hp := eq_refl (gpar A par)); unfold Search.gpar at 2 in Hp; rewrite Ht, Hc in Hp.
    1: rewrite <- Et, <- Ec, <- (spar_eta par) in Hp.
    all: destruct (Z.of_nat (length (a_t_fixed A)) =? 0) eqn:Ek; cbv beta iota.
    all: rewrite gloop_is_fuel_loop.
    all: match goal with |- context [@fuel_loop gstate ?c2 ?b2 ?fu ?i2] =>
           match goal with |- context [@fuel_loop (_ * _) ?c1 ?b1 ?fu ?i1] =>
             pose proof (fuel_loop_sim Rst c1 b1 c2 b2) as Hsim;
             assert (Hinit : Rst i1 i2);
             [ unfold Rst, ginit, zlen; cbn [gs_k gs_needs_matching gs_ctl gs_star_trt gs_star_ctl dd_set]; rewrite Ek; cbn [negb];
               try (apply Z.eqb_eq in Ek; rewrite Ek); repeat split; try reflexivity; repeat constructor; intros [] |
             assert (Hcond : forall a b, Rst a b -> c1 a = c2 b);
             [ intros [[[[[ctl sctl] sc] nm] strt] k] s (Hk & Hn & _); unfold gcontinue; rewrite Hk, Hn, Hm; reflexivity |
             assert (Hbody : forall a b, Rst a b -> c2 b = true -> Rst (b1 a) (b2 b)); [ clear Hsim Hcond Hinit; body_tac Ht Hc Hp Hm |
             specialize (Hsim Hcond Hbody fu i1 i2 Hinit); clear Hcond Hbody Hinit;
             destruct (fuel_loop c1 b1 fu i1) as [st1|]; destruct (fuel_loop c2 b2 fu i2) as [s2|];
             try contradiction; [final_tac Hp st1 Hsim|reflexivity]]]]
           end end.
  Qed.

  (* the groups of the designs the translated code returns are the model's designs, in the same order *)
  Theorem gen_greedy_groups fuel :
    option_map (fun r => map (@des_groups K) (dd_get r 0)) (gen_greedy_search O ltk A par shareS bud gkey zero_key fuel)
    = greedy O ltk A par shareS bud gkey zero_key fuel.
  Proof.
    pose proof (gen_greedy_is_model fuel) as H.
    destruct (gen_greedy_search O ltk A par shareS bud gkey zero_key fuel) as [r|];
      destruct (greedy O ltk A par shareS bud gkey zero_key fuel) as [ds|]; cbn [option_map] in *; try discriminate; [|reflexivity].
    injection H as H. rewrite H, map_map. f_equal. erewrite map_ext; [apply map_id|]. intros [T C]. reflexivity.
  Qed.
  Lemma gen_greedy_in fuel r d :
    gen_greedy_search O ltk A par shareS bud gkey zero_key fuel = Some r -> In d (dd_get r 0) ->
    exists ds, greedy O ltk A par shareS bud gkey zero_key fuel = Some ds /\ In (des_groups d) ds.
  Proof.
    intros Hr Hd. pose proof (gen_greedy_groups fuel) as H. rewrite Hr in H. cbn [option_map] in H.
    eexists. split; [symmetry; exact H|]. apply in_map, Hd.
  Qed.
  (* each stored design carries the series of its own groups and their score *)
  Lemma gen_greedy_designs_own_their_diag fuel r d :
    gen_greedy_search O ltk A par shareS bud gkey zero_key fuel = Some r -> In d (dd_get r 0) ->
    snd d = snd (fst d) /\ fst (fst d) = gkey (fst (snd (fst d))) (snd (snd (fst d))).
  Proof.
    intros Hr Hd. pose proof (gen_greedy_is_model fuel) as H. rewrite Hr in H. cbn [option_map] in H.
    destruct (greedy O ltk A par shareS bud gkey zero_key fuel) as [ds|]; [|discriminate]. injection H as H.
    rewrite H in Hd. apply in_map_iff in Hd. destruct Hd as [[T C] [<- _]]. split; reflexivity.
  Qed.
  Lemma gen_greedy_none_iff fuel :
    gen_greedy_search O ltk A par shareS bud gkey zero_key fuel = None <-> greedy O ltk A par shareS bud gkey zero_key fuel = None.
  Proof.
    pose proof (gen_greedy_groups fuel) as H.
    destruct (gen_greedy_search O ltk A par shareS bud gkey zero_key fuel); destruct (greedy O ltk A par shareS bud gkey zero_key fuel);
      cbn in H; split; intro; congruence.
  Qed.
End Bridge.
