"""C02 -- returned designs satisfy every user-specified numeric constraint."""
from . import searchfam, search_oracles as so
from .c01 import RULE


def oracle(ck, case, out):
  skipped = 0
  for which in ('exhaustive', 'greedy'):
    r = out.get(which)
    if not r or r['outcome'] != 'ok':
      continue
    fails, sk = so.c02_within(case, out, r, which)
    skipped += sk
    if fails:
      ck.fail('constraint-violated', '%s search: %s' % (which, fails[0]), {'case': searchfam.slim(case), 'which': which})
  ck.cov['near_threshold_skipped'] = ck.cov.get('near_threshold_skipped', 0) + skipped


COMPONENTS = ['tsize_range', 'csizes', 'within', 'exhaustive', 'greedy']


def boundary_cases(ck, tier):
  """Instances exactly on a size bound or a geo-ratio bound (tol in {1/4, 1/2, 1, 2, 3})."""
  from . import search
  out = []
  k = 0
  for tol in (0.25, 0.5, 1.0, 2.0, 3.0):
    for tr in ((1, 1), (1, 2), (2, 2), (2, 4)):
      for cr in ((1, 1), (2, 2), (1, 4), (3, 6)):
        if tier == 'quick' and (k % 4) != 0:
          k += 1
          continue
        c = search.gen_case(ck.seed * 7 + k, tier, max_geos=6)
        c['elig'] = {str(g + 1): 'ctx' for g in range(len(c['rows']))}
        c['par'] = {'n_test': 3, 'iroas': 1.0, 'n_designs': 50, 'n_pretest_max': 90,
                    'geo_ratio_tolerance': tol, 'treatment_geos_range': tr, 'control_geos_range': cr}
        c['want_share'] = c['want_budget'] = False
        out.append(c)
        k += 1
  return out


def run(tier):
  return searchfam.run_family('C02', tier, 'props/C02.v', COMPONENTS, oracle, 150, 3000,
                              RULE + '; plus a boundary grid (geo-ratio tolerance in {1/4,1/2,1,2,3} x size ranges that '
                              'put group sizes exactly on a bound, n_designs=50 so all feasible designs are returned)',
                              extra_cases=boundary_cases,
                              assumptions=['cases within 1e-9 (relative) of a float threshold are skipped and counted',
                                           'bit-level inclusivity of the geo-ratio bound is tested on the boundary grid, '
                                           'proved only over an abstract value type'], gen_targets=searchfam.GEN_TARGETS_ALL)


def replay(data):
  return searchfam.replay_family(data, oracle)
