(* translator refused: Unsupported: line 116: return <order> < -10 expected: Return(value=Compare(left=Name(id='tot_costs', ctx=Load()), ops=[Lt()], comparators=[Constant(value=1e-10)])) *)
Translator_refused_this_source.
