(* C07 -- iROAS summary is coherent with its incremental response and cost (fixed-cost scenario).
   A posterior quantile is loc + scale * tq; the fixed-cost report rescales the response posterior
   by 1 / cost. *)
From Coq Require Import QArith.
From MM Require Import model.TBRMath proofs.TBRMathProofs.
Open Scope Q_scope.

Theorem C07_iroas_is_response_over_cost :
  forall loc scale tq cost, ~ cost == 0 ->
    quantile (loc * (1 / cost)) (scale * (1 / cost)) tq == quantile loc scale tq / cost.
Proof. exact iroas_is_response_over_cost. Qed.
Theorem C07_incremental_response_bounds_are_iroas_bounds_times_cost :
  forall loc scale tq cost, ~ cost == 0 ->
    quantile (loc * (1 / cost)) (scale * (1 / cost)) tq * cost == quantile loc scale tq.
Proof. exact incremental_bounds_are_iroas_bounds_times_cost. Qed.
(* multiplying cost by a and response by b multiplies every iROAS figure by b / a *)
Theorem C07_unit_change :
  forall loc scale tq cost a b, ~ cost == 0 -> ~ a == 0 ->
    quantile ((b * loc) * (1 / (a * cost))) ((b * scale) * (1 / (a * cost))) tq
    == (b / a) * quantile (loc * (1 / cost)) (scale * (1 / cost)) tq.
Proof. exact iroas_unit_change. Qed.
(* ordering is inherited from the response posterior when the cost is positive *)
Theorem C07_order :
  forall loc scale tq_lo tq_hi, 0 <= scale -> tq_lo <= 0 -> 0 <= tq_hi ->
    quantile loc scale tq_lo <= loc /\ loc <= quantile loc scale tq_hi.
Proof. exact summary_order. Qed.
(* a negative incremental cost hands a negative scale to the t distribution (known finding) *)
Theorem C07_negative_cost_refuted : forall scale cost, 0 < scale -> cost < 0 -> scale * (1 / cost) < 0.
Proof. exact negative_cost_gives_negative_scale. Qed.

Print Assumptions C07_iroas_is_response_over_cost.
Print Assumptions C07_incremental_response_bounds_are_iroas_bounds_times_cost.
Print Assumptions C07_unit_change.
Print Assumptions C07_negative_cost_refuted.
