(* TBRMMDesign.__post_init__ as regenerated on this run (gen/Gen_Design.v) never rejects a legal pair of groups:
   the constructor calls inside both searches and inside search_results cannot raise. *)
From Coq Require Import List Arith ZArith Bool.
From MM Require Import lib.ListSet lib.Values model.Elig gen.Gen_Design proofs.GroupSpecs.
Import ListNotations.

Lemma inter_nil_of_disjoint (a b : set) : disjoint a b -> inter a b = [].
Proof.
  unfold inter, disjoint. intro H. induction a as [|x a IH]; cbn; [reflexivity|].
  destruct (mem x b) eqn:E.
  - exfalso. apply (H x); [left; reflexivity|]. unfold mem in E. apply existsb_exists in E. destruct E as [y [Hy Hxy]].
    apply Nat.eqb_eq in Hxy. subst y. exact Hy.
  - apply IH. intros y Hy. apply H. right. exact Hy.
Qed.

Theorem legal_groups_pass_the_design_guard (es : list elig) (T C : set) :
  legal es T C -> gen_design_raises T C = false.
Proof.
  intros (HT & HC & Hd & _). unfold gen_design_raises. cbv zeta.
  destruct T as [|t T']; [congruence|]. destruct C as [|c C']; [congruence|]. cbn [is_nil negb].
  rewrite (inter_nil_of_disjoint _ _ Hd). reflexivity.
Qed.

(* and it does reject an empty or overlapping pair *)
Lemma design_guard_rejects (T C : set) :
  gen_design_raises T C = false -> T <> [] /\ C <> [] /\ inter T C = [].
Proof.
  unfold gen_design_raises. cbv zeta. destruct T; [discriminate|]. destruct C; [discriminate|]. cbn [is_nil negb].
  destruct (inter (n :: T) (n0 :: C)) eqn:E; [|discriminate]. intros _. repeat split; congruence.
Qed.
