import warnings; warnings.filterwarnings('ignore')
import numpy as np, pandas as pd, itertools
from matched_markets.methodology import tbrmmdesignparameters as P, tbrmmdata, geoeligibility as G, tbrmatchedmarkets as MM, tbrmmdiagnostics as D, tbrmmscore as S
TYPES=['c','t','x','ct','cx','tx','ctx']
def panel(rng, ngeos, ndates):
    base = np.cumsum(rng.normal(0,1,ndates))+50
    rows=[]
    for g in range(ngeos):
        sc = rng.choice([1,2,3,5,8])
        s = sc*base + rng.normal(0,rng.choice([0.3,1,3]),ndates)*sc
        for t in range(ndates):
            rows.append(dict(geo=str(g+1), date=pd.Timestamp('2020-01-01')+pd.Timedelta(days=t), response=float(np.round(s[t]*8)/8)))
    return pd.DataFrame(rows)
def mkelig(spec):
    return G.GeoEligibility(pd.DataFrame([dict(geo=g, control=int('c' in v), treatment=int('t' in v), exclude=int('x' in v)) for g,v in spec.items()]))
def build(df, spec, kw):
    par = P.TBRMMDesignParameters(n_test=3, iroas=2.0, **kw)
    data = tbrmmdata.TBRMMData(df, 'response', mkelig(spec))
    return MM.TBRMatchedMarkets(data, par), par
def score_of(mat, T, C, par, budget_max=None):
    d = D.TBRMMDiagnostics(mat[sorted(T)].sum(axis=0), par); d.x = mat[sorted(C)].sum(axis=0)
    s = S.TBRMMScore(d).score
    if budget_max is not None:
        s = s._replace(inv_required_impact=1/(d.required_impact/budget_max))
    return s, d
