(* Bridge: geos_within_constraints and the geo index installed by the geo_assignments property, as regenerated on this
   run (gen/Gen_Admission.v, over the pandas selections as oracles), are the model's within_constraints and geo_index
   when the oracles are the selections the model computes from the per-geo records. *)
From Coq Require Import List Arith ZArith Bool.
From MM Require Import lib.ListSet lib.Values model.Elig model.SearchParams model.Search gen.Gen_Admission.
Import ListNotations.

Section AdmissionBridge.
  Context {V : Type} (O : vops V).
  Variables (par : spar V) (gs : list (grec V)).

  Theorem gen_within_constraints_is_model :
    gen_geos_within_constraints (too_large_set O par gs) (over_budget_set O par gs) (assignable_set O gs)
      (must_include_set O gs) (by_impact_all O gs) (p_n_geos_max par)
    = within_constraints O par gs.
  Proof. reflexivity. Qed.

  Theorem gen_geo_index_is_model :
    gen_geo_index (positions gs) (within_constraints O par gs) = geo_index O par gs.
  Proof. reflexivity. Qed.
End AdmissionBridge.
