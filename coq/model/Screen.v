(* Model of the orchestration of TBRDiagnostics.fit (tbrdiagnostics.py:314-383) and of
   _create_analysis_data (:111-143).  Definitions only.  The two statistical detectors are
   oracles: [noisy rows] (None when there are fewer than four geos) and [outliers rows]. *)
From Coq Require Import List ZArith QArith Bool.
Import ListNotations.

Record row := { r_geo : Z; r_date : Z; r_period : Z; r_group : Z; r_val : Q }.
Definition memz (x : Z) (l : list Z) : bool := existsb (Z.eqb x) l.
Definition is_nil {A} (l : list A) : bool := match l with [] => true | _ => false end.

Section Screen.
  Variables (noisy : list row -> option (list Z)) (outliers : list row -> list Z).
  Variables (g_control g_treat : Z).

  Definition drop_geos (l : list Z) (rows : list row) : list row := filter (fun r => negb (memz (r_geo r) l)) rows.
  Definition drop_dates (l : list Z) (rows : list row) : list row := filter (fun r => negb (memz (r_date r) l)) rows.

  Record fitted := { f_noisy : option (list Z); f_outliers : list Z; f_data : list row }.
  Definition fit (rows : list row) : fitted :=
    let ng := noisy rows in
    let rows1 := match ng with
                 | Some l => if is_nil l then rows else drop_geos l rows      (* `if remove_geos:` *)
                 | None => rows end in
    let od := outliers rows1 in
    let rows2 := if is_nil od then rows1 else drop_dates od rows1 in
    {| f_noisy := ng; f_outliers := od; f_data := rows2 |}.

  (* analysis data: per (date, period) totals of the control (x) and the treatment (y) group *)
  Definition total (rows : list row) (d p g : Z) : Q :=
    fold_right Qplus 0 (map r_val (filter (fun r => (r_date r =? d)%Z && (r_period r =? p)%Z && (r_group r =? g)%Z) rows)).
  Definition present (rows : list row) (d p g : Z) : bool :=
    existsb (fun r => (r_date r =? d)%Z && (r_period r =? p)%Z && (r_group r =? g)%Z) rows.
  Definition analysis_cell (rows : list row) (d p : Z) : option Q * option Q :=
    ((if present rows d p g_control then Some (total rows d p g_control) else None),
     (if present rows d p g_treat then Some (total rows d p g_treat) else None)).
End Screen.
