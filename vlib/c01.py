"""C01 -- returned designs are legal assignments under the geo eligibility matrix."""
from . import searchfam, search_oracles as so
from . import common

RULE = ('seeded cases: panel of 1-6 geos (quick) / up to 7 (thorough) x 14-30 dates, eligibility rows drawn from the seven '
        'legal types (free / mixed / fixed-heavy / no-treatment-eligible / no-control-eligible mixes, geos missing from the '
        'table, excludable geos missing from the data, default table), each of the six constraints present with '
        'probability 0-0.45 (0.6 in the degenerate stream), n_geos_max, n_designs, n_pretest_max below/above the number '
        'of dates, shuffled rows, integer IDs; every fifth case from a degenerate stream (1-3 geos, unsatisfiable '
        'ranges). Both searches are run on fresh objects. non-trivial: at least two admitted geos; distinct: '
        '(seed, parameters, eligibility)')


def oracle(ck, case, out):
  for which in ('exhaustive', 'greedy'):
    r = out.get(which)
    if not r or r['outcome'] != 'ok':
      continue
    for klass, msg in so.c01_legal(case, out, r):
      ck.fail(klass, '%s search: %s' % (which, msg), {'case': searchfam.slim(case), 'which': which})
      break


def must_include_heavy(ck, tier):
  """More geos that cannot be excluded than n_geos_max admits (every one of them must still be placed)."""
  import random
  from . import search
  out = []
  for j in range(common.sz(tier, 8, 100)):
    rng = random.Random(ck.seed * 23 + j)
    c = search.gen_case(ck.seed * 23 + 700 + j, tier, max_geos=6)
    n = len(c['rows'])
    if n < 4:
      continue
    kinds = ['c', 't', 'ct'] + [rng.choice(['c', 't', 'ct', 'ct', 'ctx', 'cx', 'tx']) for _ in range(n - 3)]
    rng.shuffle(kinds)
    c['elig'] = {str(g + 1): kinds[g] for g in range(n)}
    c['par'] = {'n_test': 3, 'iroas': 1.0, 'n_designs': 5, 'n_pretest_max': 90, 'n_geos_max': rng.choice([2, 2, 3])}
    c['want_share'] = c['want_budget'] = False
    c.pop('zero_sum_geo', None)
    out.append(c)
  return out


COMPONENTS = ['geo_index', 'within_constraints', 'classes', 'treat_groups', 'control_groups', 'exhaustive', 'greedy']


def run(tier):
  return searchfam.run_family('C01', tier, 'props/C01.v', COMPONENTS, oracle, 150, 3000,
                              RULE + '; plus cases with more geos that cannot be excluded than n_geos_max', extra_cases=must_include_heavy,
                              assumptions=['eligibility rows of accepted tables are never all-zero (C16)'], gen_targets=searchfam.GEN_TARGETS_ALL)


def replay(data):
  return searchfam.replay_family(data, oracle)
