import warnings; warnings.filterwarnings('ignore')
import numpy as np, pandas as pd, dataclasses, traceback, copy, itertools, random, sys
from matched_markets.methodology import tbrmmdesignparameters as P, tbrmmdata, geoeligibility as G, tbrmatchedmarkets as MM, tbrmmdiagnostics as D, tbrmmscore as S

TYPES=['c','t','x','ct','cx','tx','ctx']
def panel(rng, ngeos, ndates):
    base = np.cumsum(rng.normal(0,1,ndates))+50
    rows=[]
    for g in range(ngeos):
        sc = rng.choice([1,2,3,5,8])
        s = sc*base + rng.normal(0,rng.choice([0.3,1,3]),ndates)*sc
        for t in range(ndates):
            rows.append(dict(geo=str(g+1), date=pd.Timestamp('2020-01-01')+pd.Timedelta(days=t), response=float(np.round(s[t]*8)/8)))
    return pd.DataFrame(rows)

def check(seed):
    rng = np.random.RandomState(seed)
    ngeos = rng.randint(2,6); nd = rng.randint(12,20)
    df = panel(rng, ngeos, nd)
    spec = {str(g+1): (rng.choice(TYPES) if rng.rand()<0.5 else 'ctx') for g in range(ngeos)}
    if rng.rand()<0.3: spec=None
    kw={}
    if rng.rand()<0.4: kw['budget_range']=tuple(sorted(rng.uniform(0,60,2)))
    if rng.rand()<0.3: kw['treatment_geos_range']=tuple(int(v) for v in sorted(rng.randint(1,4,2)))
    if rng.rand()<0.3: kw['control_geos_range']=tuple(int(v) for v in sorted(rng.randint(1,4,2)))
    if rng.rand()<0.3: kw['geo_ratio_tolerance']=float(rng.choice([0.5,1.0,2.0]))
    if rng.rand()<0.3: kw['volume_ratio_tolerance']=float(rng.choice([0.5,1.0,3.0]))
    if rng.rand()<0.3: kw['treatment_share_range']=tuple(sorted(rng.uniform(0.05,0.95,2)))
    if rng.rand()<0.2: kw['n_geos_max']=int(rng.randint(2,5))
    kw['n_designs']=int(rng.choice([1,2,5]))
    out=[]
    for method in ['exhaustive_search','greedy_search']:
        try:
            par = P.TBRMMDesignParameters(n_test=3, iroas=2.0, **kw)
            ge = None
            if spec:
                ge = G.GeoEligibility(pd.DataFrame([dict(geo=g, control=int('c' in v), treatment=int('t' in v), exclude=int('x' in v)) for g,v in spec.items()]))
            data = tbrmmdata.TBRMMData(df, 'response', ge)
            mm = MM.TBRMatchedMarkets(data, par)
            res = getattr(mm, method)()
        except Exception as e:
            out.append((method, 'EXC', type(e).__name__, str(e)[:50])); continue
        sp = spec or {str(g+1):'ctx' for g in range(ngeos)}
        allT = set()
        for d in res:
            T,C = d.treatment_geos, d.control_geos
            prob=[]
            if not T or not C or T&C: prob.append('empty/overlap')
            if any('t' not in sp[g] for g in T): prob.append('T inelig')
            if any('c' not in sp[g] for g in C): prob.append('C inelig')
            must = {g for g,v in sp.items() if 'x' not in v}
            if not must <= (T|C): prob.append('must-include missing %s'%sorted(must-(T|C)))
            if 'budget_range' in kw:
                b = d.diag.required_impact/par.iroas
                if not (kw['budget_range'][0] <= b <= kw['budget_range'][1]): prob.append('budget %.3f not in %s'%(b,kw['budget_range']))
            if 'treatment_geos_range' in kw and not kw['treatment_geos_range'][0]<=len(T)<=kw['treatment_geos_range'][1]: prob.append('tsize')
            if 'control_geos_range' in kw and not kw['control_geos_range'][0]<=len(C)<=kw['control_geos_range'][1]: prob.append('csize')
            if 'geo_ratio_tolerance' in kw:
                r=len(C)/len(T); tol=kw['geo_ratio_tolerance']
                if not (1/(1+tol) <= r <= 1+tol): prob.append('georatio')
            if prob: out.append((method, sorted(T), sorted(C), prob))
        sc=[d.score.score for d in res]
        if any(sc[i]<sc[i+1] for i in range(len(sc)-1)): out.append((method,'not sorted'))
        if len(res)>kw['n_designs']: out.append((method,'too many'))
    if out: print(seed, spec, kw, out)

for seed in range(int(sys.argv[1]), int(sys.argv[2])): check(seed)
