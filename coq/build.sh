#!/bin/sh
# Full .vo build of the Coq development (never -vos).  Usage: build.sh [make targets]
cd "$(dirname "$0")" || exit 2
ls lib/*.v model/*.v gen/*.v proofs/*.v props/*.v harness/*.v 2>/dev/null | sort > .files.new
if ! cmp -s .files.new .files 2>/dev/null || [ ! -f Makefile.coq ]; then
  mv .files.new .files
  (cat _CoqProject; cat .files) > _CoqProject.full
  coq_makefile -f _CoqProject.full -o Makefile.coq >/dev/null || exit 2
else rm -f .files.new; fi
exec make -f Makefile.coq -j"${COQ_JOBS:-16}" "$@"
