#!/usr/bin/env python3
"""usage: merge_seeded_logs.py <log> [<log> ...]   -- assembles seeded/RESULTS.md from the output of several partial
tools/run_all_seeded.py runs (lines `<seeded id> <check> <verdict>`)."""
import os
import re
import sys

V = os.path.dirname(os.path.dirname(os.path.abspath(__file__)))
rows = {}
for path in sys.argv[1:]:
  for line in open(path, errors='replace'):
    m = re.match(r'^(S\d+-\S+) (C\d\d|-) (reported \(failing input\)|reported \(tie only\)|NOT REPORTED|PATCH DOES NOT APPLY)', line)
    if m:
      rows[(m.group(1), m.group(2))] = m.group(3)
key = lambda k: (int(re.match(r'S(\d+)', k[0]).group(1)), k[1])
with open(os.path.join(V, 'seeded', 'RESULTS.md'), 'w') as f:
  bad = [k for k, v in rows.items() if v in ('NOT REPORTED', 'PATCH DOES NOT APPLY')]
  f.write('# Seeded changes against the current checks (quick tier)\n\nAssembled by tools/merge_seeded_logs.py from partial runs of '
          'tools/run_all_seeded.py on one commit: %d runs over %d seeded changes, %d with a concrete failing input, %d through a broken tie only, '
          '%d not reported.\n\n| seeded change | check | verdict |\n|---|---|---|\n'
          % (len(rows), len({k[0] for k in rows}), sum(1 for v in rows.values() if v == 'reported (failing input)'),
             sum(1 for v in rows.values() if v == 'reported (tie only)'), len(bad)))
  for k in sorted(rows, key=key):
    f.write('| %s | %s | %s |\n' % (k[0], k[1], rows[k]))
print('%d runs, %d changes, %d not reported' % (len(rows), len({k[0] for k in rows}), len(bad)))
