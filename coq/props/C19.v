(* C19 -- Post-analysis data screening removes exactly what it reports. *)
From Coq Require Import List ZArith QArith Bool Sorting.Permutation.
From MM Require Import model.Screen proofs.ScreenProofs.
Import ListNotations.

(* for every behaviour of the two statistical detectors: *)
Theorem C19_screened_data_is_input_minus_reported :
  forall noisy outliers rows,
    let f := fit noisy outliers rows in
    f_data f = filter (fun r => negb (memz (r_geo r) (reported_geos f)) && negb (memz (r_date r) (f_outliers f))) rows.
Proof. exact screened_data_def. Qed.
Theorem C19_row_survives_iff_not_reported :
  forall noisy outliers rows r,
    let f := fit noisy outliers rows in
    In r (f_data f) <-> In r rows /\ memz (r_geo r) (reported_geos f) = false /\ memz (r_date r) (f_outliers f) = false.
Proof. exact screened_row_iff. Qed.
Theorem C19_row_order_irrelevant :
  forall noisy outliers,
    (forall a b, Permutation a b -> noisy a = noisy b) ->
    (forall a b, Permutation a b -> outliers a = outliers b) ->
    forall a b, Permutation a b ->
      f_noisy (fit noisy outliers a) = f_noisy (fit noisy outliers b) /\
      f_outliers (fit noisy outliers a) = f_outliers (fit noisy outliers b) /\
      Permutation (f_data (fit noisy outliers a)) (f_data (fit noisy outliers b)).
Proof. exact row_order_irrelevant. Qed.
Print Assumptions C19_screened_data_is_input_minus_reported.
Print Assumptions C19_row_survives_iff_not_reported.
Print Assumptions C19_row_order_irrelevant.
