(* C18 -- Pointwise and cumulative effect series are well-formed for any experiment. *)
From Coq Require Import List ZArith QArith.
From MM Require Import model.TBRMath proofs.TBRMathProofs.
Import ListNotations.
Open Scope Q_scope.

Theorem C18_counterfactual_plus_difference_is_observed : forall y diff : Q, (y - diff) + diff == y.
Proof. exact counterfactual_plus_difference_is_observed. Qed.
(* pre-period pointwise differences are the regression residuals, and they sum to zero: the running
   sum started in the pre-period restarts at zero on the first test date *)
Theorem C18_pre_period_differences_are_residuals :
  forall d, effects d d = map (resid (icept d) (slope d)) d.
Proof. reflexivity. Qed.
Theorem C18_residuals_sum_to_zero : forall d, ~ nQ d == 0 -> qsum (map (resid (icept d) (slope d)) d) == 0.
Proof. exact ols_resid_sum_zero. Qed.
Theorem C18_cumulative_series_restarts_at_test :
  forall d test, ~ nQ d == 0 -> qsum (effects d d ++ effects d test) == qsum (effects d test).
Proof. exact cumulative_effect_restarts. Qed.
(* pointwise bounds are first differences of the cumulative quantiles: they bracket the pointwise
   estimate exactly when the cumulative scale does not decrease (lower quantile, tq < 0) *)
Theorem C18_pointwise_lower_le_estimate_iff_scale_nondecreasing :
  forall loc0 loc1 s0 s1 tq, tq < 0 ->
    (quantile loc1 s1 tq - quantile loc0 s0 tq <= loc1 - loc0 <-> s0 <= s1).
Proof. exact pointwise_lower_le_estimate_iff. Qed.
Theorem C18_cumulative_order :
  forall loc scale tq_lo tq_hi, 0 <= scale -> tq_lo <= 0 -> 0 <= tq_hi ->
    quantile loc scale tq_lo <= loc /\ loc <= quantile loc scale tq_hi.
Proof. exact summary_order. Qed.

Print Assumptions C18_residuals_sum_to_zero.
Print Assumptions C18_cumulative_series_restarts_at_test.
Print Assumptions C18_pointwise_lower_le_estimate_iff_scale_nondecreasing.

(* the cumulative scale CAN decrease: a control spike on the first test date (known finding) *)
Example C18_scale_can_decrease :
  let pre := [(1, 1); (2, 2); (3, 3); (4, 5); (5, 4)] in
  let test := [(40, 40); (-34, -34)] in
  match posterior_vars pre test with [v1; v2] => Qle_bool v1 v2 | _ => true end = false.
Proof. vm_compute. reflexivity. Qed.
