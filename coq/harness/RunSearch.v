(* Evaluation of the search model on cases recorded from the implementation.
   Kernel tables are indexed by bit masks of index sets (shareS, optB) and by the
   ternary code of a (treatment, control) pair. *)
From Coq Require Import List Arith ZArith Bool PrimFloat.
From MM Require Import lib.ListSet lib.Combi lib.Values lib.PyScore model.Heap model.Elig
  model.SearchParams model.SearchDefs model.Search harness.RunCommon.
Import ListNotations.

Definition G (ie c t x : bool) (sh im : float) : grec float :=
  {| g_in_elig := ie; g_e := {| ec := c; et := t; ex := x |}; g_share := sh; g_impact := im |}.

Definition mask (s : set) : nat := fold_left (fun m i => (m + Nat.pow 2 i)%nat) s 0%nat.
Definition tern (n : nat) (T C : set) : nat :=
  fold_left (fun k i => (k + Nat.pow 3 i * (if mem i T then 1 else if mem i C then 2 else 0))%nat) (seq 0 n) 0%nat.

Definition entry := (float * pykey * pykey)%type.       (* required impact, greedy key, exhaustive key *)
Definition dummy : entry := (nan, [], []).

Record scase := {
  sc_gs : list (grec float);
  sc_par : spar float;
  sc_share : list float;
  sc_opt : list float;
  sc_pairs : list entry
}.

Section Run.
  Variable c : scase.
  Definition O := FloatOps.
  Definition gidx := geo_index O (sc_par c) (sc_gs c).
  Definition es := admitted_rows O (sc_par c) (sc_gs c).
  Definition n := length es.
  Definition A := assignments_of es.
  Definition shareS (s : set) : float := nth (mask s) (sc_share c) nan.
  Definition optB (s : set) : float := nth (mask s) (sc_opt c) nan.
  Definition ent (T C : set) : entry := nth (tern n T C) (sc_pairs c) dummy.
  Definition bud (T C : set) : float := fst (fst (ent T C)).
  Definition gkey (T C : set) : pykey := snd (fst (ent T C)).
  Definition skey (T C : set) : pykey := snd (ent T C).
  Definition zero_key : pykey := [Some 0; Some 0; Some 0; Some 0; Some 0; Some 0]%Z.

  Definition m_geo_index : option (list nat) :=
    if geo_index_raises O (sc_par c) (sc_gs c) then None else Some gidx.
  Definition m_within_constraints := within_constraints O (sc_par c) (sc_gs c).
  Definition m_tsize := tsize_range A (sc_par c).
  Definition m_csizes (nt : Z) := csizes O A (sc_par c) nt.
  Definition m_treat (k : Z) : option (list set) :=
    if treat_groups_raises k then None else Some (treat_groups A k).
  Definition m_control (T : set) : option (list set) :=
    if control_groups_raises A T then None else Some (control_groups O A (sc_par c) T).
  Definition m_count := count O A (sc_par c).
  Definition m_within (T C : set) := within O A (sc_par c) shareS T C.
  Definition m_exhaustive : list design :=
    exhaustive O py_ltb A (sc_par c) shareS optB bud skey.
  Definition m_greedy : option (list design) :=
    greedy O py_ltb A (sc_par c) shareS bud gkey zero_key 2000%nat.
End Run.

Record sexp := {
  x_geo_index : option (list nat);
  x_within_constraints : list nat;
  x_classes : list set;
  x_tsize : list Z;
  x_csizes : list (Z * list Z);
  x_treat : list (Z * option (list set));
  x_control : list (set * option (list set));
  x_count : Z;
  x_within : list (set * set * bool);
  x_exh : option (list design);        (* None: not compared *)
  x_greedy : option (list design)
}.

Definition sets_eqb (a b : list set) : bool :=
  let a' := map sort_nat a in let b' := map sort_nat b in
  Nat.eqb (length a') (length b') &&
  forallb (fun s => existsb (list_eqb Nat.eqb s) b') a' &&
  forallb (fun s => existsb (list_eqb Nat.eqb s) a') b'.
Definition design_eqb (a b : design) : bool :=
  list_eqb Nat.eqb (sort_nat (fst a)) (sort_nat (fst b)) && list_eqb Nat.eqb (sort_nat (snd a)) (sort_nat (snd b)).
Definition fields (a : assignments) : list set :=
  [a_all a; a_c a; a_t a; a_x a; a_t_fixed a; a_c_fixed a; a_x_fixed a; a_ct a; a_cx a; a_ctx a; a_tx a].

(* one flag per component; the harness reports which component disagrees *)
Definition check (c : scase) (x : sexp) : list bool :=
  let gi_ok := option_eqb (list_eqb Nat.eqb) (m_geo_index c) (x_geo_index x) in
  match x_geo_index x with
  | None => [gi_ok]
  | Some _ =>
    [ gi_ok;
      list_eqb Nat.eqb (sort_nat (m_within_constraints c)) (x_within_constraints x);
      set_list_eqb (fields (A c)) (x_classes x);
      list_eqb Z.eqb (m_tsize c) (x_tsize x);
      forallb (fun e => list_eqb Z.eqb (m_csizes c (fst e)) (snd e)) (x_csizes x);
      forallb (fun e => option_eqb sets_eqb (m_treat c (fst e)) (snd e)) (x_treat x);
      forallb (fun e => option_eqb sets_eqb (m_control c (fst e)) (snd e)) (x_control x);
      Z.eqb (m_count c) (x_count x);
      forallb (fun e => Bool.eqb (m_within c (fst (fst e)) (snd (fst e))) (snd e)) (x_within x);
      match x_exh x with None => true | Some l => list_eqb design_eqb (m_exhaustive c) l end;
      match x_greedy x with None => true
      | Some l => match m_greedy c with Some l' => list_eqb design_eqb l' l | None => false end end ]
  end.

Fixpoint failing_from (i : nat) (cs : list (scase * sexp)) : list nat :=
  match cs with
  | [] => []
  | (c, x) :: cs' =>
      let flags := check c x in
      map (fun j => (100 * i + j)%nat)
          (filter (fun j => negb (nth j flags true)) (seq 0%nat (length flags))) ++ failing_from (S i) cs'
  end.
Definition failing := failing_from 0%nat.
