"""C05 -- required impact is calibrated to the post-analysis test at the stated power."""
import math
import random

from . import common, tbrfam
from .common import Check, coq_list
from .tbrfam import close
from .c06 import model_compare, TRUSTED

KNOWN_CLASS = 'negative-multiplier'


def series(rng, n):
  base = [100.0]
  for _ in range(n - 1):
    base.append(base[-1] + rng.gauss(0, 2.0))
  x = [round((2 * b + rng.gauss(0, 1.0)) * 8) / 8 for b in base]
  y = [round((3 * b + rng.gauss(0, rng.choice([0.5, 2.0, 6.0]))) * 8) / 8 for b in base]
  return x, y


def analyse(seed):
  import numpy as np
  import pandas as pd
  from scipy import stats
  from matched_markets.methodology import tbrmmdiagnostics as D, tbrmmdesignparameters as P, tbr
  rng = random.Random(seed)
  out = {'fails': [], 'known': [], 'seed': seed}
  n = rng.randint(5, 60)
  T = rng.randint(1, 30)
  sig, power = rng.choice([(0.9, 0.8), (0.95, 0.9), (0.8, 0.5), (0.6, 0.7), (0.3, 0.3), (0.4, 0.5), (0.2, 0.6)])
  flevel = rng.choice([0.9, 0.95, 0.99])
  r2 = random.Random(seed * 31 + 7)
  # the diagnostics object is given the series as they are: n_pretest_max (default 90) must play no role in it
  npm = None
  if r2.random() < 0.3:
    if r2.random() < 0.5:
      n = r2.randint(95, 130)                    # longer than the default n_pretest_max
    else:
      npm = r2.choice([3, 6, 10, 20])            # a small n_pretest_max with a longer series
  kw = {} if npm is None else {'n_pretest_max': npm}
  par = P.TBRMMDesignParameters(n_test=T, iroas=1.0, sig_level=sig, power_level=power, flevel=flevel, **kw)
  x, y = series(rng, n)
  if n > 20:                                     # the noise level changes along the series
    y = [v + (3.0 if t % 2 else -3.0) * (t < n // 2) for t, v in enumerate(y)]
  reuse = r2.random() < 0.5
  if reuse:
    # the object has a history: another pair of series (of another length, or of the same length at another
    # noise level) was analysed on it first
    x0, y0 = series(r2, r2.choice([n + 7, max(5, n // 2), 90, 12, n, n]))
    if len(y0) == n:
      y0 = [v * 7.0 + (11.0 if t % 3 else -5.0) for t, v in enumerate(y0)]
    d = D.TBRMMDiagnostics(np.array(y0), par)
    d.x = np.array(x0)
    float(d.required_impact)
    float(d.estimate_required_impact(0.5))
    d.y = np.array(y)
    d.x = np.array(x)
  else:
    d = D.TBRMMDiagnostics(np.array(y), par)
    d.x = np.array(x)
  out['reused'] = reuse
  impact = float(d.required_impact)
  tqs, tqp = float(stats.t.ppf(sig, n - 2)), float(stats.t.ppf(power, n - 2))
  phi = float(stats.f(dfn=1, dfd=n - 1).ppf(flevel))
  mult = tqs + tqp
  # monotone in |corr|, linear in the unit, blind to level shifts
  vals = [float(d.estimate_required_impact(r)) for r in (0.0, 0.3, -0.5, 0.7, -0.9, 0.99)]
  dec = all(a > b for a, b in zip(vals, vals[1:]))
  if not dec:
    msg = ('sig_level=%g, power_level=%g: required impact at |corr| = 0, .3, .5, .7, .9, .99 is %s -- not strictly decreasing'
           % (sig, power, ['%.4g' % v for v in vals]))
    (out['known'] if mult <= 0 else out['fails']).append(msg)
  if impact < 0 and mult > 0:
    out['fails'].append('negative required impact %r' % impact)
  c = rng.choice([2.0, 0.5, 8.0])
  d2 = D.TBRMMDiagnostics(np.array(y) * c, par)
  d2.x = np.array(x) * c
  if not close(float(d2.required_impact), c * impact, 1e-10):
    out['fails'].append('required impact does not scale linearly with the response unit (x%g)' % c)
  d3 = D.TBRMMDiagnostics(np.array(y) + 1000.0, par)
  d3.x = np.array(x) - 250.0
  if not close(float(d3.required_impact), impact, 1e-9):
    out['fails'].append('required impact changes under a level shift: %r vs %r' % (float(d3.required_impact), impact))
  # calibration against the real post-analysis: control test mean displaced, treatment = counterfactual + lift
  xbar = sum(x) / n
  sxx = sum((v - xbar) ** 2 for v in x)
  dx = math.sqrt(phi * (n + 1) * sxx / (n * T * (n - 1)))
  b, a = np.polyfit(x, y, 1)
  lift = impact
  t0 = pd.Timestamp('2022-01-03')
  recs = []
  for t in range(n):
    recs.append({'geo': 1, 'date': t0 + pd.Timedelta(days=t), 'period': 0, 'group': 1, 'response': x[t]})
    recs.append({'geo': 2, 'date': t0 + pd.Timedelta(days=t), 'period': 0, 'group': 2, 'response': y[t]})
  for t in range(T):
    xt = xbar + dx
    recs.append({'geo': 1, 'date': t0 + pd.Timedelta(days=n + t), 'period': 1, 'group': 1, 'response': xt})
    recs.append({'geo': 2, 'date': t0 + pd.Timedelta(days=n + t), 'period': 1, 'group': 2, 'response': a + b * xt + lift / T})
  m = tbr.TBR(use_cooldown=False)
  frame = pd.DataFrame(recs)
  if seed % 2:
    frame = frame.sample(frac=1.0, random_state=seed % (2 ** 31)).reset_index(drop=True)    # rows in arbitrary order
  m.fit(frame.set_index('date'), 'response')
  dist = m.causal_cumulative_distribution(time=-1)
  scale_T = float(dist.kwds['scale'])
  # the same posterior asked for in another response unit (rescale) on the last day: required impact is linear in the unit
  unit = rng.choice([0.001, 0.25, 1000.0])
  dist_u = m.causal_cumulative_distribution(time=-1, rescale=unit)
  if not close(float(dist_u.kwds['scale']), unit * scale_T, 1e-10) or not close(float(dist_u.kwds['loc']), unit * float(dist.kwds['loc']), 1e-10):
    out['fails'].append('posterior of the last day in the unit x%g: loc %r scale %r, expected %r and %r (required impact in that unit = %r)'
                        % (unit, float(dist_u.kwds['loc']), float(dist_u.kwds['scale']), unit * float(dist.kwds['loc']), unit * scale_T, unit * impact))
  if abs(impact - mult * scale_T) > 1e-8 * max(1.0, abs(impact), abs(scale_T)):
    out['fails'].append('required impact %r is not (t_sig + t_power) x posterior scale = %r' % (impact, mult * scale_T))
  if mult > 0:
    sm = m.summary(level=sig, tails=1, report='last')
    est, lo = float(sm['estimate'].iloc[0]), float(sm['lower'].iloc[0])
    tol = 1e-7 * max(1.0, abs(lift), abs(scale_T))
    if abs(est - lift) > tol:
      out['fails'].append('post-analysis estimate %r differs from the planted lift %r' % (est, lift))
    if abs(lo - tqp * scale_T) > tol:
      out['fails'].append('lower bound %r at confidence %g is not t_power x scale = %r' % (lo, sig, tqp * scale_T))
  # model correspondence term (design side)
  xt, yt = xbar + 1.5, sum(y) / n + 2.0
  fit = d.tbrfit(xt, yt)
  out['term'] = '(%s, %s, %s, %s, %s, %s, %s, (%s, %s, %s, %s))' % (
      tbrfam.pts(list(zip(x, y))), tbrfam.qm(T), tbrfam.qm(phi), tbrfam.qm(tqs), tbrfam.qm(tqp), tbrfam.qm(impact),
      tbrfam.qm(float(d.estimate_required_impact(0.9))), tbrfam.qm(xt), tbrfam.qm(yt), tbrfam.qm(float(fit.estimate)),
      tbrfam.qm(float(fit.scale)))
  if all(v == v and abs(v) != float('inf') for v in (impact, float(fit.estimate), float(fit.scale))):
    out['iterm'] = tbrfam.impact_term(d, y, T, sig, power, flevel, rng.choice([0.9, 0.0, -0.35, 0.5]))
    out['fterm'] = tbrfam.tbrfit_term(d, x, y, T, sig, xt, yt)
  out['params'] = {'reused_object': reuse, 'n_pretest_max': npm or 90, 'n': n, 'n_test': T, 'sig_level': sig, 'power_level': power, 'flevel': flevel}
  return out


def _one(seed):
  try:
    return analyse(seed)
  except Exception:
    import traceback
    return {'fails': ['harness error: ' + traceback.format_exc()[-500:]], 'known': [], 'seed': seed}


def run(tier):
  ck = Check('C05', tier)
  ck.prove('props/C05.v', gen_targets=['formulas'], extra=['harness/RunTBR.vo', 'harness/RunFormulas.vo'])
  n = common.sz(tier, 200, 5000)
  res = common.pmap(_one, [ck.seed * 100003 + 5 * 1009 + i for i in range(n)], chunksize=4)
  terms, owners, known = [], [], 0
  for out in res:
    ck.count((out['seed'],), nontrivial=True)
    for f in out['fails'][:1]:
      if f.startswith('harness error'):
        ck.tie_broken('harness', 'harness error', f)
      else:
        ck.fail('calibration-mismatch', f, {'seed': out['seed']})
    for f in out['known'][:1]:
      ck.fail(KNOWN_CLASS, f, {'seed': out['seed']})
      known += 1
    if 'term' in out:
      terms.append(out['term'])
      owners.append(out['seed'])
  bad = model_compare(ck, terms, 'c05', fn='dcheck', shard=8)
  if bad:
    ck.tie_broken('correspondence', 'TBRMMDiagnostics vs model/TBRMath.v on %d of %d cases' % (len(bad), len(terms)), {'seed': owners[bad[0]]})
  fo = [o for o in res if 'iterm' in o]
  bi, bf = tbrfam.formulas_compare(ck, [o['iterm'] for o in fo], [o['fterm'] for o in fo], 'c05')
  if bi or bf:
    ck.tie_broken('correspondence', 'regenerated formulas (gen/Gen_Formulas.v on floats) vs TBRMMDiagnostics: estimate_required_impact '
                  'on %d, tbrfit on %d of %d cases' % (len(bi), len(bf), len(fo)), {'seed': fo[(bi or bf)[0]]['seed']})
  ck.cov['regenerated_formulas_vs_impl'] = {'cases': len(fo), 'estimate_required_impact_disagreements': len(bi), 'tbrfit_disagreements': len(bf)}
  ck.sample(res[0].get('params', {}))
  ck.sample(res[1].get('params', {}))
  ck.cov['rule'] = ('random pretest series (n = 5-60, in 15% of the cases 95-130 i.e. longer than the default n_pretest_max, in 15% with n_pretest_max in {3,6,10,20}; three noise levels, noisier first half), on a fresh TBRMMDiagnostics object or (half of the cases) on one that analysed series of another length before, n_test 1-30, (sig_level, power_level) from a grid that includes '
                    'settings with sig_level + power_level < 1, flevel in {.9, .95, .99}; for each: required impact vs the TBR posterior '
                    'scale of an experiment frame whose control test mean is displaced by the planning F-quantile; treatment = '
                    'counterfactual + required impact, then estimate and one-sided lower bound; monotonicity over |corr|, unit scaling, '
                    'level shift; required impact / estimate_required_impact / tbrfit against the exact rational model')
  ck.cov['correspondence'] = {'cases_model_vs_impl': len(terms), 'disagreements': len(bad)}
  ck.cov['known_finding_observations'] = known
  ck.cov['distribution'] = {'reused_object': sum(1 for o in res if o.get('reused')), 'fresh_object': sum(1 for o in res if o.get('reused') is False)}
  ck.assumptions = ['t and F quantiles are taken from scipy and passed to the model as oracles']
  return ck.finish('proof', TRUSTED)


def replay(data):
  inp = data.get('input') or next((b['detail'] for b in data.get('tie_broken', []) if isinstance(b.get('detail'), dict)), None)
  if not isinstance(inp, dict) or 'seed' not in inp:
    print('replay: nothing executable recorded:', [b['name'] for b in data.get('tie_broken', [])])
    return 1
  out = _one(inp['seed'])
  print('parameters:', out.get('params'))
  print('property failures:', out['fails'] or 'none', '| known-finding observations:', out['known'] or 'none')
  return 1 if out['fails'] else 0
