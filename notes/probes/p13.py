import warnings; warnings.filterwarnings('ignore')
import numpy as np, pandas as pd, sys
from scipy import stats
from matched_markets.methodology import tbr, tbrmmdiagnostics as D, tbrmmdesignparameters as P
mx=0
for seed in range(40):
    rng=np.random.RandomState(seed)
    n=rng.randint(5,40); T=int(rng.randint(1,15))
    sig=float(rng.choice([0.9,0.8,0.95,0.6])); pw=float(rng.choice([0.8,0.9,0.7])); fl=float(rng.choice([0.9,0.95,0.99]))
    par=P.TBRMMDesignParameters(n_test=T, iroas=1.0, sig_level=sig, power_level=pw, flevel=fl)
    x=100+np.cumsum(rng.normal(0,2,n)); y=2*x+rng.normal(0,3,n)+10
    d=D.TBRMMDiagnostics(y,par); d.x=x
    ri=d.required_impact
    phi=stats.f(dfn=1,dfd=n-1).ppf(fl)
    Sxx=((x-x.mean())**2).sum()
    dx=np.sqrt(phi*(n+1)*Sxx/(n*T*(n-1)))
    # test period: control constant at xbar+dx (mean displaced), treatment = counterfactual + lift/T
    b,a,*_=stats.linregress(x,y)
    u=np.full(T, x.mean()+dx) + (rng.normal(0,1,T) - 0)  # arbitrary shape, then recentre mean
    u=u-u.mean()+x.mean()+dx
    w=a+b*u+ri/T
    rows=[]
    dates=pd.date_range('2020-01-01',periods=n+T)
    for i in range(n+T):
        per=0 if i<n else 1
        rows.append(dict(geo=1,date=dates[i],group=1,period=per,response=(x[i] if i<n else u[i-n])))
        rows.append(dict(geo=2,date=dates[i],group=2,period=per,response=(y[i] if i<n else w[i-n])))
    df=pd.DataFrame(rows)
    m=tbr.TBR(use_cooldown=False); m.fit(df,'response')
    s=m.summary(level=sig,tails=1)
    scale=s.scale.iloc[0]; est=s.estimate.iloc[0]; lower=s.lower.iloc[0]
    tqs=stats.t.ppf(sig,n-2); tqp=stats.t.ppf(pw,n-2)
    fit=d.tbrfit(u.mean(), w.mean())
    e=[abs(ri-(tqs+tqp)*scale)/ri, abs(est-ri)/ri, abs(lower-tqp*scale)/abs(tqp*scale), abs(fit.estimate-est)/abs(est), abs(fit.scale-scale)/scale, abs(fit.cihw-tqs*scale)/abs(tqs*scale)]
    mx=max(mx,max(e))
print('max rel err', mx)
