(* C08 -- Design diagnostics never serve stale values after their inputs change. *)
From Coq Require Import List String Bool.
From MM Require Import model.DiagCache gen.Gen_DiagCache proofs.DiagCacheProofs.
Import ListNotations.

(* for any cache structure in which every memoising slot is reset by the control-series setter
   and the treatment-series setter clears the control series: no history of assignments and
   reads observes a value computed from other inputs than the current ones *)
Theorem C08_no_stale_reads_for_sound_tables :
  forall memo deps x_resets y_clears_x, tables_ok memo x_resets y_clears_x = true ->
  forall fuel y ops, Forall (fun p => fst p = snd p) (drun memo deps x_resets y_clears_x fuel (dinit y) ops).
Proof. exact no_stale_from_init. Qed.

(* tie: the cache structure regenerated from tbrmmdiagnostics.py on this run is sound ... *)
Theorem C08_generated_tables_are_sound : tables_ok gen_memo gen_x_resets gen_y_clears_x = true.
Proof. vm_compute. reflexivity. Qed.
(* ... hence the property for the code as it is now *)
Theorem C08_no_stale_reads :
  forall fuel y ops,
    Forall (fun p => fst p = snd p) (drun gen_memo gen_deps gen_x_resets gen_y_clears_x fuel (dinit y) ops).
Proof. exact (no_stale_from_init _ _ _ _ C08_generated_tables_are_sound). Qed.

Print Assumptions C08_no_stale_reads_for_sound_tables.
Print Assumptions C08_generated_tables_are_sound.
Print Assumptions C08_no_stale_reads.

(* non-vacuity: a history whose reads fill, reset and refill the caches *)
Example C08_example :
  drun gen_memo gen_deps gen_x_resets gen_y_clears_x 12 (dinit 0)
       [SetX (Some 1); Read "tests_ok"; Read "corr"; SetX (Some 2); Read "tests_ok"; SetY 1; Read "tests_ok";
        SetX (Some 1); Read "required_impact"]%string
  = [((Some 1, 0), (Some 1, 0)); ((Some 1, 0), (Some 1, 0)); ((Some 2, 0), (Some 2, 0)); ((None, 1), (None, 1));
     ((Some 1, 1), (Some 1, 1))].
Proof. vm_compute. reflexivity. Qed.
