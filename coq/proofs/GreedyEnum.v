(* C13: without budget / share constraints every design returned by the greedy search is
   (as a pair of sets) one of the designs the exhaustive search offers to its queue, hence cannot
   score above the exhaustive optimum.  Needs that the value type behaves like exact arithmetic
   on the three points where the two searches phrase the same test differently. *)
From Coq Require Import List Arith ZArith Bool Lia PrimFloat Orders Sorting.Permutation.
From MM Require Import lib.ListExtra lib.ListSet lib.Combi lib.Values model.Heap model.Elig model.SearchParams
  model.SearchDefs model.Search proofs.EligProofs proofs.GroupSpecs proofs.HeapGen proofs.HeapProofs
  proofs.ExhaustiveProofs proofs.GreedyProofs proofs.ConstraintProofs.
Import ListNotations.
Open Scope Z_scope.

Lemma NoDup_incl_zlen (a b : set) : NoDup a -> incl a b -> zlen a <= zlen b.
Proof. intros H1 H2. unfold zlen. apply Nat2Z.inj_le. apply NoDup_incl_length; assumption. Qed.

Section GreedyEnum.
  Context {V K : Type} (O : vops V) (ltk : K -> K -> bool).
  Variables (es : list elig) (par : spar V).
  Variables (shareS optB : set -> V) (bud : set -> set -> V) (gkey : set -> set -> K) (zero_key : K).
  Let A := assignments_of es.
  Notation row i := (nth i es elig_zero).

  (* the value type behaves like exact arithmetic where the two searches differ in phrasing *)
  Hypothesis vlit_one : vlit O 1 0 = vofZ O 1.
  Hypothesis vleb_vltb : forall a b, vleb O a b = negb (vltb O b a).
  Hypothesis vofZ_order : forall x y, vltb O (vofZ O x) (vofZ O y) = (x <? y).
  (* aggregate share depends on the set, not on the order in which it is listed *)
  Hypothesis shareS_ext : forall a b, same_set a b -> shareS a = shareS b.
  (* the scope of C13 *)
  Hypothesis no_budget : p_budget_range par = None.
  Hypothesis no_share : p_treatment_share_range par = None.

  Lemma c_in_t_when_no_cx_cfixed : is_nil (union (a_cx A) (a_c_fixed A)) = true -> incl (a_c A) (a_t A).
  Proof.
    intro H. apply is_nil_spec in H. intros i Hi.
    assert (Hn : ~ In i (union (a_cx A) (a_c_fixed A))) by (rewrite H; intros []).
    rewrite In_union in Hn. subst A. apply In_c in Hi. apply In_t. split; [apply Hi|].
    destruct (et (row i)) eqn:Et; [reflexivity|]. exfalso. apply Hn.
    destruct (ex (row i)) eqn:Ex.
    - left. apply In_cx. split; [apply Hi|]. unfold p_cx. destruct Hi as [_ Hc]. rewrite Hc, Et, Ex. reflexivity.
    - right. apply In_c_fixed. split; [apply Hi|]. unfold p_c_fixed. destruct Hi as [_ Hc]. rewrite Hc, Et, Ex. reflexivity.
  Qed.

  Lemma good_sizes T C : good es T C -> T <> [] -> C <> [] ->
    tsize_min A <= zlen T <= tsize_max A /\ csize_min A <= zlen C <= csize_max A.
  Proof.
    intros [H1 [H2 [H3 [H4 [H5 [H6 [H7 H8]]]]]]] HT HC.
    assert (Ht1 : 1 <= zlen T) by (destruct T; [congruence|unfold zlen; cbn [length]; lia]).
    assert (Hc1 : 1 <= zlen C) by (destruct C; [congruence|unfold zlen; cbn [length]; lia]).
    pose proof (NoDup_incl_zlen _ _ (NoDup_t_fixed es) H4) as Ha.
    pose proof (NoDup_incl_zlen _ _ H1 H5) as Hb.
    pose proof (NoDup_incl_zlen _ _ (NoDup_c_fixed es) H6) as Hc.
    pose proof (NoDup_incl_zlen _ _ H2 H7) as Hd.
    unfold tsize_min, tsize_max, csize_min, csize_max. fold A in Ha, Hb, Hc, Hd.
    split; [|lia]. split; [lia|].
    destruct (is_nil (union (a_cx A) (a_c_fixed A))) eqn:E; [|exact Hb].
    assert (Hsum : zlen (T ++ C) <= zlen (a_t A)).
    { apply NoDup_incl_zlen.
      - apply NoDup_app_intro; [exact H1|exact H2|exact H3].
      - apply incl_app; [exact H5|]. intros i Hi. apply (c_in_t_when_no_cx_cfixed E). apply H7. exact Hi. }
    unfold zlen in *. rewrite app_length in Hsum. lia.
  Qed.

  Lemma ratio_from_georatio T C : georatio_ok O par T C = true -> ratio_ok O par (zlen T) (zlen C) = true.
  Proof.
    unfold georatio_ok, ratio_ok, tol_bounds, not_satisfied. destruct (p_geo_ratio_tolerance par) as [tol|]; [|reflexivity].
    cbn [fst snd]. rewrite vlit_one, !vleb_vltb. intro H. apply negb_true_iff, orb_false_iff in H. destruct H as [Ha Hb].
    rewrite Ha, Hb. reflexivity.
  Qed.

  Lemma vol_from_volume T C : volume_ok O par shareS T C = true -> vol_out O par shareS T C = false.
  Proof.
    unfold volume_ok, vol_out, tol_bounds, not_satisfied. destruct (p_volume_ratio_tolerance par) as [tol|]; [|reflexivity].
    cbn [fst snd]. rewrite vlit_one. intro H. apply negb_true_iff, orb_false_iff in H. destruct H as [Ha Hb].
    rewrite Ha, Hb. reflexivity.
  Qed.

  Theorem greedy_in_exhaustive_space fuel ds T C :
    greedy O ltk A par shareS bud gkey zero_key fuel = Some ds -> In (T, C) ds ->
    exists T' C', In (T', C') (pushed O es par shareS optB bud) /\ same_set T' T /\ same_set C' C.
  Proof.
    intros Hg Hin.
    destruct (greedy_good O ltk es par shareS bud gkey zero_key fuel ds T C Hg Hin) as [Hgood [Hw Hb]].
    destruct (gwithin_nonempty O es par shareS _ _ Hw) as [HT HC].
    destruct (good_sizes T C Hgood HT HC) as [Hts Hcs]. unfold A in *.
    destruct (greedy_constraints O ltk es par shareS bud gkey zero_key fuel ds T C Hg Hin) as [Ht [Hc [Hv [Hr [_ _]]]]].
    destruct (greedy_user_size_ranges O ltk es par shareS bud gkey zero_key vofZ_order fuel ds T C Hg Hin) as [Hut Huc].
    destruct Hgood as [H1 [H2 [H3 [H4 [H5 [H6 [H7 H8]]]]]]].
    assert (Hn : In (zlen T) (tsize_range A par)).
    { apply (tsize_range_In es). unfold tsize_bounds. unfold in_zrange in Hut.
      destruct (p_treatment_geos_range par) as [r|]; cbn [fst snd]; lia. }
    assert (HTg : is_treat_group es (zlen T) T) by (repeat split; assumption).
    assert (HCg : is_control_group O es par T C).
    { repeat split; try assumption.
      - intros i Hi. unfold fixed_control in Hi. apply In_union in Hi. destruct Hi as [Hi|Hi]; [apply H6; exact Hi|].
        apply In_diff in Hi. destruct Hi as [Hi Hn']. destruct (H8 i Hi); [contradiction|assumption].
      - intros i Hi. apply In_diff. split; [apply H7; exact Hi|]. intro Hti. eapply H3; eassumption.
      - apply (csizes_In O es). split; [|apply ratio_from_georatio; exact Hr].
        unfold csize_bounds. unfold in_zrange in Huc. destruct (p_control_geos_range par) as [r|]; cbn [fst snd]; lia. }
    destruct (enum_pairs_complete O es par T C Hn HTg HCg) as [T' [C' [He [Hs1 Hs2]]]].
    exists T', C'. split; [|split; assumption].
    apply pushed_complete; [exact He| | |].
    - apply vol_from_volume in Hv. unfold vol_out in *. destruct (p_volume_ratio_tolerance par); [|reflexivity].
      rewrite (shareS_ext _ _ Hs1), (shareS_ext _ _ Hs2). exact Hv.
    - unfold budget_out. rewrite no_budget. reflexivity.
    - unfold not_prunable, share_out, opt_over, opt_under. rewrite no_share, no_budget. repeat split; try reflexivity.
      intros _ P [n [_ [_ Ho]]]. unfold opt_over in Ho. rewrite no_budget in Ho. discriminate.
  Qed.
End GreedyEnum.

(* with scores in a total order: no greedy design beats the exhaustive optimum, and the
   greedy search returns nothing when the exhaustive search returns nothing *)
Module GreedyVsExhaustive (K : UsualOrderedTypeFull').
  Module E := ExhTopK K.
  Module KF := OrdersFacts.OrderedTypeFullFacts K.
  Section S.
    Context {V : Type} (O : vops V).
    Variables (es : list elig) (par : spar V).
    Variables (shareS optB : set -> V) (bud : set -> set -> V) (skey : set -> set -> K.t) (zero_key : K.t).
    Let A := assignments_of es.
    Hypothesis vlit_one : vlit O 1 0 = vofZ O 1.
    Hypothesis vleb_vltb : forall a b, vleb O a b = negb (vltb O b a).
    Hypothesis vofZ_order : forall x y, vltb O (vofZ O x) (vofZ O y) = (x <? y).
    Hypothesis shareS_ext : forall a b, same_set a b -> shareS a = shareS b.
    Hypothesis skey_ext : forall T T' C C', same_set T T' -> same_set C C' -> skey T C = skey T' C'.
    Hypothesis no_budget : p_budget_range par = None.
    Hypothesis no_share : p_treatment_share_range par = None.
    Hypothesis k_pos : (1 <= p_n_designs par)%nat.
    Notation exh := (exhaustive O E.HP.kltb A par shareS optB bud skey).
    (* without a budget range both searches use the same score *)
    Notation grd := (greedy O E.HP.kltb A par shareS bud skey zero_key).

    Theorem greedy_not_above_exhaustive fuel ds T C :
      grd fuel = Some ds -> In (T, C) ds ->
      exists r, In r exh /\ K.le (skey T C) (ekey skey r).
    Proof.
      intros Hg Hin.
      destruct (greedy_in_exhaustive_space O E.HP.kltb es par shareS optB bud skey zero_key
                  vlit_one vleb_vltb vofZ_order shareS_ext no_budget no_share fuel ds T C Hg Hin) as [T' [C' [Hp [Hs1 Hs2]]]].
      rewrite (skey_ext T T' C C') by (apply same_set_sym; assumption).
      destruct (E.exhaustive_optimal O es par shareS optB bud skey (T', C') Hp) as [H|[Hlen H]].
      - apply in_map_iff in H. destruct H as [r [Er Hr]]. exists r. split; [exact Hr|].
        unfold ekey in *. cbn [fst snd] in *. rewrite Er. KF.order.
      - fold A in Hlen, H. destruct exh as [|r rest] eqn:Ee; [cbn in Hlen; lia|].
        exists r. split; [left; reflexivity|]. apply (H r). left. reflexivity.
    Qed.

    Theorem greedy_empty_when_exhaustive_empty fuel ds :
      grd fuel = Some ds -> exh = [] -> ds = [].
    Proof.
      intros Hg He. destruct ds as [|[T C] ds']; [reflexivity|]. exfalso.
      destruct (greedy_not_above_exhaustive fuel _ T C Hg (or_introl eq_refl)) as [r [Hr _]].
      rewrite He in Hr. destruct Hr.
    Qed.
  End S.
End GreedyVsExhaustive.
