import warnings; warnings.filterwarnings('ignore')
import numpy as np, pandas as pd, sys, dataclasses
from lib import *
# F9: sig+power<=1
rng=np.random.RandomState(0); y=rng.normal(100,10,30)
par=P.TBRMMDesignParameters(n_test=5, iroas=1.0, sig_level=0.3, power_level=0.3)
d=D.TBRMMDiagnostics(y,par)
print('F9 impact at corr .5,.9:', d.estimate_required_impact(0.5), d.estimate_required_impact(0.9))
par=P.TBRMMDesignParameters(n_test=5, iroas=1.0, sig_level=0.5, power_level=0.5)
print('sig=pow=.5 impact', D.TBRMMDiagnostics(y,par).estimate_required_impact(0.5))
# greedy with n_test >= 98
rng=np.random.RandomState(1)
nd=120; base=np.cumsum(rng.normal(0,1,nd))+50
rows=[]
for g in range(3):
    s=(g+1)*base+rng.normal(0,1,nd)
    for t in range(nd): rows.append(dict(geo=str(g+1), date=pd.Timestamp('2020-01-01')+pd.Timedelta(days=t), response=float(s[t])))
df=pd.DataFrame(rows)
for nt in (97,98):
    par=P.TBRMMDesignParameters(n_test=nt, iroas=1.0, n_pretest_max=120)
    for m in ('exhaustive_search','greedy_search'):
        try:
            mm=MM.TBRMatchedMarkets(tbrmmdata.TBRMMData(df,'response'),par); r=getattr(mm,m)(); print('n_test',nt,m,'ok',len(r))
        except Exception as e: print('n_test',nt,m,type(e).__name__,e)
# global RNG consumption
np.random.seed(5); a=np.random.rand(); np.random.seed(5)
par=P.TBRMMDesignParameters(n_test=3, iroas=1.0)
mm=MM.TBRMatchedMarkets(tbrmmdata.TBRMMData(df,'response'),par); mm.greedy_search(); b=np.random.rand()
print('greedy consumes global numpy RNG:', a!=b)
# filled ranges equivalence
bad=0
for seed in range(150):
    rng=np.random.RandomState(seed); ng=rng.randint(2,6); dfp=panel(rng,ng,14)
    spec={str(g+1):(rng.choice(TYPES) if rng.rand()<0.5 else 'ctx') for g in range(ng)}
    kw={}
    if rng.rand()<0.4: kw['geo_ratio_tolerance']=float(rng.choice([0.5,1.0,2.0]))
    try:
        mmA,parA=build(dfp,spec,kw); mmB,parB=build(dfp,spec,kw)
        mmA.greedy_search()
        qa=(list(mmA.treatment_group_size_range()), mmA.count_max_designs(), [sorted(map(sorted,mmA.control_group_generator(T))) for n in mmA.treatment_group_size_range() for T in mmA.treatment_group_generator(n)])
        qb=(list(mmB.treatment_group_size_range()), mmB.count_max_designs(), [sorted(map(sorted,mmB.control_group_generator(T))) for n in mmB.treatment_group_size_range() for T in mmB.treatment_group_generator(n)])
        ea=[(sorted(d.treatment_geos),sorted(d.control_geos)) for d in mmA.exhaustive_search()]
        eb=[(sorted(d.treatment_geos),sorted(d.control_geos)) for d in mmB.exhaustive_search()]
        if qa!=qb or ea!=eb: bad+=1; print(seed,'differs after greedy', spec, kw, qa[:2], qb[:2])
    except (ValueError, IndexError, ZeroDivisionError) as e: pass
print('filled-range diffs', bad)
