#!/usr/bin/env python3
"""AST fingerprints of the source files the properties are anchored in.

usage: fingerprint.py [--repo /repo] --write      rewrites translate/fingerprints.json from the given tree
       fingerprint.py [--repo /repo] file...      prints the files whose AST differs from the recorded one

The hand-written models and the case generators were validated against the recorded version of each file.  A file
whose abstract syntax (comments and docstrings aside) has changed since then makes the checks of the properties
anchored in it work harder (four times the quick sample, see vlib/common.py sz); it is never an alarm by itself."""
import ast
import hashlib
import json
import os
import sys

HERE = os.path.dirname(os.path.abspath(__file__))
REF = os.path.join(HERE, 'fingerprints.json')


def strip_docstrings(tree):
  for node in ast.walk(tree):
    if isinstance(node, (ast.Module, ast.ClassDef, ast.FunctionDef, ast.AsyncFunctionDef)):
      b = node.body
      if b and isinstance(b[0], ast.Expr) and isinstance(b[0].value, ast.Constant) and isinstance(b[0].value.value, str):
        node.body = b[1:] or [ast.Pass()]
  return tree


def fingerprint(path):
  try:
    tree = strip_docstrings(ast.parse(open(path).read()))
  except (OSError, SyntaxError) as e:
    return 'unreadable: %s' % type(e).__name__
  return hashlib.sha256(ast.dump(tree, include_attributes=False).encode()).hexdigest()[:24]


def changed(repo, files):
  ref = json.load(open(REF)) if os.path.exists(REF) else {}
  return [f for f in files if ref.get(f) != fingerprint(os.path.join(repo, f))]


def main(argv):
  repo, write, files = '/repo', False, []
  i = 0
  while i < len(argv):
    if argv[i] == '--repo':
      repo = argv[i + 1]; i += 2
    elif argv[i] == '--write':
      write = True; i += 1
    else:
      files.append(argv[i]); i += 1
  if write:
    d = os.path.join(repo, 'matched_markets', 'methodology')
    out = {}
    for f in sorted(os.listdir(d)):
      if f.endswith('.py'):
        rel = 'matched_markets/methodology/' + f
        out[rel] = fingerprint(os.path.join(repo, rel))
    json.dump(out, open(REF, 'w'), indent=1, sort_keys=True)
    print('%d files recorded' % len(out))
    return 0
  print('\n'.join(changed(repo, files)))
  return 0


if __name__ == '__main__':
  sys.exit(main(sys.argv[1:]))
