(* The comparison lemma for the greedy search: the hill climb consults the score oracle only through
   comparisons among {the all-zero start score} and the scores of candidate designs.  Two score oracles
   that agree on all those comparisons drive the climb through the same states and return the same
   designs -- for every fuel.  (Companion of proofs/OrderIso.v, which covers the queue and the
   exhaustive search.) *)
From Coq Require Import List Arith ZArith Bool Lia.
From MM Require Import lib.ListExtra lib.ListSet lib.Values model.Heap model.Elig model.SearchParams model.SearchDefs model.Search
  proofs.OrderIso.
Import ListNotations.
Open Scope Z_scope.

Lemma fold_rel {S1 S2 X} (R : S1 -> S2 -> Prop) (f : S1 -> X -> S1) (g : S2 -> X -> S2) l :
  (forall a b x, R a b -> R (f a x) (g b x)) -> forall a b, R a b -> R (fold_left f l a) (fold_left g l b).
Proof. intro H. induction l as [|x l IH]; intros a b Hab; cbn; [exact Hab|]. apply IH, H, Hab. Qed.

Section GreedyIso.
  Context {V K K' : Type} (O : vops V) (ltk : K -> K -> bool) (ltk' : K' -> K' -> bool).
  Variables (A : assignments) (par : spar V).
  Variables (shareS : set -> V) (bud : set -> set -> V).
  Variables (gkey : set -> set -> K) (gkey' : set -> set -> K') (zero_key : K) (zero_key' : K').

  (* corresponding scores *)
  Inductive corr : K -> K' -> Prop :=
  | corr_zero : corr zero_key zero_key'
  | corr_key T C : corr (gkey T C) (gkey' T C).
  Hypothesis iso : forall a a' b b', corr a a' -> corr b b' -> ltk a b = ltk' a' b'.

  Notation match_scan1 := (match_scan O ltk A par shareS bud gkey).
  Notation match_scan2 := (match_scan O ltk' A par shareS bud gkey').
  Notation augment_scan1 := (augment_scan O ltk A par shareS bud gkey zero_key).
  Notation augment_scan2 := (augment_scan O ltk' A par shareS bud gkey' zero_key').

  Lemma match_scan_iso k T ctl :
    fst (match_scan1 k T ctl) = fst (match_scan2 k T ctl) /\ corr (snd (match_scan1 k T ctl)) (snd (match_scan2 k T ctl)).
  Proof.
    unfold match_scan. cbv zeta.
    apply (fold_rel (fun (a : set * K) (b : set * K') => fst a = fst b /\ corr (snd a) (snd b))).
    - intros [s1 k1] [s2 k2] g [Hs Hk]; cbn [fst snd] in *. subst s2.
      destruct (candidate_ok O A par shareS bud k T (toggle g ctl)); [|split; [reflexivity|exact Hk]].
      rewrite (iso k1 k2 _ _ Hk (corr_key T (toggle g ctl))).
      destruct (ltk' k2 (gkey' T (toggle g ctl))); cbn [fst snd]; split; try reflexivity; [constructor|exact Hk].
    - cbn [fst snd]. split; [reflexivity|constructor].
  Qed.

  Lemma augment_scan_iso k T cs :
    let r1 := augment_scan1 k T cs in let r2 := augment_scan2 k T cs in
    fst (fst (fst r1)) = fst (fst (fst r2)) /\ snd (fst (fst r1)) = snd (fst (fst r2)) /\ snd r1 = snd r2.
  Proof.
    cbv zeta. unfold augment_scan.
    pose (R := fun (a : set * set * K * bool) (b : set * set * K' * bool) =>
                 fst (fst (fst a)) = fst (fst (fst b)) /\ snd (fst (fst a)) = snd (fst (fst b)) /\ snd a = snd b /\
                 corr (snd (fst a)) (snd (fst b))).
    assert (H : R (fold_left (fun (acc : set * set * K * bool) g =>
                 if candidate_ok O A par shareS bud k (union T [g]) (diff cs [g])
                 then (if ltk (snd (fst acc)) (gkey (union T [g]) (diff cs [g]))
                       then (union T [g], diff cs [g], gkey (union T [g]) (diff cs [g]), true) else acc)
                 else acc) (ascending (diff (a_t A) T)) (T, [], zero_key, false))
              (fold_left (fun (acc : set * set * K' * bool) g =>
                 if candidate_ok O A par shareS bud k (union T [g]) (diff cs [g])
                 then (if ltk' (snd (fst acc)) (gkey' (union T [g]) (diff cs [g]))
                       then (union T [g], diff cs [g], gkey' (union T [g]) (diff cs [g]), true) else acc)
                 else acc) (ascending (diff (a_t A) T)) (T, [], zero_key', false))).
    { apply fold_rel.
      - intros [[[a1 u1] k1] f1] [[[a2 u2] k2] f2] g (Ha & Hu & Hf & Hk); cbn [fst snd] in *. subst a2 u2 f2.
        destruct (candidate_ok O A par shareS bud k (union T [g]) (diff cs [g])); [|repeat split; assumption].
        rewrite (iso k1 k2 _ _ Hk (corr_key (union T [g]) (diff cs [g]))).
        destruct (ltk' k2 (gkey' (union T [g]) (diff cs [g]))); cbn [fst snd]; repeat split; try assumption; constructor.
      - cbn [fst snd]. repeat split; constructor. }
    destruct H as (H1 & H2 & H3 & _). repeat split; assumption.
  Qed.

  Notation gstep1 := (gstep O ltk A par shareS bud gkey zero_key).
  Notation gstep2 := (gstep O ltk' A par shareS bud gkey' zero_key').

  Lemma gstep_iso s : gstep1 s = gstep2 s.
  Proof.
    unfold gstep. cbv zeta. destruct (gs_needs_matching s).
    - destruct (match_scan_iso (gs_k s) (lookup (gs_star_trt s) (gs_k s)) (gs_ctl s)) as [Hf Hc].
      destruct (match_scan1 _ _ _) as [b1 k1]. destruct (match_scan2 _ _ _) as [b2 k2]. cbn [fst snd] in *. subst b2.
      rewrite (iso _ _ _ _ (corr_key (lookup (gs_star_trt s) (gs_k s)) (gs_ctl s)) Hc). reflexivity.
    - pose proof (augment_scan_iso (gs_k s) (lookup (gs_star_trt s) (gs_k s)) (lookup (gs_star_ctl s) (gs_k s))) as H.
      cbv zeta in H. destruct (augment_scan1 _ _ _) as [[[a1 u1] k1] f1]. destruct (augment_scan2 _ _ _) as [[[a2 u2] k2] f2].
      cbn [fst snd] in H. destruct H as (-> & -> & ->). reflexivity.
  Qed.

  Lemma gloop_iso fuel : forall s,
    gloop O ltk A par shareS bud gkey zero_key fuel s = gloop O ltk' A par shareS bud gkey' zero_key' fuel s.
  Proof.
    induction fuel as [|f IH]; intro s; cbn [gloop].
    - reflexivity.
    - unfold gcontinue. destruct ((gs_k s <? max_tsize A par) || gs_needs_matching s); [|reflexivity].
      rewrite gstep_iso. apply IH.
  Qed.

  Lemma gfinal_iso s : gfinal O ltk A par shareS bud gkey s = gfinal O ltk' A par shareS bud gkey' s.
  Proof.
    unfold gfinal. cbv zeta.
    assert (Hlt : forall a b : design, lt_item ltk (fun d => gkey (fst d) (snd d)) a b
                                       = lt_item ltk' (fun d => gkey' (fst d) (snd d)) a b).
    { intros a b. unfold lt_item. apply iso; constructor. }
    rewrite (nlargest_iso ltk ltk' _ _ Hlt). f_equal.
    apply fold_ext. intros h e.
    destruct (gwithin O A par shareS (snd e) (lookup (gs_star_ctl s) (fst e)) && negb (budget_out O par (bud (snd e) (lookup (gs_star_ctl s) (fst e))))); [|reflexivity].
    apply (push_iso ltk ltk' _ _ Hlt).
  Qed.

  Theorem greedy_order_iso fuel :
    greedy O ltk A par shareS bud gkey zero_key fuel = greedy O ltk' A par shareS bud gkey' zero_key' fuel.
  Proof.
    unfold greedy. rewrite gloop_iso. unfold ginit.
    destruct (gloop O ltk' A par shareS bud gkey' zero_key' fuel _); [|reflexivity]. f_equal. apply gfinal_iso.
  Qed.
End GreedyIso.
