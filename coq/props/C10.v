(* C10 -- Search API has no hidden state: answers do not depend on call history.
   In the model every query and both searches are functions of (data, parameters) alone; the only
   state the code keeps between calls is (a) the geo index, re-derived on every access,
   (b) the stored heap, whose snapshot is pure (C14) and whose retrieval (search_results, translated)
   reads nothing else, and (c) during a greedy search only, a private copy of the parameters with the
   unspecified size ranges filled in -- the translator checks on every run that greedy_search is still
   "copy the parameters, run _greedy_search, put the caller's object back" (fix 4442974), and the theorems
   below show that even the filled-in copy would not change the admissible sizes.  The rest of the
   property is decided by executed call sequences against fresh objects. *)
From Coq Require Import List Arith ZArith Bool Orders.
From MM Require Import lib.ListSet lib.Values model.Heap model.Elig model.SearchParams model.SearchDefs model.Search
  proofs.HeapProofs proofs.HistoryProofs proofs.OrderIso.
Import ListNotations.
From MM Require Import gen.Gen_HeapDict gen.Gen_Exhaustive gen.Gen_Greedy gen.Gen_Results proofs.ExhaustiveBridge proofs.GreedyBridge proofs.ResultsBridge.

Theorem C10_filled_ranges_do_not_change_treatment_sizes :
  forall (V : Type) (es : list elig) (par : spar V),
    tsize_range (assignments_of es) (gpar (assignments_of es) par) = tsize_range (assignments_of es) par.
Proof. exact @filled_tsize_range_same. Qed.
Theorem C10_filled_copy_keeps_every_other_field :
  forall (V : Type) (es : list elig) (par : spar V),
    p_geo_ratio_tolerance (gpar (assignments_of es) par) = p_geo_ratio_tolerance par /\
    p_volume_ratio_tolerance (gpar (assignments_of es) par) = p_volume_ratio_tolerance par /\
    p_treatment_share_range (gpar (assignments_of es) par) = p_treatment_share_range par /\
    p_budget_range (gpar (assignments_of es) par) = p_budget_range par /\
    p_n_geos_max (gpar (assignments_of es) par) = p_n_geos_max par /\
    p_n_designs (gpar (assignments_of es) par) = p_n_designs par /\
    p_iroas (gpar (assignments_of es) par) = p_iroas par.
Proof. exact @filled_other_fields_same. Qed.
Theorem C10_given_ranges_are_kept :
  forall (V : Type) (es : list elig) (par : spar V) r,
    (p_treatment_geos_range par = Some r -> p_treatment_geos_range (gpar (assignments_of es) par) = Some r) /\
    (p_control_geos_range par = Some r -> p_control_geos_range (gpar (assignments_of es) par) = Some r).
Proof. exact @given_ranges_kept. Qed.
(* retrieving the results is a pure function of the stored heap: reading twice gives the same *)
Theorem C10_result_retrieval_is_pure :
  forall (K A : Type) (ltk : K -> K -> bool) (key : A -> K) (h : heapdict),
    fst (step ltk key h Read) = h /\ snd (step ltk key h Read) = snd (step ltk key (fst (step ltk key h Read)) Read).
Proof. intros. split; reflexivity. Qed.

Print Assumptions C10_filled_ranges_do_not_change_treatment_sizes.
Print Assumptions C10_filled_copy_keeps_every_other_field.
Print Assumptions C10_result_retrieval_is_pure.

(* search_results as regenerated on this run reads nothing but the stored heap and the geo index, and is the
   image of the heap snapshot: retrieving twice returns the same designs *)
Theorem C10_translated_search_results_reads_only_the_heap :
  forall (K G : Type) (ltk : K -> K -> bool) (geo_id : nat -> G) hd,
    gen_search_results ltk geo_id hd = ids_of geo_id (GenHeapDict.gen_get_result ltk des_key hd).
Proof. exact @gen_search_results_is_image. Qed.
Print Assumptions C10_translated_search_results_reads_only_the_heap.

(* both searches as regenerated on this run are functions of the classes, the parameters and the kernel oracles
   alone -- they read no attribute of the object that an earlier call could have left behind (the translator refuses
   any other read) -- and they compute the model's designs *)
Theorem C10_translated_exhaustive_search_is_the_model :
  forall (V K : Type) (O : vops V) (ltk : K -> K -> bool) (A : assignments) (par : spar V)
         (shareS optB : set -> V) (bud : set -> set -> V) (score0 : set -> set -> K) (replace_inv : K -> V -> K),
    map (@des_groups K) (dd_get (gen_exhaustive_search O ltk A par shareS optB bud score0 replace_inv) 0%Z)
    = exhaustive O ltk A par shareS optB bud (stored_key O par bud score0 replace_inv).
Proof. exact @gen_exhaustive_groups. Qed.
Theorem C10_translated_greedy_search_is_the_model :
  forall (V K : Type) (O : vops V) (ltk : K -> K -> bool) (A : assignments) (par : spar V)
         (shareS : set -> V) (bud : set -> set -> V) (gkey : set -> set -> K) (zero_key : K) (fuel : nat),
    option_map (fun r => map (@des_groups K) (dd_get r 0%Z)) (gen_greedy_search O ltk A par shareS bud gkey zero_key fuel)
    = greedy O ltk A par shareS bud gkey zero_key fuel.
Proof. exact @gen_greedy_groups. Qed.
Print Assumptions C10_translated_exhaustive_search_is_the_model.
Print Assumptions C10_translated_greedy_search_is_the_model.
