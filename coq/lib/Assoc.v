(* Association lists keyed by integers: Python dicts in insertion order (values of any type). *)
From Coq Require Import List ZArith Bool.
Import ListNotations.

Fixpoint ad_set {B : Type} (d : list (Z * B)) (k : Z) (v : B) : list (Z * B) :=
  match d with
  | [] => [(k, v)]
  | (k', v') :: d' => if Z.eqb k' k then (k', v) :: d' else (k', v') :: ad_set d' k v
  end.
(* d.pop(k, None) *)
Definition ad_remove {B : Type} (d : list (Z * B)) (k : Z) : list (Z * B) :=
  filter (fun e => negb (Z.eqb (fst e) k)) d.
