(* Evaluation of the HeapDict model on the cases the harness ran on the implementation. *)
From Coq Require Import List ZArith Bool.
From MM Require Import model.Heap.
Import ListNotations.
Open Scope Z_scope.

Fixpoint list_eqb {A} (eqb : A -> A -> bool) (a b : list A) : bool :=
  match a, b with
  | [], [] => true
  | x :: a', y :: b' => eqb x y && list_eqb eqb a' b'
  | _, _ => false
  end.
Definition entry_eqb (a b : Z * list Z) : bool := Z.eqb (fst a) (fst b) && list_eqb Z.eqb (snd a) (snd b).

Fixpoint ins_entry (e : Z * list Z) (l : list (Z * list Z)) :=
  match l with
  | [] => [e]
  | f :: l' => if Z.leb (fst e) (fst f) then e :: l else f :: ins_entry e l'
  end.
Definition canon (snap : list (Z * list Z)) := fold_right ins_entry [] snap.

(* a case: capacity, operations (keys and items already mapped to integers by the
   harness: dictionary keys to ids, items to the dense rank of what they compare by),
   and what the implementation answered at each Read (canonicalised the same way) *)
Definition case := (nat * list (op Z) * list (list (Z * list Z)))%type.

Definition model_out (c : case) : list (list (Z * list Z)) :=
  let '(k, ops, _) := c in map canon (HeapZ.run (hd_init k) ops).
Definition agrees (c : case) : bool :=
  let '(_, _, expected) := c in list_eqb (list_eqb entry_eqb) (model_out c) expected.

Fixpoint mismatches_from (i : nat) (cs : list case) : list nat :=
  match cs with
  | [] => []
  | c :: cs' => if agrees c then mismatches_from (S i) cs' else i :: mismatches_from (S i) cs'
  end.
Definition mismatches := mismatches_from 0.
