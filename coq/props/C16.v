(* C16 -- Eligibility tables are validated and partitioned correctly.
   Only property statements; proofs are `exact <lemma>`. *)
From Coq Require Import List Arith Bool.
From MM Require Import lib.ListSet model.Elig gen.Gen_GeoAssignments proofs.EligProofs.
Import ListNotations.

(* acceptance is exactly: geo/control/treatment/exclude columns present (none duplicated),
   unique geo IDs, entries in {0,1}, no all-zero row; anything else is ValueError *)
Theorem C16_accept_iff_well_formed :
  forall t, (exists tbl, validate t = Accept tbl) <-> well_formed t.
Proof. exact validate_accepts_iff. Qed.
Theorem C16_reject_is_ValueError :
  forall t, (exists tbl, validate t = Accept tbl) \/ validate t = RaiseValueError.
Proof. exact validate_total. Qed.
Theorem C16_accepted_table_is_the_input :
  forall t tbl, validate t = Accept tbl ->
    well_formed t /\ tbl = map (fun r => (row_id r, row_elig r)) (rows t).
Proof. exact validate_inv. Qed.

(* for the rows [es] of any ordered subset: each of the seven classes is exactly the set of
   positions whose row encodes it ... *)
Theorem C16_class_membership :
  forall es k i, k < 7 ->
    In i (nth k (class_sets (assignments_of es)) []) <->
    i < length es /\ nth k class_preds (fun _ => false) (nth i es elig_zero) = true.
Proof. exact class_membership. Qed.
(* ... the classes are pairwise disjoint, duplicate-free, cover every position with a legal row,
   and contain nothing else *)
Theorem C16_classes_disjoint :
  forall es j k i, j < 7 -> k < 7 -> j <> k ->
    In i (nth j (class_sets (assignments_of es)) []) ->
    In i (nth k (class_sets (assignments_of es)) []) -> False.
Proof. exact classes_disjoint. Qed.
Theorem C16_classes_cover :
  forall es i, i < length es -> elig_valid (nth i es elig_zero) = true ->
    exists k, k < 7 /\ In i (nth k (class_sets (assignments_of es)) []).
Proof. exact classes_cover. Qed.
Theorem C16_classes_nodup :
  forall es k, NoDup (nth k (class_sets (assignments_of es)) []).
Proof. exact NoDup_class. Qed.
Theorem C16_classes_within_all :
  forall es k i, k < 7 -> In i (nth k (class_sets (assignments_of es)) []) -> In i (a_all (assignments_of es)).
Proof. exact classes_within_all. Qed.
(* index-based answers refer to positions in the given order *)
Theorem C16_c_positional :
  forall es i, In i (a_c (assignments_of es)) <-> i < length es /\ ec (nth i es elig_zero) = true.
Proof. exact In_c. Qed.
Theorem C16_t_positional :
  forall es i, In i (a_t (assignments_of es)) <-> i < length es /\ et (nth i es elig_zero) = true.
Proof. exact In_t. Qed.
Theorem C16_x_positional :
  forall es i, In i (a_x (assignments_of es)) <-> i < length es /\ ex (nth i es elig_zero) = true.
Proof. exact In_x. Qed.
Theorem C16_all_positional :
  forall es i, In i (a_all (assignments_of es)) <-> i < length es /\ elig_valid (nth i es elig_zero) = true.
Proof. exact In_all. Qed.

(* tie: GeoAssignments.__init__ regenerated from the source on this run is the model *)
Theorem C16_generated_code_is_model :
  forall c t x, gen_geo_assignments c t x = mk_assignments c t x.
Proof. exact bridge_geo_assignments. Qed.

Print Assumptions C16_accept_iff_well_formed.
Print Assumptions C16_reject_is_ValueError.
Print Assumptions C16_accepted_table_is_the_input.
Print Assumptions C16_class_membership.
Print Assumptions C16_classes_disjoint.
Print Assumptions C16_classes_cover.
Print Assumptions C16_classes_nodup.
Print Assumptions C16_classes_within_all.
Print Assumptions C16_c_positional.
Print Assumptions C16_all_positional.
Print Assumptions C16_generated_code_is_model.

(* non-vacuity: all seven legal row types at once *)
Example C16_example :
  let es := [ {|ec:=true;et:=true;ex:=true|}; {|ec:=true;et:=false;ex:=false|}; {|ec:=false;et:=true;ex:=false|};
              {|ec:=false;et:=false;ex:=true|}; {|ec:=true;et:=true;ex:=false|}; {|ec:=true;et:=false;ex:=true|};
              {|ec:=false;et:=true;ex:=true|} ] in
  class_sets (assignments_of es) = [[1]; [2]; [3]; [4]; [5]; [0]; [6]].
Proof. vm_compute. reflexivity. Qed.

(* ---- get_eligible_assignments itself, regenerated from the source on every run (gen/Gen_EligAssign.v) over a frame of
   (ID, flags) rows: `df.loc[geos]`, `df.reset_index()` and `set(df.index[df[col] == 1])` read as in model/EligFrame.v *)
From Coq Require Import ZArith.
From MM Require Import model.EligFrame gen.Gen_EligAssign proofs.EligAssignBridge.
(* indices=True: the sets handed to GeoAssignments are the model's position sets of the rows of the list, in its order *)
Theorem C16_translated_index_mode_is_the_model :
  forall data g gs rows, loc data (g :: gs) = Some rows ->
    let a := assignments_of (map snd rows) in
    gen_get_eligible_assignments data (Some (g :: gs)) true = GA (map Z.of_nat (a_c a)) (map Z.of_nat (a_t a)) (map Z.of_nat (a_x a)).
Proof. exact gen_index_mode_is_assignments_of. Qed.
(* indices=False: an ID is in a set iff it was asked for, is in the table and has the flag *)
Theorem C16_translated_id_mode :
  forall data g gs rows, loc data (g :: gs) = Some rows ->
    gen_get_eligible_assignments data (Some (g :: gs)) false = GA (labels_where ec rows) (labels_where et rows) (labels_where ex rows).
Proof. exact gen_id_mode. Qed.
Theorem C16_translated_id_mode_membership :
  forall data f rows geos g, loc data geos = Some rows ->
    In g (labels_where f rows) <-> In g geos /\ exists e, lookup data g = Some e /\ f e = true.
Proof. exact gen_id_mode_membership. Qed.
(* no list or an empty list: the whole table by ID; with indices=True a ValueError; an unknown ID: KeyError exactly then *)
Theorem C16_translated_all_geos :
  forall data geos, truthy geos = false ->
    gen_get_eligible_assignments data geos false = GA (labels_where ec data) (labels_where et data) (labels_where ex data) /\
    gen_get_eligible_assignments data geos true = GAValueError.
Proof. exact gen_all_geos. Qed.
Theorem C16_translated_unknown_geo_is_a_key_error :
  forall data g gs indices,
    gen_get_eligible_assignments data (Some (g :: gs)) indices = GAKeyError <-> exists g', In g' (g :: gs) /\ lookup data g' = None.
Proof. exact gen_key_error_iff. Qed.
Print Assumptions C16_translated_index_mode_is_the_model.
Print Assumptions C16_translated_id_mode_membership.
Print Assumptions C16_translated_unknown_geo_is_a_key_error.
