#!/usr/bin/env python3
"""Rewrites /verif/MANIFEST.json from the table below (kept in one place so the
manifest is always valid and always lists every property exactly once)."""
import json
import os

V = os.path.dirname(os.path.dirname(os.path.abspath(__file__)))
props = [json.loads(l) for l in open(os.path.join(V, 'properties.jsonl'))]

CLAIMED = {
    'C14': dict(
        text='Coq theorems (props/C14.v) over every total order of keys, every capacity and every history of pushes and '
             'reads: each queue of the snapshot is the k largest keys pushed under its key, descending; retained items are '
             'pushed items; reads are pure. heapdict.py is re-translated on every run and proved equal to the model on '
             'every history; generated histories are additionally run on the real HeapDict and the model and compared, '
             'and the property is evaluated directly on the implementation\'s answers.',
        note='Trusted: Coq kernel + vm_compute, translator py2v.py, heapq\'s documented contract (modelled, not verified), '
             'harness rank mapping. No axioms.',
        technique='Rocq/Coq proof (induction over histories, refinement to sorted top-k) + translator bridge lemma + '
                  'executed correspondence',
        ref='DESIGN.md section 5 C14'),
    'C16': dict(
        text='Coq theorems (props/C16.v): validation accepts exactly the well-formed tables and otherwise raises '
             'ValueError; for the rows of any ordered subset the seven classes are the positions whose row encodes them, '
             'pairwise disjoint, duplicate-free and covering. GeoAssignments.__init__ is re-translated on every run '
             '(bridge by reflexivity); tables built from generated specifications (incl. all tables of 1-3 legal rows and '
             'a malformed stream) are run through GeoEligibility and the model and compared; the partition property is '
             'also evaluated directly on the answers.',
        note='Trusted: Coq kernel + vm_compute, translator, pandas glue of GeoEligibility (modelled; tied by execution), '
             'the harness\' reading of "entry in {0,1}" as Python equality. No axioms.',
        technique='Rocq/Coq proof (Boolean case analysis over the 8 row types lifted to all tables) + translator bridge '
                  'lemma + executed correspondence',
        ref='DESIGN.md section 5 C16'),
}

NOT_YET = 'check not built yet in this revision (model under construction; see DESIGN.md section 10)'
NA = {}

checks, na = [], []
for p in props:
  pid = p['id']
  if pid in CLAIMED:
    c = CLAIMED[pid]
    checks.append({
        'property_id': pid,
        'quick_cmd': './check %s --tier quick' % pid,
        'thorough_cmd': './check %s --tier thorough' % pid,
        'evidence_file': '/verif/evidence/%s.json' % pid,
        'replay_cmd_template': './check %s --replay {path}' % pid,
        'engine': 'coq-model',
        'level_claimed': {'category': c.get('category', 'proof'), 'text': c['text'], 'design_ref': c['ref']},
        'level_note': c['note'],
        'technique': c['technique'],
    })
  else:
    na.append({'property_id': pid, 'reason': NA.get(pid, NOT_YET)})

m = {
    'version': 1,
    'setup_cmd': './setup.sh',
    'hooks': {
        'guard': 'MATCHED_MARKETS_VERIF',
        'enable': 'no source hooks: checks observe public attributes and return values only',
        'baseline_off_cmd': 'cd /repo && /venv/bin/python -m pytest -ra -q -p no:cacheprovider --timeout=900 '
                            '--continue-on-collection-errors',
        'source_commits': [],
        'add_only': True,
    },
    'engines': [{
        'name': 'coq-model', 'path': '/verif/coq', 'serves_properties': sorted(CLAIMED),
        'kind_free_text': 'Coq 8.16.1 development (lib/, model/, proofs/, props/); gen/ regenerated from /repo by '
                          'translate/py2v.py on every run; harness in vlib/ (Python) runs the implementation and '
                          'evaluates the model with vm_compute on the same inputs',
    }],
    'checks': checks,
    'not_applicable': na,
    'notes': 'See DESIGN.md. Every check: translate -> build proofs (Print Assumptions) -> correspondence -> '
             'direct oracle -> verdict (VIOLATION / KNOWN-FINDING protocol).',
}
json.dump(m, open(os.path.join(V, 'MANIFEST.json'), 'w'), indent=1)
print('claimed:', sorted(CLAIMED), 'not claimed:', [x['property_id'] for x in na])
