#!/usr/bin/env python3
"""Systematic small mutations of the methodology sources, as a measurement of the checks (complements the seeded changes).
usage: VERIF_REPO=<scratch copy of /repo> tools/mutate.py <n per file> [seed]
For each sampled mutant: write it into $VERIF_REPO, run the repository's test suite (a mutant that fails a baseline-passing
test is 'killed by tests' and not interesting), otherwise run the quick checks of the properties anchored in that file and
record whether any of them reports a violation.  Writes mutation/RESULTS.md and mutation/survivors/*.diff (mutants that
neither the tests nor the checks noticed: candidates for equivalent mutants or for gaps).  Never run on /repo itself."""
import ast
import copy
import json
import os
import random
import subprocess
import sys
import time
import xml.etree.ElementTree as ET

V = os.path.dirname(os.path.dirname(os.path.abspath(__file__)))
repo = os.environ.get('VERIF_REPO')
if not repo or os.path.realpath(repo) == '/repo':
  sys.exit('set VERIF_REPO to a scratch copy of /repo')
N = int(sys.argv[1]) if len(sys.argv) > 1 else 5
SEED = int(sys.argv[2]) if len(sys.argv) > 2 else 1
METH = 'matched_markets/methodology/'
props = [json.loads(l) for l in open(os.path.join(V, 'properties.jsonl'))]
FILES = {}
for p in props:
  for f in p['anchors']['files']:
    if f.startswith(METH) and f.endswith('.py'):
      FILES.setdefault(f, []).append(p['id'])
STABLE = set(json.load(open('/root/.vp/BASELINE.json'))['stable_pass'])
# line ranges the properties are anchored in (file -> [(lo, hi, property)]); the fix commits moved lines by a few, hence SLACK
import re
RANGES, SLACK = {}, 12
for p in props:
  for m in p['anchors']['mechanism']:
    for fn, lo, hi in re.findall(r'(\w+\.py):(\d+)-(\d+)', m['where']):
      RANGES.setdefault(METH + fn, []).append((int(lo) - SLACK, int(hi) + SLACK, p['id']))


def props_at(rel, line):
  return sorted({pid for lo, hi, pid in RANGES.get(rel, []) if lo <= line <= hi})


CMP = {ast.Lt: ast.LtE, ast.LtE: ast.Lt, ast.Gt: ast.GtE, ast.GtE: ast.Gt, ast.Eq: ast.NotEq, ast.NotEq: ast.Eq,
       ast.Is: ast.IsNot, ast.IsNot: ast.Is, ast.In: ast.NotIn, ast.NotIn: ast.In}
BIN = {ast.Add: ast.Sub, ast.Sub: ast.Add, ast.Mult: ast.Div, ast.Div: ast.Mult, ast.BitAnd: ast.BitOr, ast.BitOr: ast.BitAnd}


def sites(tree):
  """[(description, mutator(node))] over a tree; each mutator edits the node in place."""
  out = []
  for node in ast.walk(tree):
    if isinstance(node, ast.Compare) and len(node.ops) == 1 and type(node.ops[0]) in CMP:
      out.append((node, 'compare %s -> %s' % (type(node.ops[0]).__name__, CMP[type(node.ops[0])].__name__),
                  lambda n: n.ops.__setitem__(0, CMP[type(n.ops[0])]())))
    elif isinstance(node, ast.BoolOp):
      out.append((node, 'boolop %s' % type(node.op).__name__,
                  lambda n: setattr(n, 'op', ast.Or() if isinstance(n.op, ast.And) else ast.And())))
    elif isinstance(node, ast.BinOp) and type(node.op) in BIN:
      out.append((node, 'binop %s -> %s' % (type(node.op).__name__, BIN[type(node.op)].__name__),
                  lambda n: setattr(n, 'op', BIN[type(n.op)]())))
    elif isinstance(node, ast.Constant) and isinstance(node.value, int) and not isinstance(node.value, bool) and 0 <= node.value <= 10:
      out.append((node, 'constant %d -> %d' % (node.value, node.value + 1), lambda n: setattr(n, 'value', n.value + 1)))
    elif isinstance(node, ast.UnaryOp) and isinstance(node.op, ast.Not):
      out.append((node, 'not removed', None))
    elif isinstance(node, ast.If) and not node.orelse and len(node.body) == 1 and isinstance(node.body[0], (ast.Continue, ast.Return)):
      out.append((node, 'guard `if ...: %s` disabled' % type(node.body[0]).__name__.lower(),
                  lambda n: setattr(n, 'test', ast.Constant(value=False))))
  return out


def mutants(path, n, rng):
  src = open(path).read()
  tree = ast.parse(src)
  ss = sites(tree)
  idx = list(range(len(ss)))
  rng.shuffle(idx)
  res = []
  for i in idx:
    if len(res) >= n:
      break
    t2 = copy.deepcopy(tree)
    s2 = sites(t2)
    node, desc, mut = s2[i]
    line = getattr(node, 'lineno', 0)
    if mut is None:         # `not x` -> `x`
      for parent in ast.walk(t2):
        for fld, val in ast.iter_fields(parent):
          if val is node:
            setattr(parent, fld, node.operand)
          elif isinstance(val, list) and node in val:
            val[val.index(node)] = node.operand
    else:
      mut(node)
    try:
      new = ast.unparse(ast.fix_missing_locations(t2))
    except Exception:
      continue
    if new != ast.unparse(tree) and props_at(os.path.relpath(path, repo), line):
      res.append((line, desc, new))
  return ast.unparse(tree), res


def main():
  rng = random.Random(SEED)
  os.makedirs(os.path.join(V, 'mutation', 'survivors'), exist_ok=True)
  rows = []
  for rel in sorted(FILES):
    path = os.path.join(repo, rel)
    original = open(path).read()
    base_unparsed, ms = mutants(path, N, rng)
    for k, (line, desc, new) in enumerate(ms):
      open(path, 'w').write(new)
      t0 = time.time()
      try:
        failing = run_tests_plain()
        if failing:
          rows.append((rel, line, desc, 'killed by the test suite', '', int(time.time() - t0)))
          print(rel, line, desc, 'killed by tests', flush=True)
          continue
        verdicts = []
        for pid in props_at(rel, line):
          r = subprocess.run([os.path.join(V, 'check'), pid, '--tier', 'quick'], capture_output=True, text=True,
                             env=dict(os.environ, VERIF_REPO=repo))
          lines = [l for l in r.stdout.split('\n') if l.startswith('VIOLATION')]
          if lines:
            verdicts.append('%s%s' % (pid, ' (tie only)' if 'no-failing-input-found' in lines[0] else ''))
            if 'no-failing-input-found' not in lines[0]:
              break
        status = 'reported' if verdicts else 'SURVIVED'
        rows.append((rel, line, desc, status, ', '.join(verdicts), int(time.time() - t0)))
        print(rel, line, desc, status, verdicts, flush=True)
        if not verdicts:
          import difflib
          d = ''.join(difflib.unified_diff(base_unparsed.splitlines(True), new.splitlines(True), 'a/' + rel, 'b/' + rel, n=2))
          open(os.path.join(V, 'mutation', 'survivors', '%s_%d_%d.diff' % (os.path.basename(rel)[:-3], line, k)), 'w').write(
              '# %s line %d: %s (diff of the ast-unparsed sources)\n' % (rel, line, desc) + d)
      finally:
        open(path, 'w').write(original)
  for f in os.listdir(os.path.join(V, 'replays')) if os.path.isdir(os.path.join(V, 'replays')) else []:
    if f.endswith('.json'):
      os.remove(os.path.join(V, 'replays', f))
  with open(os.path.join(V, 'mutation', 'RESULTS.md'), 'w') as f:
    n_t = sum(1 for r in rows if r[3].startswith('killed'))
    n_r = sum(1 for r in rows if r[3] == 'reported')
    n_s = sum(1 for r in rows if r[3] == 'SURVIVED')
    f.write('# Systematic mutants against the quick checks\n\nGenerated by tools/mutate.py (%d per file, seed %d): %d mutants, '
            '%d killed by the repository\'s tests, %d reported by a check, %d survived both.\n\n'
            '| file | line | mutation | outcome | checks that reported | seconds |\n|---|---|---|---|---|---|\n' % (N, SEED, len(rows), n_t, n_r, n_s))
    for r in rows:
      f.write('| %s | %d | %s | %s | %s | %d |\n' % r)
  print('%d mutants: %d killed by tests, %d reported, %d survived' % (len(rows), n_t, n_r, n_s))


def run_tests_plain():
  xml = '/tmp/mutate_tests.xml'
  if os.path.exists(xml):
    os.remove(xml)
  subprocess.run(['/venv/bin/python', '-m', 'pytest', '-q', '-p', 'no:cacheprovider', '--timeout=600', '--continue-on-collection-errors',
                  '--junitxml=' + xml, 'matched_markets/tests'],
                 cwd=repo, env=dict(os.environ, PYTHONPATH=repo), capture_output=True, text=True)
  ok = set()
  try:
    for tc in ET.parse(xml).iter('testcase'):
      if not any(ch.tag in ('failure', 'error', 'skipped') for ch in tc):
        ok.add(tc.get('classname') + '::' + tc.get('name'))
  except Exception:
    return ['<no junit output>']
  return sorted(STABLE - ok)


if __name__ == '__main__':
  main()
