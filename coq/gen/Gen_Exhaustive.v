(* translator refused: Unsupported: line 388: unknown name: Name(id='treatment_share', ctx=Load()) *)
Translator_refused_this_source.
