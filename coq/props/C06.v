(* C06 -- TBR posterior of the cumulative effect equals the closed-form model.
   Exact rational arithmetic (every binary64 input is a dyadic rational); scales appear as squares. *)
From Coq Require Import List ZArith QArith Sorting.Permutation.
From MM Require Import model.TBRMath proofs.TBRMathProofs.
Import ListNotations.
Open Scope Q_scope.

(* the variance propagated from the OLS covariance is Kerman (2017) eq. 5, on every analysed day *)
Theorem C06_posterior_variance_closed_form :
  forall d t ubar, ~ nQ d == 0 -> ~ Sxx d == 0 ->
    var_at d t ubar == s2 d * (t * t * (1 / nQ d + (ubar - xbar d) * (ubar - xbar d) / Sxx d) + t).
Proof. exact var_closed_form. Qed.
Theorem C06_ols_covariance_quadratic_form :
  forall d u, ~ nQ d == 0 -> ~ Sxx d == 0 ->
    v00 d + 2 * u * v01 d + u * u * v11 d == s2 d * (1 / nQ d + (u - xbar d) * (u - xbar d) / Sxx d).
Proof. exact quad_form. Qed.
(* the data enter only through per-date group totals: row order, the split of a group over geos and
   rows of other groups are irrelevant *)
Theorem C06_totals_row_order_irrelevant : forall a b g d, Permutation a b -> total a g d == total b g d.
Proof. exact totals_row_order_irrelevant. Qed.
Theorem C06_totals_ignore_other_groups :
  forall rows extra g d, (forall r, In r extra -> t_group r <> g) -> total (rows ++ extra) g d == total rows g d.
Proof. exact totals_ignore_other_groups. Qed.
Theorem C06_totals_add_over_geos : forall rows1 rows2 g d, total (rows1 ++ rows2) g d == total rows1 g d + total rows2 g d.
Proof. exact totals_split_over_geos. Qed.
(* summary rows: lower <= estimate <= upper when the lower / upper standard quantiles are <= 0 / >= 0
   (i.e. tail probability <= 1/2), and precision = estimate - lower *)
Theorem C06_summary_order :
  forall loc scale tq_lo tq_hi, 0 <= scale -> tq_lo <= 0 -> 0 <= tq_hi ->
    quantile loc scale tq_lo <= loc /\ loc <= quantile loc scale tq_hi.
Proof. exact summary_order. Qed.
Theorem C06_precision :
  forall loc scale tq_lo, 0 <= scale -> tq_lo <= 0 ->
    Qabs.Qabs (quantile loc scale tq_lo - quantile loc scale 0) == loc - quantile loc scale tq_lo.
Proof. exact precision_is_estimate_minus_lower. Qed.
(* the property as literally stated fails for one-tailed levels below 1/2 (known finding) *)
Theorem C06_summary_order_refuted_below_half :
  forall loc scale tq_lo, 0 < scale -> 0 < tq_lo -> loc < quantile loc scale tq_lo.
Proof. exact summary_order_fails_below_half. Qed.
(* the design-side fit yields the identical estimate and scale *)
Theorem C06_design_side_scale_agrees :
  forall d T xt, ~ nQ d == 0 -> ~ Sxx d == 0 -> ~ T == 0 -> fit_scale2 d T xt == var_at d T xt.
Proof. exact design_side_scale_agrees. Qed.
Theorem C06_design_side_estimate_agrees :
  forall d test, ~ nQ d == 0 -> ~ nQ test == 0 ->
    fit_estimate d (nQ test) (Sx test / nQ test) (Sy test / nQ test) == qsum (effects d test).
Proof. exact design_side_estimate_agrees. Qed.

Print Assumptions C06_posterior_variance_closed_form.
Print Assumptions C06_totals_row_order_irrelevant.
Print Assumptions C06_summary_order.
(* ---- on the code.  TBRMMDiagnostics.tbrfit is regenerated from tbrmmdiagnostics.py on every run (gen/Gen_Formulas.v);
   over the rationals, fed with the pre-period fit of the model (slope, residual variance, np.var(x, ddof=0) = Sxx / n) and
   any square-root oracle exact on its one argument, its estimate is the analysis side's cumulative effect and the square
   of its scale is the analysis side's posterior variance; the half-width is the t-quantile times that scale *)
From MM Require Import lib.Values gen.Gen_Formulas proofs.FormulasBridge.
Theorem C06_translated_design_side_estimate_is_the_analysis_estimate :
  forall (vsqrt : Q -> Q) (d test : list pt) b sigma var_x tqs,
    ~ nQ d == 0 -> ~ nQ test == 0 -> b == slope d ->
    fit_estimate_of (gen_tbrfit QOps vsqrt (Z.of_nat (length test)) (Z.of_nat (length d)) (xbar d) (ybar d) b sigma var_x tqs
                                (Sx test / nQ test) (Sy test / nQ test))
    == qsum (effects d test).
Proof.
  intros vsqrt d test b sigma var_x tqs Hn HT Hb. rewrite (gen_tbrfit_estimate vsqrt d _ b sigma var_x tqs _ _ Hb).
  exact (design_side_estimate_agrees d test Hn HT).
Qed.
Theorem C06_translated_design_side_scale_is_the_posterior_scale :
  forall (vsqrt : Q -> Q) (d : list pt) T b sigma var_x tqs xt yt,
    let n := Z.of_nat (length d) in
    let r := gen_tbrfit QOps vsqrt T n (xbar d) (ybar d) b sigma var_x tqs xt yt in
    sqrt_ok vsqrt (fit_arg T n ((xt - xbar d) * (xt - xbar d) / var_x)) ->
    sigma * sigma == s2 d -> var_x == Sxx d / nQ d ->
    ~ nQ d == 0 -> ~ Sxx d == 0 -> ~ inject_Z T == 0 ->
    fit_scale_of r * fit_scale_of r == var_at d (inject_Z T) xt /\ fit_cihw_of r == tqs * fit_scale_of r.
Proof.
  cbv zeta. intros vsqrt d T b sigma var_x tqs xt yt Hs Hsig Hvar Hn Hx HT.
  destruct (gen_tbrfit_scale_squared vsqrt d T b sigma var_x tqs xt yt Hs Hsig Hvar) as [H1 H2].
  split; [|exact H2]. rewrite H1. exact (design_side_scale_agrees d (inject_Z T) xt Hn Hx HT).
Qed.

Print Assumptions C06_design_side_scale_agrees.
Print Assumptions C06_translated_design_side_estimate_is_the_analysis_estimate.
Print Assumptions C06_translated_design_side_scale_is_the_posterior_scale.
Print Assumptions C06_design_side_estimate_agrees.
