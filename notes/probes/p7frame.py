import numpy as np, pandas as pd
def frame(rng, n_pre=20, n_test=8, n_cool=3, gc=3, gt=2, lift=30.0, cost_scn='fixed', xspike=None):
    nd = n_pre+n_test+n_cool
    dates = pd.date_range('2021-03-01', periods=nd)
    period = np.array([0]*n_pre+[1]*n_test+[2]*n_cool)
    base = 100+np.cumsum(rng.normal(0,3,nd))
    if xspike is not None:
        base[n_pre+xspike[0]] += xspike[1]
    rows=[]
    for g in range(gc+gt):
        grp = 1 if g<gc else 2
        sc = rng.uniform(0.5,2)
        resp = sc*base + rng.normal(0,2,nd)
        cost = np.zeros(nd)
        if cost_scn=='variable':
            cost = 5*sc + rng.normal(0,0.3,nd)
        if grp==2:
            resp = resp + (period==1)*lift/gt
            cost = cost + (period==1)*10.0
        for t in range(nd):
            rows.append(dict(geo=g+1, date=dates[t], group=grp, period=int(period[t]), response=float(resp[t]), cost=float(cost[t])))
    return pd.DataFrame(rows)
