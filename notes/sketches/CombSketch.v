From Coq Require Import List Arith Lia Bool.
Import ListNotations.
Fixpoint combs {A} (k : nat) (l : list A) : list (list A) :=
  match k, l with
  | O, _ => [[]]
  | S _, [] => []
  | S k', a :: l' => map (cons a) (combs k' l') ++ combs k l'
  end.
Fixpoint binom (n k : nat) : nat :=
  match n, k with
  | _, O => 1 | O, S _ => 0 | S n', S k' => binom n' k' + binom n' k end.
Definition cnt {A} (p : A -> bool) (l : list A) := length (filter p l).

Lemma binom_0_S k : binom 0 (S k) = 0. Proof. reflexivity. Qed.
Lemma binom_n_0 n : binom n 0 = 1. Proof. destruct n; reflexivity. Qed.

Section Split.
Context {A : Type} (p : A -> bool).
Definition prof (i : nat) (c : list A) : bool := cnt p c =? i.

Lemma filter_map_cons a (f : list A -> bool) (g : list A -> bool) l :
  (forall c, f (a :: c) = g c) -> length (filter f (map (cons a) l)) = length (filter g l).
Proof. intro H. induction l as [|c l IH]; cbn; [reflexivity|]. rewrite H. destruct (g c); cbn; rewrite IH; reflexivity. Qed.

(* number of k-subsets with exactly i elements satisfying p *)
Lemma filter_false {B} (l0 : list B) : length (filter (fun _ => false) l0) = 0.
Proof. induction l0; auto. Qed.
Lemma prof_cons_t a c i : p a = true -> prof (S i) (a :: c) = prof i c.
Proof. intro Pa. unfold prof, cnt. cbn [filter]. rewrite Pa. reflexivity. Qed.
Lemma prof_cons_t0 a c : p a = true -> prof 0 (a :: c) = false.
Proof. intro Pa. unfold prof, cnt. cbn [filter]. rewrite Pa. reflexivity. Qed.
Lemma prof_cons_f a c i : p a = false -> prof i (a :: c) = prof i c.
Proof. intro Pa. unfold prof, cnt. cbn [filter]. rewrite Pa. reflexivity. Qed.
Lemma cnt_cons_t (q : A -> bool) a l : q a = true -> cnt q (a :: l) = S (cnt q l).
Proof. intro H; unfold cnt; cbn [filter]; rewrite H; reflexivity. Qed.
Lemma cnt_cons_f (q : A -> bool) a l : q a = false -> cnt q (a :: l) = cnt q l.
Proof. intro H; unfold cnt; cbn [filter]; rewrite H; reflexivity. Qed.
Lemma binom_gt n : forall k, n < k -> binom n k = 0.
Proof. induction n as [|n IH]; intros [|k] H; try lia; cbn; [reflexivity|]. rewrite !IH by lia. reflexivity. Qed.
Lemma cnt_le (q : A -> bool) l : cnt q l <= length l.
Proof. unfold cnt. induction l; cbn; [lia|]. destruct (q a); cbn; lia. Qed.

(* number of k-subsets with exactly i elements satisfying p; no side condition:
   for i > k both sides are 0 because k - i truncates... so keep i <= k *)
Lemma combs_profile l : forall k i, i <= k ->
  length (filter (prof i) (combs k l)) =
  binom (cnt p l) i * binom (cnt (fun a => negb (p a)) l) (k - i).
Proof.
  induction l as [|a l IH]; intros k i Hik.
  - destruct k as [|k]; cbn.
    + assert (i = 0) by lia; subst; reflexivity.
    + destruct i; reflexivity.
  - destruct k as [|k].
    + assert (i = 0) by lia; subst. cbn. rewrite !binom_n_0. reflexivity.
    + cbn [combs]. rewrite filter_app, app_length.
      destruct (p a) eqn:Pa.
      * rewrite (cnt_cons_t p a l Pa), (cnt_cons_f (fun a => negb (p a)) a l) by (rewrite Pa; reflexivity).
        destruct i as [|i].
        -- rewrite (filter_map_cons a _ (fun _ => false)) by (intro c; apply prof_cons_t0; exact Pa).
           rewrite filter_false, (IH (S k) 0) by lia. rewrite !binom_n_0. reflexivity.
        -- rewrite (filter_map_cons a _ (prof i)) by (intro c; apply prof_cons_t; exact Pa).
           rewrite (IH k i), (IH (S k) (S i)) by lia.
           cbn [binom]. replace (S k - S i) with (k - i) by lia. ring.
      * rewrite (cnt_cons_f p a l Pa), (cnt_cons_t (fun a => negb (p a)) a l) by (rewrite Pa; reflexivity).
        rewrite (filter_map_cons a _ (prof i)) by (intro c; apply prof_cons_f; exact Pa).
        destruct (Nat.eq_dec i (S k)) as [->|Hne].
        -- rewrite Nat.sub_diag, binom_n_0, (IH (S k) (S k)) by lia.
           rewrite Nat.sub_diag, binom_n_0.
           (* first term: subsets of size k with S k p-elements: none *)
           assert (Z0 : length (filter (prof (S k)) (combs k l)) = 0).
           { clear. assert (G: forall (k0:nat) (l0: list A) c, In c (combs k0 l0) -> length c = k0).
             { intros k0 l0; revert k0; induction l0 as [|b l0 IHl]; intros [|k0] c; cbn.
               - intros [<-|[]]; reflexivity.
               - intros [].
               - intros [<-|[]]; reflexivity.
               - rewrite in_app_iff, in_map_iff. intros [[c' [<- Hc']]|Hc]; cbn; auto. }
             specialize (G k l). induction (combs k l) as [|c cs IHc]; [reflexivity|].
             cbn [filter]. unfold prof at 1.
             pose proof (cnt_le p c). rewrite (G c) in H by (left; reflexivity).
             destruct (Nat.eqb_spec (cnt p c) (S k)); [lia|]. apply IHc. intros; apply G; right; assumption. }
           rewrite Z0. lia.
        -- rewrite (IH k i), (IH (S k) i) by lia.
           replace (S k - i) with (S (k - i)) by lia. cbn [binom]. ring.
Qed.
End Split.
