import warnings; warnings.filterwarnings('ignore')
import numpy as np, pandas as pd, random
from matched_markets.methodology import tbrmmdata, geoeligibility as G
TYPES=['c','t','x','ct','cx','tx','ctx']
seed=148
rng=np.random.RandomState(seed)
ng=rng.randint(1,6); nd=rng.randint(3,8)
ids=[str(i+1) for i in range(ng)] if rng.rand()<0.5 else [int(i+1) for i in range(ng)]
rows=[]
scales=rng.permutation(np.arange(1,ng+1))
for gi,g in enumerate(ids):
    for t in range(nd):
        if rng.rand()<0.15: continue
        rows.append(dict(geo=g, date=pd.Timestamp('2021-01-01')+pd.Timedelta(days=int(t)), response=float(scales[gi]*8+rng.randint(0,8))))
df=pd.DataFrame(rows)
d=tbrmmdata.TBRMMData(df,'response')
print(d.df); print(d.df.mean(axis=1)); print(d.geo_share)
