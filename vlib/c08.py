"""C08 -- design diagnostics never serve stale values after their inputs change.

Proof: props/C08.v (any history, any cache structure with sound tables; the tables regenerated
from tbrmmdiagnostics.py on this run are sound).  Tie: translator target `diagcache`; histories
run on the real object and on the model (which predicts, for the regenerated tables, exactly
which reads are stale); oracle: every read compared with a fresh object.
"""
import itertools
import random

from . import common
from .common import Check, coq_list

TRUSTED = [
    'Coq 8.16.1 kernel and vm_compute; axioms: none',
    'translator translate/py2v.py (target diagcache): cache slots, resets of the x / y setters, memo slot and '
    'reads of every property / method of TBRMMDiagnostics; functools.lru_cache methods are checked to depend on their '
    'arguments only',
    'modelled, not verified: every kernel (corrcoef, linregress, scipy.stats) is a deterministic function of the two '
    'series and the parameters -- a value is abstracted to the snapshot of the inputs it was computed from',
    'harness: a read counts as fresh when it equals (bit for bit, arrays included) the same read on a newly built object',
]

READS = ['corr', 'required_impact', 'pretestfit', 'aatest', 'bbtest', 'dwtest', 'corr_test', 'tests_ok', 'tbrfit',
         'estimate_required_impact']


def series():
  import numpy as np
  rng = np.random.RandomState(0)
  base = np.cumsum(rng.normal(0, 1, 30)) + 100
  ys = [base + rng.normal(0, 0.2, 30), 3 * base[::-1] + rng.normal(0, 5, 30)]
  x1 = 2 * base + rng.normal(0, 0.2, 30)
  big = 2.0e6 + np.cumsum(rng.normal(0, 1, 30))
  xs = [None, x1, rng.normal(100, 10, 30), base + np.arange(30) * 0.5 + rng.normal(0, 1, 30),
        x1 * (1 + 1e-7 * np.cos(np.arange(30))),          # within 1e-7 (relative) of series 1, not equal to it
        big, big + 3.0 * np.sin(np.arange(30))]           # two series on a 2e6 baseline that differ by a few units
  short = base[:18] * 1.5 + rng.normal(0, 0.3, 18)        # a shorter pretest window (index 2 of ys; xs 7 and 8 go with it)
  ys.append(short)
  xs += [2 * base[:18] + rng.normal(0, 0.2, 18), rng.normal(50, 5, 18)]
  # 9, 10: whole-number control series held in integer arrays (counts); 11: an integer treatment-like level, as a list
  r2 = np.random.RandomState(1)
  xs += [np.round(x1).astype(np.int64), np.round(3 * base + r2.normal(0, 4, 30)).astype(np.int64),
         [int(v) for v in np.round(base + r2.normal(0, 2, 30))]]
  return xs, ys


def same(a, b):
  import numpy as np
  if a is None or b is None:
    return a is None and b is None
  if isinstance(a, np.ndarray) or isinstance(b, np.ndarray):
    return isinstance(a, np.ndarray) and isinstance(b, np.ndarray) and a.shape == b.shape and bool(np.array_equal(a, b, equal_nan=True))
  if isinstance(a, tuple):
    return isinstance(b, tuple) and len(a) == len(b) and all(same(x, y) for x, y in zip(a, b))
  if isinstance(a, (float, np.floating)) or isinstance(b, (float, np.floating)):
    try:
      return (a != a and b != b) or a == b
    except Exception:
      return False
  return a == b


def do_read(d, m):
  if m == 'tbrfit':
    return d.tbrfit(101.5, 99.25)
  if m == 'estimate_required_impact':
    return d.estimate_required_impact(0.9)
  return getattr(d, m)


def run_history(ops):
  """ops: [('x', i) | ('y', j) | ('r', member) | ('buffer',)]. Returns flags (read == fresh read) and details.
  After a ('buffer',) marker (not an operation on the object) the caller passes every float control series through ONE
  array of its own per length, refilled in place before each assignment."""
  import numpy as np
  from matched_markets.methodology import tbrmmdiagnostics as D, tbrmmdesignparameters as P
  xs, ys = series()
  buffers, use_buffer = {}, False
  par = P.TBRMMDesignParameters(n_test=5, iroas=1.0)
  d = D.TBRMMDiagnostics(ys[0], par)
  cx, cy = 0, 0
  flags, notes = [], []
  for k, op in enumerate(ops):
    if op[0] == 'buffer':
      use_buffer = True
      continue
    if op[0] == 'x':
      v = xs[op[1]]
      if use_buffer and isinstance(v, np.ndarray) and v.dtype == np.float64:
        b = buffers.setdefault(len(v), np.zeros(len(v)))
        b[:] = v
        d.x = b
      else:
        d.x = v
      cx = op[1]
    elif op[0] == 'y':
      d.y = ys[op[1]]
      cy, cx = op[1], 0
    else:
      try:
        got = do_read(d, op[1])
      except Exception as e:
        got = ('raised', type(e).__name__)
      f = D.TBRMMDiagnostics(ys[cy], par)
      if xs[cx] is not None:
        f.x = xs[cx]
      try:
        want = do_read(f, op[1])
      except Exception as e:
        want = ('raised', type(e).__name__)
      ok = same(got, want)
      flags.append(ok)
      if not ok:
        notes.append('%s after %s: object reports %r, a fresh object with the same series reports %r'
                     % (op[1], ops[:k], str(got)[:80], str(want)[:80]))
  return flags, notes


def encode(ops, flags):
  t = []
  for op in ops:
    if op[0] == 'buffer':
      continue
    if op[0] == 'x':
      t.append('SetX None' if op[1] == 0 else 'SetX (Some %d)' % op[1])
    elif op[0] == 'y':
      t.append('SetY %d' % op[1])
    else:
      t.append('Read "%s"' % op[1])
  return '(%s, %s)' % (coq_list(t), coq_list(['true' if f else 'false' for f in flags]))


def _one(ops):
  try:
    return run_history(ops)
  except Exception as e:
    return None, ['harness error %s: %s' % (type(e).__name__, e)]


PRELUDE = ('From Coq Require Import List String Bool Arith.\nFrom MM Require Import model.DiagCache harness.RunCommon harness.RunC08.\n'
           'Import ListNotations.\nOpen Scope string_scope.\n')


def run(tier):
  ck = Check('C08', tier)
  ck.prove('props/C08.v', gen_targets=['diagcache'], extra=['harness/RunC08.vo'])
  rng = random.Random(ck.seed * 31 + 8)
  alphabet = [('x', 0), ('x', 1), ('x', 2), ('x', 3), ('y', 0), ('y', 1)] + [('r', m) for m in READS]
  wide = alphabet + [('x', 4), ('x', 5), ('x', 6), ('x', 9), ('x', 10), ('x', 11)]
  hist = []
  # exhaustively: every history of length <= 3 that ends in a read (quick) / <= 4 (thorough)
  maxlen = common.sz(tier, 3, 4)
  for ln in range(1, maxlen + 1):
    for h in itertools.product(alphabet, repeat=ln):
      if h[-1][0] == 'r':
        hist.append(list(h))
  n_exh = len(hist)
  # the shape of the original defect, for every pair of members
  for a in READS:
    for b in READS:
      hist.append([('x', 1), ('r', a), ('x', 2), ('r', b), ('y', 1), ('r', b), ('x', 3), ('r', a), ('r', b)])
  # consecutive assignments of nearly equal control series, for every member
  for a, b in ((1, 4), (4, 1), (5, 6), (6, 5)):
    for m in READS:
      hist.append([('x', a), ('r', m), ('x', b), ('r', m)])
      hist.append([('x', a), ('x', b), ('r', m)])
  # a control series of whole numbers in an integer array (or a list of ints), then a fractional one, and back
  for a in (9, 10, 11):
    for b in (1, 2, 3):
      for m in READS:
        hist.append([('x', a), ('r', m), ('x', b), ('r', m)])
        hist.append([('x', a), ('x', b), ('r', m), ('x', a), ('r', m)])
  # the caller keeps one array and refills it in place before each assignment of a control series
  for a, b in ((1, 2), (2, 3), (3, 1), (1, 4)):
    for m in READS:
      hist.append([('buffer',), ('x', a), ('r', m), ('x', b), ('r', m)])
      hist.append([('buffer',), ('x', a), ('r', m), ('y', 1), ('x', b), ('r', m), ('x', a), ('r', m)])
  # the treatment series is replaced by one of another length (with control series of that length)
  for m in READS:
    hist.append([('x', 1), ('r', m), ('y', 2), ('x', 7), ('r', m)])
    hist.append([('y', 2), ('x', 7), ('r', m), ('y', 0), ('x', 1), ('r', m)])
    hist.append([('y', 2), ('x', 8), ('r', m), ('x', 7), ('r', m), ('y', 1), ('x', 2), ('r', m), ('y', 2), ('r', m)])
  for _ in range(common.sz(tier, 400, 20000)):
    n = rng.randint(4, 14)
    h = [rng.choice(wide) if rng.random() < 0.55 else ('r', rng.choice(READS)) for _ in range(n)]
    h.append(('r', rng.choice(READS)))
    if rng.random() < 0.25:
      h = [('buffer',)] + h
    hist.append(h)
  res = common.pmap(_one, hist, chunksize=200)
  terms, nreads = [], 0
  for h, (flags, notes) in zip(hist, res):
    if flags is None:
      ck.tie_broken('harness', 'harness error', notes[0])
      continue
    nreads += len(flags)
    nset = sum(1 for o in h if o[0] in ('x', 'y'))
    ck.count(tuple(h), nontrivial=nset >= 1 and len(flags) >= 1)
    if notes:
      ck.fail('stale-read', notes[0], {'history': h})
    terms.append(encode(h, flags))
  ck.sample({'history': hist[n_exh + 3]})
  ck.sample({'history': hist[-1]})
  jobs = []
  shard = 4000
  for k in range(0, len(terms), shard):
    jobs.append(('c08_%d' % (k // shard), PRELUDE + 'Definition cases : list case := %s.\nEval vm_compute in (mismatches agrees cases).\n'
                 % coq_list(terms[k:k + shard]).replace('; ([', ';\n (['))) 
  out = common.coq_eval_many(jobs)
  bad = []
  for name, (rc, o) in out.items():
    mm = common.parse_nat_list(o) if rc == 0 else None
    if mm is None:
      ck.tie_broken('correspondence', 'model evaluation failed (%s)' % name, o[-1500:])
    else:
      bad += [int(name.split('_')[1]) * shard + i for i in mm]
  if bad:
    ck.tie_broken('correspondence', 'staleness predicted by the model (regenerated tables) differs from the object on %d histories' % len(bad),
                  {'history': hist[sorted(bad)[0]]})
  ck.cov['rule'] = ('alphabet: 4 control series incl. None (random and scripted histories also use 6 more: one within 1e-7 relative of another, two on a 2e6 baseline differing by a few units, three of whole numbers held in integer arrays / a list of ints), 2 treatment series (plus a shorter one in scripted length-change histories), 10 members read (corr, required_impact, pretestfit, '
                    'aatest, bbtest, dwtest, corr_test, tests_ok, tbrfit(xt, yt), estimate_required_impact(rho)); every history of '
                    'length <= %d ending in a read (exhaustive), the set/read/set/read pattern for every pair of members, scripted histories in which the caller refills one array in place before each assignment, and random '
                    'histories of length 5-15. non-trivial: at least one assignment and one read; distinct: the history' % maxlen)
  ck.cov['exhaustive_part'] = '%d histories (all of length <= %d ending in a read)' % (n_exh, maxlen)
  ck.cov['reads_compared_with_fresh_object'] = nreads
  ck.cov['correspondence'] = {'histories_model_vs_impl': len(terms), 'disagreements': len(bad)}
  ck.assumptions = ['__repr__ is excluded (it prints cache slots by design)']
  return ck.finish('proof', TRUSTED)


def replay(data):
  inp = data.get('input') or next((b['detail'] for b in data.get('tie_broken', []) if isinstance(b.get('detail'), dict)), None)
  if not isinstance(inp, dict) or 'history' not in inp:
    print('replay: nothing executable recorded:', [b['name'] for b in data.get('tie_broken', [])])
    return 1
  h = [tuple(o) for o in inp['history']]
  flags, notes = run_history(h)
  print('history:', h)
  print('reads fresh:', flags)
  print('property failures:', notes or 'none')
  return 1 if notes else 0
