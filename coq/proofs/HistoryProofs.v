(* C10: the only state the greedy search leaves behind on the object -- the size ranges it fills
   in on its private copy of the parameters -- does not change the answers of later queries. *)
From Coq Require Import List Arith ZArith Bool Lia PrimFloat.
From MM Require Import lib.ListExtra lib.ListSet lib.Combi lib.Values model.Heap model.Elig model.SearchParams
  model.SearchDefs model.Search proofs.EligProofs proofs.GroupSpecs.
Import ListNotations.
Open Scope Z_scope.

Section Filled.
  Context {V : Type} (O : vops V).
  Variables (es : list elig) (par : spar V).
  Let A := assignments_of es.
  Notation row i := (nth i es elig_zero).

  Lemma t_incl_all : incl (a_t A) (a_all A).
  Proof.
    subst A. intros i H. apply In_t in H. apply In_all. split; [apply H|]. unfold elig_valid. destruct H as [_ ->].
    destruct (ec (row i)); reflexivity.
  Qed.
  Lemma all_in_t_when_same_size : zlen (a_all A) - zlen (a_t A) = 0 -> incl (a_all A) (a_t A).
  Proof.
    intro H. apply NoDup_length_incl; [apply NoDup_t|unfold zlen in H; lia|apply t_incl_all].
  Qed.
  Lemma no_outside_t : incl (a_all A) (a_t A) -> is_nil (union (a_cx A) (a_c_fixed A)) = true.
  Proof.
    intro H. apply is_nil_spec. destruct (union (a_cx A) (a_c_fixed A)) as [|i l] eqn:E; [reflexivity|]. exfalso.
    assert (Hi : In i (union (a_cx A) (a_c_fixed A))) by (rewrite E; left; reflexivity).
    apply In_union in Hi. subst A.
    assert (Ht : In i (a_t (assignments_of es))).
    { apply H. destruct Hi as [Hi|Hi].
      - apply In_cx in Hi. apply In_all. split; [apply Hi|]. destruct Hi as [_ Hp]. unfold p_cx, elig_valid in *.
        destruct (row i) as [[] [] []]; cbn in *; congruence.
      - apply In_c_fixed in Hi. apply In_all. split; [apply Hi|]. destruct Hi as [_ Hp]. unfold p_c_fixed, elig_valid in *.
        destruct (row i) as [[] [] []]; cbn in *; congruence. }
    apply In_t in Ht. destruct Ht as [_ Ht]. destruct Hi as [Hi|Hi].
    - apply In_cx in Hi. destruct Hi as [_ Hp]. unfold p_cx in Hp. rewrite Ht in Hp. destruct (ec (row i)); discriminate.
    - apply In_c_fixed in Hi. destruct Hi as [_ Hp]. unfold p_c_fixed in Hp. rewrite Ht in Hp. destruct (ec (row i)); discriminate.
  Qed.

  (* treatment_group_size_range() answers the same before and after a greedy search *)
  Theorem filled_tsize_range_same : tsize_range A (gpar A par) = tsize_range A par.
  Proof.
    unfold tsize_range, tsize_bounds, gpar, g_trange. cbn [p_treatment_geos_range].
    destruct (p_treatment_geos_range par) as [r|]; [reflexivity|]. cbn [fst snd].
    assert (Hmin : Z.max 1 (tsize_min A) = tsize_min A) by (unfold tsize_min; lia).
    rewrite Hmin. f_equal. f_equal.
    destruct (Z.eqb_spec (zlen (a_all A) - zlen (a_t A)) 0) as [E|E].
    - unfold tsize_max. rewrite (no_outside_t (all_in_t_when_same_size E)). lia.
    - unfold tsize_max. destruct (is_nil (union (a_cx A) (a_c_fixed A))); lia.
  Qed.

  (* the other fields are copied unchanged *)
  Theorem filled_other_fields_same :
    p_geo_ratio_tolerance (gpar A par) = p_geo_ratio_tolerance par /\
    p_volume_ratio_tolerance (gpar A par) = p_volume_ratio_tolerance par /\
    p_treatment_share_range (gpar A par) = p_treatment_share_range par /\
    p_budget_range (gpar A par) = p_budget_range par /\
    p_n_geos_max (gpar A par) = p_n_geos_max par /\ p_n_designs (gpar A par) = p_n_designs par /\
    p_iroas (gpar A par) = p_iroas par.
  Proof. repeat split. Qed.
  (* and a user-given range is never replaced *)
  Theorem given_ranges_kept r :
    (p_treatment_geos_range par = Some r -> p_treatment_geos_range (gpar A par) = Some r) /\
    (p_control_geos_range par = Some r -> p_control_geos_range (gpar A par) = Some r).
  Proof. unfold gpar, g_trange, g_crange. cbn. split; intros ->; reflexivity. Qed.
End Filled.
