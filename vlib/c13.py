"""C13 -- greedy search never beats the exhaustive optimum."""
from . import searchfam, search_oracles as so
from . import common
from .c01 import RULE


def oracle(ck, case, out):
  g, e = out.get('greedy'), out.get('exhaustive')
  if not g or not e or g['outcome'] != 'ok' or e['outcome'] != 'ok' or 'pairs' not in out:
    return
  fails, why = so.c13_greedy_within_exhaustive(case, out, g, e)
  if why:
    ck.cov.setdefault('oracle_skipped', {})
    ck.cov['oracle_skipped'][why] = ck.cov['oracle_skipped'].get(why, 0) + 1
  if fails:
    ck.fail('greedy-outside-feasible-set', fails[0], {'case': searchfam.slim(case)})


def no_budget_share(ck, tier):
  """Extra cases inside the property's scope (no budget / share constraint)."""
  from . import search
  out = []
  for k in range(common.sz(tier, 60, 1200)):
    c = search.gen_case(ck.seed * 13 + 100000 + k, tier)
    c['want_share'] = c['want_budget'] = False
    out.append(c)
  # 8 geos, geo_ratio_tolerance = 2/3, 5:3 / 3:5 groups: ratios on a bound in exact arithmetic only
  from . import c02
  out += [c for c in c02.boundary_cases(ck, tier) if c['par'].get('geo_ratio_tolerance') == 2.0 / 3.0]
  return out


def run(tier):
  return searchfam.run_family('C13', tier, 'props/C13.v', ['exhaustive', 'greedy'], oracle, 90, 800,
                              RULE + '; plus cases forced into the scope of the property (no budget / share range) and 8-geo cases whose group-size ratio '
                              'equals a geo-ratio bound in exact arithmetic only',
                              extra_cases=no_budget_share,
                              nontrivial=lambda c, o: isinstance(o.get('geo_index'), list) and len(o['geo_index']) >= 2
                              and not c.get('par_final', {}).get('budget_range') and not c.get('par_final', {}).get('treatment_share_range'), gen_targets=searchfam.GEN_TARGETS_ALL)


def replay(data):
  return searchfam.replay_family(data, oracle)
