(* Object-level model of how the searches attach diagnostics to designs
   (tbrmatchedmarkets.py:364-410 and :672-690).  Definitions only.
   A diagnostics object is abstracted to the index sets its two series were aggregated from;
   the exhaustive search reuses ONE object per treatment group, overwrites its control series
   for every control group, and stores deep copies. *)
From Coq Require Import List Arith Bool.
From MM Require Import lib.ListSet.
Import ListNotations.

Record dobj := { o_y : set; o_x : option set }.
Definition store := list dobj.                     (* object identity = position *)
Definition alloc (s : store) (o : dobj) : store * nat := (s ++ [o], length s).
Fixpoint update (s : store) (r : nat) (o : dobj) : store :=
  match s, r with
  | [], _ => []
  | _ :: s', O => o :: s'
  | a :: s', S r' => a :: update s' r' o
  end.
Definition deepcopy (s : store) (r : nat) : store * nat :=
  alloc s (nth r s {| o_y := []; o_x := None |}).

(* a stored design: groups, reference of the diagnostics object of its score, reference of its own *)
Record sdesign := { sd_T : set; sd_C : set; sd_score_diag : nat; sd_diag : nat }.

(* inner loop of the exhaustive search for one treatment group; [keep C] abstracts the filters *)
Definition eval_controls_store (keep : set -> bool) (T : set) (controls : list set)
           (st : store * list sdesign) : store * list sdesign :=
  let '(s0, ds0) := st in
  let '(s1, r) := alloc s0 {| o_y := T; o_x := None |} in            (* diag = TBRMMDiagnostics(y, par) *)
  fold_left (fun (acc : store * list sdesign) C =>
               let '(s, ds) := acc in
               let s := update s r {| o_y := T; o_x := Some C |} in   (* diag.x = aggregate(control_group) *)
               if keep C then
                 let '(s, r1) := deepcopy s r in                      (* TBRMMScore(copy.deepcopy(diag)) *)
                 let '(s, r2) := deepcopy s r in                      (* TBRMMDesign(..., copy.deepcopy(diag)) *)
                 (s, ds ++ [{| sd_T := T; sd_C := C; sd_score_diag := r1; sd_diag := r2 |}])
               else (s, ds))
            controls (s1, ds0).
Definition exhaustive_store (keep : set -> set -> bool) (work : list (set * list set)) : store * list sdesign :=
  fold_left (fun st tc => eval_controls_store (keep (fst tc)) (fst tc) (snd tc) st) work ([], []).

(* what a stored design's diagnostics hold at the end *)
Definition holds (s : store) (r : nat) (T C : set) : Prop :=
  nth_error s r = Some {| o_y := T; o_x := Some C |}.
