#!/bin/sh
# usage: tools/try_seeded.sh <patch.diff> <property> [more properties...]
# Applies a seeded change to /repo, runs the quick checks of the given properties, reverts.
patch="$1"; shift
cd /repo || exit 2
git diff --quiet || { echo "/repo has uncommitted changes"; exit 2; }
git apply "$patch" || { echo "patch does not apply"; exit 2; }
cd /verif
rm -rf /tmp/ev_keep_$$; cp -r evidence /tmp/ev_keep_$$     # evidence of a run against a seeded change is never kept
for p in "$@"; do
  ./check "$p" --tier quick 2>/dev/null | grep -E "^VIOLATION|^KNOWN|^C[0-9]+ (ok|FAIL)" | cut -c1-260
done
git -C /repo checkout -- .
rm -rf evidence; mv /tmp/ev_keep_$$ evidence
rm -f /verif/replays/*.json
