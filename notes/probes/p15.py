import warnings; warnings.filterwarnings('ignore')
import numpy as np, pandas as pd, signal
from matched_markets.methodology import tbrdiagnostics
def handler(s,f): raise TimeoutError()
signal.signal(signal.SIGALRM, handler)
for N,out in [(5,50.0),(6,80.0),(7,200.0),(8,500.0)]:
    x=np.arange(N,dtype=float)*10+100; y=2*x+5+np.array([0.1,-0.1]*N)[:N]
    y[N//2]+=out*0.05   # one outlier, still highly correlated
    d=tbrdiagnostics.TBRDiagnostics()
    d._analysis_data=pd.DataFrame({'period':0,'x':x,'y':y}, index=pd.date_range('2020-01-01',periods=N))
    d._analysis_data.index.name='date'
    signal.alarm(10)
    try:
        print(N, 'corr test', d._correlation_test(0.5,0.8,0.95), end=' ')
        r=d._detect_outliers(0.1); print('outliers', len(r))
    except TimeoutError: print('DID NOT TERMINATE within 10s')
    except Exception as e: print(type(e).__name__, str(e)[:80])
    signal.alarm(0)
