"""C07 -- iROAS summary is coherent with its incremental response and cost."""
import math
import random

from . import common, tbrfam
from .common import Check
from .tbrfam import close
from .c06 import TRUSTED

KNOWN_NEG = 'negative-incremental-cost'
KNOWN_LVL = 'one-tailed-level-below-half'
KNOWN_VAR = 'variable-cost-mean-vs-percentiles'


def fit_iroas(spec, history=None, **kw):
  """history: a specification analysed on the same object first (object re-use)."""
  from matched_markets.methodology import tbr_iroas
  m = tbr_iroas.TBRiROAS(use_cooldown=spec['n_cool'] > 0)
  if history is not None:
    m.fit(tbrfam.build_df(history), **tbrfam.fit_kwargs(history))
    m.summary(level=0.9, tails=1, nsims=50, random_state=1)
    for metric in ('tbr_response', 'tbr_cost'):        # every report of the earlier experiment was read
      try:
        m.estimate_pointwise_and_cumulative_effect(metric=metric, level=0.9, tails=2)
      except Exception:
        pass
  m.fit(tbrfam.build_df(spec, **kw), **tbrfam.fit_kwargs(spec))
  return m


def row(rep):
  r = rep.iloc[-1]
  return {c: (r[c] if isinstance(r[c], str) else float(r[c])) for c in rep.columns}


def analyse(seed):
  rng = random.Random(seed)
  out = {'fails': [], 'known': [], 'seed': seed}
  kind = rng.choice(['fixed', 'fixed', 'variable', 'tiny', 'control-only', 'pre-only', 'negative', 'treatment-pre', 'control-pre'])
  spec = tbrfam.gen_frame(seed, scenario='variable' if kind in ('variable', 'control-only', 'pre-only', 'treatment-pre', 'control-pre') else 'fixed')
  npre, ntest = spec['n_pre'], spec['n_test']
  if kind == 'tiny':                         # costs that are "approximately zero" outside the treatment test period
    for g in spec['geos']:
      for t in range(len(g['cost'])):
        if not (g['group'] == 2 and npre <= t < npre + ntest):
          g['cost'][t] = 0.0
  if kind == 'control-only':                 # variable costs only in the control group's test period
    for g in spec['geos']:
      for t in range(len(g['cost'])):
        if not (npre <= t < npre + ntest):
          g['cost'][t] = 0.0
  if kind == 'pre-only':
    for g in spec['geos']:
      for t in range(len(g['cost'])):
        if t >= npre and g['group'] == 1:
          g['cost'][t] = 0.0
  if kind == 'treatment-pre':                # only the treatment group ever spends, also before the test
    for g in spec['geos']:
      if g['group'] == 1:
        g['cost'] = [0.0] * len(g['cost'])
  if kind == 'control-pre':                  # the only non-incremental spend is the control group's, before the test
    for g in spec['geos']:
      for t in range(len(g['cost'])):
        if (g['group'] == 2 and t < npre) or (g['group'] == 1 and t >= npre):
          g['cost'][t] = 0.0
  if kind == 'variable' and random.Random(seed * 61 + 3).random() < 0.5:
    # a credit note booked on a control geo on the last test day: the non-incremental cost (pre-period cost + control test
    # cost) is negative, not zero, while every group keeps a varying spend (so the cost regression stays well defined)
    kind = 'control-credit'
    tot = sum(g['cost'][t] for g in spec['geos'] for t in range(npre)) + \
        sum(g['cost'][t] for g in spec['geos'] if g['group'] == 1 for t in range(npre, npre + ntest))
    g0 = next(g for g in spec['geos'] if g['group'] == 1)
    g0['cost'][npre + ntest - 1] -= float(round(tot + 500.0))
  if kind == 'negative':                     # a refund: negative incremental cost in the fixed scenario
    for g in spec['geos']:
      g['cost'] = [-c for c in g['cost']]
  out['kind'] = kind
  non_incr = sum(g['cost'][t] for g in spec['geos'] for t in range(npre)) + \
      sum(g['cost'][t] for g in spec['geos'] if g['group'] == 1 for t in range(npre, npre + ntest))
  want_fixed = abs(non_incr) < 1e-10
  level = rng.choice([0.9, 0.8, 0.95, 0.5, 0.3])
  tails = rng.choice([1, 2])
  thr = rng.choice([0.0, 0.5, 2.0])
  r2 = random.Random(seed * 17 + 3)
  history = None
  if r2.random() < 0.4:                      # the object analysed an experiment of the other cost scenario before
    history = tbrfam.gen_frame(seed + 77, cooldown=spec['n_cool'] > 0, scenario='variable' if want_fixed else 'fixed')
    if r2.random() < 0.5:
      # ... with the same numbers of pre-period, test and cooldown days
      for k in ('n_pre', 'n_test', 'n_cool'):
        history[k] = spec[k]
      nd = spec['n_pre'] + spec['n_test'] + spec['n_cool']
      for g in history['geos']:
        g['response'] = (g['response'] * (nd // len(g['response']) + 1))[:nd]
        g['cost'] = (g['cost'] * (nd // len(g['cost']) + 1))[:nd]
  out['reused'] = history is not None
  rstate = r2.choice([0, 7, 12345])                 # the seed is the caller's: 0 is a seed like any other
  # in a third of the frames the experiment's geos also have rows on days before the pre-period, labelled
  # "unassigned" (-1), that carry spend: none of it is pre-period or test-period cost
  out['unassigned_days_with_spend'] = r2.random() < 0.33
  m = fit_iroas(spec, history=history, outside=out['unassigned_days_with_spend'])
  rep = row(m.summary(level=level, posterior_threshold=thr, tails=tails, nsims=2000, random_state=rstate))
  if rep['scenario'] != ('fixed' if want_fixed else 'variable'):
    out['fails'].append('scenario labelled %s but the non-incremental cost is %r' % (rep['scenario'], non_incr))
    return out
  est, lo, up = rep['estimate'], rep['lower'], rep['upper']
  cost, resp = rep['incremental_cost'], rep['incremental_response']
  if rep['scenario'] == 'fixed':
    if cost < 0:
      if not all(v == v for v in (est, lo)):
        out['known'].append((KNOWN_NEG, 'fixed-cost scenario with negative incremental cost %r: estimate %r, lower %r' % (cost, est, lo)))
        return out
    rs = row(m.tbr_response.summary(level=level, threshold=thr * cost, tails=tails, report='last'))
    if not close(est, rs['estimate'] / cost) or not close(lo, rs['lower'] / cost) or not close(up, rs['upper'] / cost):
      out['fails'].append('iROAS figures are not the response figures divided by the cost %r' % cost)
    if not close(rep['incremental_response_lower'], lo * cost) or not close(rep['incremental_response_upper'], up * cost):
      out['fails'].append('incremental response bounds are not the iROAS bounds times the cost')
    if not close(resp, rs['estimate'], 1e-8, 1e-6):
      out['fails'].append('incremental response %r is not the response effect %r' % (resp, rs['estimate']))
    if not close(rep['probability'], rs['probability'], 1e-8, 1e-9):
      out['fails'].append('probability differs from P(response effect > threshold x cost)')
  else:
    rep2 = row(m.summary(level=level, posterior_threshold=thr, tails=tails, nsims=2000, random_state=rstate))
    if any(not close(rep[c], rep2[c], 0, 0) for c in rep if not isinstance(rep[c], str)):
      out['fails'].append('variable-cost report is not a deterministic function of the data and random_state')
  if not (lo <= est <= up):
    msg = 'summary(level=%g, tails=%d, %s): lower %r, estimate %r, upper %r' % (level, tails, rep['scenario'], lo, est, up)
    if tails == 1 and level < 0.5 and lo > est:
      out['known'].append((KNOWN_LVL, msg))
    elif rep['scenario'] == 'variable':
      dc = m.tbr_cost.causal_cumulative_distribution(periods=(m.periods.test,), time=-1)
      sc_ = float(dc.kwds['scale'])
      z = abs(float(dc.kwds['loc'])) / sc_ if sc_ > 0 else float('inf')
      dfree = float(dc.args[0])
      if level <= 0.5 or z < 8 or dfree <= 2:
        out['known'].append((KNOWN_VAR, msg + ' (cost effect %.1f posterior scales from zero, %g degrees of freedom)' % (z, dfree)))
      else:
        out['fails'].append(msg)
    else:
      out['fails'].append(msg)
  # unit change: cost x a, response x b (powers of two: exact)
  a, b = rng.choice([2.0, 0.5, 4.0]), rng.choice([2.0, 8.0, 0.25])
  spec2 = dict(spec, geos=[dict(g, cost=[c * a for c in g['cost']], response=[r * b for r in g['response']]) for g in spec['geos']])
  rep3 = row(fit_iroas(spec2).summary(level=level, posterior_threshold=thr * b / a, tails=tails, nsims=2000, random_state=rstate))
  if rep3['scenario'] != rep['scenario']:
    out['fails'].append('scenario changes under a change of units')
  elif spec['n_pre'] <= 4:
    # three or four pre-period points are fitted (almost) exactly: the residual scale is rounding noise, which is not
    # scale-equivariant, so the figures of the two units agree only loosely -- not compared
    out['unit_change_skipped'] = True
  else:
    import math
    ref = max([abs(rep[c]) for c in ('estimate', 'lower', 'upper') if math.isfinite(rep[c])] + [0.0]) * b / a
    heavy = rep['scenario'] == 'variable' and spec['n_pre'] <= 4          # 1-2 degrees of freedom: the simulated mean is not stable (F16)
    for c in ('estimate', 'lower', 'upper'):
      if c == 'estimate' and heavy:
        continue
      # (least-squares kernels are scale-equivariant up to rounding only: the tolerance is relative to the size of the figures)
      if not close(rep3[c], rep[c] * b / a, 1e-7, 1e-12) and not abs(rep3[c] - rep[c] * b / a) <= 1e-7 * ref:
        out['fails'].append('%s does not scale by b/a = %g under cost x%g, response x%g: %r vs %r' % (c, b / a, a, b, rep3[c], rep[c]))
        break
    for c in ('probability', 'relative_lift'):
      if not close(rep3[c], rep[c], 1e-7, 1e-12):
        out['fails'].append('%s changes under a change of units: %r vs %r' % (c, rep3[c], rep[c]))
        break
  return out


def _one(seed):
  try:
    return analyse(seed)
  except Exception:
    import traceback
    return {'fails': ['harness error: ' + traceback.format_exc()[-600:]], 'known': [], 'seed': seed}


def run(tier):
  ck = Check('C07', tier)
  ck.prove('props/C07.v', gen_targets=['scenario'])
  n = common.sz(tier, 150, 2000)
  res = common.pmap(_one, [ck.seed * 100003 + 7 * 1009 + i for i in range(n)], chunksize=4)
  kinds, known = {}, {}
  for out in res:
    kinds[out.get('kind', '?')] = kinds.get(out.get('kind', '?'), 0) + 1
    ck.count((out['seed'],), nontrivial=True)
    for f in out['fails'][:1]:
      if f.startswith('harness error'):
        ck.tie_broken('harness', 'harness error', f)
      else:
        ck.fail('iroas-incoherent', f, {'seed': out['seed']})
    for klass, f in out['known'][:1]:
      ck.fail(klass, f, {'seed': out['seed']})
      known[klass] = known.get(klass, 0) + 1
  ck.sample({'seed': res[0]['seed'], 'kind': res[0].get('kind')})
  ck.cov['rule'] = ('experiment frames x cost patterns {fixed, variable, tiny non-incremental cost, control-only cost, pre-only cost, negative '
                    'cost, treatment-only spend incl. pre-period, control pre-period spend only} x {fresh object, object that analysed an experiment of the other scenario before} x level in {.9,.8,.95,.5,.3} x tails x threshold; fixed-cost figures against TBR.summary of the response and the '
                    'incremental cost; variable-cost report twice with the same random_state; both under a change of units (powers of two)')
  kinds['reused_object'] = sum(1 for o in res if o.get('reused'))
  ck.cov['distribution'] = kinds
  ck.cov['known_finding_observations'] = known
  ck.assumptions = ['probability is compared with the posterior threshold expressed in the new iROAS unit',
                    'variable cost: lower <= mean <= upper is tested only when the cost effect is far from zero (it is not a theorem '
                    'for arbitrary draws); determinism w.r.t. random_state is a property of scipy\'s RNG (tested, not proved)']
  return ck.finish('proof', TRUSTED + ['variable-cost scenario: simulated, tested only (partial)'])


def replay(data):
  inp = data.get('input')
  if not isinstance(inp, dict) or 'seed' not in inp:
    print('replay: nothing executable recorded:', [b['name'] for b in data.get('tie_broken', [])])
    return 1
  out = _one(inp['seed'])
  print('cost pattern:', out.get('kind'))
  print('property failures:', out['fails'] or 'none', '| known-finding observations:', out['known'] or 'none')
  return 1 if out['fails'] else 0
