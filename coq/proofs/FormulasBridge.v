(* The closed formulas of TBRMMDiagnostics, regenerated from the source (gen/Gen_Formulas.v), evaluated over the
   rationals with an arbitrary square-root oracle, are the model's (model/TBRMath.v, where scales appear squared). *)
From Coq Require Import List ZArith QArith Qfield Lia Lqa.
From MM Require Import lib.Values model.TBRMath proofs.TBRMathProofs gen.Gen_Formulas.
Import ListNotations.
Open Scope Q_scope.

Definition QOps : vops Q := {|
  vltb := fun a b => negb (Qle_bool b a); vleb := Qle_bool; veqb := Qeq_bool;
  vadd := Qplus; vsub := Qminus; vmul := Qmult; vdiv := Qdiv;
  vofZ := inject_Z; vlit := fun m e => inject_Z m * Qpower 2 e |}.

Section Bridge.
  Variable vsqrt : Q -> Q.
  Definition sqrt_ok (a : Q) : Prop := vsqrt a * vsqrt a == a.

  (* ---- _impact_estimate *)
  Definition impact_arg (T n : Z) (phi : Q) : Q :=
    phi * inject_Z (n + 1) / inject_Z (n * T * (n - 1)) + inject_Z 1 / inject_Z n + inject_Z 1 / inject_Z T.
  Lemma gen_impact_estimate_shape T n phi tqs tqp :
    gen_impact_estimate QOps vsqrt T n phi tqs tqp = (tqs + tqp) * inject_Z T * vsqrt (impact_arg T n phi).
  Proof. reflexivity. Qed.
  Lemma impact_arg_value T n phi :
    impact_arg T n phi == phi * (inject_Z n + 1) / (inject_Z n * inject_Z T * (inject_Z n - 1)) + 1 / inject_Z n + 1 / inject_Z T.
  Proof.
    unfold impact_arg. rewrite !inject_Z_mult, !inject_Z_plus. unfold Zminus. rewrite inject_Z_plus. reflexivity.
  Qed.
  Theorem gen_impact_estimate_squared T n phi tqs tqp : sqrt_ok (impact_arg T n phi) ->
    gen_impact_estimate QOps vsqrt T n phi tqs tqp * gen_impact_estimate QOps vsqrt T n phi tqs tqp
    == term2 (inject_Z n) (inject_Z T) phi tqs tqp.
  Proof.
    intros Hs. rewrite gen_impact_estimate_shape. unfold term2. rewrite <- impact_arg_value.
    unfold sqrt_ok in Hs. set (r := vsqrt (impact_arg T n phi)) in *. rewrite <- Hs. ring.
  Qed.

  (* ---- estimate_required_impact *)
  Lemma gen_estimate_required_impact_shape T n phi tqs tqp std_y corr :
    gen_estimate_required_impact QOps vsqrt T n phi tqs tqp std_y corr
    = gen_impact_estimate QOps vsqrt T n phi tqs tqp * (std_y * vsqrt (inject_Z 1 - corr * corr)).
  Proof. reflexivity. Qed.
  Theorem gen_estimate_required_impact_squared (d : list pt) T phi tqs tqp std_y corr :
    let n := Z.of_nat (length d) in
    sqrt_ok (impact_arg T n phi) -> sqrt_ok (inject_Z 1 - corr * corr) ->
    std_y * std_y == Syy d / (nQ d - 2) ->
    gen_estimate_required_impact QOps vsqrt T n phi tqs tqp std_y corr * gen_estimate_required_impact QOps vsqrt T n phi tqs tqp std_y corr
    == impact2 d (inject_Z T) phi tqs tqp (corr * corr).
  Proof.
    cbv zeta. intros Hs1 Hs2 Hstd. rewrite gen_estimate_required_impact_shape. unfold impact2, sigma2_of_corr.
    rewrite <- (gen_impact_estimate_squared T (Z.of_nat (length d)) phi tqs tqp Hs1). fold (nQ d). rewrite <- Hstd.
    unfold sqrt_ok in Hs2. set (r := vsqrt (inject_Z 1 - corr * corr)) in *.
    setoid_replace (1 - corr * corr) with (r * r) by (rewrite Hs2; reflexivity). ring.
  Qed.
  (* the guard: ValueError exactly when the correlation is not strictly between -1 and 1 *)
  Theorem gen_required_impact_raises_spec corr :
    gen_required_impact_raises QOps corr = true <-> (corr <= -1 \/ 1 <= corr).
  Proof.
    unfold gen_required_impact_raises. cbn [QOps Values.vleb Values.vofZ].
    change (inject_Z (- (1))) with (-1). change (inject_Z 1) with 1.
    destruct (Qle_bool corr (-1)) eqn:H1; destruct (Qle_bool 1 corr) eqn:H2; cbn [orb]; split; intros H;
      try reflexivity; try discriminate H.
    - left. now apply Qle_bool_iff.
    - left. now apply Qle_bool_iff.
    - right. now apply Qle_bool_iff.
    - destruct H as [H|H]; apply Qle_bool_iff in H; congruence.
  Qed.

  (* ---- tbrfit *)
  Definition fit_arg (T n : Z) (dv : Q) : Q := (inject_Z 1 + dv) / inject_Z n + inject_Z 1 / inject_Z T.
  Lemma gen_tbrfit_shape T n xm ym b sigma var_x tqs xt yt :
    gen_tbrfit QOps vsqrt T n xm ym b sigma var_x tqs xt yt
    = (inject_Z T * ((yt - ym) - b * (xt - xm)),
       tqs * (inject_Z T * sigma * vsqrt (fit_arg T n ((xt - xm) * (xt - xm) / var_x))),
       sigma,
       inject_Z T * sigma * vsqrt (fit_arg T n ((xt - xm) * (xt - xm) / var_x))).
  Proof. reflexivity. Qed.
  Definition fit_estimate_of (r : Q * Q * Q * Q) : Q := fst (fst (fst r)).
  Definition fit_cihw_of (r : Q * Q * Q * Q) : Q := snd (fst (fst r)).
  Definition fit_scale_of (r : Q * Q * Q * Q) : Q := snd r.
  Theorem gen_tbrfit_estimate (d : list pt) T b sigma var_x tqs xt yt :
    b == slope d ->
    fit_estimate_of (gen_tbrfit QOps vsqrt T (Z.of_nat (length d)) (xbar d) (ybar d) b sigma var_x tqs xt yt)
    == fit_estimate d (inject_Z T) xt yt.
  Proof. intros Hb. rewrite gen_tbrfit_shape. unfold fit_estimate_of, fit_estimate. cbn [fst]. rewrite Hb. reflexivity. Qed.
  Theorem gen_tbrfit_scale_squared (d : list pt) T b sigma var_x tqs xt yt :
    let n := Z.of_nat (length d) in
    let r := gen_tbrfit QOps vsqrt T n (xbar d) (ybar d) b sigma var_x tqs xt yt in
    sqrt_ok (fit_arg T n ((xt - xbar d) * (xt - xbar d) / var_x)) ->
    sigma * sigma == s2 d -> var_x == Sxx d / nQ d ->
    fit_scale_of r * fit_scale_of r == fit_scale2 d (inject_Z T) xt /\ fit_cihw_of r == tqs * fit_scale_of r.
  Proof.
    cbv zeta. intros Hs Hsig Hvar. rewrite gen_tbrfit_shape. unfold fit_scale_of, fit_cihw_of. cbn [fst snd].
    split; [|reflexivity]. unfold fit_scale2. rewrite <- Hsig.
    unfold sqrt_ok in Hs. set (a := fit_arg _ _ _) in *. set (q := vsqrt a) in *.
    assert (Ha : a == (1 + (xt - xbar d) * (xt - xbar d) / (Sxx d / nQ d)) / nQ d + 1 / inject_Z T).
    { subst a. unfold fit_arg. fold (nQ d). rewrite Hvar. reflexivity. }
    rewrite <- Ha, <- Hs. ring.
  Qed.
End Bridge.
