"""C14 -- results ordered best-first and capped; the bounded queue keeps the top k.

Proof: coq/props/C14.v (theorems over every total order of keys, capacity,
history).  Tie: (T) heapdict.py is translated to Gallina on every run and
proved equal to the model on every history (C14_generated_code_is_model);
(X) generated push/read histories are run on the real HeapDict and on the
model inside Coq (vm_compute) and compared; (O) the property itself is
evaluated on the implementation's answers.
"""
import copy
import random

from . import common
from .common import Check, zlit, coq_list

TRUSTED = [
    'Coq 8.16.1 kernel and vm_compute (no native_compute)',
    'axioms: none (Print Assumptions: closed under the global context for every C14 theorem)',
    'translator translate/py2v.py (target heapdict): reads HeapDict.__init__/push/get_result',
    'modelled, not verified: heapq.heappush / heappushpop / nlargest contract (heappushpop on a '
    'non-empty heap replaces a minimum iff it is < item; nlargest(len(q), q) is a descending sort); '
    'collections.defaultdict(list)',
    'harness: keys mapped to ids through Python dict equality, items to dense ranks of what they compare by',
]


class Rec:
  """design-like record: comparable only through its score"""

  def __init__(self, score, ident):
    self.score, self.ident = score, ident

  def __lt__(self, other):
    return self.score < other.score


def gen_case(rng, idx, tier):
  cap = rng.choice([0, 1, 1, 2, 2, 3, 3, 4, 5, 6])
  n = rng.randint(0, common.sz(tier, 40, 120))
  kind = rng.choice(['int', 'tie', 'tuple', 'float', 'rec'])
  keypool = rng.choice([[0], [0, 1], ['a', 'b', 'c'], [1, 1.0, 2, 'x'], [0.5, 7, 'k', (1, 2)]])
  ops = []
  for j in range(n):
    r = rng.random()
    if r < 0.15:
      ops.append(('read',))
      continue
    key = rng.choice(keypool)
    if kind == 'int':
      item = rng.randint(-50, 50)
    elif kind == 'tie':
      item = rng.randint(0, 3)
    elif kind == 'tuple':
      item = (rng.randint(0, 2), rng.randint(0, 2), rng.randint(0, 9))
    elif kind == 'float':
      item = rng.choice([0.0, -0.0, 1.5, 2.5, float('inf'), -1e300, 3.25, 1e-300]) * rng.choice([1, 1, -1])
    else:
      item = Rec((rng.randint(0, 1), rng.randint(0, 3)), j)
    ops.append(('push', key, item))
  ops.append(('read',))
  return {'idx': idx, 'cap': cap, 'kind': kind, 'ops': ops}


def keyof(item):
  return item.score if isinstance(item, Rec) else item


def show(item):
  return ('Rec%r#%d' % (item.score, item.ident)) if isinstance(item, Rec) else repr(item)


def run_impl(case):
  """Runs the history on the real HeapDict. Returns (reads, oracle_failures)."""
  from matched_markets.methodology import heapdict
  h = heapdict.HeapDict(case['cap'])
  pushed = {}
  reads, fails = [], []
  for op in case['ops']:
    if op[0] == 'push':
      h.push(op[1], op[2])
      pushed.setdefault(op[1], []).append(op[2])
    else:
      before = {k: list(v) for k, v in h._result.items()}
      res = h.get_result()
      again = h.get_result()
      after = {k: list(v) for k, v in h._result.items()}
      reads.append(res)
      # ---- direct oracle: the property on the implementation's own answer
      if list(before.keys()) != list(after.keys()) or any(
          len(before[k]) != len(after[k]) or any(a is not b for a, b in zip(before[k], after[k])) for k in before):
        fails.append('reading changed the container')
      if {k: [id(x) for x in v] for k, v in res.items()} != {k: [id(x) for x in v] for k, v in again.items()} and \
         {k: [keyof(x) for x in v] for k, v in res.items()} != {k: [keyof(x) for x in v] for k, v in again.items()}:
        fails.append('two consecutive reads differ')
      if set(res.keys()) != set(pushed.keys()):
        fails.append('keys of the snapshot %r differ from keys pushed %r' % (list(res), list(pushed)))
      for k, got in res.items():
        want = sorted((keyof(x) for x in pushed.get(k, [])), reverse=True)[:case['cap']]
        if [keyof(x) for x in got] != want:
          fails.append('key %r: got %s, the %d largest pushed are %s' % (
              k, [show(x) for x in got], case['cap'], want))
        pool = list(pushed.get(k, []))
        for x in got:
          hit = [i for i, y in enumerate(pool) if y is x or (not isinstance(x, Rec) and y == x and type(y) is type(x))]
          if not hit:
            fails.append('key %r: retained item %s was never pushed (or more often than pushed)' % (k, show(x)))
            break
          pool.pop(hit[0])
  return reads, fails


def encode(case, reads):
  """Case + implementation answers as a Coq term of type RunC14.case."""
  keyid = {}
  items = sorted({keyof(op[2]) for op in case['ops'] if op[0] == 'push'})
  # dense rank under Python's own ordering/equality (0.0 == -0.0 share a rank)
  rank, r = {}, -1
  prev = object()
  for it in items:
    if not (prev == it):
      r += 1
    rank[it] = r
    prev = it
  ops = []
  for op in case['ops']:
    if op[0] == 'push':
      kid = keyid.setdefault(op[1], len(keyid))
      ops.append('Push %d %d' % (kid, rank[keyof(op[2])]))
    else:
      ops.append('Read')
  exp = []
  for res in reads:
    ents = sorted((keyid[k], [rank[keyof(x)] for x in v]) for k, v in res.items())
    exp.append(coq_list(['(%d, %s)' % (k, coq_list(['%d' % x for x in v])) for k, v in ents]))
  return '(%d%%nat, %s, %s)' % (case['cap'], coq_list(ops), coq_list(exp))


PRELUDE = 'From Coq Require Import List ZArith.\nFrom MM Require Import model.Heap harness.RunC14.\nImport ListNotations.\nOpen Scope Z_scope.\n'


def correspond(ck, cases, answers, shard=400):
  jobs, index = [], {}
  for s in range(0, len(cases), shard):
    name = 'c14_cases_%d' % (s // shard)
    terms = [encode(c, a) for c, a in zip(cases[s:s + shard], answers[s:s + shard])]
    text = PRELUDE + 'Definition cases : list case := %s.\nEval vm_compute in (mismatches cases).\n' % coq_list(terms).replace('; (', ';\n (')
    jobs.append((name, text))
    index[name] = s
  res = common.coq_eval_many(jobs)
  bad = []
  for name, (rc, out) in res.items():
    mm = common.parse_nat_list(out) if rc == 0 else None
    if mm is None:
      ck.tie_broken('correspondence', 'HeapDict model evaluation failed (%s)' % name, out[-1500:])
      continue
    bad += [index[name] + i for i in mm]
  return sorted(bad)


def shrink(case, still_bad):
  ops = list(case['ops'])
  changed = True
  while changed and len(ops) > 1:
    changed = False
    for i in range(len(ops) - 1, -1, -1):
      trial = dict(case, ops=ops[:i] + ops[i + 1:])
      if trial['ops'] and trial['ops'][-1][0] == 'read' and still_bad(trial):
        ops = trial['ops']
        changed = True
  return dict(case, ops=ops)


def describe(case):
  return {'capacity': case['cap'], 'item_kind': case['kind'],
          'ops': [[o[0]] + ([repr(o[1]), show(o[2])] if o[0] == 'push' else []) for o in case['ops']]}


def run(tier):
  ck = Check('C14', tier)
  ck.prove('props/C14.v', gen_targets=['heapdict', 'search', 'geoassignments'], extra=['harness/RunC14.vo', 'harness/RunSearch.vo'])
  rng = random.Random(ck.seed * 1000003 + 14)
  n = common.sz(tier, 2000, 100000)
  corpus = [
      {'idx': -1, 'cap': 2, 'kind': 'tie', 'ops': [('push', 0, 1), ('push', 0, 1), ('push', 0, 1), ('read',), ('push', 0, 0), ('push', 0, 2), ('read',)]},
      {'idx': -2, 'cap': 0, 'kind': 'int', 'ops': [('push', 'a', 3), ('read',)]},
      {'idx': -3, 'cap': 1, 'kind': 'int', 'ops': [('push', 1, 3), ('push', 1.0, 4), ('push', 2, 1), ('read',), ('push', 1, 0), ('read',)]},
  ]
  cases = corpus + [gen_case(rng, i, tier) for i in range(n)]
  answers, dist = [], {'kinds': {}, 'caps': {}, 'ops_total': 0, 'reads_total': 0, 'evictions_possible': 0}
  for c in cases:
    try:
      reads, fails = run_impl(c)
    except Exception as e:   # the container must not raise on comparable items
      reads, fails = [], ['exception %s: %s' % (type(e).__name__, e)]
    answers.append(reads)
    npush = sum(1 for o in c['ops'] if o[0] == 'push')
    dist['kinds'][c['kind']] = dist['kinds'].get(c['kind'], 0) + 1
    dist['caps'][c['cap']] = dist['caps'].get(c['cap'], 0) + 1
    dist['ops_total'] += len(c['ops'])
    dist['reads_total'] += len(c['ops']) - npush
    dist['evictions_possible'] += 1 if npush > c['cap'] else 0
    ck.count((c['cap'], tuple((o[0], repr(o[1:2]), show(o[2]) if len(o) > 2 else '') for o in c['ops'])),
             nontrivial=npush > c['cap'])
    if fails:
      small = shrink(c, lambda t: bool(run_impl_safe(t)[1]))
      ck.fail('heap-topk', fails[0], {'case': describe(small), 'pickle_free': True, 'raw': repr_case(small)})
  ck.sample(describe(cases[3]))
  ck.sample(describe(cases[4]))
  bad = correspond(ck, cases, answers)
  if bad:
    c = cases[bad[0]]
    small = shrink(c, lambda t: bool(correspond(Check('C14', tier), [t], [run_impl_safe(t)[0]])))
    ck.tie_broken('correspondence', 'HeapDict vs model/Heap.v on %d of %d histories' % (len(bad), len(cases)),
                  {'first': describe(small), 'raw': repr_case(small), 'impl': repr(run_impl_safe(small)[0])})
  search_part(ck, tier)
  ck.cov['rule'] = ('seeded random push/read histories (capacity 0-6, 1-5 dictionary keys incl. 1 == 1.0, items: ints, '
                    'heavy ties, tuples, floats incl. +-0/inf, records comparable only through a score) plus a fixed '
                    'corpus; a case is non-trivial when more items are pushed than the capacity (eviction occurs); '
                    'distinct = distinct (capacity, history)')
  ck.cov['distribution'] = dist
  ck.cov['correspondence'] = {'histories_compared_model_vs_impl': len(cases), 'disagreements': len(bad)}
  ck.assumptions = ['heapq implements its documented contract', 'items pushed under one key are mutually comparable']
  return ck.finish('proof', TRUSTED)


def search_part(ck, tier):
  """Order and cap of the designs returned by both searches."""
  from . import searchfam, search, search_oracles as so
  n = common.sz(tier, 60, 1500)
  base = ck.seed * 100003 + 14 * 1009
  res = common.pmap(searchfam.worker, [(base + i, tier, False, ('tables', 'components', 'exhaustive', 'greedy'), None)
                                       for i in range(n)], chunksize=4)
  nd = 0
  for case, out in res:
    if out.get('build') != 'ok':
      continue
    for which in ('exhaustive', 'greedy'):
      r = out.get(which)
      if r and r['outcome'] == 'ok':
        nd += len(r['designs'])
        fails = so.c14_sorted(r, int(case['par_final'].get('n_designs', 1)))
        if fails:
          ck.fail('search-order', '%s search: %s' % (which, fails[0]), {'search_case': searchfam.slim(case), 'which': which})
    ck.count(('search', case['seed']), nontrivial=bool(out.get('exhaustive', {}).get('designs')))
  bad, nterms = search.correspond(ck, [o for _, o in res], 'c14s', ['exhaustive', 'greedy'])
  if bad:
    ci, comp = bad[0]
    ck.tie_broken('correspondence', 'search results vs model/Search.v: component %s' % comp,
                  {'search_case': searchfam.slim(res[ci][0]), 'component': comp})
  ck.cov['search_part'] = {'cases': len(res), 'designs_checked_for_order_and_cap': nd, 'model_comparisons': nterms,
                           'disagreements': len(bad)}


def run_impl_safe(case):
  try:
    return run_impl(case)
  except Exception as e:
    return [], ['exception %s: %s' % (type(e).__name__, e)]


def repr_case(case):
  return {'cap': case['cap'], 'kind': case['kind'],
          'ops': [[o[0]] + ([o[1] if not isinstance(o[1], tuple) else list(o[1]),
                              ({'score': list(o[2].score), 'ident': o[2].ident} if isinstance(o[2], Rec)
                               else (list(o[2]) if isinstance(o[2], tuple) else o[2]))] if o[0] == 'push' else [])
                  for o in case['ops']]}


def replay(data):
  inp = data.get('input') or {}
  sc = inp.get('search_case') or next((b['detail'].get('search_case') for b in data.get('tie_broken', [])
                                       if isinstance(b.get('detail'), dict) and 'search_case' in b['detail']), None)
  if sc:
    from . import search, search_oracles as so
    out = search.run_case(sc)
    bad = []
    for which in ('exhaustive', 'greedy'):
      r = out.get(which)
      if r and r['outcome'] == 'ok':
        bad += so.c14_sorted(r, int(sc['par_final'].get('n_designs', 1)))
        print(which, [(d['T_ids'], d['C_ids'], d['score']) for d in r['designs']])
    print('property failures:', bad or 'none')
    return 1 if bad else 0
  raw = (data.get('input') or {}).get('raw') or next(
      (b['detail'] for b in data.get('tie_broken', []) if b['kind'] == 'correspondence'), None)
  if not isinstance(raw, dict):
    print('replay: nothing executable recorded (see tie_broken in the replay file)')
    print(data.get('tie_broken'))
    return 1
  ops = []
  for o in raw['ops']:
    if o[0] == 'push':
      k = tuple(o[1]) if isinstance(o[1], list) else o[1]
      it = o[2]
      if isinstance(it, dict):
        it = Rec(tuple(it['score']), it['ident'])
      elif isinstance(it, list):
        it = tuple(it)
      ops.append(('push', k, it))
    else:
      ops.append(('read',))
  case = {'idx': 0, 'cap': raw['cap'], 'kind': raw['kind'], 'ops': ops}
  reads, fails = run_impl_safe(case)
  print('history:', describe(case))
  print('implementation reads:', [{repr(k): [show(x) for x in v] for k, v in r.items()} for r in reads])
  print('property failures:', fails or 'none')
  return 1 if fails else 0
