"""C06 -- TBR posterior of the cumulative effect equals the closed-form model."""
import random

from . import common, tbrfam
from .common import Check, coq_list
from .tbrfam import close

TRUSTED = [
    'Coq 8.16.1 kernel and vm_compute; axioms: none (exact rational arithmetic, no real-number axioms)',
    'modelled, not verified: statsmodels OLS (params, cov_params, scale, df_resid) and scipy.stats.t (frozen location-scale '
    'family: ppf(p) = loc + scale * ppf_std(p), cdf likewise) -- tied by executed correspondence to 1e-8 relative',
    'square roots never enter the model: scales are compared through their squares',
    'translator translate/py2v.py target formulas: TBRMMDiagnostics._impact_estimate, estimate_required_impact and tbrfit are '
    'regenerated into gen/Gen_Formulas.v over abstract float operations and a square-root oracle (scipy quantiles, np.std, np.var, '
    'the means and the pre-period fit are oracles); proofs/FormulasBridge.v: over Q, with a square-root oracle exact on the '
    'arguments it meets, their squares are the model\'s; the same statements run on binary64 floats are compared with the '
    'implementation (2^-44 relative)',
    'harness: frame values are multiples of 1/8 so that group totals are exact in binary64',
]
KNOWN_CLASS = 'one-tailed-level-below-half'


def analyse(spec):
  """Everything C06 needs from one frame."""
  from scipy import stats
  out = {'fails': [], 'known': []}
  r2 = random.Random(spec['seed'] * 23 + 11)
  history = None
  if r2.random() < 0.5:          # the TBR object analysed another experiment (same or other number of test days) before
    history = tbrfam.gen_frame(spec['seed'] + 131, cooldown=spec['n_cool'] > 0)
    if r2.random() < 0.6:
      history['n_test_keep'] = True
      # same number of analysed days as the experiment under test
      h = tbrfam.gen_frame(spec['seed'] + 131, cooldown=spec['n_cool'] > 0)
      for k in ('n_pre', 'n_test', 'n_cool'):
        h[k] = spec[k]
      nd = spec['n_pre'] + spec['n_test'] + spec['n_cool']
      for g in h['geos']:
        g['response'] = (g['response'] * (nd // len(g['response']) + 1))[:nd]
        g['cost'] = (g['cost'] * (nd // len(g['cost']) + 1))[:nd]
      history = h
  out['reused'] = history is not None
  try:
    m = tbrfam.fit_tbr(spec, history=history)
    loc, scale, dfree = tbrfam.posterior(m)
  except Exception as e:
    if history is None:
      raise
    out['fails'].append('re-fitting a TBR object that analysed another experiment before raised %s: %s' % (type(e).__name__, str(e)[:120]))
    m = tbrfam.fit_tbr(spec)
    loc, scale, dfree = tbrfam.posterior(m)
  pre, test, cool = tbrfam.totals(spec)
  out['posterior'] = (loc, scale, dfree)
  if dfree != spec['n_pre'] - 2:
    out['fails'].append('degrees of freedom %r, expected n_pre - 2 = %d' % (dfree, spec['n_pre'] - 2))
  # the optional arguments of the posterior: one day (time), another unit (rescale), both, and the test period alone
  import numpy as np
  # (cumulative effects can cancel to ~0: figures are compared on the scale of the largest of them)
  mag = 1e-10 * max([1.0] + [abs(v) for v in loc] + [abs(v) for v in scale])
  near = lambda a_, b_, f_=1.0: close(a_, b_, 1e-12) or abs(a_ - b_) <= mag * max(1.0, abs(f_))
  r5 = random.Random(spec['seed'] * 59 + 7)
  for _ in range(3):
    t = r5.choice([-1, 0, len(loc) - 1, r5.randrange(len(loc))])
    r = r5.choice([0.25, 2.5, 1.0, 8.0])
    for kw in ({'time': t}, {'rescale': r}, {'time': t, 'rescale': r}):
      d2 = m.causal_cumulative_distribution(**kw)
      l2, s2 = np.atleast_1d(np.array(d2.kwds['loc'], dtype=float)), np.atleast_1d(np.array(d2.kwds['scale'], dtype=float))
      rr = kw.get('rescale', 1.0)
      wl = [rr * loc[t]] if 'time' in kw else [rr * v for v in loc]
      ws = [rr * scale[t]] if 'time' in kw else [rr * v for v in scale]
      if not (len(l2) == len(wl) and all(near(a, b, rr) for a, b in zip(l2, wl)) and all(near(a, b, rr) for a, b in zip(s2, ws))
              and float(d2.args[0]) == dfree):
        out['fails'].append('causal_cumulative_distribution(%s) is not the default posterior %s'
                            % (', '.join('%s=%r' % kv for kv in kw.items()),
                               'at that day' + (' in the new unit' if 'rescale' in kw else '') if 'time' in kw else 'in the new unit'))
        break
  if spec['n_cool'] > 0:
    per = tbrfam.naming(spec)['period_test'] if spec.get('custom_names') else 1
    d3 = m.causal_cumulative_distribution(periods=(per,))
    l3, s3 = [float(v) for v in d3.kwds['loc']], [float(v) for v in d3.kwds['scale']]
    nt = spec['n_test']
    if not (len(l3) == nt and all(near(a, b) for a, b in zip(l3, loc[:nt])) and all(near(a, b) for a, b in zip(s3, scale[:nt]))):
      out['fails'].append('causal_cumulative_distribution(periods=(test,)) is not the posterior of the test days')
  # layout independence
  for name, kw in (('shuffled rows', {'shuffle': spec['seed']}), ('group split over more geos', {'split': True}),
                   ('unassigned geo added', {'extra': True})):
    l2, s2, d2 = tbrfam.posterior(tbrfam.fit_tbr(spec, **kw))
    if not (all(close(a, b, 1e-10) for a, b in zip(loc, l2)) and all(close(a, b, 1e-10) for a, b in zip(scale, s2)) and d2 == dfree
            and len(l2) == len(loc)):
      out['fails'].append('posterior changes with %s' % name)
  # summaries
  rng = random.Random(spec['seed'])
  for _ in range(4):
    level = rng.choice([0.9, 0.8, 0.95, 0.5, 0.6, 0.3, 0.1])
    tails = rng.choice([1, 2])
    thr = rng.choice([0.0, 10.0, -25.0])
    rescale = rng.choice([1.0, 0.5, 4.0])
    sm = m.summary(level=level, threshold=thr, tails=tails, report='all', rescale=rescale)
    alpha = (1 - level) / tails
    for k in range(len(sm)):
      r = sm.iloc[k]
      est, lo, up, prec, sc, prob = (float(r[c]) for c in ('estimate', 'lower', 'upper', 'precision', 'scale', 'probability'))
      if not close(est, rescale * loc[k]) or not close(sc, rescale * scale[k]):
        out['fails'].append('summary estimate/scale differ from the posterior (day %d)' % k)
        break
      tql = float(stats.t.ppf(alpha, dfree))
      if not close(lo, est + sc * tql, 1e-8, 1e-6):
        out['fails'].append('lower is not the %g quantile (day %d)' % (alpha, k))
        break
      want_up = float('inf') if tails == 1 else est + sc * float(stats.t.ppf(1 - alpha, dfree))
      if not close(up, want_up, 1e-8, 1e-6):
        out['fails'].append('upper is not the documented quantile (day %d)' % k)
        break
      if not (lo <= est <= up):
        msg = 'summary(level=%g, tails=%d): lower %r > estimate %r' % (level, tails, lo, est)
        (out['known'] if (tails == 1 and level < 0.5 and lo > est and est <= up) else out['fails']).append(msg)
        break
      if not close(prec, est - lo, 1e-8, 1e-6):
        out['fails'].append('precision %r is not estimate - lower %r (level=%g, tails=%d)' % (prec, est - lo, level, tails))
        break
      pw = 1.0 - float(stats.t.cdf((thr - est) / sc, dfree))
      if not close(prob, pw, 1e-8, 1e-9):
        out['fails'].append('probability %r, expected P(effect > %g) = %r' % (prob, thr, pw))
        break
  # design side
  from matched_markets.methodology import tbrmmdiagnostics as D, tbrmmdesignparameters as P
  import numpy as np
  an = test + cool if spec['n_cool'] else test
  T = len(an)
  par = P.TBRMMDesignParameters(n_test=T, iroas=1.0, sig_level=0.9)
  dg = D.TBRMMDiagnostics(np.array([p[1] for p in pre]), par)
  xt, yt = sum(p[0] for p in an) / T, sum(p[1] for p in an) / T
  out['design_reused'] = spec['seed'] % 2 == 0
  if out['design_reused']:
    # the diagnostics object served another control group first (as the searches do), and that fit was read
    try:
      dg.x = np.array([p[0] for p in pre])[::-1] * 1.5 + 3.0
      dg.tbrfit(xt * 1.5 + 3.0, yt)
      dg.required_impact
    except Exception:
      pass
  dg.x = np.array([p[0] for p in pre])
  fit = dg.tbrfit(xt, yt)
  sm = m.summary(level=0.9, tails=1, report='last')
  est, lo = float(sm['estimate'].iloc[0]), float(sm['lower'].iloc[0])
  if not close(float(fit.estimate), est, 1e-8, 1e-6):
    out['fails'].append('design-side estimate %r differs from the analysis %r' % (float(fit.estimate), est))
  # (a half-width is a difference of two quantities of the size of the estimate: with an exact pre-period fit it is zero up to
  # rounding, so the tolerance is relative to the estimate and the bound, not to the half-width itself)
  if abs(float(fit.cihw) - (est - lo)) > 1e-8 * max(1.0, abs(est), abs(lo)) and not close(float(fit.cihw), est - lo, 1e-8, 1e-6):
    out['fails'].append('design-side half-width %r differs from the analysis %r' % (float(fit.cihw), est - lo))
  out['design'] = (xt, yt, float(fit.estimate), float(fit.scale))
  if all(v == v and abs(v) != float('inf') for v in (float(fit.estimate), float(fit.scale))):
    out['fterm'] = tbrfam.tbrfit_term(dg, [p[0] for p in pre], [p[1] for p in pre], T, 0.9, xt, yt)
  return out


def encode(spec, out):
  pre, test, cool = tbrfam.totals(spec)
  an = test + cool if spec['n_cool'] else test
  loc, scale, dfree = out['posterior']
  exp = coq_list(['(%s, %s)' % (tbrfam.qm(a), tbrfam.qm(b)) for a, b in zip(loc, scale)])
  return '(%s, %s, %s, %s)' % (tbrfam.pts(pre), tbrfam.pts(an), exp, tbrfam.qm(dfree))


def _one(seed):
  spec = tbrfam.gen_frame(seed)
  try:
    out = analyse(spec)
    out['term'] = encode(spec, out)
  except Exception:
    import traceback
    out = {'fails': ['harness error: ' + traceback.format_exc()[-500:]], 'known': []}
  return spec, out


PRELUDE = ('From Coq Require Import List ZArith QArith Bool.\nFrom MM Require Import model.TBRMath harness.RunCommon harness.RunTBR.\n'
           'Import ListNotations.\n')


def model_compare(ck, terms, tag, fn='acheck', shard=6):
  jobs = []
  for k in range(0, len(terms), shard):
    jobs.append(('%s_%d' % (tag, k // shard), PRELUDE + 'Definition cases := %s.\nEval vm_compute in (mismatches %s cases).\n'
                 % (coq_list(terms[k:k + shard]), fn)))
  res = common.coq_eval_many(jobs)
  bad = []
  for name, (rc, o) in res.items():
    mm = common.parse_nat_list(o) if rc == 0 else None
    if mm is None:
      ck.tie_broken('correspondence', 'model evaluation failed (%s)' % name, o[-1500:])
    else:
      bad += [int(name.rsplit('_', 1)[1]) * shard + i for i in mm]
  return sorted(bad)


def run(tier):
  ck = Check('C06', tier)
  ck.prove('props/C06.v', gen_targets=['formulas'], extra=['harness/RunTBR.vo', 'harness/RunFormulas.vo'])
  n = common.sz(tier, 150, 3000)
  res = common.pmap(_one, [ck.seed * 100003 + 6 * 1009 + i for i in range(n)], chunksize=4)
  terms, owners, known = [], [], 0
  for spec, out in res:
    ck.count((spec['seed'],), nontrivial=True)
    for f in out['fails']:
      if f.startswith('harness error'):
        ck.tie_broken('harness', 'harness error', f)
      else:
        ck.fail('posterior-mismatch', f, {'spec_seed': spec['seed']})
      break
    for f in out['known'][:1]:
      ck.fail(KNOWN_CLASS, f, {'spec_seed': spec['seed']})
      known += 1
    if 'term' in out:
      terms.append(out['term'])
      owners.append(spec['seed'])
  bad = model_compare(ck, terms, 'c06')
  if bad:
    ck.tie_broken('correspondence', 'TBR posterior vs model/TBRMath.v on %d of %d frames' % (len(bad), len(terms)),
                  {'spec_seed': owners[bad[0]]})
  fo = [(sp, o) for sp, o in res if 'fterm' in o]
  _, bf = tbrfam.formulas_compare(ck, [], [o['fterm'] for _, o in fo], 'c06')
  if bf:
    ck.tie_broken('correspondence', 'regenerated tbrfit (gen/Gen_Formulas.v on floats) vs TBRMMDiagnostics.tbrfit on %d of %d frames'
                  % (len(bf), len(fo)), {'spec_seed': fo[bf[0]][0]['seed']})
  ck.cov['regenerated_formulas_vs_impl'] = {'cases': len(fo), 'tbrfit_disagreements': len(bf)}
  ck.sample({'seed': res[0][0]['seed'], 'n_pre': res[0][0]['n_pre'], 'n_test': res[0][0]['n_test'], 'n_cool': res[0][0]['n_cool'],
             'geos': [(g['id'], g['group']) for g in res[0][0]['geos']]})
  ck.cov['rule'] = ('experiment frames with 1-4 geos per group, 5-40 pre-period dates, 3-14 test dates, optional cooldown, on a fresh TBR object or (half of the frames) one that fitted and reported another experiment before; each frame is '
                    'analysed as generated, row-shuffled, with each group split over more geos and with an unassigned geo added; '
                    'summaries for 4 random (level, tails, threshold, rescale) settings incl. levels below 1/2, report=all; the '
                    'posterior location / scale of every analysed day is compared with the exact rational model; the design-side '
                    'tbrfit is compared with the analysis (in half of the frames on a diagnostics object that served another control series first). non-trivial: every frame')
  ck.cov['correspondence'] = {'frames_model_vs_impl': len(terms), 'disagreements': len(bad)}
  ck.cov['distribution'] = {'reused_object': sum(1 for _, o in res if o.get('reused')), 'fresh_object': sum(1 for _, o in res if o.get('reused') is False)}
  ck.cov['known_finding_observations'] = known
  ck.assumptions = ['n_pre >= 5 in the generated frames (n_pre >= 3 is required for the posterior to exist)']
  return ck.finish('proof', TRUSTED)


def replay(data):
  inp = data.get('input') or next((b['detail'] for b in data.get('tie_broken', []) if isinstance(b.get('detail'), dict)), None)
  if not isinstance(inp, dict) or 'spec_seed' not in inp:
    print('replay: nothing executable recorded:', [b['name'] for b in data.get('tie_broken', [])])
    return 1
  spec, out = _one(inp['spec_seed'])
  print('frame seed', spec['seed'], 'n_pre/test/cool', spec['n_pre'], spec['n_test'], spec['n_cool'])
  print('property failures:', out['fails'] or 'none', '| known-finding observations:', out['known'] or 'none')
  return 1 if out['fails'] else 0
