(* The fields of TBRMMDesignParameters that the design search reads
   (tbrmmdesignparameters.py:97-112), over the abstract value type. *)
From Coq Require Import ZArith.
Record spar (V : Type) := {
  p_treatment_geos_range : option (Z * Z);
  p_control_geos_range : option (Z * Z);
  p_geo_ratio_tolerance : option V;
  p_volume_ratio_tolerance : option V;
  p_treatment_share_range : option (V * V);
  p_budget_range : option (V * V);
  p_n_geos_max : option Z;
  p_n_designs : nat;
  p_iroas : V
}.
Arguments p_treatment_geos_range {V} _. Arguments p_control_geos_range {V} _.
Arguments p_geo_ratio_tolerance {V} _. Arguments p_volume_ratio_tolerance {V} _.
Arguments p_treatment_share_range {V} _. Arguments p_budget_range {V} _.
Arguments p_n_geos_max {V} _. Arguments p_n_designs {V} _. Arguments p_iroas {V} _.
