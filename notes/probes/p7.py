import warnings; warnings.filterwarnings('ignore')
import numpy as np, pandas as pd, sys, traceback
from matched_markets.methodology import tbr, tbr_iroas, tbrdiagnostics

def frame(rng, n_pre=20, n_test=8, n_cool=3, gc=3, gt=2, lift=30.0, cost_scn='fixed', xspike=None):
    nd = n_pre+n_test+n_cool
    dates = pd.date_range('2021-03-01', periods=nd)
    period = np.array([0]*n_pre+[1]*n_test+[2]*n_cool)
    base = 100+np.cumsum(rng.normal(0,3,nd))
    if xspike is not None:
        base[n_pre+xspike[0]] += xspike[1]
    rows=[]
    for g in range(gc+gt):
        grp = 1 if g<gc else 2
        sc = rng.uniform(0.5,2)
        resp = sc*base + rng.normal(0,2,nd)
        cost = np.zeros(nd)
        if cost_scn=='variable':
            cost = 5*sc + rng.normal(0,0.3,nd)
        if grp==2:
            resp = resp + (period==1)*lift/gt
            cost = cost + (period==1)*10.0
        for t in range(nd):
            rows.append(dict(geo=g+1, date=dates[t], group=grp, period=int(period[t]), response=float(resp[t]), cost=float(cost[t])))
    return pd.DataFrame(rows)

rng = np.random.RandomState(int(sys.argv[1]) if len(sys.argv)>1 else 0)
df = frame(rng)
m = tbr_iroas.TBRiROAS(use_cooldown=True); m.fit(df)
print(m.summary(level=0.9, tails=2, random_state=1).T)
for lv,tl in [(0.9,1),(0.9,2),(0.3,1),(0.3,2),(0.5,1)]:
    s = m.tbr_response.summary(level=lv, tails=tl, report='all')
    ok = ((s.lower<=s.estimate)&(s.estimate<=s.upper)).all()
    print('TBR.summary level',lv,'tails',tl,'lower<=est<=upper:',ok, 'precision==est-lower', np.allclose(s.precision, s.estimate-s.lower))
for metric in ['tbr_response','tbr_cost']:
    for lv,tl in [(0.9,1),(0.9,2),(0.3,1)]:
        try:
            ts = m.estimate_pointwise_and_cumulative_effect(metric, level=lv, tails=tl); print(metric, lv, tl, 'ok')
        except Exception as e:
            print(metric, lv, tl, type(e).__name__, e)
# spike in control during test → scale may shrink
for spike in [(0, 80.0), (0, 300.0), (2,-200.0)]:
    df2 = frame(np.random.RandomState(3), xspike=spike)
    m2 = tbr_iroas.TBRiROAS(use_cooldown=True); m2.fit(df2)
    sc = m2.tbr_response.causal_cumulative_distribution().kwds['scale']
    print('spike',spike,'scale monotone?', bool(np.all(np.diff(sc)>0)), np.round(sc[:5],2))
    for tl in (1,2):
        try:
            m2.estimate_pointwise_and_cumulative_effect('tbr_response', level=0.9, tails=tl); print('  pointwise ok tails',tl)
        except Exception as e:
            print('  pointwise tails',tl, type(e).__name__, e)
# variable cost
df3 = frame(np.random.RandomState(5), cost_scn='variable')
m3 = tbr_iroas.TBRiROAS(use_cooldown=True); m3.fit(df3)
a = m3.summary(level=0.9, tails=2, random_state=7); b = m3.summary(level=0.9, tails=2, random_state=7)
print(a.T); print('deterministic', a.equals(b))
for metric in ['tbr_response','tbr_cost']:
    try:
        m3.estimate_pointwise_and_cumulative_effect(metric, level=0.9, tails=2); print('var', metric,'ok')
    except Exception as e: print('var', metric, type(e).__name__, e)
# negative cost (go dark)
df4 = frame(np.random.RandomState(6)); df4.loc[(df4.group==2)&(df4.period==1),'cost'] = -10.0
m4 = tbr_iroas.TBRiROAS(use_cooldown=True); m4.fit(df4)
try: print(m4.summary(level=0.9,tails=2,random_state=1).T)
except Exception as e: print('neg cost', type(e).__name__, e)
# C19
d = tbrdiagnostics.TBRDiagnostics()
try:
    d.fit(df, target='response'); print('diag ok', d.get_test_results())
except Exception as e: print('TBRDiagnostics.fit', type(e).__name__, str(e)[:100])
