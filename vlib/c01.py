"""C01 -- returned designs are legal assignments under the geo eligibility matrix."""
from . import searchfam, search_oracles as so

RULE = ('seeded cases: panel of 1-6 geos (quick) / up to 7 (thorough) x 14-30 dates, eligibility rows drawn from the seven '
        'legal types (free / mixed / fixed-heavy / no-treatment-eligible / no-control-eligible mixes, geos missing from the '
        'table, excludable geos missing from the data, default table), each of the six constraints present with '
        'probability 0-0.45 (0.6 in the degenerate stream), n_geos_max, n_designs, n_pretest_max below/above the number '
        'of dates, shuffled rows, integer IDs; every fifth case from a degenerate stream (1-3 geos, unsatisfiable '
        'ranges). Both searches are run on fresh objects. non-trivial: at least two admitted geos; distinct: '
        '(seed, parameters, eligibility)')


def oracle(ck, case, out):
  for which in ('exhaustive', 'greedy'):
    r = out.get(which)
    if not r or r['outcome'] != 'ok':
      continue
    for klass, msg in so.c01_legal(case, out, r):
      ck.fail(klass, '%s search: %s' % (which, msg), {'case': searchfam.slim(case), 'which': which})
      break


COMPONENTS = ['geo_index', 'within_constraints', 'classes', 'treat_groups', 'control_groups', 'exhaustive', 'greedy']


def run(tier):
  return searchfam.run_family('C01', tier, 'props/C01.v', COMPONENTS, oracle, 150, 3000, RULE,
                              assumptions=['eligibility rows of accepted tables are never all-zero (C16)'], gen_targets=searchfam.GEN_TARGETS_ALL)


def replay(data):
  return searchfam.replay_family(data, oracle)
